#!/bin/sh
# usage: run_one_seed.sh <seed-dir-name> [Cxx]   — one seeded change against one property's quick check, in a scratch
# worktree of /repo (GIVERIF_REPO); log in /var/tmp/giverif-seeded/<seed>[.Cxx].log; restores the generated tables.
cd "$(dirname "$0")/.." || exit 2
id=$1; p=${2:-${1%%-*}}; wt=/var/tmp/wt-seed-$id-$p
mkdir -p /var/tmp/giverif-seeded
rm -rf "$wt"; git -C /repo worktree prune
git -C /repo worktree add -q "$wt" HEAD || exit 2
git -C "$wt" apply "$PWD/seeded/$id/patch.diff" || { git -C /repo worktree remove --force "$wt"; echo "patch does not apply"; exit 2; }
log=/var/tmp/giverif-seeded/$id.$p.log
GIVERIF_REPO=$wt ./check "$p" quick > "$log" 2>&1; c=$?
echo "$id vs $p: exit=$c violations=$(grep -c '^VIOLATION' "$log") nfif=$(grep -c '^VIOLATION.*no-failing-input-found' "$log")"
grep -m3 -A1 '^VIOLATION' "$log" | cut -c1-400
git -C /repo worktree remove --force "$wt"
flock lean/.giverif.lock sh -c 'cd translators && for t in gen_*.py; do GIVERIF_REPO=/repo PYTHONPATH=/repo PYTHONDONTWRITEBYTECODE=1 /venv/bin/python $t >/dev/null 2>&1; done'
