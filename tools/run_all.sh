#!/bin/sh
# run every claimed check's quick (or $1=thorough) command, sequentially; summary at the end
cd /verif
tier=${1:-quick}
for p in $(/venv/bin/python -c "import json; print(' '.join(c['property_id'] for c in json.load(open('MANIFEST.json'))['checks']))"); do
  s=$(date +%s)
  ./check $p $tier > /tmp/runall-$p.log 2>&1; c=$?
  echo "$p exit=$c $(( $(date +%s) - s ))s $(grep -c '^VIOLATION' /tmp/runall-$p.log) violations $(grep -c '^KNOWN-FINDING' /tmp/runall-$p.log) known"
done
