#!/bin/sh
# run checks' quick (or $1=thorough) command, 4 at a time; summary at the end.
# usage: run_all.sh [quick|thorough] [Cxx ...]   (default: every claimed check)
cd "$(dirname "$0")/.." || exit 2
tier=${1:-quick}; [ $# -gt 0 ] && shift
props=${*:-$(/venv/bin/python -c "import json; print(' '.join(c['property_id'] for c in json.load(open('MANIFEST.json'))['checks']))")}
mkdir -p ${RUNALL_LOGDIR:-/var/tmp/giverif-runall}
one() {
  p=$1; s=$(date +%s)
  ./check $p $tier > ${RUNALL_LOGDIR:-/var/tmp/giverif-runall}/$p.log 2>&1; c=$?
  echo "$p exit=$c $(( $(date +%s) - s ))s $(grep -c '^VIOLATION' ${RUNALL_LOGDIR:-/var/tmp/giverif-runall}/$p.log) violations $(grep -c '^KNOWN-FINDING' ${RUNALL_LOGDIR:-/var/tmp/giverif-runall}/$p.log) known"
}
par=${RUNALL_PAR:-4}
echo $props | tr " " "\n" | xargs -P $par -I{} sh -c 'p={}; s=$(date +%s); ./check $p '$tier' > ${RUNALL_LOGDIR:-/var/tmp/giverif-runall}/$p.log 2>&1; c=$?; echo "$p exit=$c $(( $(date +%s) - s ))s $(grep -c "^VIOLATION" ${RUNALL_LOGDIR:-/var/tmp/giverif-runall}/$p.log) violations $(grep -c "^KNOWN-FINDING" ${RUNALL_LOGDIR:-/var/tmp/giverif-runall}/$p.log) known"'
