#!/bin/sh
# usage: mk_mut_prompt.sh <Cxx> <id>  -> creates /tmp/mut-<id> (tools/mk_mut_env.sh) and prints the sub-agent prompt
prop=$1; id=$2
d=$(/verif/tools/mk_mut_env.sh "$id") || exit 2
/venv/bin/python - "$prop" "$d" <<'EOP'
import json, sys
prop, d = sys.argv[1:]
for l in open('/verif/properties.jsonl'):
    p = json.loads(l)
    if p['id'] == prop:
        break
open(d + '/_env/PROPERTY.txt', 'w').write(p['title'] + '\n\n' + p['statement'] + '\n\nQuantifier: ' + p['quantifier']['text'] + '\n')
print('''You are helping a study of verification tooling by playing the role of a developer who introduces a subtle regression.

Your workspace is %(d)s : a git worktree of GNOME/gobject-introspection (Python scanner in giscanner/, C library and typelib compiler in girepository/ and tools/). Work ONLY inside that directory. Do not read, list or use anything under /verif or /repo, and do not use git to look at other worktrees or branches.

The property under study (also in %(d)s/_env/PROPERTY.txt):

  %(title)s
  %(stmt)s
  (%(quant)s)

Task: make ONE change to the project's source code in the worktree that BREAKS this property, such that
 1. the code still imports / compiles, and the existing test suite gives exactly the same result as before the change. Command:
      cd %(d)s && /venv/bin/python -m pytest -q -p no:cacheprovider --timeout=900 --continue-on-collection-errors 2>&1 | tail -3
    (before any change: "14 failed, 267 passed, 3 skipped, 2 xfailed, 5 errors" — the failures/errors are limitations of this sandbox, e.g. the C lexer extension giscanner._giscanner is not built and there are no GLib headers; the set of passing tests must stay the same);
 2. the change looks like a realistic regression a maintainer could make (a refactoring slip, an off-by-one, a wrong or dropped condition, a missed case, a changed default, a reordering, a stale value) — no sabotage comments, no dead flags, no "if input == magic";
 3. it needs something SPECIFIC to manifest: a particular interleaving or crash point, a multi-step sequence of operations, an unusual but legal input, a boundary value, or two cooperating code sites that each look fine alone. A change that ordinary everyday use would expose at once is not wanted.
Then write a demonstration: %(d)s/demo.py (run as `/venv/bin/python demo.py` from the worktree root; may build/run C through the helpers below) that exits 0 on the unchanged code and non-zero on the changed code, printing what it observed. It must exercise the REAL code of the worktree (not a copy) and finish within 2 minutes. Verify both outcomes yourself (use `git stash` / `git stash pop` or `git diff > patch.diff; git checkout -- .; ...; git apply patch.diff`).

Helpers for running the real code in this sandbox are described in %(d)s/_env/README.txt (an in-process runner for the scanner pipeline that replaces the unbuilt C lexer by a JSON description of declarations; a build helper that compiles this worktree's girepository C code, g-ir-compiler and g-ir-generate against hand-written GLib declarations). They contain no tests. Do not modify files under _env/ as part of the change (your patch must only touch project source files; never tests/).

Deliver, in %(d)s : patch.diff (output of `git diff` for the source change only, applicable with `git apply` to a clean checkout), demo.py, and meta.json with keys: property ("%(prop)s"), summary (what was changed and why it breaks the property), needs_to_manifest (what specific input/sequence/interleaving is needed), files (list of changed files), commands_run (what you ran and the outcomes). Leave the worktree with the change APPLIED. Your final message: a short summary of the same.''' % dict(d=d, title=p['title'], stmt=p['statement'], quant=p['quantifier']['text'], prop=prop))
EOP
