#!/venv/bin/python
"""Rewrite the generated tables of DESIGN.md (between <!-- GEN:x --> and <!-- /GEN:x --> markers):
seeds (from seeded/*/meta.json), status (from MANIFEST.json, evidence/*.json, known_findings.json)."""
import glob, json, os, re
V = os.path.dirname(os.path.dirname(os.path.abspath(__file__)))
os.chdir(V)

def seeds():
    rows = ['| seed | property | what was changed (short) | needs to manifest | quick check with the change (first confirmation; later work) | final re-run on /repo HEAD |', '|---|---|---|---|---|---|']
    for d in sorted(glob.glob('seeded/*/')):
        try:
            m = json.load(open(d + 'meta.json'))
        except Exception:
            continue
        c = m.get('confirmed', {})
        out = ''
        try:
            out = open(d + 'check_quick_output.txt').read()
        except Exception:
            pass
        if c.get('check_quick_exit_with_change') == 1:
            how = 'DETECTED' + (' (no-failing-input-found: %s)' % ('proof/correspondence broke') if 'no-failing-input-found' in out and not re.search(r'^VIOLATION (?!.*no-failing-input-found)', out, re.M) else ' with a concrete replay')
        else:
            how = 'missed (exit %s)' % c.get('check_quick_exit_with_change')
        if m.get('detected_after'):
            da = m['detected_after']
            how += '; ' + (da if isinstance(da, str) else json.dumps(da, ensure_ascii=False))
        def short(s, n):
            s = ' '.join(str(s or '').split())
            return (s[:n] + '…') if len(s) > n else s
        fr = m.get('final_rerun')
        rows.append('| %s | %s | %s | %s | %s | %s |' % (os.path.basename(d.rstrip('/')), m.get('property'),
                    short(m.get('summary'), 260).replace('|', '\\|'),
                    short(m.get('needs_to_manifest') or m.get('needs'), 200).replace('|', '\\|'), how.replace('|', '\\|'),
                    ('%s: %s' % (fr.get('repo_head'), 'DETECTED, concrete replay' if fr.get('concrete_replay') else ('detected, no-failing-input-found' if fr.get('detected') else 'MISSED'))) if fr else '-'))
    return '\n'.join(rows)

def status():
    man = json.load(open('MANIFEST.json'))
    claimed = {c['property_id'] for c in man['checks']}
    kf = json.load(open('known_findings.json'))['findings']
    rows = ['| id | claimed | theorems (all audited) | non-vacuity examples | quick: evaluations / distinct | known findings | fixed |', '|---|---|---|---|---|---|---|']
    for i in range(1, 21):
        p = 'C%02d' % i
        try:
            ev = json.load(open('evidence/%s.json' % p)); cov = ev['coverage']
            th = '%s/%s' % (cov.get('discharged'), cov.get('obligations')); ex = cov.get('non_vacuity_examples'); evs = '%s / %s (%s)' % (cov.get('evaluations'), cov.get('distinct_nontrivial'), ev.get('tier'))
        except Exception:
            th = ex = evs = '-'
        rows.append('| %s | %s | %s | %s | %s | %d | %d |' % (p, 'yes' if p in claimed else 'no', th, ex, evs,
                    len([e for e in kf if e['property'] == p and e['status'] == 'known']),
                    len([e for e in kf if e['property'] == p and e['status'] == 'fixed'])))
    return '\n'.join(rows)

def fixes():
    kf = json.load(open('known_findings.json'))['findings']
    rows = ['| property | commit | defect |', '|---|---|---|']
    for e in kf:
        if e.get('status') == 'fixed':
            line = e.get('line', '')
            m = re.match(r'fixed: property=\S+ (\S+) (.*)$', line, re.S)
            rows.append('| %s | %s | %s |' % (e['property'], e.get('commit') or (m.group(1) if m else '?'),
                        ' '.join((m.group(2) if m else line).split()).replace('|', '\\|')))
    return '\n'.join(rows)

s = open('DESIGN.md').read()
for name, fn in (('seeds', seeds), ('status', status), ('fixes', fixes)):
    a, b = '<!-- GEN:%s -->' % name, '<!-- /GEN:%s -->' % name
    if a in s:
        s = s[:s.index(a) + len(a)] + '\n' + fn() + '\n' + s[s.index(b):]
open('DESIGN.md', 'w').write(s)
print('DESIGN.md tables rewritten')
