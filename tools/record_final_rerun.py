#!/venv/bin/python
"""Integrator tool: after tools/run_seeded_par.sh, copy the outcome of each seed's run on /repo HEAD
(/var/tmp/giverif-seeded/<seed>.log) into seeded/<seed>/meta.json as `final_rerun`."""
import glob, json, os, re, subprocess
V = os.path.dirname(os.path.dirname(os.path.abspath(__file__)))
head = subprocess.check_output(['git', '-C', os.environ.get('GIVERIF_REPO', '/repo'), 'rev-parse', '--short', 'HEAD']).decode().strip()
for d in sorted(glob.glob(os.path.join(V, 'seeded', '*/'))):
    sid = os.path.basename(d.rstrip('/'))
    log = '/var/tmp/giverif-seeded/%s.log' % sid
    if not os.path.exists(log) or os.path.getmtime(log) < float(os.environ.get('SINCE', '0')):
        continue
    txt = open(log, errors='replace').read()
    v = re.findall(r'^VIOLATION .*$', txt, re.M)
    nf = [x for x in v if 'no-failing-input-found' in x]
    first = ''
    m = re.search(r'^VIOLATION (?!.*no-failing-input-found).*\n\s+(.*)$', txt, re.M)
    if m:
        first = m.group(1)[:200]
    meta = json.load(open(d + 'meta.json'))
    meta['final_rerun'] = {'repo_head': head, 'violation_lines': len(v), 'no_failing_input_found': len(nf),
                           'detected': bool(v), 'concrete_replay': len(v) > len(nf), 'first': first}
    json.dump(meta, open(d + 'meta.json', 'w'), indent=1)
    print(sid, meta['final_rerun']['detected'], meta['final_rerun']['concrete_replay'])
