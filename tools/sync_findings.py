#!/venv/bin/python
"""Integrator tool (never run by a check): copy the PENDING_FINDINGS declared in harness modules into
known_findings.json as status=known entries.  usage: sync_findings.py Cxx[:module] ...
   e.g. sync_findings.py C01 C11:anncommon"""
import importlib, json, os, sys
V = os.path.dirname(os.path.dirname(os.path.abspath(__file__)))
sys.path.insert(0, os.path.join(V, 'harness')); sys.path.insert(0, os.path.join(V, 'translators'))
path = os.path.join(V, 'known_findings.json')
data = json.load(open(path))
have = {(e['property'], e.get('key')) for e in data['findings']}
added = 0
for arg in sys.argv[1:]:
    prop, _, modname = arg.partition(':')
    only = None
    if '=' in modname:
        modname, _, only = modname.partition('=')
        only = set(only.split(','))
    mod = importlib.import_module(modname or prop.lower())
    pf = mod.PENDING_FINDINGS
    if isinstance(pf, dict):
        items = [(k, v) for k, v in pf.items()]
    else:
        items = [((e['key'], e.get('what', '')) if isinstance(e, dict) else (e[0], e[1])) for e in pf]
    for k, w in items:
        if only is not None and k not in only:
            continue
        if (prop, k) in have:
            continue
        data['findings'].append({'property': prop, 'status': 'known', 'key': k, 'what': w,
                                 'line': 'KNOWN-FINDING: property=%s %s [%s]' % (prop, w, k)})
        have.add((prop, k)); added += 1
json.dump(data, open(path, 'w'), indent=1, ensure_ascii=False)
print('added', added, 'entries; total', len(data['findings']))
