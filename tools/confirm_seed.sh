#!/bin/sh
# usage: confirm_seed.sh <mut-id> <Cxx> [demo-command...]
# Confirms a seeded change produced by an independent sub-agent in /tmp/mut-<id>:
#  1. patch applies to a fresh worktree of /repo; baseline test suite counts unchanged
#  2. demo passes without and fails with the patch
#  3. runs ./check Cxx quick with the patch applied to /repo, then reverts /repo
# Keeps it as /verif/seeded/<Cxx>-<id>/ and removes the agent's worktree.
id=$1; prop=$2; shift 2
src=/tmp/mut-$id
demo=${*:-/venv/bin/python demo.py}
out=/verif/seeded/$prop-$id
wt=/tmp/confirm-$id
[ -f "$src/patch.diff" ] || { echo "no patch.diff in $src"; exit 2; }
rm -rf "$wt"; git -C /repo worktree add -q "$wt" HEAD || exit 2
cp -r "$src/_env" "$wt/_env" 2>/dev/null
for f in "$src"/demo* ; do [ -e "$f" ] && cp -r "$f" "$wt/"; done
cd "$wt"
sed -i "s|/tmp/mut-$id|$wt|g" demo* _env/*.py _env/README.txt 2>/dev/null
base=$(/venv/bin/python -m pytest -q -p no:cacheprovider --timeout=900 --continue-on-collection-errors 2>&1 | tail -1)
GIVERIF_REPO=$wt sh -c "$demo" > demo_before.log 2>&1; d0=$?
git apply "$src/patch.diff" || { echo "patch does not apply"; cd /; git -C /repo worktree remove --force "$wt"; exit 2; }
mut=$(/venv/bin/python -m pytest -q -p no:cacheprovider --timeout=900 --continue-on-collection-errors 2>&1 | tail -1)
GIVERIF_REPO=$wt sh -c "$demo" > demo_after.log 2>&1; d1=$?
echo "baseline tests: $base"; echo "mutated tests:  $mut"; echo "demo exit before=$d0 after=$d1"
cd /verif
# while other work is going on against /repo, run the check against the patched scratch worktree
# (tools/run_seeded.sh does the final pass with the patch applied to /repo itself)
GIVERIF_REPO=$wt ./check "$prop" quick > "/tmp/check-$id.log" 2>&1; c=$?
echo "check exit=$c"; grep -m3 "VIOLATION\|HARNESS" "/tmp/check-$id.log" | cut -c1-300
mkdir -p "$out"
cp "$src/patch.diff" "$out/"; for f in "$src"/demo* ; do [ -e "$f" ] && cp -r "$f" "$out/"; done
/venv/bin/python - "$src/meta.json" "$out/meta.json" "$base" "$mut" "$d0" "$d1" "$c" "$prop" <<'EOP'
import json, sys
src, dst, base, mut, d0, d1, c, prop = sys.argv[1:]
try:
    meta = json.load(open(src))
except Exception:
    meta = {}
meta['property'] = prop
meta['confirmed'] = {'baseline_tests': base.strip(), 'tests_with_change': mut.strip(),
                     'demo_exit_without_change': int(d0), 'demo_exit_with_change': int(d1),
                     'check_quick_exit_with_change': int(c),
                     'detected': int(c) == 1,
                     'check_output_head': open('/tmp/check-%s.log' % dst.split('-')[-1].split('/')[0]).read()[:1500] if False else None}
json.dump(meta, open(dst, 'w'), indent=1)
EOP
head -c 1200 "/tmp/check-$id.log" > "$out/check_quick_output.txt"
# put the generated tables back to /repo's (the check above regenerated them from the changed tree)
flock /verif/lean/.giverif.lock sh -c 'cd /verif/translators && for t in gen_*.py; do GIVERIF_REPO=/repo PYTHONPATH=/repo PYTHONDONTWRITEBYTECODE=1 /venv/bin/python $t >/dev/null 2>&1; done'
git -C /repo worktree remove --force "$wt"
git -C /repo worktree remove --force "$src" 2>/dev/null
rm -rf "$src"
git -C /repo worktree prune
