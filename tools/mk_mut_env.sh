#!/bin/sh
# usage: mk_mut_env.sh <id>   -> creates /tmp/mut-<id>: a scratch worktree of /repo plus _env/
# (_env holds only neutral run-the-real-code helpers: the stub-lexer pipeline runner and the
#  GLib shim build script; no check logic from /verif)
set -e
id=$1
d=/tmp/mut-$id
git -C /repo worktree add -q "$d" HEAD
mkdir -p "$d/_env/glibshim" "$d/_env/cdrivers"
cp /verif/harness/scanpipe.py /verif/translators/common.py /verif/harness/cbuild.py "$d/_env/"
cp -r /verif/glibshim/inc /verif/glibshim/stubs.c /verif/glibshim/logged_levels.c "$d/_env/glibshim/"
cp /verif/cdrivers/smoke.c "$d/_env/cdrivers/"
cat > "$d/_env/core.py" <<EOP
import os
REPO = os.environ.get('GIVERIF_REPO', '$d')
VERIF = os.path.dirname(os.path.abspath(__file__))
class HarnessError(Exception):
    pass
EOP
sed -i "s|^REPO = .*|REPO = os.environ.get('GIVERIF_REPO', '$d')|" "$d/_env/common.py"
cat > "$d/_env/README.txt" <<EOP
Helpers to RUN the real code of this worktree (they contain no tests):
  scanpipe.py  - runs the real scanner pipeline (comment parser -> Transformer -> [GDumpParser with a
                 supplied dump XML] -> MainTransformer -> IntrospectablePass -> GIRWriter) in-process from a
                 JSON description of C declarations, because the C lexer extension giscanner._giscanner is not
                 built here.  import sys; sys.path.insert(0, '$d/_env'); import scanpipe; scanpipe.scan(cfg)
                 -> dict with 'gir' (XML text), 'warnings', 'namespace', 'transformer'.  Read its docstring.
                 scanpipe.mods() gives the imported real modules (ast, transformer, girwriter, girparser, ...).
  cbuild.py    - builds this worktree's girepository C code (and tools/compiler.c = g-ir-compiler,
                 tools/generate.c = g-ir-generate, and any C file you put in _env/cdrivers/) against hand-written
                 GLib declarations (_env/glibshim/inc; no GLib headers exist on this machine) and links the system
                 GLib runtime.  import cbuild; b = cbuild.CBuild('/tmp/mut-$id/_build').compile_all();
                 comp = b.compiler(); gen = b.generate(); exe = b.cdriver('smoke');
                 cbuild.run_compiler(comp, 'X-1.0.gir', 'X-1.0.typelib', includedirs=[...]).  ~3 s per build.
                 cdrivers/smoke.c shows loading a typelib through the public girepository API.
EOP
echo "$d"
