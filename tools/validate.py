#!/usr/bin/env python3
"""Validate MANIFEST.json and every evidence/Cxx.json against the schemas in /root/.vp (run with python3-vt)."""
import glob
import json
import sys

import jsonschema

bad = 0
man = json.load(open('/verif/MANIFEST.json'))
try:
    jsonschema.validate(man, json.load(open('/root/.vp/MANIFEST.schema.json')))
    print('MANIFEST.json valid: %d checks, %d not_applicable' % (len(man['checks']), len(man.get('not_applicable', []))))
except jsonschema.ValidationError as e:
    print('MANIFEST.json INVALID:', e.message)
    bad += 1
ids = {c['property_id'] for c in man['checks']} | {n['property_id'] for n in man.get('not_applicable', [])}
missing = sorted({'C%02d' % i for i in range(1, 21)} - ids)
if missing:
    print('properties neither claimed nor listed not_applicable:', missing)
    bad += 1
schema = json.load(open('/root/.vp/EVIDENCE.schema.json'))
for c in man['checks']:
    path = '/verif/' + c['evidence_file']
    try:
        ev = json.load(open(path))
        jsonschema.validate(ev, schema)
        cov = ev['coverage']
        print('%s: valid tier=%s level=%s obligations=%s discharged=%s evals=%s distinct=%s wall=%ss violations=%s'
              % (c['property_id'], ev['tier'], ev['level'], cov.get('obligations'), cov.get('discharged'),
                 cov.get('evaluations'), cov.get('distinct_nontrivial'), ev['wall_s'], ev.get('violations')))
        if ev['level'] == 'proof' and cov.get('obligations') != cov.get('discharged'):
            print('   WARNING: discharged != obligations')
    except Exception as e:  # noqa
        print('%s: evidence INVALID or missing: %s' % (c['property_id'], str(e)[:200]))
        bad += 1
sys.exit(1 if bad else 0)
