#!/bin/sh
# Re-run every seeded change against its property's quick check, each in a scratch worktree of /repo
# (GIVERIF_REPO), one seed at a time per property, several properties in parallel.
# Writes /var/tmp/giverif-seeded/<id>.log and prints one line per seed.  usage: run_seeded_par.sh [Cxx ...]
cd "$(dirname "$0")/.." || exit 2
mkdir -p /var/tmp/giverif-seeded
props=${*:-$(ls seeded | sed 's/-.*//' | sort -u)}
one_prop() {
  p=$1
  for d in seeded/$p-*/; do
    id=$(basename "$d"); wt=/var/tmp/wt-seed-$id
    rm -rf "$wt"; git -C /repo worktree prune
    git -C /repo worktree add -q "$wt" HEAD || { echo "$id: worktree failed"; continue; }
    if ! git -C "$wt" apply "$PWD/$d/patch.diff" 2>/dev/null; then
      echo "$id: patch does not apply to HEAD"; git -C /repo worktree remove --force "$wt"; continue
    fi
    GIVERIF_REPO=$wt ./check "$p" quick > "/var/tmp/giverif-seeded/$id.log" 2>&1; c=$?
    n=$(grep -c '^VIOLATION' "/var/tmp/giverif-seeded/$id.log")
    nf=$(grep -c '^VIOLATION.*no-failing-input-found' "/var/tmp/giverif-seeded/$id.log")
    echo "$id: exit=$c violations=$n (of which no-failing-input-found=$nf)"
    git -C /repo worktree remove --force "$wt"
  done
  ./check "$p" quick > "/var/tmp/giverif-seeded/$p-unchanged.log" 2>&1; echo "$p unchanged tree: exit=$?"
}
for p in $props; do
  one_prop "$p" &
  while [ "$(ps -o pid= --ppid $$ | wc -l)" -gt 5 ]; do sleep 2; done
done
wait
