#!/venv/bin/python
"""List the PENDING_FINDINGS declared inside harness/cXX.py modules (integrator tool; not used at run time)."""
import importlib, json, os, sys
V = os.path.dirname(os.path.dirname(os.path.abspath(__file__)))
sys.path.insert(0, os.path.join(V, 'harness')); sys.path.insert(0, os.path.join(V, 'translators'))
out = []
for m in sys.argv[1:] or ['c%02d' % i for i in range(1, 21)] + ['anncommon']:
    try:
        mod = importlib.import_module(m)
    except Exception as e:
        print('!!', m, repr(e)); continue
    pf = getattr(mod, 'PENDING_FINDINGS', None)
    if pf is None:
        continue
    if isinstance(pf, dict):
        items = [(k, v if isinstance(v, str) else json.dumps(v)) for k, v in pf.items()]
    else:
        items = []
        for e in pf:
            if isinstance(e, dict):
                items.append((e['key'], e.get('what', '')))
            else:
                items.append((e[0], e[1]))
    for k, w in items:
        out.append({'module': m, 'key': k, 'what': w})
        print('%s | %s\n      %s' % (m, k, w[:1000]))
