#!/bin/sh
# Final pass over seeded/<id>/: apply each patch to /repo itself, run the property's quick check,
# undo the patch straight afterwards; prints one line per seed.  usage: run_seeded.sh [Cxx]
cd /verif
for d in seeded/${1:-C}*/; do
  id=$(basename "$d"); prop=${id%%-*}
  [ -f "$d/patch.diff" ] || continue
  git -C /repo apply "$d/patch.diff" || { echo "$id: patch does not apply"; continue; }
  ./check "$prop" quick > "/tmp/seeded-$id.log" 2>&1; c=$?
  git -C /repo checkout -- .
  echo "$id: check exit=$c $(grep -c '^VIOLATION' /tmp/seeded-$id.log) violation line(s) $(grep -m1 -o 'no-failing-input-found' /tmp/seeded-$id.log)"
done
./check "${1:-C19}" quick > /dev/null 2>&1; echo "unchanged tree: exit=$?"
