import Driver.Util
import GIVerif.Model.TypelibDecode

namespace Driver.C06
open Lean Driver GIVerif.Typelib

/-! input plumbing: bytes arrive as base64 (`b64`) or hex (`hex`) -/

def b64Val (c : Char) : Option Nat :=
  if 'A' ≤ c && c ≤ 'Z' then some (c.toNat - 65)
  else if 'a' ≤ c && c ≤ 'z' then some (c.toNat - 97 + 26)
  else if '0' ≤ c && c ≤ '9' then some (c.toNat - 48 + 52)
  else if c == '+' then some 62
  else if c == '/' then some 63
  else none

def b64Decode (s : String) : Except String ByteArray := Id.run do
  let mut out := ByteArray.emptyWithCapacity (s.length * 3 / 4 + 3)
  let mut acc : Nat := 0
  let mut nbits : Nat := 0
  for c in s.toList do
    if c == '=' || c == '\n' then continue
    match b64Val c with
    | none => return .error s!"bad base64 character {c}"
    | some v =>
      acc := acc * 64 + v
      nbits := nbits + 6
      if nbits ≥ 8 then
        nbits := nbits - 8
        out := out.push (UInt8.ofNat (acc / 2 ^ nbits))
        acc := acc % 2 ^ nbits
  return .ok out

def hexVal (c : Char) : Option Nat :=
  if '0' ≤ c && c ≤ '9' then some (c.toNat - 48)
  else if 'a' ≤ c && c ≤ 'f' then some (c.toNat - 87)
  else if 'A' ≤ c && c ≤ 'F' then some (c.toNat - 55)
  else none

def hexDecode (s : String) : Except String ByteArray := Id.run do
  let mut out := ByteArray.emptyWithCapacity (s.length / 2)
  let mut hi : Option Nat := none
  for c in s.toList do
    match hexVal c with
    | none => return .error s!"bad hex character {c}"
    | some v =>
      match hi with
      | none => hi := some v
      | some h => out := out.push (UInt8.ofNat (h * 16 + v)); hi := none
  if hi.isSome then return .error "odd number of hex digits"
  return .ok out

def bytesOf (j : Json) : Except String ByteArray := do
  match j.getObjVal? "b64" with
  | .ok v => b64Decode (← v.getStr?)
  | .error _ => hexDecode (← (← j.getObjVal? "hex").getStr?)

/-- the image of a byte array: the model sees it only through `Image.getByte?` -/
def imageOf (b : ByteArray) : Image := ⟨b.size, fun i => (b.get! i).toNat⟩

def natListOf (j : Json) (k : String) : Except String (List Nat) := do
  let a ← (← j.getObjVal? k).getArr?
  a.toList.mapM (fun x => x.getNat?)

/-! output plumbing -/

def strJson (bytes : List Nat) : Json :=
  match String.fromUTF8? (ByteArray.mk (bytes.map UInt8.ofNat).toArray) with
  | some s => Json.str s
  | none => Json.mkObj [("bytes", Json.arr (bytes.map (fun (b : Nat) => (b : Json))).toArray)]

partial def apiJson : Api → Json
  | .nat n => Json.num n
  | .int i => Json.num i
  | .bool b => Json.bool b
  | .str s => strJson s
  | .null => Json.null
  | .arr xs => Json.arr (xs.map apiJson).toArray
  | .obj kvs => Json.mkObj (kvs.map fun (k, v) => (k, apiJson v))

def errJson (e : Err) : Json :=
  let mk (kind : String) (rest : List (String × Json)) := Json.mkObj (("kind", Json.str kind) :: rest)
  match e with
  | .oob w o => mk "oob" [("what", w), ("off", o)]
  | .noField s m => mk "noField" [("struct", s), ("member", m)]
  | .noEnum s m => mk "noEnum" [("enum", s), ("name", m)]
  | .badMagic => mk "badMagic" []
  | .badBlobSize m g w => mk "badBlobSize" [("member", m), ("got", g), ("want", w)]
  | .badBlobType o t => mk "badBlobType" [("off", o), ("type", t)]
  | .blobTypeMismatch o d b => mk "blobTypeMismatch" [("off", o), ("dir", d), ("blob", b)]
  | .badTypeTag o t => mk "badTypeTag" [("off", o), ("tag", t)]
  | .badIndex w i => mk "badIndex" [("what", w), ("index", i)]
  | .unterminated o => mk "unterminated" [("off", o)]
  | .depth o => mk "depth" [("off", o)]
  | .attrsUnsorted i => mk "attrsUnsorted" [("i", i)]
  | .sectionsUnterminated => mk "sectionsUnterminated" []

def resultJson : Except Err Api → Json
  | .ok a => Json.mkObj [("ok", apiJson a)]
  | .error e => Json.mkObj [("error", errJson e)]

/-- all members of struct `s` placed at `off`, as [name, value] pairs; null when a byte is outside -/
def fieldsJson (m : Image) (s : String) (off : Nat) : Json :=
  let L := layoutOf s
  if L.size == 0 || off + L.size > m.size then Json.null else
  match decodeStruct? m.getByte? off L.fields with
  | none => Json.null
  | some vs => Json.arr ((L.fields.zip vs).map fun (f, v) => Json.arr #[Json.str f.name, Json.num v]).toArray

/-- (struct, offset) of every blob the decoder visited, from the "blob"/"at" members of its nodes -/
partial def visited (a : Api) (acc : Array (String × Nat)) : Array (String × Nat) :=
  match a with
  | .arr xs => xs.foldl (fun acc x => visited x acc) acc
  | .obj kvs =>
    let acc :=
      match kvs.lookup "blob", kvs.lookup "at" with
      | some (.str b), some (.nat o) =>
        let s := String.fromUTF8! (ByteArray.mk (b.map UInt8.ofNat).toArray)
        acc.push (if s == "SimpleTypeBlob" then "SimpleTypeBlobFlags" else s, o)
      | _, _ => acc
    kvs.foldl (fun acc kv => visited kv.2 acc) acc
  | _ => acc

def tyOfJson : Nat → Json → Except String Ty
  | 0, _ => .error "type too deep"
  | fuel + 1, j => do
    let k ← (← j.getObjVal? "k").getStr?
    match k with
    | "basic" => pure .basic
    | "iface" => pure .iface
    | "error" => pure .error
    | "array" => do pure (.array (← tyOfJson fuel (← j.getObjVal? "e")))
    | "list" => do pure (.list (← tyOfJson fuel (← j.getObjVal? "e")))
    | "hash" => do pure (.hash (← tyOfJson fuel (← j.getObjVal? "a")) (← tyOfJson fuel (← j.getObjVal? "b")))
    | _ => .error s!"unknown type kind {k}"

def handle (op : String) : Option Handler :=
  match op with
  | "c06.decode" => some fun j => do
      let b ← bytesOf j
      let m := imageOf b
      let r := decode m
      match r, j.getObjVal? "with_fields" with
      | .ok a, .ok (Json.bool true) =>
        -- every visited blob read once more member by member (for the comparison with the C structs)
        let items := (visited a #[("Header", 0)]).toList
        let fs := items.map fun (s, o) => Json.arr #[Json.str s, Json.num o, fieldsJson m s o]
        pure (Json.mkObj [("ok", apiJson a), ("fields", Json.arr fs.toArray)])
      | _, _ => pure (resultJson r)
  | "c06.fields" => some fun j => do
      let b ← bytesOf j
      let m := imageOf b
      let items ← (← j.getObjVal? "items").getArr?
      let out ← items.toList.mapM fun it => do
        let a ← it.getArr?
        match a.toList with
        | [s, o] => pure (fieldsJson m (← s.getStr?) (← o.getNat?))
        | _ => throw "item must be [struct, offset]"
      pure (Json.arr out.toArray)
  | "c06.encode" => some fun j => do
      -- write `values` as struct `struct` at byte `base` into the byte list `bytes`, read it back
      let l ← natListOf j "bytes"
      let s ← (← j.getObjVal? "struct").getStr?
      let base ← natOf j "base"
      let vals ← natListOf j "values"
      let L := layoutOf s
      let out := encodeStruct l base L.fields vals
      let back := decodeStruct? (listReader out) base L.fields
      pure (Json.mkObj [("bytes", Json.arr (out.map (fun (b : Nat) => (b : Json))).toArray),
                        ("fits", Json.bool (fits L.fields vals)),
                        ("back", match back with
                                 | some vs => Json.arr (vs.map (fun (b : Nat) => (b : Json))).toArray
                                 | none => Json.null)])
  | "c06.layout" => some fun j => do
      let s ← (← j.getObjVal? "struct").getStr?
      let L := layoutOf s
      pure (Json.mkObj [("size", L.size), ("wf", Json.bool (wfStruct L.size L.fields)),
                        ("fields", Json.arr (L.fields.map fun f =>
                           Json.arr #[Json.str f.name, Json.num f.first, Json.num f.width]).toArray)])
  | "c06.align4" => some fun j => do
      pure (Json.num (align4 (← natOf j "n")))
  | "c06.stralloc" => some fun j => do
      pure (Json.num (strAlloc (← natOf j "len")))
  | "c06.indexlist" => some fun j => do
      pure (Json.num (indexListBytes (← natOf j "n")))
  | "c06.tysize" => some fun j => do
      let t ← tyOfJson 64 (← j.getObjVal? "t")
      pure (Json.mkObj [("reserved", t.reserved), ("pool", t.pool), ("used", t.used)])
  | "c06.extent" => some fun j => do
      let k ← (← j.getObjVal? "kind").getStr?
      let n (x : String) : Except String Nat := natOf j x
      match k with
      | "struct" => pure (Json.num (fixedSizeStruct (← n "n_fields") (← n "n_field_callbacks") (← n "n_methods")))
      | "union" => pure (Json.num (fixedSizeUnion (← n "n_fields") (← n "n_functions")))
      | "enum" => pure (Json.num (fixedSizeEnum (← n "n_values") (← n "n_methods")))
      | "object" => pure (Json.num (fixedSizeObject (← n "n_interfaces") (← n "n_fields") (← n "n_field_callbacks")
                      (← n "n_properties") (← n "n_methods") (← n "n_signals") (← n "n_vfuncs") (← n "n_constants")))
      | "interface" => pure (Json.num (fixedSizeInterface (← n "n_prerequisites") (← n "n_properties") (← n "n_methods")
                      (← n "n_signals") (← n "n_vfuncs") (← n "n_constants")))
      | _ => throw s!"unknown kind {k}"
  | "c06.headerarea" => some fun j => do
      let lens ← natListOf j "strlens"
      let a := headerArea lens (← natOf j "n_entries") (← natOf j "passes")
      pure (Json.mkObj [("sections", a.sections), ("directory", a.directory), ("first_blob", a.firstBlob)])
  | "c06.dirindex" => some fun j => do
      -- the directory index section of a real file: dirmap_offset as stored in the section,
      -- number of local entries, start of the section; the width is the generated one
      let packed := hashPackedSize (← natOf j "dirmap") (← natOf j "n_local")
      let bits := GIVerif.Gen.dirIndexSizeBits
      pure (Json.mkObj [("bits", bits), ("packed", packed), ("required", dirIndexRequired bits packed),
                        ("pack_ok", Json.bool (dirIndexPackOk bits packed)),
                        ("end", dirIndexEnd bits (← natOf j "offset2") packed)])
  | _ => none

end Driver.C06

def main : IO Unit := Driver.mainLoop Driver.C06.handle
