/-
  C15 driver: the executable model of girparser.c's element state machine
  (GIVerif/Model/GirConsume.lean) and the vocabulary-contract checkers, over the tables
  regenerated from /repo for this run.

  ops
    c15.trace    {"events": [["S", name, hidden, intro0] | ["E", name], ...]}   (hidden: introspectable="0" or shadowed-by;
                 intro0: introspectable="0" alone)
                 -> {"rows": [[state, prev_state, unknown_depth, node-stack depth], ...], "error": null | message,
                     "log": [...]}      one row per event, like cdrivers/c15_states.c prints for the real parser
    c15.lookup   {"state": s, "element": e, "has_node": b} -> null | {handler, needs_node, prelude, switch, target, push}
    c15.contract {} -> what the contract checkers compute on the STRING tables (readable twin of the
                 `decide` obligations of Props/C15.lean) and `tables_coded` (the number-coded grouped tables of
                 Gen are the coding of the string tables)
-/
import Driver.Util
import GIVerif.Model.GirConsume

namespace Driver.C15
open Lean Driver GIVerif GIVerif.GirConsume

def jS (s : String) : Json := Json.str s
def jSs (l : List String) : Json := Json.arr (l.map jS).toArray

def evOf (j : Json) : Except String Ev := do
  let a ← j.getArr?
  let kind ← (a.getD 0 Json.null).getStr?
  let name ← (a.getD 1 Json.null).getStr?
  if kind == "S" then
    let hidden ← (a.getD 2 (Json.bool false)).getBool?
    let intro0 ← (a.getD 3 (Json.bool hidden)).getBool?
    pure (Ev.start name hidden intro0)
  else if kind == "E" then pure (Ev.stop name)
  else throw s!"event kind {kind}"

/-- the state after each event, the first error (which stops the parse), and the final log -/
def traceFull (c : Ctx) : List Ev → List (String × String × Nat × Nat) → (List (String × String × Nat × Nat)) × Option String × Ctx
  | [], acc => (acc.reverse, none, c)
  | e :: es, acc =>
    match step c e with
    | .ok c' => traceFull c' es ((c'.state, c'.prev, c'.depth, c'.stack.length) :: acc)
    | .error m => (acc.reverse, some m, c)

def visitJson (v : Visit String) : Json := Json.arr #[jS v.elem, jS v.state, Json.bool v.hasNode]

def offJson (o : Offence String) : Json :=
  Json.arr #[jS o.state, jS o.parent, jS o.child, jS (match o.kind with | .unknown => "unknown" | .selfSwitch => "selfSwitch")]

def handle (op : String) : Option Handler :=
  match op with
  | "c15.trace" => some fun j => do
      let evs ← (← (← j.getObjVal? "events").getArr?).toList.mapM evOf
      let (rows, err, c) := traceFull Ctx.init evs []
      pure (Json.mkObj [
        ("rows", Json.arr (rows.map fun r => Json.arr #[jS r.1, jS r.2.1, Json.num r.2.2.1, Json.num r.2.2.2]).toArray),
        ("error", match err with | some m => jS m | none => Json.null),
        ("log", jSs c.log)])
  | "c15.lookup" => some fun j => do
      let st ← (← j.getObjVal? "state").getStr?
      let el ← (← j.getObjVal? "element").getStr?
      let hn ← boolOf j "has_node"
      pure (match lookup st el hn with
        | none => Json.null
        | some r => Json.mkObj [("handler", jS r.handler), ("needs_node", Json.bool r.needsNode), ("prelude", Json.bool r.prelude),
            ("switch", Json.bool r.switch), ("target", jS r.target), ("push", Json.bool r.push)])
  | "c15.contract" => some fun _ => do
      pure (Json.mkObj [
        ("states", jSs Gen.c15CStates),
        ("tables_coded", Json.mkObj (tablesCoded.map fun p => (p.1, Json.bool p.2))),
        ("shape", jSs (Gen.c15CShape ++ Gen.c15PyShape)),
        ("reachable", Json.arr (reachable.map visitJson).toArray),
        ("closed", Json.bool summaryS.1),
        ("offences", Json.arr (offElements.map offJson).toArray),
        ("handlers", Json.arr (handlersOf.map fun p => Json.arr #[jS p.1, jS p.2]).toArray),
        ("unfetched", Json.arr (unfetched.map fun p => Json.arr #[jS p.1, jS p.2.1, jS p.2.2]).toArray),
        ("off_values", Json.arr (offValues.map fun p => Json.arr #[jS p.1, jS p.2.1, jS p.2.2.1, jS p.2.2.2]).toArray),
        ("not_in_schema", Json.arr (notInSchema.map fun p => Json.arr #[jS p.1, jS p.2.1, jS p.2.2]).toArray),
        ("passthrough_by_name", jSs Gen.c15CPassthroughByName),
        ("own_intro_test", jSs Gen.c15COwnIntroTest),
        ("silent", jSs silentS),
        ("written_elements", jSs writtenElements),
        ("children", Json.arr (Gen.c15PyChildren.map fun p => Json.arr #[jS p.1, jS p.2]).toArray),
        ("attrs", Json.arr (Gen.c15PyAttrs.map fun p => Json.arr #[jS p.1, jS p.2]).toArray)])
  | _ => none

end Driver.C15

def main : IO Unit := Driver.mainLoop Driver.C15.handle
