import Driver.Util
import GIVerif.Model.Dump

namespace Driver.C12
open Lean Driver GIVerif.Dump

def optStr (j : Json) (k : String) : Except String (Option (List Char)) :=
  match j.getObjVal? k with
  | .error _ => pure none
  | .ok Json.null => pure none
  | .ok v => do pure (some (← v.getStr?).toList)

def strD (j : Json) (k : String) : Except String (List Char) := do
  pure ((← optStr j k).getD [])

def boolD (j : Json) (k : String) : Except String Bool :=
  match j.getObjVal? k with
  | .error _ => pure false
  | .ok Json.null => pure false
  | .ok v => v.getBool?

def natD (j : Json) (k : String) : Except String Nat :=
  match j.getObjVal? k with
  | .error _ => pure 0
  | .ok Json.null => pure 0
  | .ok v => v.getNat?

def arrD (j : Json) (k : String) : Except String (List Json) :=
  match j.getObjVal? k with
  | .error _ => pure []
  | .ok Json.null => pure []
  | .ok v => do pure (← v.getArr?).toList

def strsD (j : Json) (k : String) : Except String (List (List Char)) := do
  (← arrD j k).mapM (fun x => do pure (← x.getStr?).toList)

def optStrs (j : Json) (k : String) : Except String (Option (List (List Char))) :=
  match j.getObjVal? k with
  | .error _ => pure none
  | .ok Json.null => pure none
  | .ok v => do pure (some (← (← v.getArr?).toList.mapM (fun x => do pure (← x.getStr?).toList)))

def kindOf (s : String) : Except String Kind :=
  match s with
  | "func" => pure .func | "quark" => pure .quark | "record" => pure .record | "union" => pure .union
  | "enum" => pure .enum | "bitfield" => pure .bitfield | "cls" => pure .cls | "iface" => pure .iface
  | "boxed" => pure .boxed | "callback" => pure .callback | "other" => pure .other
  | k => .error s!"unknown kind {k}"

def kindStr : Kind → String
  | .func => "func" | .quark => "quark" | .record => "record" | .union => "union" | .enum => "enum"
  | .bitfield => "bitfield" | .cls => "cls" | .iface => "iface" | .boxed => "boxed"
  | .callback => "callback" | .other => "other"

def fieldOf (j : Json) : Except String Field := do
  pure { name := ← strD j "name", anon := ← optStrs j "anon", ctype := ← optStr j "ctype" }

def nodeOf (j : Json) : Except String Node := do
  pure { name := ← strOf j "name", kind := ← kindOf (← (← j.getObjVal? "kind").getStr?)
         ctype := ← optStr j "ctype", gtypeName := ← optStr j "gtype", getType := ← optStr j "get_type"
         symPrefix := ← optStr j "symprefix", symbol := ← optStr j "symbol", metaFn := ← boolD j "meta"
         retQuark := ← boolD j "quark", nparams := ← natD j "nparams", uscored := ← strD j "uscored"
         fields := ← (← arrD j "fields").mapM fieldOf, cbParams := ← strsD j "cb_params" }

def envOf (j : Json) : Except String Env := do
  let incs ← (← arrD j "includes").mapM (fun i => do
    let tys ← (← arrD i "types").mapM (fun p => do
      let a ← p.getArr?
      match a.toList with
      | [x, y] => pure ((← x.getStr?).toList, (← y.getStr?).toList)
      | _ => throw "types entry must be a pair")
    pure ((← strOf i "name"), tys))
  pure { nsName := ← strOf j "ns", idPrefixes := ← strListOf j "idp", symPrefixes := ← strListOf j "symp"
         includes := incs }

def dpropOf (j : Json) : Except String DProp := do
  pure { name := ← strOf j "name", type := ← strOf j "type", flags := ← intOf j "flags"
         default := ← optStr j "default" }

def dsigOf (j : Json) : Except String DSignal := do
  pure { name := ← strOf j "name", ret := ← strOf j "ret", when := ← optStr j "when"
         noRecurse := ← optStr j "no_recurse", detailed := ← optStr j "detailed"
         action := ← optStr j "action", noHooks := ← optStr j "no_hooks", params := ← strsD j "params" }

def ditemOf (j : Json) : Except String DItem := do
  let tag ← strOf j "tag"
  if tag == "error-quark".toList then
    pure (.quark (← strOf j "function") (← strOf j "domain"))
  else
    pure (.type { tag := tag, name := ← strOf j "name", getType := ← strOf j "get_type"
                  parents := ← optStr j "parents", abstract := ← optStr j "abstract"
                  final := ← optStr j "final", implements := ← strsD j "implements"
                  prereqs := ← strsD j "prereqs", props := ← (← arrD j "props").mapM dpropOf
                  signals := ← (← arrD j "signals").mapM dsigOf, uscored := ← strD j "uscored" })

def jty : Ty → Json
  | .fund n _ => Json.str ("f:" ++ String.ofList n)
  | .giname n => Json.str ("g:" ++ String.ofList n)
  | .gtype g => Json.str ("u:" ++ String.ofList g)
  | .container k a e => Json.str ("c:" ++ String.ofList k ++ ":" ++ String.ofList a ++ ":" ++ String.ofList e)

def jflags (f : PFlags) : Json :=
  Json.arr #[Json.bool f.readable, Json.bool f.writable, Json.bool f.construct, Json.bool f.constructOnly]

def jprop (p : PropN) : Json :=
  Json.mkObj [("name", jstr p.name), ("type", jty p.ty), ("flags", jflags p.flags), ("default", jopt jstr p.default),
    ("default_written", jopt jstr (writtenDefault p.default))]

def jsig (s : Sig) : Json :=
  Json.mkObj [("name", jstr s.name), ("ret", jty s.ret),
    ("params", Json.arr (s.params.map (fun p => Json.arr #[jstr p.1, jty p.2])).toArray),
    ("when", jopt jstr s.when), ("no_recurse", Json.bool s.noRecurse), ("detailed", Json.bool s.detailed),
    ("action", Json.bool s.action), ("no_hooks", Json.bool s.noHooks)]

def jnode (n : Node) : Json :=
  Json.mkObj [("name", jstr n.name), ("kind", Json.str (kindStr n.kind)), ("ctype", jopt jstr n.ctype),
    ("gtype", jopt jstr n.gtypeName), ("get_type", jopt jstr n.getType), ("symprefix", jopt jstr n.symPrefix),
    ("symbol", jopt jstr n.symbol), ("parent", jopt jty n.parent), ("abstract", Json.bool n.abstract),
    ("final", Json.bool n.final), ("fundamental", Json.bool n.fundamental),
    ("interfaces", Json.arr (n.interfaces.map jty).toArray), ("prereqs", Json.arr (n.prereqs.map jty).toArray),
    ("props", Json.arr (n.props.map jprop).toArray), ("sigs", Json.arr (n.sigs.map jsig).toArray),
    ("props_sorted", jstrs ((sortByName (·.name) n.props).map (·.name))),
    ("sigs_sorted", jstrs ((sortByName (·.name) n.sigs).map (·.name))),
    ("type_struct", jopt jstr n.typeStruct), ("struct_for", jopt jstr n.gtypeStructFor),
    ("vfuncs", jstrs n.vfuncs), ("error_domain", jopt jstr n.errorDomain),
    ("field_names", jstrs (n.fields.map (·.name)))]

def handle (op : String) : Option Handler :=
  match op with
  | "c12.flags" => some fun j => do
      pure (jflags (decodeFlags (← intOf j "w")))
  | "c12.type" => some fun j => do
      pure (jty (createFromGtypeName (← strOf j "g")))
  | "c12.split" => some fun j => do
      let reg ← (← arrD j "reg").mapM (fun p => do
        let k ← strOf p "key"
        let n : Node := { name := ← strOf p "name", kind := .other }
        pure (k, n))
      match splitUscoredByType reg (← strOf j "s") with
      | some (n, rest) => pure (Json.arr #[jstr n.name, jstr rest])
      | none => pure Json.null
  | "c12.merge" => some fun j => do
      let env ← envOf j
      let ns ← (← arrD j "nodes").mapM nodeOf
      let dump ← (← arrD j "dump").mapM ditemOf
      match merge env ns dump with
      | .error e => pure (Json.mkObj [("error", Json.str e)])
      | .ok m =>
        pure (Json.mkObj [
          ("after_parse", Json.arr (m.afterParse.map (fun n => Json.arr #[jstr n.name, Json.str (kindStr n.kind)])).toArray),
          ("nodes", Json.arr (m.final.map jnode).toArray),
          ("quark_order", jstrs (((symbolsOrder m.paired m.floated).filter (fun q => q.kind == .quark)).map
              (fun q => q.symbol.getD []))),
          ("floated", jstrs (m.floated.map (fun q => q.symbol.getD []))),
          ("privates", jstrs m.privates)])
  | _ => none

end Driver.C12

def main : IO Unit := Driver.mainLoop Driver.C12.handle
