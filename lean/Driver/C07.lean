import Driver.Util
import GIVerif.Model.GirCodec

namespace Driver.C07
open Lean Driver GIVerif.GirCodec

/-! JSON <-> model values.  Strings are JSON strings, `None` is null. -/

def optStr (j : Json) (k : String) : Except String (Option (List Char)) :=
  match j.getObjVal? k with
  | .ok Json.null => pure none
  | .ok v => do pure (some (← v.getStr?).toList)
  | .error _ => pure none

def optInt (j : Json) (k : String) : Except String (Option Int) :=
  match j.getObjVal? k with
  | .ok Json.null => pure none
  | .ok v => do pure (some (← v.getInt?))
  | .error _ => pure none

def boolD (j : Json) (k : String) (d : Bool) : Except String Bool :=
  match j.getObjVal? k with
  | .ok Json.null => pure d
  | .ok v => v.getBool?
  | .error _ => pure d

partial def tyOf (j : Json) : Except String Ty := do
  let k ← (← j.getObjVal? "k").getStr?
  match k with
  | "unknown" => pure .unknown
  | "varargs" => pure .varargs
  | "plain" =>
    let tgt ← match (← optStr j "giname"), (← optStr j "fundamental"), (← optStr j "foreign") with
      | some g, _, _ => pure (Target.giname g)
      | _, some f, _ => pure (Target.fundamental f)
      | _, _, some f => pure (Target.foreign f)
      | _, _, _ => pure Target.none
    pure (.plain (← optStr j "ctype") (← optStr j "cctype") tgt)
  | "array" =>
    pure (.array (← optStr j "ctype") (← optStr j "cctype") (← optStr j "array_type") (← boolD j "zt" true)
      (← optInt j "size") (← optStr j "length") (← tyOf (← j.getObjVal? "elem")))
  | "list" => pure (.list (← optStr j "ctype") (← optStr j "cctype") (← optStr j "name") (← tyOf (← j.getObjVal? "elem")))
  | "map" => pure (.map (← optStr j "ctype") (← optStr j "cctype") (← tyOf (← j.getObjVal? "key")) (← tyOf (← j.getObjVal? "value")))
  | _ => throw s!"unknown type kind {k}"

def jo (o : Option (List Char)) : Json := jopt jstr o

def tyJson : Ty → Json
  | .unknown => Json.mkObj [("k", "unknown")]
  | .varargs => Json.mkObj [("k", "varargs")]
  | .plain c cc t => Json.mkObj ([("k", Json.str "plain"), ("ctype", jo c), ("cctype", jo cc)] ++ (match t with
      | .none => []
      | .giname g => [("giname", jstr g)]
      | .fundamental f => [("fundamental", jstr f)]
      | .foreign f => [("foreign", jstr f)]))
  | .array c cc a z s l e => Json.mkObj [("k", "array"), ("ctype", jo c), ("cctype", jo cc), ("array_type", jo a),
      ("zt", Json.bool z), ("size", match s with | some i => toJson i | none => Json.null), ("length", jo l),
      ("elem", tyJson e)]
  | .list c cc n e => Json.mkObj [("k", "list"), ("ctype", jo c), ("cctype", jo cc), ("name", jo n), ("elem", tyJson e)]
  | .map c cc k v => Json.mkObj [("k", "map"), ("ctype", jo c), ("cctype", jo cc), ("key", tyJson k), ("value", tyJson v)]

partial def xmlJson : Xml → Json
  | .elem t a k tx => Json.mkObj [("tag", Json.str t),
      ("attrs", Json.arr (a.map (fun p => Json.arr #[Json.str p.1, jstr p.2])).toArray),
      ("kids", Json.arr (k.map xmlJson).toArray), ("text", jo tx)]

partial def xmlOf (j : Json) : Except String Xml := do
  let t ← (← j.getObjVal? "tag").getStr?
  let a ← (← j.getObjVal? "attrs").getArr?
  let attrs ← a.toList.mapM (fun p => do
    let pr ← p.getArr?
    match pr.toList with
    | [k, v] => pure ((← k.getStr?), (← v.getStr?).toList)
    | _ => throw "attr pair")
  let k ← (← j.getObjVal? "kids").getArr?
  let kids ← k.toList.mapM xmlOf
  pure (.elem t attrs kids (← optStr j "text"))

def errJson : Err → Json
  | .keyError k => Json.mkObj [("error", "KeyError"), ("key", Json.str k)]
  | .valueError => Json.mkObj [("error", "ValueError")]
  | .assertion => Json.mkObj [("error", "AssertionError")]
  | .attributeError => Json.mkObj [("error", "AttributeError")]
  | .indexError => Json.mkObj [("error", "IndexError")]

def exJson (f : α → Json) : Except Err α → Json
  | .ok a => Json.mkObj [("ok", f a)]
  | .error e => errJson e

def namesOf (j : Json) (k : String) : Except String (Option (List (Option (List Char)))) :=
  match j.getObjVal? k with
  | .ok Json.null => pure none
  | .error _ => pure none
  | .ok v => do
    let a ← v.getArr?
    pure (some (← a.toList.mapM (fun x => match x with
      | Json.null => pure none
      | x => do pure (some (← x.getStr?).toList))))

def docPosOf (j : Json) : Except String DocPos := do
  pure ⟨(← strOf j "filename"), (← optStr j "line"), (← optStr j "column")⟩

def srcPosOf (j : Json) : Except String SrcPos := do
  pure ⟨(← strOf j "filename"), (← intOf j "line"), (← optInt j "column")⟩

def docsOf (j : Json) : Except String Docs := do
  let attrs ← match j.getObjVal? "attributes" with
    | .ok v => do
      let a ← v.getArr?
      a.toList.mapM (fun p => do pure ((← optStr p "name"), (← optStr p "value")))
    | .error _ => pure []
  let dp ← match j.getObjVal? "doc_pos" with
    | .ok Json.null => pure none
    | .ok v => do pure (some (← docPosOf v))
    | .error _ => pure none
  let mp ← match j.getObjVal? "pos" with
    | .ok Json.null => pure none
    | .ok v => do pure (some (← srcPosOf v))
    | .error _ => pure none
  pure { attributes := attrs, doc := (← optStr j "doc"), docPos := dp, versionDoc := (← optStr j "version_doc"),
         deprecatedDoc := (← optStr j "deprecated_doc"), stabilityDoc := (← optStr j "stability_doc"), mainPos := mp }

def docsJson (d : Docs) : List (String × Json) :=
  [("attributes", Json.arr (d.attributes.map (fun p => Json.mkObj [("name", jo p.1), ("value", jo p.2)])).toArray),
   ("doc", jo d.doc),
   ("doc_pos", match d.docPos with
     | some p => Json.mkObj [("filename", jstr p.filename), ("line", jo p.line), ("column", jo p.column)]
     | none => Json.null),
   ("version_doc", jo d.versionDoc), ("deprecated_doc", jo d.deprecatedDoc), ("stability_doc", jo d.stabilityDoc),
   ("pos", match d.mainPos with
     | some p => Json.mkObj [("filename", jstr p.filename), ("line", toJson p.line),
         ("column", match p.column with | some c => toJson c | none => Json.null)]
     | none => Json.null)]

def paramOf (j : Json) : Except String Param := do
  pure { argname := (← optStr j "name"), ty := (← tyOf (← j.getObjVal? "type")), direction := (← optStr j "direction"),
         transfer := (← optStr j "transfer"), nullable := (← boolD j "nullable" false),
         notNullable := (← boolD j "not_nullable" false), optional := (← boolD j "optional" false),
         scope := (← optStr j "scope"), callerAllocates := (← boolD j "caller_allocates" false),
         closureName := (← optStr j "closure"), destroyName := (← optStr j "destroy"),
         skip := (← boolD j "skip" false), docs := (← docsOf j) }

def paramJson (p : Param) : Json :=
  Json.mkObj ([("name", jo p.argname), ("type", tyJson p.ty), ("direction", jo p.direction), ("transfer", jo p.transfer),
    ("nullable", Json.bool p.nullable), ("not_nullable", Json.bool p.notNullable), ("optional", Json.bool p.optional),
    ("scope", jo p.scope), ("caller_allocates", Json.bool p.callerAllocates), ("closure", jo p.closureName),
    ("destroy", jo p.destroyName), ("skip", Json.bool p.skip)] ++ docsJson p.docs)

def returnOf (j : Json) : Except String Return := do
  pure { ty := (← tyOf (← j.getObjVal? "type")), transfer := (← optStr j "transfer"),
         nullable := (← boolD j "nullable" false), notNullable := (← boolD j "not_nullable" false),
         skip := (← boolD j "skip" false), docs := (← docsOf j) }

def returnJson (r : Return) : Json :=
  Json.mkObj ([("type", tyJson r.ty), ("transfer", jo r.transfer), ("nullable", Json.bool r.nullable),
    ("not_nullable", Json.bool r.notNullable), ("skip", Json.bool r.skip)] ++ docsJson r.docs)

def klassOf (s : String) : Except String Klass :=
  match s with
  | "function" => pure .function
  | "callback" => pure .callback
  | "vfunction" => pure .vfunction
  | "signal" => pure .signal
  | _ => throw s!"unknown klass {s}"

def klassStr : Klass → String
  | .function => "function"
  | .callback => "callback"
  | .vfunction => "vfunction"
  | .signal => "signal"

def callableOf (j : Json) : Except String Callable := do
  let ps ← (← j.getObjVal? "params").getArr?
  let inst ← match j.getObjVal? "instance" with
    | .ok Json.null => pure none
    | .ok v => do pure (some (← paramOf v))
    | .error _ => pure none
  pure { klass := (← klassOf (← (← j.getObjVal? "klass").getStr?)), tag := (← (← j.getObjVal? "tag").getStr?),
         name := (← strOf j "name"), retval := (← returnOf (← j.getObjVal? "retval")),
         params := (← ps.toList.mapM paramOf), instanceParam := inst, throws := (← boolD j "throws" false),
         version := (← optStr j "version"), skip := (← boolD j "skip" false),
         introspectable := (← boolD j "introspectable" true), deprecated := (← optStr j "deprecated"),
         stability := (← optStr j "stability"), docs := (← docsOf j), finishFunc := (← optStr j "finish_func"),
         syncFunc := (← optStr j "sync_func"), asyncFunc := (← optStr j "async_func"), symbol := (← optStr j "symbol"),
         shadowedBy := (← optStr j "shadowed_by"), shadows := (← optStr j "shadows"), movedTo := (← optStr j "moved_to"),
         setProperty := (← optStr j "set_property"), getProperty := (← optStr j "get_property"),
         invoker := (← optStr j "invoker"), ctype := (← optStr j "ctype"), when := (← optStr j "when"),
         noRecurse := (← boolD j "no_recurse" false), detailed := (← boolD j "detailed" false),
         action := (← boolD j "action" false), noHooks := (← boolD j "no_hooks" false),
         emitter := (← optStr j "emitter"), anonymous := (← boolD j "anonymous" false) }

def callableJson (c : Callable) : Json :=
  Json.mkObj ([("klass", Json.str (klassStr c.klass)), ("tag", Json.str c.tag), ("name", jstr c.name),
    ("retval", returnJson c.retval), ("params", Json.arr (c.params.map paramJson).toArray),
    ("instance", match c.instanceParam with | some p => paramJson p | none => Json.null),
    ("throws", Json.bool c.throws), ("version", jo c.version), ("skip", Json.bool c.skip),
    ("introspectable", Json.bool c.introspectable), ("deprecated", jo c.deprecated), ("stability", jo c.stability),
    ("finish_func", jo c.finishFunc), ("sync_func", jo c.syncFunc), ("async_func", jo c.asyncFunc),
    ("symbol", jo c.symbol), ("shadowed_by", jo c.shadowedBy), ("shadows", jo c.shadows), ("moved_to", jo c.movedTo),
    ("set_property", jo c.setProperty), ("get_property", jo c.getProperty), ("invoker", jo c.invoker),
    ("ctype", jo c.ctype), ("when", jo c.when), ("no_recurse", Json.bool c.noRecurse),
    ("detailed", Json.bool c.detailed), ("action", Json.bool c.action), ("no_hooks", Json.bool c.noHooks),
    ("emitter", jo c.emitter)] ++ docsJson c.docs)

def memberOf (j : Json) : Except String Member := do
  let b ← j.getObjVal? "body"
  let k ← (← b.getObjVal? "k").getStr?
  let body ← match k with
    | "typed" => do pure (MemberBody.typed (← tyOf (← b.getObjVal? "type")))
    | "callback" => do pure (MemberBody.callback (← callableOf (← b.getObjVal? "callable")))
    | "anon" => do pure (MemberBody.anon (← (← b.getObjVal? "tag").getStr?))
    | _ => throw s!"unknown member body {k}"
  pure { name := (← optStr j "name"), body := body, readable := (← boolD j "readable" true),
         writable := (← boolD j "writable" false), bits := (← optStr j "bits"), isPrivate := (← boolD j "private" false),
         version := (← optStr j "version"), skip := (← boolD j "skip" false),
         introspectable := (← boolD j "introspectable" true), deprecated := (← optStr j "deprecated"),
         stability := (← optStr j "stability"), docs := (← docsOf j) }

def memberJson (m : Member) : Json :=
  Json.mkObj ([("name", jo m.name),
    ("body", match m.body with
      | .typed t => Json.mkObj [("k", "typed"), ("type", tyJson t)]
      | .callback cb => Json.mkObj [("k", "callback"), ("callable", callableJson cb)]
      | .anon tag => Json.mkObj [("k", "anon"), ("tag", Json.str tag)]),
    ("readable", Json.bool m.readable), ("writable", Json.bool m.writable), ("bits", jo m.bits),
    ("private", Json.bool m.isPrivate), ("version", jo m.version), ("skip", Json.bool m.skip),
    ("introspectable", Json.bool m.introspectable), ("deprecated", jo m.deprecated), ("stability", jo m.stability)]
    ++ docsJson m.docs)

def membersOf (j : Json) (k : String) : Except String (List Member) := do
  (← (← j.getObjVal? k).getArr?).toList.mapM memberOf

def xmlListJson (l : List Xml) : Json := Json.arr (l.map xmlJson).toArray
def memberListJson (l : List Member) : Json := Json.arr (l.map memberJson).toArray

def handle (op : String) : Option Handler :=
  match op with
  | "c07.write_type" => some fun j => do
      pure (exJson xmlJson (writeType (← strOf j "ns") (← namesOf j "parent") (← tyOf (← j.getObjVal? "type"))))
  | "c07.parse_type" => some fun j => do
      -- the children of the enclosing element, then the array-length pass with `siblings`
      let kids ← (← (← j.getObjVal? "kids").getArr?).toList.mapM xmlOf
      let sibs ← namesOf j "siblings"
      let r := match parseType (← strOf j "ns") kids with
        | .ok t => match sibs with
          | some sib => parseTypeArrayLength sib kids t
          | none => .ok t
        | .error e => .error e
      pure (exJson tyJson r)
  | "c07.write_callable" => some fun j => do
      pure (exJson xmlJson (writeCallable (← strOf j "ns") (← callableOf (← j.getObjVal? "callable"))))
  | "c07.parse_callable" => some fun j => do
      pure (exJson callableJson (parseCallable (← strOf j "ns") (← klassOf (← (← j.getObjVal? "klass").getStr?))
        (← xmlOf (← j.getObjVal? "xml"))))
  | "c07.cycle_callable" => some fun j => do
      -- write, parse back, write again: the three results
      let ns ← strOf j "ns"
      let c ← callableOf (← j.getObjVal? "callable")
      let w1 := writeCallable ns c
      let p := match w1 with
        | .ok x => parseCallable ns c.klass x
        | .error e => .error e
      let w2 := match p with
        | .ok c' => writeCallable ns c'
        | .error e => .error e
      pure (Json.mkObj [("w1", exJson xmlJson w1), ("parsed", exJson callableJson p), ("w2", exJson xmlJson w2)])
  | "c07.check_callable" => some fun j => do
      -- the hypotheses and the conclusions of the round-trip / fixed-point theorems, evaluated
      let ns ← strOf j "ns"
      let c ← callableOf (← j.getObjVal? "callable")
      let w1 := writeCallable ns c
      let p := match w1 with
        | .ok x => parseCallable ns c.klass x
        | .error e => .error e
      let w2 := match p with
        | .ok c' => writeCallable ns c'
        | .error e => .error e
      let rt := match p with
        | .ok c' => c' == canonCallable c
        | .error _ => false
      let fix := match w1, w2 with
        | .ok a, .ok b => (xmlJson a).compress == (xmlJson b).compress
        | _, _ => false
      let reasons : List String :=
        (if wfReturn ns c.retval then [] else ["retval"]) ++
        (if c.params.all (wfParam ns) then [] else ["param"]) ++
        (if wfDocs true c.docs then [] else ["docs"]) ++
        (if klassFields c then [] else ["klass-fields"]) ++
        (match c.instanceParam with
          | none => []
          | some q => if wfParam ns q && q.closureName.isNone && q.destroyName.isNone && (tyLength q.ty).isNone
                      then [] else ["instance-parameter"])
      pure (Json.mkObj [("wf", Json.bool (wfCallable ns c)), ("canonical", Json.bool (canonCallable c == c)),
        ("write_ok", Json.bool (match w1 with | .ok _ => true | .error _ => false)),
        ("roundtrip", Json.bool rt), ("fixpoint", Json.bool fix),
        ("not_wf", Json.arr (reasons.map Json.str).toArray)])
  | "c07.write_param" => some fun j => do
      let names := ((← namesOf j "names").getD [])
      pure (exJson xmlJson (writeParam (← strOf j "ns") names (← (← j.getObjVal? "nodename").getStr?)
        (← paramOf (← j.getObjVal? "param"))))
  | "c07.parse_param" => some fun j => do
      pure (exJson paramJson (parseParam (← strOf j "ns") (← xmlOf (← j.getObjVal? "xml"))))
  | "c07.cycle_members" => some fun j => do
      -- the members of a record / union: write, parse back (with the array-length loop), write again
      let ns ← strOf j "ns"
      let ms ← membersOf j "members"
      let w1 := writeMembers ns ms
      let p := match w1 with
        | .ok xs => parseMembers ns xs
        | .error e => .error e
      let w2 := match p with
        | .ok ms' => writeMembers ns ms'
        | .error e => .error e
      let rt := match p with
        | .ok ms' => ms' == ms.map canonMember
        | .error _ => false
      let fix := match w1, w2 with
        | .ok a, .ok b => (xmlListJson a).compress == (xmlListJson b).compress
        | _, _ => false
      pure (Json.mkObj [("w1", exJson xmlListJson w1), ("parsed", exJson memberListJson p),
        ("wf", Json.bool (ms.all (wfMember ns))), ("field_only", Json.bool (ms.all isFieldElem)),
        ("not_wf", Json.arr ((ms.filter (fun m => !wfMember ns m)).map (fun m => jo m.name)).toArray),
        ("write_ok", Json.bool (match w1 with | .ok _ => true | .error _ => false)),
        ("roundtrip", Json.bool rt), ("fixpoint", Json.bool fix)])
  | "c07.parse_members" => some fun j => do
      let kids ← (← (← j.getObjVal? "kids").getArr?).toList.mapM xmlOf
      pure (exJson memberListJson (parseMembers (← strOf j "ns") kids))
  | "c07.header_history" => some fun j => do
      -- a history of parse() calls on one reader: the header of each namespace it returns
      let docs ← (← (← j.getObjVal? "docs").getArr?).toList.mapM (fun d => do
        (← d.getArr?).toList.mapM (fun it => do
          let k ← (← it.getObjVal? "k").getStr?
          match k with
          | "include" => pure (HItem.incl (← strOf it "name") (← strOf it "version"))
          | "package" => pure (HItem.package (← strOf it "name"))
          | "c_include" => pure (HItem.cInclude (← strOf it "name"))
          | "doc_format" => pure (HItem.docFormat (← strOf it "name"))
          | _ => throw s!"unknown header item {k}"))
      let out := runHistory GIVerif.Gen.GirReaderState.parseTreeResets hInit docs
      pure (Json.arr (out.map (fun s => Json.mkObj [
        ("includes", Json.arr (s.includes.map (fun p => Json.arr #[jstr p.1, jstr p.2])).toArray),
        ("packages", Json.arr (s.packages.map jstr).toArray),
        ("c_includes", Json.arr (s.cIncludes.map jstr).toArray),
        ("doc_format", jstr s.docFormat)])).toArray)
  | "c07.show_int" => some fun j => do pure (jstr (showInt (← intOf j "n")))
  | "c07.parse_int" => some fun j => do
      pure (exJson (fun (i : Int) => toJson i) (parseInt (← strOf j "s")))
  | _ => none

end Driver.C07

def main : IO Unit := Driver.mainLoop Driver.C07.handle
