import Driver.Util
import GIVerif.Model.Shlibs

namespace Driver.C19
open Lean Driver GIVerif.Shlibs

def resultJson : Result → Json
  | .ok l => Json.mkObj [("ok", jstrs l)]
  | .unresolved l => Json.mkObj [("unresolved", jstrs l)]

def handle (op : String) : Option Handler :=
  match op with
  | "c19.match" => some fun j => do
      pure (Json.bool (matchWord (← strOf j "name") (← strOf j "word")))
  | "c19.resolve" => some fun j => do
      let files ← strListOf j "files"
      pure (resultJson (resolveSanitized (fun l => files.contains l) (← strListOf j "libs") (← strOf j "output")))
  | "c19.resolve_raw" => some fun j => do
      let files ← strListOf j "files"
      pure (resultJson (resolve (fun l => files.contains l) (← strListOf j "libs") (← strOf j "output")))
  | "c19.resolve_shlibs" => some fun j => do
      let files ← strListOf j "files"
      let names ← strListOf j "la_names"
      let datas ← strListOf j "la_datas"
      let tbl := names.zip datas
      let look := fun (l : List Char) => ((tbl.find? (fun p => p.1 == l)).map (·.2)).getD []
      pure (resultJson (resolveShlibs (fun l => files.contains l) look (← strListOf j "libs") (← strOf j "output")))
  | "c19.dlname" => some fun j => do
      pure (jopt jstr (extractLibtoolShlib (← strOf j "data")))
  | _ => none

end Driver.C19

def main : IO Unit := Driver.mainLoop Driver.C19.handle
