import Driver.Util
import GIVerif.Model.Shlibs

namespace Driver.C19
open Lean Driver GIVerif.Shlibs

def resultJson : Result → Json
  | .ok l => Json.mkObj [("ok", jstrs l)]
  | .unresolved l => Json.mkObj [("unresolved", jstrs l)]

def handle (op : String) : Option Handler :=
  match op with
  | "c19.match" => some fun j => do
      pure (Json.bool (matchWord (← strOf j "name") (← strOf j "word")))
  | "c19.resolve" => some fun j => do
      let files ← strListOf j "files"
      pure (resultJson (resolveSanitized (fun l => files.contains l) (← strListOf j "libs") (← strOf j "output")))
  | "c19.resolve_raw" => some fun j => do
      let files ← strListOf j "files"
      pure (resultJson (resolve (fun l => files.contains l) (← strListOf j "libs") (← strOf j "output")))
  | "c19.dlname" => some fun j => do
      pure (jopt jstr (extractLibtoolShlib (← strOf j "data")))
  | _ => none

end Driver.C19

def main : IO Unit := Driver.mainLoop Driver.C19.handle
