import Driver.Util
import GIVerif.Model.IdentAnn

namespace Driver.C03
open Lean Driver GIVerif.IdentAnn GIVerif.Py

def optStr (j : Json) (k : String) : Except String (Option Str) :=
  match j.getObjVal? k with
  | .error _ => pure none
  | .ok .null => pure none
  | .ok v => do pure (some (← v.getStr?).toList)

def strD (j : Json) (k : String) : Except String Str := do
  pure ((← optStr j k).getD [])

def boolD (j : Json) (k : String) (d : Bool) : Except String Bool :=
  match j.getObjVal? k with
  | .error _ => pure d
  | .ok v => v.getBool?

def arrD (j : Json) (k : String) : Except String (List Json) :=
  match j.getObjVal? k with
  | .error _ => pure []
  | .ok .null => pure []
  | .ok v => do pure (← v.getArr?).toList

def strsD (j : Json) (k : String) : Except String (List Str) := do
  (← arrD j k).mapM (fun x => do pure (← x.getStr?).toList)

def optS (v : Json) : Except String (Option Str) :=
  match v with
  | .null => pure none
  | v => do pure (some (← v.getStr?).toList)

def tagOf (j : Json) (k : String) : Except String (Option Tag) :=
  match j.getObjVal? k with
  | .error _ => pure none
  | .ok .null => pure none
  | .ok v => do
    let a ← v.getArr?
    pure (some { value := ← optS (a.getD 0 .null), description := ← optS (a.getD 1 .null) })

def blockOf (j : Json) : Except String (Str × Block) := do
  let key ← strOf j "key"
  let anns ← (← arrD j "anns").mapM (fun a => do
    let p ← a.getArr?
    let nm := (← (p.getD 0 .null).getStr?).toList
    let opts ← (← (p.getD 1 .null).getArr?).toList.mapM (fun x => do pure (← x.getStr?).toList)
    pure (nm, opts))
  let attributes ← match j.getObjVal? "attributes" with
    | .error _ => pure none
    | .ok .null => pure none
    | .ok v => do
      let l ← (← v.getArr?).toList.mapM (fun a => do
        let p ← a.getArr?
        pure ((← (p.getD 0 .null).getStr?).toList, ← optS (p.getD 1 .null)))
      pure (some l)
  pure (key, { description := ← optStr j "description", anns, attributes,
               since := ← tagOf j "since", deprecated := ← tagOf j "deprecated", stability := ← tagOf j "stability" })

def natD (j : Json) (k : String) : Nat :=
  match j.getObjVal? k >>= Json.getNat? with | .ok n => n | .error _ => 0

def methodOf (j : Json) : Except String Method := do
  pure { symbol := ← strD j "symbol", name := ← strD j "name", ret := ← strD j "ret", nparams := natD j "nparams" }

def methodsD (j : Json) (k : String) : Except String (List Method) := do
  (← arrD j k).mapM methodOf

def kindOf : String → Kind
  | "alias" => .alias | "function" => .function | "callback" => .callback | "klass" => .klass
  | "interface" => .interface | "record" => .record | "union" => .union | "enum" => .enum
  | "bitfield" => .bitfield | "constant" => .constant | _ => .other

def nodeOf (j : Json) : Except String Node := do
  let kind := kindOf (← (← j.getObjVal? "kind").getStr?)
  let props ← (← arrD j "props").mapM (fun p => do
    pure ({ name := ← strD p "name", readable := ← boolD p "readable" true, writable := ← boolD p "writable" true,
            constructOnly := ← boolD p "construct_only" false, isBool := ← boolD p "is_bool" false,
            default := ← optStr p "default" } : PropInfo))
  let vslots ← (← arrD j "vslots").mapM (fun v => do
    pure ({ name := ← strD v "name", ret := ← strD v "ret",
            nparams := natD v "nparams" } : VSlot))
  pure { kind, ctype := ← optStr j "ctype", gtypeName := ← optStr j "gtype", cName := ← strD j "cname",
         symbol := ← strD j "symbol", name := ← strD j "name", members := ← strsD j "members",
         fields := ← strsD j "fields", cbFields := ← strsD j "cb_fields", props, sigs := ← strsD j "sigs", structAnn := ← optStr j "struct_ann",
         vslots, methods := ← methodsD j "methods", ctors := ← methodsD j "ctors", statics := ← methodsD j "statics" }

def blocksFn (l : List (Str × Block)) : Blocks := fun k => (l.find? (fun p => p.1 = k)).map (·.2)

def pairsJson (l : List (Str × Str)) : Json :=
  Json.arr (l.map (fun p => Json.arr #[jstr p.1, jstr p.2])).toArray

def recJson (k : WKind) (e : Elem) (sh sb : Option Str) : Json :=
  let ch := writeChildren e
  Json.mkObj [("attrs", pairsJson (writeAttrs k true e sh sb)), ("attributes", pairsJson ch.1),
              ("docs", pairsJson ch.2),
              ("flags", Json.mkObj [("constructor", Json.bool e.isConstructor), ("method", Json.bool e.isMethod),
                                    ("foreign", Json.bool e.foreign), ("skip", Json.bool e.skip)])]

def wkindOf : Kind → WKind
  | .alias => .alias | .function => .function | .callback => .callback | .klass => .klass
  | .interface => .interface | .record => .record | .union => .union | .enum => .enum | .bitfield => .enum
  | .constant => .constant | .other => .alias

def errJson : Err → Json
  | .indexError => Json.mkObj [("error", Json.str "IndexError")]
  | .attributeError => Json.mkObj [("error", Json.str "AttributeError")]

def resultJson (ns : List Node) : Except Err Result → Json
  | .error e => errJson e
  | .ok r =>
    let nodes := (ns.zip r.nodes).map (fun p =>
      let n := p.1
      let o := p.2
      Json.mkObj [("self", recJson (wkindOf n.kind) o.self none none),
                  ("members", Json.arr (o.members.map (fun e => recJson .member e none none)).toArray),
                  ("fields", Json.arr ((n.fields.zip o.fields).map (fun fe =>
                      recJson (if n.cbFields.contains fe.1 then .callbackField else .field) fe.2 none none)).toArray),
                  ("props", Json.arr (o.props.map (fun e => recJson .property e none none)).toArray),
                  ("sigs", Json.arr (o.sigs.map (fun e => recJson .signal e none none)).toArray),
                  ("vfuncs", Json.arr (o.vfuncs.map (fun v =>
                      Json.arr #[jstr v.1, recJson .vfunc v.2 none none])).toArray)])
    let funcs := r.funcs.map (fun f =>
      Json.mkObj [("symbol", jstr f.m.symbol), ("name", jstr f.m.name),
                  ("rec", recJson .function f.elem f.shadows f.shadowedBy),
                  ("shadows", jopt jstr f.shadows), ("shadowed_by", jopt jstr f.shadowedBy)])
    Json.mkObj [("nodes", Json.arr nodes.toArray), ("funcs", Json.arr funcs.toArray)]

def handle (op : String) : Option Handler :=
  match op with
  | "c03.annotate" => some fun j => do
      let blocks ← (← arrD j "blocks").mapM blockOf
      let ns ← (← arrD j "nodes").mapM nodeOf
      pure (resultJson ns (annotateAll (blocksFn blocks) ns))
  | "c03.key" => some fun j => do
      let kind ← (← j.getObjVal? "kind").getStr?
      let a ← strD j "ann"
      let n ← strD j "name"
      pure (jstr (match kind with
        | "prop" => keyProp a n | "sig" => keySig a n | "field" => keyField a n | "vfunc" => keyVfunc a n
        | "section" => keySection a | _ => a))
  | "c03.annotation_name" => some fun j => do
      let n ← nodeOf j
      pure (Json.arr #[jstr (annotationName n), jstr (recordEarlyName n)])
  | "c03.rename" => some fun j => do
      let fs ← methodsD j "funcs"
      let reqs ← (← arrD j "reqs").mapM (fun a => do
        let p ← a.getArr?
        pure ((← (p.getD 0 .null).getStr?).toList, (← (p.getD 1 .null).getStr?).toList))
      let st := renameFold (nameOfIn fs) reqs
      pure (Json.arr (fs.map (fun f => Json.arr #[jstr f.symbol, jopt jstr (st.shadows f.symbol),
                                                  jopt jstr (st.shadowedBy f.symbol)])).toArray)
  | _ => none

end Driver.C03

def main : IO Unit := Driver.mainLoop Driver.C03.handle
