import Driver.Util
import GIVerif.Model.Repo

namespace Driver.C17
open Lean Driver GIVerif.Repo GIVerif.Py

def optStrOf (j : Json) (k : String) : Except String (Option (List Char)) :=
  match j.getObjVal? k with
  | .error _ => pure none
  | .ok Json.null => pure none
  | .ok v => do pure (some (← v.getStr?).toList)

def arrOf (j : Json) (k : String) : Except String (List Json) := do
  pure (← (← j.getObjVal? k).getArr?).toList

def hdrOf (j : Json) : Except String Hdr := do
  pure ⟨← strOf j "ns", ← strOf j "ver", ← strListOf j "deps"⟩

def fsOf (j : Json) : Except String FS := do
  (← arrOf j "fs").mapM fun d => do
    let es ← (← arrOf d "entries").mapM fun e => do
      pure (⟨← strOf e "name", ← hdrOf e⟩ : Entry)
    pure (← strOf d "dir", es)

def errJson : Err → Json
  | .notFound => Json.mkObj [("err", Json.num GIVerif.Gen.Repo.errTypelibNotFound)]
  | .mismatch => Json.mkObj [("err", Json.num GIVerif.Gen.Repo.errNamespaceMismatch)]
  | .versionConflict => Json.mkObj [("err", Json.num GIVerif.Gen.Repo.errVersionConflict)]
  | .abort => Json.mkObj [("err", Json.str "abort")]
  | .crash => Json.mkObj [("err", Json.str "crash")]
  | .fuel => Json.mkObj [("err", Json.str "fuel")]

/-- result of a require: identity and namespace of the typelib plus what the repository
    reports for that namespace right after the call (as the C driver prints it) -/
def resJson (r : Repo × Except Err Typelib) : Json :=
  match r.2 with
  | .ok tl => Json.mkObj [("ok", Json.arr #[Json.num tl.id, jstr tl.hdr.ns,
      jopt jstr (getVersion r.1 tl.hdr.ns), jopt jstr (getTypelibPath r.1 tl.hdr.ns)])]
  | .error e => errJson e

def listJson (l : List Str) : Json := Json.mkObj [("list", jstrs l)]
def valJson (v : Option Str) : Json := Json.mkObj [("val", jopt jstr v)]

/-- execute one call; returns the new state and the reported result -/
def execOp (fs : FS) (fuel : Nat) (s : Repo) (o : Json) : Except String (Repo × Json) := do
  let k ← (← o.getObjVal? "k").getStr?
  match k with
  | "prepend" =>
    let d ← strOf o "dir"
    pure (step fs fuel s (.prepend d), Json.mkObj [("val", Json.str "done")])
  | "require" =>
    let r := require fs fuel s (← strOf o "ns") (← optStrOf o "ver") (← boolOf o "lazy")
    pure (r.1, resJson r)
  | "require_private" =>
    let r := requirePrivate fs fuel s (← strOf o "dir") (← strOf o "ns") (← optStrOf o "ver") (← boolOf o "lazy")
    pure (r.1, resJson r)
  | "load" =>
    let r := loadTypelib fs fuel s (← hdrOf o) (← boolOf o "lazy")
    pure (r.1, match r.2 with
      | .ok tl => Json.mkObj [("okns", jstr tl.hdr.ns)]
      | .error e => errJson e)
  | "loaded" => pure (s, listJson (getLoadedNamespaces s))
  | "version" => pure (s, valJson (getVersion s (← strOf o "ns")))
  | "path" => pure (s, valJson (getTypelibPath s (← strOf o "ns")))
  | "ideps" =>
    pure (s, match getImmediateDependencies s (← strOf o "ns") with
      | some l => listJson l
      | none => valJson none)
  | "deps" =>
    pure (s, match getDependencies s fuel (← strOf o "ns") with
      | some l => listJson l
      | none => valJson none)
  | "versions" => pure (s, listJson (enumerateVersionsQuery fs s (← strOf o "ns")))
  | "is_registered" =>
    pure (s, Json.mkObj [("val", Json.str (if isRegistered s (← strOf o "ns") (← optStrOf o "ver") then "true" else "false"))])
  | "search_path" => pure (s, listJson s.searchPath)
  | _ => throw s!"unknown call {k}"

def execAll (fs : FS) (fuel : Nat) : Repo → List Json → List Json → Except String (List Json)
  | _, [], acc => pure acc.reverse
  | s, o :: os, acc => do
    let (s', r) ← execOp fs fuel s o
    -- a g_assert failure / NULL dereference ends the process
    match r.getObjVal? "err" with
    | .ok (Json.str _) => pure (r :: acc).reverse
    | _ => execAll fs fuel s' os (r :: acc)

def intPairJson (p : Int × Int) : Json := Json.arr #[Json.num p.1, Json.num p.2]

def handle (op : String) : Option Handler :=
  match op with
  | "c17.history" => some fun j => do
      let fs ← fsOf j
      let env ← optStrOf j "env"
      let s0 := Repo.init (initSearchPath env (← strOf j "libdir"))
      let out ← execAll fs (← natOf j "fuel") s0 (← arrOf j "ops") []
      pure (Json.arr out.toArray)
  | "c17.strtol" => some fun j => do
      let r := strtol (← strOf j "s")
      pure (Json.arr #[Json.num r.1, jstr r.2])
  | "c17.parse_version" => some fun j => do
      pure (jopt intPairJson (parseVersion (← strOf j "v")))
  | "c17.compare_version" => some fun j => do
      pure (jopt (fun (i : Int) => Json.num i) (compareVersion (← strOf j "a") (← strOf j "b")))
  | "c17.entry_version" => some fun j => do
      pure (jopt jstr (entryVersion (← strOf j "ns") (← strOf j "name")))
  | "c17.split_dep" => some fun j => do
      pure (jopt (fun (p : Str × Str) => Json.arr #[jstr p.1, jstr p.2]) (splitDep (← strOf j "d")))
  | _ => none

end Driver.C17

def main : IO Unit := Driver.mainLoop Driver.C17.handle
