import Driver.Util
import GIVerif.Model.ParamAnn

namespace Driver.C01
open Lean Driver GIVerif.ParamAnn

abbrev S := List Char

def optStr (j : Json) (k : String) : Except String (Option S) :=
  match j.getObjVal? k with
  | .ok Json.null => pure none
  | .ok v => do pure (some (← v.getStr?).toList)
  | .error _ => pure none

def optBool (j : Json) (k : String) : Except String Bool :=
  match j.getObjVal? k with
  | .ok v => v.getBool?
  | .error _ => pure false

def parseDir (o : Option S) : Except String Dir :=
  match o with
  | none => pure .unset
  | some s =>
    if s == "in".toList then pure .in_
    else if s == "out".toList then pure .out
    else if s == "inout".toList then pure .inout
    else throw s!"bad direction {String.ofList s}"

def parseCls (j : Json) : Except String TClass := do
  let c ← (← j.getObjVal? "cls").getStr?
  match c with
  | "none" => pure .none
  | "class" => pure .klass
  | "interface" => pure .iface
  | "record" => pure .record
  | "union" => pure .union
  | "boxed" => pure .boxed
  | "enum" => pure .enum
  | "flags" => pure .flags
  | "callback" => pure (.callback ((← optStr j "cb").getD []))
  | "fund" => pure (.fund ((← optStr j "afund").getD []) (← optStr j "actype"))
  | "other" => pure .other
  | x => throw s!"bad cls {x}"

def parseInfo (j : Json) : Except String TInfo := do
  pure { ctype := ← optStr j "ctype", cctype := ← optStr j "cctype", isConst := ← optBool j "const",
         retDef := ← optStr j "retdef" }

partial def parseTy (j : Json) : Except String Ty := do
  let t ← (← j.getObjVal? "t").getStr?
  match t with
  | "varargs" => pure .varargs
  | "leaf" => pure (.leaf (← optStr j "fund") (← optStr j "giname") (← parseCls j) (← parseInfo j))
  | "array" =>
    let size ← match j.getObjVal? "size" with
      | .ok Json.null => pure none
      | .ok v => do pure (some (← v.getInt?))
      | .error _ => pure none
    pure (.array (← strOf j "kind") (← parseTy (← j.getObjVal? "elem")) (← optBool j "zt") size
            (← optStr j "length") (← parseInfo j))
  | "list" => pure (.list (← optStr j "name") (← parseTy (← j.getObjVal? "elem")) (← parseInfo j))
  | "map" => pure (.map (← parseTy (← j.getObjVal? "k")) (← parseTy (← j.getObjVal? "v")) (← parseInfo j))
  | x => throw s!"bad type kind {x}"

def parsePairs (j : Json) : Except String (List (S × S)) := do
  let a ← j.getArr?
  a.toList.mapM (fun kv => do
    let p ← kv.getArr?
    match p.toList with
    | [k, v] => pure ((← k.getStr?).toList, (← v.getStr?).toList)
    | _ => throw "pair expected")

def parseNode (isRet : Bool) (j : Json) : Except String Node := do
  pure { name := (← optStr j "name").getD [], isRet := isRet, dir := ← parseDir (← optStr j "dir"),
         callerAllocates := ← optBool j "ca", transfer := ← optStr j "transfer",
         nullable := ← optBool j "nullable", notNullable := ← optBool j "notNullable",
         optional := ← optBool j "optional", skip := ← optBool j "skip",
         scope := ← optStr j "scope", closure := ← optStr j "closure", destroy := ← optStr j "destroy",
         attrs := ← (match j.getObjVal? "attrs" with | .ok v => parsePairs v | .error _ => pure []),
         ty := ← parseTy (← j.getObjVal? "ty") }

def parseOptList (j : Json) : Except String (List S) := do
  match j with
  | Json.null => pure []
  | _ =>
    let a ← j.getArr?
    a.toList.mapM (fun x => do pure (← x.getStr?).toList)

def parseOptDict (j : Json) : Except String (List (S × Option S)) := do
  match j with
  | Json.null => pure []
  | _ =>
    let a ← j.getArr?
    a.toList.mapM (fun kv => do
      let p ← kv.getArr?
      match p.toList with
      | [k, Json.null] => pure ((← k.getStr?).toList, none)
      | [k, v] => pure ((← k.getStr?).toList, some (← v.getStr?).toList)
      | _ => throw "pair expected")

/-- annotations of one part: a JSON array of [name, options] in comment order -/
def parseAnns (j : Json) : Except String Anns := do
  let a ← j.getArr?
  a.toList.foldlM (fun (acc : Anns) (e : Json) => do
    let p ← e.getArr?
    match p.toList with
    | [n, o] =>
      let name ← n.getStr?
      match name with
      | "allow-none" => pure { acc with allowNone := some (← parseOptList o) }
      | "nullable" => pure { acc with nullable := some (← parseOptList o) }
      | "optional" => pure { acc with optional := some (← parseOptList o) }
      | "not" => pure { acc with not_ := some (← parseOptList o) }
      | "in" => pure { acc with in_ := some (← parseOptList o) }
      | "out" => pure { acc with out := some (← parseOptList o) }
      | "inout" => pure { acc with inout := some (← parseOptList o) }
      | "skip" => pure { acc with skip := some (← parseOptList o) }
      | "transfer" => pure { acc with transfer := some (← parseOptList o) }
      | "type" => pure { acc with type_ := some (← parseOptList o) }
      | "element-type" => pure { acc with elementType := some (← parseOptList o) }
      | "scope" => pure { acc with scope := some (← parseOptList o) }
      | "closure" => pure { acc with closure := some (← parseOptList o) }
      | "destroy" => pure { acc with destroy := some (← parseOptList o) }
      | "array" => pure { acc with array := some (← parseOptDict o) }
      | "attributes" => pure { acc with attributes := some (← parseOptDict o) }
      | other => pure { acc with others := acc.others ++ [other.toList] }
    | _ => throw "annotation pair expected") Anns.empty

def parseDoc (j : Json) : Except String (Option Doc) := do
  match j with
  | Json.null => pure none
  | _ =>
    let ps ← (← j.getObjVal? "params").getArr?
    let params ← ps.toList.mapM (fun e => do
      let p ← e.getArr?
      match p.toList with
      | [n, a] => pure ((← n.getStr?).toList, ← parseAnns a)
      | _ => throw "doc param pair expected")
    let ret ← match j.getObjVal? "ret" with
      | .ok Json.null => pure none
      | .ok v => do pure (some (← parseAnns v))
      | .error _ => pure none
    pure (some { params := params, ret := ret })

def parseKind (s : String) : Except String CKind :=
  match s with
  | "function" => pure .function
  | "callback" => pure .callback
  | "vfunc" => pure .vfunc
  | "signal" => pure .signal
  | x => throw s!"bad kind {x}"

def parseEnv (j : Json) : Except String Env := do
  let a ← j.getArr?
  a.toList.mapM (fun e => do
    let p ← e.getArr?
    match p.toList with
    | [k, Json.null] => pure ((← k.getStr?).toList, none)
    | [k, v] => pure ((← k.getStr?).toList, some (← parseTy v))
    | _ => throw "env pair expected")

def parseLate (j : Json) : Except String Late := do
  let a ← j.getArr?
  a.toList.mapM (fun e => do
    let p ← e.getArr?
    match p.toList with
    | [k, Json.null] => pure ((← k.getStr?).toList, none)
    | [k, v] => pure ((← k.getStr?).toList, some (((← optStr v "giname").getD []), ← parseCls v))
    | _ => throw "late pair expected")

def parseCallable (j : Json) : Except String Callable := do
  let kind ← parseKind (← (← j.getObjVal? "kind").getStr?)
  let inst ← match j.getObjVal? "inst" with
    | .ok Json.null => pure none
    | .ok v => do pure (some (← parseNode false v))
    | .error _ => pure none
  let ps ← (← j.getObjVal? "params").getArr?
  let params ← ps.toList.mapM (parseNode false)
  let ret ← parseNode true (← j.getObjVal? "ret")
  pure { kind := kind, inst := inst, params := params, ret := ret }

def jpairs (l : List (S × S)) : Json :=
  Json.arr (l.map (fun kv => Json.arr #[jstr kv.1, jstr kv.2])).toArray

partial def xtypeJson (t : XType) : Json :=
  Json.mkObj [("tag", jstr t.tag), ("attrs", jpairs t.attrs), ("children", Json.arr (t.children.map xtypeJson).toArray)]

def xnodeJson (n : XNode) : Json :=
  Json.mkObj [("attrs", jpairs n.attrs), ("attributes", jpairs n.attributes), ("ty", xtypeJson n.ty)]

def posJson : Pos → Json
  | .ann p => Json.arr #[Json.str "ann", jstr p]
  | .part p => Json.arr #[Json.str "part", jstr p]
  | .nowhere => Json.arr #[Json.str "nowhere"]
  | .parent => Json.arr #[Json.str "parent"]
  | .block => Json.arr #[Json.str "block"]
  | .owner => Json.arr #[Json.str "owner"]

def warningJson (w : Warning) : Json := Json.mkObj [("ann", jstr w.ann), ("pos", posJson w.pos)]

def failJson : Fail → Json
  | .fatal w => Json.mkObj [("fatal", jstr w)]
  | .raises w => Json.mkObj [("raises", jstr w)]

def handle (op : String) : Option Handler :=
  match op with
  | "c01.run" => some fun j => do
      let ns ← strOf j "ns"
      let env ← parseEnv (← j.getObjVal? "env")
      let c ← parseCallable j
      let doc ← parseDoc (← j.getObjVal? "doc")
      let split ← optBool j "split"
      let late ← (match j.getObjVal? "late" with | .ok v => parseLate v | .error _ => pure [])
      match run ns env late c doc split with
      | .ok (w, ws) =>
        pure (Json.mkObj [("ok", Json.mkObj [
          ("ret", xnodeJson w.ret), ("inst", jopt xnodeJson w.inst),
          ("params", Json.arr (w.params.map xnodeJson).toArray), ("throws", Json.bool w.throws),
          ("warnings", Json.arr (ws.map warningJson).toArray)])])
      | .error f =>
        -- the parse-time warnings are emitted before anything can fail
        pure (Json.mkObj [("fail", failJson f),
                          ("warnings", Json.arr ((validateDoc doc).map warningJson).toArray)])
  | "c01.validate" => some fun j => do
      let a ← parseAnns (← j.getObjVal? "anns")
      let isTag ← optBool j "tag"
      let ws := validatePart (if isTag then GIVerif.Gen.ParamAnn.tagValidate else GIVerif.Gen.ParamAnn.paramValidate)
        "p".toList a
      pure (Json.arr (ws.map warningJson).toArray)
  | "c01.pyint" => some fun j => do
      pure (match pyInt? (← strOf j "s") with | some n => Json.num n | none => Json.null)
  | _ => none

end Driver.C01

def main : IO Unit := Driver.mainLoop Driver.C01.handle
