import Driver.Util
import GIVerif.Model.InfoAccess

namespace Driver.C09
open Lean Driver GIVerif.InfoAccess

def hexVal (c : Char) : Option UInt8 :=
  if '0' ≤ c && c ≤ '9' then some (c.toNat - '0'.toNat).toUInt8
  else if 'a' ≤ c && c ≤ 'f' then some (c.toNat - 'a'.toNat + 10).toUInt8
  else if 'A' ≤ c && c ≤ 'F' then some (c.toNat - 'A'.toNat + 10).toUInt8
  else none

def hexToBytes (s : List Char) : Except String ByteArray :=
  let rec go : List Char → ByteArray → Except String ByteArray
    | [], acc => .ok acc
    | [_], _ => .error "odd number of hex digits"
    | a :: b :: rest, acc =>
      match hexVal a, hexVal b with
      | some x, some y => go rest (acc.push (x * 16 + y))
      | _, _ => .error "bad hex digit"
  go s ByteArray.empty

def natListOf (j : Json) (k : String) : Except String (List Nat) := do
  let a ← (← j.getObjVal? k).getArr?
  a.toList.mapM (fun x => x.getNat?)

def boolListOf (j : Json) (k : String) : Except String (List Bool) := do
  let a ← (← j.getObjVal? k).getArr?
  a.toList.mapM (fun x => x.getBool?)

def sizesOf (j : Json) : Except String Sizes := do
  let s ← j.getObjVal? "sizes"
  pure { entry := ← natOf s "entry", function := ← natOf s "function", callback := ← natOf s "callback",
         signal := ← natOf s "signal", vfunc := ← natOf s "vfunc", arg := ← natOf s "arg",
         property := ← natOf s "property", field := ← natOf s "field", value := ← natOf s "value",
         attrib := ← natOf s "attribute", constant := ← natOf s "constant", signature := ← natOf s "signature",
         enum_ := ← natOf s "enum", struct_ := ← natOf s "struct", object := ← natOf s "object",
         interface := ← natOf s "interface", union_ := ← natOf s "union" }

def sizesJson (S : Sizes) : Json :=
  Json.mkObj [("entry", S.entry), ("function", S.function), ("callback", S.callback), ("signal", S.signal),
    ("vfunc", S.vfunc), ("arg", S.arg), ("property", S.property), ("field", S.field), ("value", S.value),
    ("attribute", S.attrib), ("constant", S.constant), ("signature", S.signature), ("enum", S.enum_),
    ("struct", S.struct_), ("object", S.object), ("interface", S.interface), ("union", S.union_)]

/-- hasEmb for a field run laid out from `start`: true exactly at the positions of embedded fields -/
def embAt (S : Sizes) (start : Nat) (fs : List Bool) (off : Nat) : Bool :=
  (List.range fs.length).any (fun i => start + fieldsSize S (fs.take i) == off && fs.getD i false)

def handle (op : String) : Option Handler :=
  match op with
  | "c09.dump" => some fun j => do
      let t ← hexToBytes (← strOf j "hex")
      pure (Json.arr ((dumpTypelib t).map Json.str))
  | "c09.check" => some fun j => do
      let t ← hexToBytes (← strOf j "hex")
      let h := checkHyps t
      pure (Json.mkObj [("sizes_match_table", h.sizesMatchTable), ("attrs_sorted", h.attrsSorted),
        ("union_fields_plain", h.unionFieldsPlain), ("field_callbacks_counted", h.fieldCallbacksCounted),
        ("blobs_aligned", h.blobsAligned), ("no_discriminated_union", h.noDiscriminatedUnion),
        ("n_boxed", h.nBoxed),
        ("deprecated_unions", h.deprecatedUnions), ("n_objects", h.nObjects),
        ("n_odd_interface_objects", h.nOddInterfaceObjects), ("n_embedded_fields", h.nEmbeddedFields),
        ("n_attributes", h.nAttributes)])
  | "c09.table_sizes" => some fun _ => pure (sizesJson tableSizes)
  -- accessor arithmetic against the sequential layout, on abstract counts (no typelib needed):
  -- returns, per section, the list of (accessor offset, layout position) for every member
  | "c09.object_offsets" => some fun j => do
      let S ← sizesOf j
      let base ← natOf j "base"
      let nIf ← natOf j "n_interfaces"
      let fs ← boolListOf j "fields"
      let nP ← natOf j "n_properties"
      let nM ← natOf j "n_methods"
      let nS ← natOf j "n_signals"
      let nV ← natOf j "n_vfuncs"
      let nC ← natOf j "n_constants"
      let cnt : ObjCounts := ⟨nIf, fs.length, fs.count true, nP, nM, nS, nV, nC⟩
      let L := objectLayout S nIf fs cnt.nProperties cnt.nMethods cnt.nSignals cnt.nVfuncs cnt.nConstants
      let hasEmb := embAt S (base + S.object + (Sec.refs nIf).size S) fs
      let sec (k n : Nat) (f : Nat → Nat) : Json :=
        Json.arr ((List.range n).map (fun i => Json.arr #[(f i : Nat), (layoutPos S base L k i : Nat)])).toArray
      pure (Json.mkObj [
        ("interfaces", sec 1 nIf (objectInterfaceSlot base)),
        ("fields", sec 2 (fs.length + 1) (objectFieldOffset S hasEmb base cnt)),
        ("properties", sec 3 cnt.nProperties (objectPropertyOffset S base cnt)),
        ("methods", sec 4 cnt.nMethods (objectMethodOffset S base cnt)),
        ("signals", sec 5 cnt.nSignals (objectSignalOffset S base cnt)),
        ("vfuncs", sec 6 cnt.nVfuncs (objectVfuncOffset S base cnt)),
        ("constants", sec 7 cnt.nConstants (objectConstantOffset S base cnt))])
  -- attribute lookup on an abstract key table, for a given bsearch choice (index or null)
  | "c09.attr_find" => some fun j => do
      let keys ← natListOf j "keys"
      let key ← natOf j "key"
      let offs := fun i => keys.getD i 0
      let choice : Option Nat := match j.getObjVal? "choice" with
        | .ok (Json.num n) => some n.mantissa.toNat
        | _ => none
      let bs := bsearch offs key 0 keys.length
      pure (Json.mkObj [
        ("first", jopt (fun (n : Nat) => (n : Json)) (findFirst offs key choice)),
        ("iter", Json.arr ((iterAttributes offs keys.length key choice).map (fun (n : Nat) => (n : Json))).toArray),
        ("bsearch", jopt (fun (n : Nat) => (n : Json)) bs),
        ("iter_bsearch", Json.arr ((iterAttributes offs keys.length key bs).map (fun (n : Nat) => (n : Json))).toArray)])
  | "c09.type_word" => some fun j => do
      let w ← natOf j "word"
      pure (Json.mkObj [("simple", typeIsSimple w), ("tag", simpleTag w), ("pointer", simplePointer w)])
  | _ => none

end Driver.C09

def main : IO Unit := Driver.mainLoop Driver.C09.handle
