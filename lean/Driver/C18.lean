import Driver.Util
import GIVerif.Model.Cache

namespace Driver.C18
open Lean Driver GIVerif.Cache

def optNat (j : Json) (k : String) : Except String (Option Nat) :=
  match j.getObjVal? k with
  | .error _ => pure none
  | .ok Json.null => pure none
  | .ok v => do pure (some (← v.getNat?))

/-- `{"clock":c,"ver":v,"src_mtime":m,"entry":null|[data,sver,len,mtime],"stamp":null|n}` -/
def initOf (j : Json) : Except String State := do
  let i ← j.getObjVal? "init"
  let clock ← natOf i "clock"
  let ver ← natOf i "ver"
  let sm ← natOf i "src_mtime"
  let stamp ← optNat i "stamp"
  let entry ← match i.getObjVal? "entry" with
    | .error _ => pure none
    | .ok Json.null => pure none
    | .ok v => do
      let a ← v.getArr?
      match a.toList with
      | [d, sv, l, m] => pure (some ((← d.getNat?), (← sv.getNat?), (← l.getNat?), (← m.getNat?)))
      | _ => throw "entry: [data,sver,len,mtime] expected"
  pure (mkInit clock ver sm entry stamp)

def opOf : String → Except String Op
  | "store" => pure .store
  | "load" => pure .load
  | "check" => pure .check
  | s => throw s!"unknown operation {s}"

def evOf (j : Json) : Except String Ev := do
  let a ← j.getArr?
  match a.toList with
  | [Json.str "spawn", p, Json.str op, sv] => pure (.spawn (← p.getNat?) (← opOf op) (← sv.getNat?))
  | [Json.str "step", p] => pure (.step (← p.getNat?))
  | [Json.str "crash", p] => pure (.crash (← p.getNat?))
  | [Json.str "modify", Json.bool t] => pure (.modify t)
  | [Json.str "replace", m] => pure (.replace (← m.getNat?))
  | [Json.str "tick"] => pure .tick
  | _ => throw s!"bad event {j.compress}"

def opName : Op → String
  | .store => "store" | .load => "load" | .check => "check"

def evJson : Ev → Json
  | .spawn p op sv => Json.arr #[Json.str "spawn", toJson p, Json.str (opName op), toJson sv]
  | .step p => Json.arr #[Json.str "step", toJson p]
  | .crash p => Json.arr #[Json.str "crash", toJson p]
  | .modify t => Json.arr #[Json.str "modify", Json.bool t]
  | .replace m => Json.arr #[Json.str "replace", toJson m]
  | .tick => Json.arr #[Json.str "tick"]

def evsOf (j : Json) (k : String) : Except String (List Ev) := do
  let a ← (← j.getObjVal? k).getArr?
  a.toList.mapM evOf

def retJson (r : Ret) : Json :=
  Json.mkObj [("data", toJson r.data), ("sver", toJson r.sver), ("len", toJson r.len), ("entry_mtime", toJson r.entryM),
    ("src_mtime", toJson r.srcSeen), ("v_start", toJson r.vStart), ("v_end", toJson r.vEnd)]

def pcJson (pc : PC) : Json :=
  match pc with
  | .done none => Json.mkObj [("status", Json.str "done"), ("ret", Json.null)]
  | .done (some r) => Json.mkObj [("status", Json.str "done"), ("ret", retJson r)]
  | .crashed => Json.mkObj [("status", Json.str "crashed")]
  | .raised => Json.mkObj [("status", Json.str "raised")]
  | .idle => Json.mkObj [("status", Json.str "idle")]
  | pc => Json.mkObj [("status", Json.str "running"), ("next", Json.str pc.label)]

def spawned (evs : List Ev) : List Nat :=
  (evs.filterMap (fun e => match e with | .spawn p _ _ => some p | _ => none)).eraseDups

def inodeJson (n : Inode) : Json :=
  Json.arr #[toJson n.data, toJson n.sver, toJson n.len, toJson n.mtime]

def observe (s0 : State) (evs : List Ev) : Json :=
  let s := run s0 evs
  Json.mkObj [
    ("trace", Json.arr ((traceOf s0 evs).map Json.str).toArray),
    ("procs", Json.arr ((spawned evs).map (fun p => Json.arr #[toJson p, pcJson (s.procs p).pc])).toArray),
    ("entry", match s.entry with | none => Json.null | some i => inodeJson (s.inodes i)),
    ("stamp", match s.stamp with | none => Json.null | some v => toJson v),
    ("tmps", Json.arr ((s.tmps.map (fun i => inodeJson (s.inodes i)))).toArray),
    ("vtmps", toJson s.vtmps),
    ("ver", toJson s.ver),
    ("clock", toJson s.clock),
    ("distinct_mtimes", Json.bool (histDistinctMtimes s0 evs))]

/-- all maximal schedules (depth first): operations still to spawn, running processes,
    a budget of modifications and of crashes.  A load / check is spawned together with its
    first system call; the spawn of a store (= the instant its parse was read) is an event
    of its own. -/
partial def enumerate (s : State) (todo : List (Nat × Op × Nat)) (pids : List Nat)
    (mods crashes : Nat) (tick : Bool) (pre : List Ev) (acc : Array (List Ev)) (limit : Nat) :
    Array (List Ev) :=
  if acc.size ≥ limit then acc else
  let running := pids.filter (fun p => (s.procs p).pc.running)
  if running.isEmpty && todo.isEmpty then acc.push pre.reverse else
  -- spawn one of the pending operations
  let acc := todo.foldl (fun acc (t : Nat × Op × Nat) =>
    let (p, op, sv) := t
    let rest := todo.filter (· != t)
    match op with
    | .store =>
      let e := Ev.spawn p op sv
      enumerate (step s e) rest pids mods crashes tick (e :: pre) acc limit
    | _ =>
      let e1 := Ev.spawn p op sv
      let e2 := Ev.step p
      enumerate (step (step s e1) e2) rest pids mods crashes tick (e2 :: e1 :: pre) acc limit) acc
  -- a step of a running process
  let acc := running.foldl (fun acc p =>
    let e := Ev.step p
    enumerate (step s e) todo pids mods crashes tick (e :: pre) acc limit) acc
  -- a crash of a running process
  let acc := if crashes = 0 then acc else running.foldl (fun acc p =>
    let e := Ev.crash p
    enumerate (step s e) todo pids mods (crashes - 1) tick (e :: pre) acc limit) acc
  -- a modification of the source
  if mods = 0 then acc else
    let e := Ev.modify tick
    enumerate (step s e) todo pids (mods - 1) crashes tick (e :: pre) acc limit

def opsOf (j : Json) : Except String (List (Nat × Op × Nat)) := do
  let a ← (← j.getObjVal? "ops").getArr?
  a.toList.mapM (fun x => do
    let t ← x.getArr?
    match t.toList with
    | [p, Json.str op, sv] => pure ((← p.getNat?), (← opOf op), (← sv.getNat?))
    | _ => throw "ops: [pid, op, sver] expected")

def handle (op : String) : Option Handler :=
  match op with
  | "c18.run" => some fun j => do
      let s0 ← initOf j
      let evs ← evsOf j "evs"
      pure (observe s0 evs)
  | "c18.enum" => some fun j => do
      let s0 ← initOf j
      let ops ← opsOf j
      let mods ← natOf j "mods"
      let crashes ← natOf j "crashes"
      let tick ← boolOf j "tick"
      let limit ← natOf j "limit"
      let r := enumerate s0 ops (ops.map (·.1)) mods crashes tick [] #[] limit
      pure (Json.arr (r.map (fun evs => Json.arr (evs.map evJson).toArray)))
  | _ => none

end Driver.C18

def main : IO Unit := Driver.mainLoop Driver.C18.handle
