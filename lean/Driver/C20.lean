import Driver.Util
import GIVerif.Model.XmlWriter
import GIVerif.Spec.Xml

/-
  C20 driver.  Besides the model ops (`c20.escape`, `c20.quoteattr`, `c20.calc`, `c20.collect`,
  `c20.build`, `c20.run`) it exposes the SPECIFICATION reader of GIVerif/Spec/Xml.lean
  (`c20.read`, `c20.readtag`, `c20.readattr`), so that the harness can compare the reader the
  theorems are stated with against expat on the real writer's output.  Spec/Xml.lean has no
  imports, so the executable still links without Mathlib.
-/
namespace Driver.C20
open Lean Driver GIVerif.XmlWriter

def attrOf (j : Json) : Except String Attr := do
  let a ← j.getArr?
  if h : a.size = 2 then
    let k ← a[0].getStr?
    match a[1] with
    | .null => pure (k.toList, none)
    | v => pure (k.toList, some (← v.getStr?).toList)
  else throw "attribute must be [name, value|null]"

def attrsOf (j : Json) (k : String) : Except String (List Attr) := do
  let a ← (← j.getObjVal? k).getArr?
  a.toList.mapM attrOf

def optStrOf (j : Json) (k : String) : Except String (Option (List Char)) := do
  match j.getObjVal? k with
  | .ok .null => pure none
  | .ok v => pure (some (← v.getStr?).toList)
  | .error _ => pure none

def arrAt (a : Array Json) (i : Nat) : Except String Json :=
  match a[i]? with
  | some v => pure v
  | none => throw s!"missing element {i}"

def attrsOfJ (j : Json) : Except String (List Attr) := do
  (← j.getArr?).toList.mapM attrOf

partial def progOf (j : Json) : Except String Prog := do
  let a ← j.getArr?
  let kind ← (← arrAt a 0).getStr?
  match kind with
  | "push" => pure (.prim (.push (← (← arrAt a 1).getStr?).toList (← attrsOfJ (← arrAt a 2))))
  | "pop" => pure (.prim .pop)
  | "tag" =>
    let d ← arrAt a 3
    let data ← (match d with
      | .null => pure none
      | v => do pure (some (← v.getStr?).toList) : Except String (Option (List Char)))
    pure (.prim (.tag (← (← arrAt a 1).getStr?).toList (← attrsOfJ (← arrAt a 2)) data))
  | "comment" => pure (.prim (.comment (← (← arrAt a 1).getStr?).toList))
  | "line" =>
    pure (.prim (.line (← (← arrAt a 1).getStr?).toList (← (← arrAt a 2).getBool?) (← (← arrAt a 3).getBool?)))
  | "ws" => pure (.prim (if (← (← arrAt a 1).getBool?) then .enableWs else .disableWs))
  | "raise" => pure .raise
  | "ctx" =>
    let body ← (← (← arrAt a 3).getArr?).toList.mapM progOf
    pure (.ctx (← (← arrAt a 1).getStr?).toList (← attrsOfJ (← arrAt a 2)) body)
  | k => throw s!"unknown statement {k}"

def jpairs (l : List (List Char × List Char)) : Json :=
  Json.arr (l.map (fun p => Json.arr #[jstr p.1, jstr p.2])).toArray

/-- items as JSON; runs of `.ch` are merged into one text entry -/
def itemsJson (items : List GIVerif.Xml.Item) : Json :=
  let rec go (acc : Array Json) (txt : List Char) : List GIVerif.Xml.Item → Array Json
    | [] => if txt.isEmpty then acc else acc.push (Json.arr #["text", jstr txt.reverse])
    | .ch c :: rest => go acc (c :: txt) rest
    | it :: rest =>
      let acc := if txt.isEmpty then acc else acc.push (Json.arr #["text", jstr txt.reverse])
      let j := match it with
        | .start n a => Json.arr #["start", jstr n, jpairs a]
        | .empty n a => Json.arr #["empty", jstr n, jpairs a]
        | .close n => Json.arr #["close", jstr n]
        | .comment t => Json.arr #["comment", jstr t]
        | .ch _ => Json.null
      go (acc.push j) [] rest
  Json.arr (go #[] [] items)

def hexOf (b : ByteArray) : String :=
  let digit (n : Nat) : Char := if n < 10 then Char.ofNat (48 + n) else Char.ofNat (87 + n)
  String.ofList (b.toList.flatMap (fun x => [digit (x.toNat / 16), digit (x.toNat % 16)]))

def handle (op : String) : Option Handler :=
  match op with
  | "c20.escape" => some fun j => do pure (jstr (escape (← strOf j "s")))
  | "c20.quoteattr" => some fun j => do pure (jstr (quoteattr (← strOf j "s")))
  | "c20.calc" => some fun j => do
      pure (Json.num (JsonNumber.fromInt
        (calcAttrsLength (← attrsOf j "attrs") (← intOf j "indent") (← intOf j "self_indent"))))
  | "c20.collect" => some fun j => do
      pure (jstr (collectAttributes (← strOf j "tag") (← attrsOf j "attrs") (← intOf j "self_indent")
        (← strOf j "indent_char") (← intOf j "indent")))
  | "c20.build" => some fun j => do
      pure (jstr (buildXmlTag (← strOf j "tag") (← attrsOf j "attrs") (← optStrOf j "data")
        (← intOf j "self_indent") (← strOf j "indent_char")))
  | "c20.run" => some fun j => do
      let body ← (← (← j.getObjVal? "prog").getArr?).toList.mapM progOf
      let r := execList init body
      let s := r.1
      pure (Json.mkObj [("xml", jstr (getXml s)), ("stack", jstrs s.tagStack.reverse),
        ("indent", Json.num (JsonNumber.fromInt s.indent)), ("errors", Json.num (JsonNumber.fromNat s.errors)),
        ("raised", Json.bool r.2),
        ("utf8", Json.str (hexOf (getEncodedXml s)))])
  | "c20.read" => some fun j => do
      match GIVerif.Xml.readDoc (← strOf j "xml") with
      | none => pure Json.null
      | some items =>
        pure (Json.mkObj [("items", itemsJson items), ("wf", Json.bool (GIVerif.Xml.wellFormedDoc items))])
  | "c20.readtag" => some fun j => do
      match GIVerif.Xml.readTag (← strOf j "xml") with
      | none => pure Json.null
      | some (n, a, d, r) =>
        pure (Json.mkObj [("name", jstr n), ("attrs", jpairs a), ("data", jopt jstr d), ("rest", jstr r)])
  | "c20.readattr" => some fun j => do
      match GIVerif.Xml.readAttrValue (← strOf j "xml") with
      | none => pure Json.null
      | some (v, r) => pure (Json.mkObj [("value", jstr v), ("rest", jstr r)])
  | _ => none

end Driver.C20

def main : IO Unit := Driver.mainLoop Driver.C20.handle
