import Driver.Util
import GIVerif.Model.Types
import GIVerif.Model.Defaults

namespace Driver.C02
open Lean Driver GIVerif.Types GIVerif.Defaults

def optStrOf (j : Json) (k : String) : Except String (Option (List Char)) :=
  match j.getObjVal? k with
  | .error _ => pure none
  | .ok Json.null => pure none
  | .ok v => do pure (some (← v.getStr?).toList)

def optBool (j : Json) (k : String) (dflt : Bool) : Bool :=
  match j.getObjVal? k >>= Json.getBool? with
  | .ok b => b
  | .error _ => dflt

def qualOf (j : Json) : Qual :=
  match j.getObjVal? "q" >>= Json.getNat? with
  | .ok n => ⟨n / 2 % 2 == 1, n / 8 % 2 == 1⟩
  | .error _ => Qual.plain

/-- the declaration JSON of harness/scanpipe.py (type trees) -/
partial def ctypeOf (j : Json) : Except String CType := do
  let k ← (← j.getObjVal? "k").getStr?
  let q := qualOf j
  match k with
  | "void" => pure (.void q)
  | "basic" => pure (.basic q (← strOf j "n"))
  | "typedef" => pure (.typedef q (← strOf j "n"))
  | "struct" | "union" | "enum" => pure (.tagged q (← strOf j "n"))
  | "ptr" => pure (.ptr q (← ctypeOf (← j.getObjVal? "to")))
  | "array" =>
    let n := match j.getObjVal? "n" >>= Json.getNat? with
      | .ok n => some n
      | .error _ => none
    pure (.array q (← ctypeOf (← j.getObjVal? "of")) n)
  | "func" => pure (.func q)
  | other => throw s!"unknown type kind {other}"

def kindJson : TKind → List (String × Json)
  | .fundamental f => [("kind", "fundamental"), ("name", jstr f)]
  | .unresolved => [("kind", "unresolved")]
  | .strv => [("kind", "strv")]
  | .list n => [("kind", "list"), ("name", jstr n)]
  | .array n e => [("kind", "array"), ("name", jstr n), ("elem", jstr e)]
  | .map => [("kind", "map")]
  | .varargs => [("kind", "varargs")]

def nodeJson (n : TypeNode) (giname : Option (List Char) := none) : Json :=
  Json.mkObj (kindJson n.kind ++
    [("ctype", jstr n.ctype), ("is_const", Json.bool n.isConst), ("complete", jstr n.complete),
     ("written", jstr (writtenCtype n)), ("giname", jopt jstr giname)])

def natOptJson : Option Nat → Json
  | some n => Json.num n
  | none => Json.null

def fieldJson (g : TypeNode → Option (List Char)) : FieldType → Json
  | .callback => Json.mkObj [("field", "callback")]
  | .array e s => Json.mkObj [("field", "array"), ("elem", nodeJson e (g e)), ("size", natOptJson s)]
  | .plain t => Json.mkObj [("field", "plain"), ("type", nodeJson t (g t))]

def transferJson : Option Transfer → Json
  | some .none => "none"
  | some .container => "container"
  | some .full => "full"
  | none => Json.null

def scopeJson : Option Scope → Json
  | some .call => "call"
  | some .async => "async"
  | some .notified => "notified"
  | some .forever => "forever"
  | none => Json.null

def errJson : PyErr → Json
  | .assertion w => Json.mkObj [("error", "AssertionError"), ("what", jstr w)]
  | .valueError w => Json.mkObj [("error", "ValueError"), ("what", jstr w)]

def aliasLinkOf (j : Json) : Except String AliasLink := do
  pure { fundamental := ← optStrOf j "fundamental", giname := ← optStrOf j "giname",
         ctype := (← optStrOf j "ctype").getD [], isConst := optBool j "is_const" false }

def targetOf (j : Json) : Except String Target := do
  let t ← (← j.getObjVal? "t").getStr?
  match t with
  | "alias" => pure (.alias (← (← (← j.getObjVal? "links").getArr?).toList.mapM aliasLinkOf))
  | "boxed" => pure .boxed
  | "compound" => pure (.compound (optBool j "registered" false))
  | "enum" => pure .enumLike
  | "class" => pure (.klass (optBool j "unowned" false))
  | "interface" => pure .interface
  | "callback" => pure .callback
  | "other" => pure .other
  | o => throw s!"unknown target {o}"

def optTargetOf (j : Json) (k : String) : Except String (Option Target) :=
  match j.getObjVal? k with
  | .error _ => pure none
  | .ok Json.null => pure none
  | .ok v => do pure (some (← targetOf v))

def tyInfoOf (j : Json) : Except String TyInfo := do
  pure { fundamental := ← optStrOf j "fundamental", giname := ← optStrOf j "giname",
         node := ← optTargetOf j "node", callbackName := ← optStrOf j "cb",
         ctype := (← optStrOf j "ctype").getD [], isConst := optBool j "is_const" false,
         isVarargs := optBool j "varargs" false }

def dirOf (j : Json) (k : String) : Except String (Option Direction) := do
  match ← optStrOf j k with
  | none => pure none
  | some s =>
    if s == "in".toList then pure (some .in_)
    else if s == "out".toList then pure (some .out)
    else if s == "inout".toList then pure (some .inout)
    else throw "bad direction"

def posOf (j : Json) : Except String Position := do
  match (← (← j.getObjVal? "pos").getStr?) with
  | "parameter" => pure .parameter
  | "return" => pure .return_
  | "field" => pure .field
  | "property" => pure .property
  | o => throw s!"bad position {o}"

def envOf (j : Json) : Except String Env := do
  match j.getObjVal? "env" with
  | .error _ => pure []
  | .ok v =>
    let a ← v.getArr?
    a.toList.mapM fun e => do
      pure { cname := ← strOf e "c", giname := ← strOf e "giname", node := ← targetOf (← e.getObjVal? "node"),
             callbackName := ← optStrOf e "cb" }

def cparamOf (j : Json) : Except String CParam := do
  if optBool j "ellipsis" false then pure .ellipsis
  else pure (.named (← optStrOf j "name") (← ctypeOf (← j.getObjVal? "type")))

def paramOutJson (p : ParamOut) : Json :=
  Json.mkObj [("name", jstr p.name), ("type", nodeJson p.node p.giname),
    ("transfer", transferJson p.transfer), ("nullable", Json.bool p.nullable), ("scope", scopeJson p.scope),
    ("closure", natOptJson p.closure), ("destroy", natOptJson p.destroy)]

def callableJson (c : CallableOut) : Json :=
  Json.mkObj [("throws", Json.bool c.throws),
    ("ret", Json.mkObj [("type", nodeJson c.retNode c.retGiname),
      ("transfer", transferJson c.retTransfer), ("nullable", Json.bool c.retNullable)]),
    ("params", Json.arr (c.params.map paramOutJson).toArray)]

def handle (op : String) : Option Handler :=
  match op with
  | "c02.canon" => some fun j => do pure (jstr (canonicalize (← strOf j "ctype")))
  | "c02.lookup" => some fun j => do pure (jopt jstr (lookup (← strOf j "key")))
  | "c02.type" => some fun j => do
      let t ← ctypeOf (← j.getObjVal? "t")
      let env ← envOf j
      let g := fun (n : TypeNode) => (resolveType env n).giname
      match (← (← j.getObjVal? "pos").getStr?) with
      | "param" => pure (nodeJson (paramType t) (g (paramType t)))
      | "return" => pure (nodeJson (returnType t) (g (returnType t)))
      | "plain" => pure (nodeJson (plainType t) (g (plainType t)))
      | o => throw s!"bad pos {o}"
  | "c02.field" => some fun j => do
      let env ← envOf j
      pure (fieldJson (fun n => (resolveType env n).giname) (createMember (← ctypeOf (← j.getObjVal? "t"))))
  | "c02.ctype_string" => some fun j => do
      pure (nodeJson (createTypeFromCtypeString (← strOf j "ctype") (optBool j "is_const" false)
        (optBool j "is_return" false) ((← optStrOf j "complete").getD [])))
  | "c02.spell" => some fun j => do
      let t ← ctypeOf (← j.getObjVal? "t")
      let p := optBool j "is_param" false
      pure (Json.mkObj [("ctype", jstr (createSourceType t p)), ("complete", jstr (createCompleteSourceType t p)),
        ("depth", Json.num (ptrDepth t p)), ("pointee_const", Json.bool (pointeeConst t))])
  | "c02.transfer" => some fun j => do
      let r := transferDefault (← posOf j) (optBool j "ctor" false) (← dirOf j "dir") (optBool j "ca" false)
        (← tyInfoOf (← j.getObjVal? "ty"))
      match r with
      | .ok t => pure (transferJson t)
      | .error e => pure (errJson e)
  | "c02.container_transfer" => some fun j => do
      pure (transferJson (typeContainerTransfer none (optBool j "is_const" false)))
  | "c02.callable" => some fun j => do
      let env ← envOf j
      let ps ← (← (← j.getObjVal? "params").getArr?).toList.mapM cparamOf
      let ret ← ctypeOf (← j.getObjVal? "ret")
      match scanCallable env (optBool j "callback" false) (optBool j "ctor" false) ps ret with
      | .ok c => pure (callableJson c)
      | .error e => pure (errJson e)
  | _ => none

end Driver.C02

def main : IO Unit := Driver.mainLoop Driver.C02.handle
