import Driver.Util
import GIVerif.Model.Order

namespace Driver.C16
open Lean Driver GIVerif.Order GIVerif.Py

def arrOf (j : Json) (k : String) : Except String (List Json) := do
  pure (← (← j.getObjVal? k).getArr?).toList

def strsOfOpt (j : Json) (k : String) : Except String (List Str) :=
  match j.getObjVal? k with
  | .ok _ => strListOf j k
  | .error _ => pure []

def jkey (k : Str × Nat × Nat) : Json := Json.arr #[jstr k.1, Json.num k.2.1, Json.num k.2.2]

def posOf (j : Json) : Except String Pos := do
  pure ⟨← strOf j "file", ← natOf j "line", ← natOf j "col", ← boolOf j "typedef"⟩

def jpos (p : Pos) : Json :=
  Json.mkObj [("file", jstr p.file), ("line", Json.num p.line), ("col", Json.num p.col), ("typedef", Json.bool p.isTypedef)]

def kindOf : String → Except String Kind
  | "alias" => pure .alias | "function" => pure .function | "function-macro" => pure .functionMacro
  | "enumeration" => pure .enum | "bitfield" => pure .bitfield | "class" => pure .klass
  | "interface" => pure .interface | "callback" => pure .callback | "record" => pure .record
  | "union" => pure .union | "glib:boxed" => pure .boxed | "constant" => pure .constant
  | "docsection" => pure .docsection | "member" => pure .member
  | s => throw s!"unknown kind {s}"

def nodeOf (j : Json) : Except String Node := do
  let kind ← kindOf (← (← j.getObjVal? "kind").getStr?)
  let poss ← match j.getObjVal? "positions" with
    | .ok _ => (← arrOf j "positions").mapM posOf
    | .error _ => pure []
  pure { kind := kind, name := ← strOf j "name",
         interfaces := ← strsOfOpt j "interfaces", constructors := ← strsOfOpt j "constructors",
         staticMethods := ← strsOfOpt j "static_methods", vfuncs := ← strsOfOpt j "vfuncs",
         methods := ← strsOfOpt j "methods", properties := ← strsOfOpt j "properties",
         fields := ← strsOfOpt j "fields", signals := ← strsOfOpt j "signals",
         members := ← strsOfOpt j "members", positions := poss }

def jelem (e : Elem) : Json :=
  Json.mkObj [("tag", jstr e.tag), ("name", jstr e.name), ("pos", jopt jkey e.pos),
              ("children", Json.arr (e.children.map (fun c => Json.arr #[jstr c.1, jstr c.2])).toArray)]

def ckindOf (j : Json) : Except String CKind := do
  match (← (← j.getObjVal? "kind").getStr?) with
  | "record" => pure .record
  | "union" => pure .union
  | s => throw s!"unknown compound kind {s}"

def symOf (j : Json) : Except String Sym := do
  let kind ← ckindOf j
  match (← (← j.getObjVal? "s").getStr?) with
  | "typedef" =>
    let tag ← match j.getObjVal? "tag" with
      | .ok (Json.str s) => pure (some s.toList)
      | _ => pure none
    pure (.typedef kind (← strOf j "ident") tag (← strsOfOpt j "fields") (← strOf j "file") (← natOf j "line"))
  | "struct" =>
    pure (.struct kind (← strOf j "tag") (← strsOfOpt j "fields") (← strOf j "file") (← natOf j "line"))
  | s => throw s!"unknown symbol {s}"

def jrec (r : Rec) : Json :=
  Json.mkObj [("kind", Json.str (match r.kind with | .record => "record" | .union => "union")),
              ("name", jstr r.name), ("ctype", jstr r.ctype), ("fields", jstrs r.fields),
              ("opaque", Json.bool r.isOpaque), ("disguised", Json.bool r.disguised),
              ("pointer", Json.bool r.pointer), ("pos", jopt jkey r.pos)]

/-- `strip_identifier` given as a table [[ident, name|null], ...]; unknown identifiers raise -/
def stripOf (j : Json) : Except String (Str → Option Str) := do
  let tbl ← (← arrOf j "strip").mapM (fun e => do
    let a ← e.getArr?
    let k ← (a[0]?.getD Json.null).getStr?
    let v := match a[1]?.getD Json.null with
      | Json.str s => some s.toList
      | _ => none
    pure (k.toList, v))
  pure (fun ident => (dictGet tbl ident).bind id)

def depOf (j : Json) : Except String DepNs := do
  let cts ← (← arrOf j "ctypes").mapM (fun e => do
    let a ← e.getArr?
    pure ((← (a[0]?.getD Json.null).getStr?).toList, (← (a[1]?.getD Json.null).getStr?).toList))
  pure ⟨← strOf j "name", ← strListOf j "prefixes", ← strListOf j "names", cts⟩

def pairsOf (j : Json) (k : String) : Except String (List (Str × Str)) := do
  (← arrOf j k).mapM (fun e => do
    let a ← e.getArr?
    pure ((← (a[0]?.getD Json.null).getStr?).toList, (← (a[1]?.getD Json.null).getStr?).toList))

def natsOf (j : Json) (k : String) : Except String (List Nat) := do
  (← arrOf j k).mapM (fun e => e.getNat?)

def boolsOf (j : Json) (k : String) : Except String (List Bool) := do
  (← arrOf j k).mapM (fun e => e.getBool?)

def inodeOf (j : Json) : Except String INode := do
  let kind ← match (← (← j.getObjVal? "kind").getStr?) with
    | "alias" => pure IKind.alias
    | "callable" => pure IKind.callable
    | _ => pure IKind.other
  pure ⟨kind, ← boolOf j "skip", ← boolOf j "ok", ← natsOf j "refs"⟩

def handle (op : String) : Option Handler :=
  match op with
  | "c16.strle" => some fun j => do
      pure (Json.bool (strLe (← strOf j "a") (← strOf j "b")))
  | "c16.sort_strs" => some fun j => do
      pure (jstrs (sortedStrs (← strListOf j "l")))
  | "c16.sort_set" => some fun j => do
      pure (jstrs (sortedStrs (setOf (← strListOf j "l"))))
  | "c16.sort_includes" => some fun j => do
      pure (Json.arr ((sortedIncludes (← pairsOf j "l")).map (fun p => Json.arr #[jstr p.1, jstr p.2])).toArray)
  | "c16.main_position" => some fun j => do
      let ps ← (← arrOf j "positions").mapM posOf
      pure (jopt jpos (getMainPosition ps))
  | "c16.main_position_old" => some fun j => do
      let ps ← (← arrOf j "positions").mapM posOf
      pure (jopt jpos (getMainPositionOld ps))
  | "c16.write_namespace" => some fun j => do
      let nodes ← (← arrOf j "nodes").mapM nodeOf
      pure (Json.arr ((writeNamespace nodes).map jelem).toArray)
  | "c16.parse" => some fun j => do
      let syms ← (← arrOf j "syms").mapM symOf
      let strip ← stripOf j
      match parseEmit strip syms with
      | .ok recs => pure (Json.mkObj [("ok", Json.arr (recs.map jrec).toArray)])
      | .error (.conflict n) => pure (Json.mkObj [("conflict", jstr n)])
      | .error .internal => pure (Json.mkObj [("internal", Json.bool true)])
  | "c16.blocks" => some fun j => do
      let bs ← pairsOf j "blocks"
      let r := blockDict bs
      pure (Json.mkObj [("dict", Json.arr (r.1.map (fun p => Json.arr #[jstr p.1, jstr p.2])).toArray),
                        ("warnings", Json.num r.2)])
  | "c16.parse_include" => some fun j => do
      -- iter: [[namespace, [[include name, version], ...] in set-iteration order], ...]
      let tbl ← (← arrOf j "iter").mapM (fun e => do
        let a ← e.getArr?
        let k ← (a[0]?.getD Json.null).getStr?
        let v ← (← (a[1]?.getD Json.null).getArr?).toList.mapM (fun x => do
          let p ← x.getArr?
          pure ((← (p[0]?.getD Json.null).getStr?).toList, (← (p[1]?.getD Json.null).getStr?).toList))
        pure (k.toList, v))
      let iter := fun n => (dictGet tbl n).getD []
      let roots ← strListOf j "roots"
      let fuel ← natOf j "fuel"
      let run := fun (f : Nat → List Str → Str → List Str) =>
        roots.foldl (fun acc r => if acc.contains r then acc else f fuel acc r) []
      pure (Json.mkObj [("order", jstrs (run (parseInclude iter))), ("old", jstrs (run (parseIncludeOld iter)))])
  | "c16.fixpoint" => some fun j => do
      let nodes ← (← arrOf j "nodes").mapM inodeOf
      let tf ← boolsOf j "tf"
      let ord ← natsOf j "ord"
      let r := loopI nodes ord (cntI tf + 1) tf
      pure (Json.mkObj [("tf", Json.arr (r.map Json.bool).toArray), ("stable", Json.bool (stableI nodes r)),
                        ("one_round", Json.arr ((roundI nodes ord tf).map Json.bool).toArray)])
  | "c16.resolve" => some fun j => do
      let deps ← (← arrOf j "deps").mapM depOf
      pure (jopt jstr (resolveCtype deps (← strOf j "ident")))
  | _ => none

end Driver.C16

def main : IO Unit := Driver.mainLoop Driver.C16.handle
