import Driver.Util
import Driver.C19

open Lean Driver

def handlers : List (String → Option Handler) := [Driver.C19.handle]

def dispatch (line : String) : Json :=
  match Json.parse line with
  | .error e => Json.mkObj [("driver_error", Json.str s!"json: {e}")]
  | .ok j =>
    match j.getObjVal? "op" >>= Json.getStr? with
    | .error e => Json.mkObj [("driver_error", Json.str e)]
    | .ok op =>
      match handlers.findSome? (fun h => h op) with
      | none => Json.mkObj [("driver_error", Json.str s!"unknown op {op}")]
      | some h =>
        match h j with
        | .ok r => Json.mkObj [("r", r)]
        | .error e => Json.mkObj [("driver_error", Json.str e)]

partial def loop (hin hout : IO.FS.Stream) : IO Unit := do
  let line ← hin.getLine
  if line.isEmpty then return ()
  hout.putStrLn (dispatch line).compress
  loop hin hout

def main : IO Unit := do
  let hin ← IO.getStdin
  let hout ← IO.getStdout
  loop hin hout
  hout.flush
