import Driver.Util
import GIVerif.Model.Naming

namespace Driver.C04
open Lean Driver GIVerif.Naming

def optStrOf (j : Json) (k : String) : Except String (Option (List Char)) :=
  match j.getObjVal? k with
  | .ok Json.null => pure none
  | .ok v => do pure (some (← v.getStr?).toList)
  | .error _ => pure none

def boolOfD (j : Json) (k : String) (d : Bool) : Bool :=
  match j.getObjVal? k >>= Json.getBool? with
  | .ok b => b
  | .error _ => d

def arrOf (j : Json) (k : String) : Except String (List Json) := do
  pure (← (← j.getObjVal? k).getArr?).toList

def arrOfD (j : Json) (k : String) : List Json :=
  match j.getObjVal? k >>= Json.getArr? with
  | .ok a => a.toList
  | .error _ => []

def nsOf (j : Json) : Except String NsPrefixes := do
  pure { name := ← strOf j "name", idPrefixes := ← strListOf j "id", symPrefixes := ← strListOf j "sym",
         names := (strListOf j "names").toOption.getD [] }

def cfgOf (j : Json) : Except String Cfg := do
  let cur ← nsOf (← j.getObjVal? "cur")
  let incs ← (← arrOf j "incs").mapM nsOf
  pure { cur := cur, incs := incs, acceptUnprefixed := boolOfD j "accept" false }

def refOfInt (i : Int) : NsRef := if i < 0 then .cur else .inc i.toNat

def refJson : NsRef → Json
  | .cur => Json.num (-1 : Int)
  | .inc i => Json.num (i : Int)

def nsRefPairOf (j : Json) (k : String) : Except String (Option (NsRef × List Char)) :=
  match j.getObjVal? k with
  | .ok Json.null => pure none
  | .error _ => pure none
  | .ok v => do
    let a ← v.getArr?
    match a.toList with
    | [x, y] => pure (some (refOfInt (← x.getInt?), (← y.getStr?).toList))
    | _ => throw "bad ns ref"

def kindOf (s : String) : Except String Kind :=
  match s with
  | "function" => pure .function | "constant" => pure .constant | "alias" => pure .alias
  | "callback" => pure .callback | "enum" => pure .enum | "record" => pure .record
  | "union" => pure .union | "class" => pure .cls | "interface" => pure .iface | "boxed" => pure .boxed
  | _ => throw s!"bad kind {s}"

def kindStr : Kind → String
  | .function => "function" | .constant => "constant" | .alias => "alias" | .callback => "callback"
  | .enum => "enum" | .record => "record" | .union => "union" | .cls => "class" | .iface => "interface"
  | .boxed => "boxed"

def incNodeOf (j : Json) : Except String IncNode := do
  pure { name := ← strOf j "name", ctype := ← strOf j "ctype",
         kind := ← kindOf (← (← j.getObjVal? "kind").getStr?),
         gtypeName := ← optStrOf j "gtype", parent := ← nsRefPairOf j "parent",
         cSymbolPrefix := ← optStrOf j "sym_prefix" }

def envOf (j : Json) : Except String Env := do
  let cfg ← cfgOf j
  let incNodes ← (arrOfD j "inc_nodes").mapM (fun a => do (← a.getArr?).toList.mapM incNodeOf)
  pure { cfg := cfg, incNodes := incNodes }

def ctOf (j : Json) : Except String CT := do
  pure { base := ← strOf j "base", stars := ← natOf j "stars", fundamental := boolOfD j "fund" false }

def declOf (j : Json) : Except String Decl := do
  let d ← (← j.getObjVal? "d").getStr?
  match d with
  | "function" =>
    pure (.function (← strOf j "name") (← ctOf (← j.getObjVal? "ret")) (← (← arrOf j "params").mapM ctOf)
            (boolOfD j "method" false) (boolOfD j "ctor" false))
  | "const" => pure (.const (← strOf j "name"))
  | "alias" => pure (.alias (← strOf j "name"))
  | "callback" => pure (.callback (← strOf j "name"))
  | "enum" => pure (.enum (← strOf j "name"))
  | "typedef_compound" =>
    pure (.typedefCompound (← strOf j "name") (← optStrOf j "tag") (boolOfD j "union" false))
  | "tag_compound" => pure (.tagCompound (← strOf j "name") (boolOfD j "union" false))
  | _ => throw s!"bad decl {d}"

def dumpOf (j : Json) : Except String DumpEntry := do
  let k ← (← j.getObjVal? "kind").getStr?
  let kind ← match k with
    | "class" => pure DumpKind.cls | "interface" => pure DumpKind.iface | "boxed" => pure DumpKind.boxed
    | "enum" => pure DumpKind.enum | "flags" => pure DumpKind.enum
    | _ => throw s!"bad dump kind {k}"
  pure { kind := kind, gtypeName := ← strOf j "name", getType := ← strOf j "get_type",
         parents := (strListOf j "parents").toOption.getD [] }

def stripErrJson : StripErr → Json
  | .crash => Json.mkObj [("err", "crash")]
  | .unknown => Json.mkObj [("err", "unknown")]
  | .foreign ns => Json.mkObj [("err", "foreign"), ("ns", refJson ns)]

def stripJson : Except StripErr (List Char) → Json
  | .ok s => Json.mkObj [("ok", jstr s)]
  | .error e => stripErrJson e

def pipeErrJson : PipeErr → Json
  | .conflict n => Json.mkObj [("err", "conflict"), ("name", jstr n)]
  | .fatal => Json.mkObj [("err", "fatal")]
  | .crash => Json.mkObj [("err", "crash")]
  | .dupCid c => Json.mkObj [("err", "dupcid"), ("cid", jstr c)]

def nodeJson (n : Node) : Json :=
  Json.mkObj [("kind", kindStr n.kind), ("name", jstr n.name),
    ("cid", if n.hasCid then jstr n.cid else Json.null),
    ("moved_to", jopt jstr n.movedTo), ("get_type", jopt jstr n.getType),
    ("sym_prefix", jopt jstr n.cSymbolPrefix),
    ("parent", match n.parent with
      | some (r, nm) => Json.arr #[refJson r, jstr nm]
      | none => Json.null)]

def roleStr : Role → String
  | .method => "method" | .ctor => "constructor" | .static => "function"

def stateJson (st : NsState) : Json :=
  Json.mkObj [("top", Json.arr (st.names.map (fun p => nodeJson p.2)).toArray),
    ("owned", Json.arr (st.owned.map (fun o =>
      Json.mkObj [("owner", jstr o.owner), ("role", roleStr o.role), ("name", jstr o.fn.name),
                  ("cid", jstr o.fn.cid), ("moved_to", jopt jstr o.fn.movedTo)])).toArray)]

def handle (op : String) : Option Handler :=
  match op with
  | "c04.to_underscores" => some fun j => do pure (jstr (toUnderscores (← strOf j "s")))
  | "c04.to_underscores_noprefix" => some fun j => do pure (jstr (toUnderscoresNoprefix (← strOf j "s")))
  | "c04.default_sym_prefixes" => some fun j => do pure (jstrs (defaultSymPrefixes (← strListOf j "ids")))
  | "c04.split" => some fun j => do
      let cfg ← cfgOf (← j.getObjVal? "cfg")
      match splitForNamespaces cfg (← boolOf j "ident") (← strOf j "name") with
      | .ok ms => pure (Json.mkObj [("ok", Json.arr (ms.map (fun m => Json.arr #[refJson m.1, jstr m.2])).toArray)])
      | .error .emptyName => pure (Json.mkObj [("err", "empty")])
      | .error .unknown => pure (Json.mkObj [("err", "unknown")])
  | "c04.strip_identifier" => some fun j => do
      pure (stripJson (stripIdentifier (← cfgOf (← j.getObjVal? "cfg")) (← strOf j "name")))
  | "c04.strip_symbol" => some fun j => do
      pure (stripJson (stripSymbol (← cfgOf (← j.getObjVal? "cfg")) (← strOf j "name")))
  | "c04.callback_name" => some fun j => do
      pure (stripJson (callbackName (← cfgOf (← j.getObjVal? "cfg")) (← strOf j "name")))
  | "c04.public_symbol_name" => some fun j => do
      pure (jopt jstr (publicSymbolName (← cfgOf (← j.getObjVal? "cfg")) (← strOf j "name")))
  | "c04.split_uscored" => some fun j => do
      let keys ← strListOf j "keys"
      let m : List Char → Option (List Char) := fun k => if keys.contains k then some k else none
      match splitUscoredByType m (← strOf j "s") with
      | some (t, rest) => pure (Json.arr #[jstr t, jstr rest])
      | none => pure Json.null
  | "c04.find" => some fun j => do
      match findSub (← strOf j "s") (← strOf j "sub") with
      | some i => pure (Json.num (i : Int))
      | none => pure (Json.num (-1 : Int))
  | "c04.guess_ctor" => some fun j => do pure (Json.bool (guessConstructorByName (← strOf j "s")))
  | "c04.describe" => some fun j => do
      let env ← envOf (← j.getObjVal? "env")
      let decls ← (← arrOf j "decls").mapM declOf
      let dump ← match j.getObjVal? "dump" with
        | .ok Json.null => pure none
        | .error _ => pure none
        | .ok v => do pure (some (← (← v.getArr?).toList.mapM dumpOf))
      match describe { env := env, decls := decls, dump := dump,
                       foreignCtypes := (strListOf j "foreign").toOption.getD [] } with
      | .ok st => pure (stateJson st)
      | .error e => pure (pipeErrJson e)
  | _ => none

end Driver.C04

def main : IO Unit := Driver.mainLoop Driver.C04.handle
