import Driver.Util
import GIVerif.Model.EnumConst

namespace Driver.C13
open Lean Driver GIVerif.EnumConst

def optOf (j : Json) (k : String) (f : Json → Except String α) : Except String (Option α) :=
  match j.getObjVal? k with
  | .error _ => pure none
  | .ok Json.null => pure none
  | .ok v => do pure (some (← f v))

def jsonStr (v : Json) : Except String (List Char) := do pure (← v.getStr?).toList

def memberOf (j : Json) : Except String CMember := do
  pure ⟨← strOf j "name", ← intOf j "value", (← optOf j "private" Json.getBool?).getD false⟩

def declOf (j : Json) : Except String Decl := do
  let d ← (← j.getObjVal? "d").getStr?
  match d with
  | "enum" =>
    let ms ← (← j.getObjVal? "members").getArr?
    pure (.enum (← strOf j "name") ((← optOf j "bitfield" Json.getBool?).getD false) (← ms.toList.mapM memberOf))
  | "typedef" => pure (.typedef (← strOf j "name") (← strOf j "target"))
  | "const" =>
    pure (.const ⟨← strOf j "name", ← optOf j "file" jsonStr, ← optOf j "string" jsonStr,
                  ← optOf j "int" Json.getInt?, ← optOf j "bool" Json.getBool?,
                  (← optOf j "double" Json.getBool?).getD false, ← optOf j "type" jsonStr⟩)
  | _ => throw s!"unknown decl kind {d}"

def errJson : Err → Json
  | .unknownSymbol n => Json.mkObj [("err", "unknown_symbol"), ("name", jstr n)]
  | .unknownIdentifier n => Json.mkObj [("err", "unknown_identifier"), ("name", jstr n)]
  | .indexError => Json.mkObj [("err", "index_error")]
  | .assertion => Json.mkObj [("err", "assertion")]
  | .conflict n => Json.mkObj [("err", "conflict"), ("name", jstr n)]

def attrsJson (l : List (List Char × List Char)) : Json :=
  Json.arr (l.map (fun p => Json.arr #[jstr p.1, jstr p.2])).toArray

def nodeJson (idp : List (List Char)) (final : List Node) : Node → Json
  | .alias n c t => Json.mkObj [("kind", "alias"), ("name", jstr n), ("ctype", jstr c), ("target", jstr t)]
  | .enum e =>
    let w := writeEnum e
    Json.mkObj [("kind", jstr w.1), ("attrs", attrsJson w.2.1), ("members", Json.arr (w.2.2.map attrsJson).toArray)]
  | .const c =>
    Json.mkObj [("kind", "constant"), ("name", jstr c.name), ("value", jopt jstr c.value),
                ("ctype", jstr c.cident), ("tname", jopt jstr (constTypeName idp final c)),
                ("tctype", jstr c.declType)]

def exceptJson (f : α → Json) : Except Err α → Json
  | .ok a => Json.mkObj [("ok", f a)]
  | .error e => Json.mkObj [("error", errJson e)]

def handle (op : String) : Option Handler :=
  match op with
  | "c13.common2" => some fun j => do
      pure (jstr (commonPrefix2 (← strOf j "a") (← strOf j "b")))
  | "c13.prefix" => some fun j => do
      pure (jopt jstr (enumCommonPrefix (← strListOf j "idents")))
  | "c13.strip_symbol" => some fun j => do
      pure (exceptJson jstr (stripSymbol (← strListOf j "sym_prefixes") (← strOf j "ident")))
  | "c13.strip_identifier" => some fun j => do
      pure (exceptJson jstr (stripIdentifier (← strListOf j "id_prefixes") (← strOf j "ident")))
  | "c13.lower" => some fun j => do
      pure (jstr (lowerStr (← strOf j "s")))
  | "c13.wrap" => some fun j => do
      pure (jstr (decimal (constIntValue (some (← strOf j "fundamental")) (← intOf j "value"))))
  | "c13.parse" => some fun j => do
      let idp ← strListOf j "id_prefixes"
      let symp ← strListOf j "sym_prefixes"
      let ds ← (← (← j.getObjVal? "decls").getArr?).toList.mapM declOf
      match parseDecls idp symp ⟨[], []⟩ ds with
      | .error e => pure (Json.mkObj [("fatal", errJson e)])
      | .ok st =>
        pure (Json.mkObj [("nodes", Json.arr (st.nodes.map (nodeJson idp st.nodes)).toArray),
                          ("warnings", Json.arr (st.warnings.map errJson).toArray)])
  | "c13.dump_merge" => some fun j => do
      let prev ← (← (← j.getObjVal? "prev").getArr?).toList.mapM (fun m => do
        pure (⟨← strOf m "name", ← intOf m "value", ← strOf m "cident"⟩ : Member))
      let ds ← (← (← j.getObjVal? "dump").getArr?).toList.mapM (fun m => do
        pure (⟨← strOf m "name", ← strOf m "nick", ← intOf m "value"⟩ : DumpMember))
      pure (Json.arr ((mergeDump prev ds).map (fun m =>
        Json.arr #[jstr m.name, jstr (decimal m.value), jstr m.cident])).toArray)
  | _ => none

end Driver.C13

def main : IO Unit := Driver.mainLoop Driver.C13.handle
