/-
  Shared request handlers of the C10 and C11 model drivers (both properties are about
  the same model, GIVerif.Model.AnnParse).  Ops are registered under both prefixes.
-/
import Driver.Util
import GIVerif.Model.AnnParse

namespace Driver.Ann
open Lean Driver GIVerif.AnnParse GIVerif.Py

def lastComponent (s : String) : String := (s.splitOn ".").getLast!

def kindStr (k : DKind) : String := lastComponent (toString (repr k))
def errStr (e : PyErr) : String := lastComponent (toString (repr e))
def levelStr : Level → String
  | .warning => "W"
  | .error => "E"

def optsJson : Opts → Json
  | .none => Json.null
  | .list l => jstrs l
  | .dict d => Json.mkObj [("dict", Json.arr (d.map (fun kv => Json.arr #[jstr kv.1, jopt jstr kv.2])).toArray)]

def annsJson (a : Anns) : Json := Json.arr (a.map (fun e => Json.arr #[jstr e.1, optsJson e.2])).toArray

def tdiagJson (d : TDiag) : Json :=
  Json.mkObj [("level", Json.str (levelStr d.level)), ("kind", Json.str (kindStr d.kind)), ("marker", Json.num d.marker)]

def tdiagsJson (l : List TDiag) : Json := Json.arr (l.map tdiagJson).toArray

def strOfJson (j : Json) : Except String Str := do pure (← j.getStr?).toList

def optsOf (j : Json) : Except String Opts :=
  match j with
  | Json.null => pure .none
  | Json.arr a => do pure (.list (← a.toList.mapM strOfJson))
  | _ => do
    let a ← (← j.getObjVal? "dict").getArr?
    let kvs ← a.toList.mapM (fun e => do
      let p ← e.getArr?
      let k ← strOfJson p[0]!
      let v ← match p[1]! with
        | Json.null => pure none
        | x => do pure (some (← strOfJson x))
      pure (k, v))
    pure (.dict kvs)

def annsOfJson (j : Json) : Except String Anns := do
  let a ← j.getArr?
  a.toList.mapM (fun e => do
    let p ← e.getArr?
    pure (← strOfJson p[0]!, ← optsOf p[1]!))

def optAnnsOf (j : Json) (k : String) : Except String (Option Anns) :=
  match j.getObjVal? k with
  | .ok Json.null => pure none
  | .ok v => do pure (some (← annsOfJson v))
  | .error _ => pure none

def annResultJson : AnnResult → Json
  | .ok a raw ch sp ep d => Json.mkObj [("ok", Json.bool true), ("anns", annsJson a), ("raw", jstrs raw),
      ("changed", Json.bool ch), ("start", Json.num sp), ("end", Json.num ep), ("diags", tdiagsJson d)]
  | .fail d => Json.mkObj [("ok", Json.bool false), ("diags", tdiagsJson d)]
  | .raise e => Json.mkObj [("raise", Json.str (errStr e))]

def fieldsResultJson : Except PyErr FieldsResult → Json
  | .error e => Json.mkObj [("raise", Json.str (errStr e))]
  | .ok r => Json.mkObj [("ok", Json.bool r.success), ("anns", annsJson r.anns), ("raw", jstrs r.raw),
      ("changed", Json.bool r.changed), ("description", jstr r.description), ("diags", tdiagsJson r.diags)]

def boolOr (j : Json) (k : String) (dflt : Bool) : Bool :=
  match j.getObjVal? k >>= Json.getBool? with
  | .ok b => b
  | .error _ => dflt

def groupsJson (g : List Group) : Json :=
  Json.mkObj (g.map (fun e => (e.1, Json.arr #[Json.num e.2.1, Json.num e.2.2])))

def matchResJson : MatchRes → Json
  | none => Json.null
  | some g => Json.mkObj [("groups", groupsJson g)]

/-- one line pattern by its name in annotationparser.py -/
def matchByName (name : String) (line : Str) : Except String Json :=
  match name with
  | "COMMENT_BLOCK_START_RE" => pure (matchResJson (matchStart line))
  | "COMMENT_BLOCK_END_RE" => pure (matchResJson (matchEnd line))
  | "COMMENT_ASTERISK_RE" => pure (match matchAsterisk line with
      | none => Json.null
      | some (g, e) => Json.mkObj [("groups", groupsJson g), ("end0", Json.num e)])
  | "INDENTATION_RE" => pure (matchResJson (some (matchIndentation line)))
  | "EMPTY_LINE_RE" => pure (if matchEmpty line then Json.mkObj [("groups", groupsJson [])] else Json.null)
  | "SECTION_RE" => pure (matchResJson (matchSection line))
  | "SYMBOL_RE" => pure (matchResJson (matchSymbol line))
  | "PROPERTY_RE" => pure (matchResJson (matchProperty line))
  | "SIGNAL_RE" => pure (matchResJson (matchSignal line))
  | "ACTION_RE" => pure (matchResJson (matchAction line))
  | "FIELD_RE" => pure (matchResJson (matchField line))
  | "PARAMETER_RE" => pure (matchResJson (matchParameter line))
  | "TAG_RE" => pure (matchResJson (matchTag line))
  | "TAG_VALUE_VERSION_RE" => pure (matchResJson (some (matchVersion line)))
  | "TAG_VALUE_STABILITY_RE" => pure (matchResJson (some (matchStability line)))
  | _ => throw s!"unknown pattern {name}"

def partJson (isTag : Bool) (p : PartM) : Json :=
  Json.mkObj ([("name", jstr p.name), ("line", Json.num p.line), ("annotations", annsJson p.annotations),
    ("anns_line", jopt (fun (n : Nat) => Json.num n) p.annsLine), ("description", jopt jstr p.description)] ++
    (if isTag then [("value", jopt jstr p.value)] else []))

def blockJson (b : BlockM) : Json :=
  Json.mkObj [("name", jstr b.name), ("line", Json.num b.line), ("annotations", annsJson b.annotations),
    ("anns_line", jopt (fun (n : Nat) => Json.num n) b.annsLine),
    ("params", Json.arr (b.params.map (fun e => partJson false e.2)).toArray),
    ("description", jopt jstr b.description),
    ("tags", Json.arr (b.tags.map (fun e => partJson true e.2)).toArray),
    ("code_before", jstr b.codeBefore), ("code_after", jstr b.codeAfter), ("indentation", jstrs b.indentation)]

def bdiagJson (d : BDiag) : Json :=
  Json.mkObj [("level", Json.str (levelStr d.level)), ("kind", Json.str (kindStr d.kind)), ("line", Json.num d.line),
    ("marker", jopt (fun (n : Nat) => Json.num n) d.marker), ("quoted", jopt jstr d.quoted)]

/-- `parse_comment_block` and, for a block, `GtkDocCommentBlockWriter.write` of the result -/
def blockParseJson (text : Str) (lineno : Nat) : Json :=
  match parseBlock text lineno with
  | .error e => Json.mkObj [("raise", Json.str (errStr e))]
  | .ok (b, d) =>
    let written : Json := match b with
      | none => Json.null
      | some b => match writeBlock b with
        | .ok s => jstr s
        | .error e => Json.mkObj [("raise", Json.str (errStr e))]
    Json.mkObj [("block", jopt blockJson b), ("diags", Json.arr (d.map bdiagJson).toArray), ("written", written)]

def handleAnn (op : String) : Option Handler :=
  match op with
  | "block.parse" => some fun j => do
      pure (blockParseJson (← strOf j "text") (← natOf j "lineno"))
  | "block.lines" => some fun j => do
      pure (jstrs (commentLines (← strOf j "text")))
  | "str.capitalize" => some fun j => do pure (jstr (pyCapitalize (← strOf j "s")))
  | "ann.parse" => some fun j => do
      pure (annResultJson (parseAnnotations (boolOr j "parse_options" true) (← natOf j "col")
        (← strOf j "fields") (← optAnnsOf j "init")))
  | "ann.fields" => some fun j => do
      pure (fieldsResultJson (parseFields (boolOr j "parse_options" true) (boolOr j "validate" true)
        (← natOf j "col") (← strOf j "fields") (← optAnnsOf j "init")))
  | "ann.one" => some fun j => do
      match parseAnnotation (← natOf j "col") (← strOf j "annotation") with
      | .error e => pure (Json.mkObj [("raise", Json.str (errStr e))])
      | .ok (none, d) => pure (Json.mkObj [("name", Json.null), ("options", Json.null), ("diags", tdiagsJson d)])
      | .ok (some (n, o), d) => pure (Json.mkObj [("name", jstr n), ("options", optsJson o), ("diags", tdiagsJson d)])
  | "ann.serialize" => some fun j => do
      pure (jstr (serializeAnnotations (← annsOfJson (← j.getObjVal? "anns"))))
  | "re.match" => some fun j => do
      matchByName (← (← j.getObjVal? "pattern").getStr?) (← strOf j "line")
  | "log.run" => some fun j => do
      let ts ← strListOf j "types"
      let lts := ts.map (fun t => if t == "fatal".toList then LogType.fatal
                                  else if t == "error".toList then LogType.error else LogType.warning)
      let lg := (Logger.new (← boolOf j "enable")).logAll lts
      pure (Json.mkObj [("count", Json.num lg.warningCount), ("written", Json.num lg.written),
                        ("warn_fatal_fails", Json.bool (warnFatalFails true lg))])
  | "str.lower" => some fun j => do pure (jstr (pyLower (← strOf j "s")))
  | "str.strip" => some fun j => do pure (jstr (strip (← strOf j "s")))
  | _ => none

/-- strip the `c10.` / `c11.` prefix -/
def handle (pfx : String) (op : String) : Option Handler :=
  if op.startsWith pfx then handleAnn (String.ofList (op.toList.drop pfx.length)) else none

end Driver.Ann
