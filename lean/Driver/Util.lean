/-
  Line-protocol plumbing shared by all per-property drivers: one JSON object per
  stdin line in, one JSON value per stdout line out.
-/
import Lean.Data.Json

namespace Driver
open Lean

def strOf (j : Json) (k : String) : Except String (List Char) := do
  let s ← (← j.getObjVal? k).getStr?
  pure s.toList

def strListOf (j : Json) (k : String) : Except String (List (List Char)) := do
  let a ← (← j.getObjVal? k).getArr?
  a.toList.mapM (fun x => do pure (← x.getStr?).toList)

def natOf (j : Json) (k : String) : Except String Nat := do
  (← j.getObjVal? k).getNat?

def intOf (j : Json) (k : String) : Except String Int := do
  (← j.getObjVal? k).getInt?

def boolOf (j : Json) (k : String) : Except String Bool := do
  (← j.getObjVal? k).getBool?

def jstr (s : List Char) : Json := Json.str (String.ofList s)
def jstrs (l : List (List Char)) : Json := Json.arr (l.map jstr).toArray
def jopt (f : α → Json) : Option α → Json
  | some a => f a
  | none => Json.null

abbrev Handler := Json → Except String Json

end Driver
