/-
  Line-protocol plumbing shared by all per-property drivers: one JSON object per
  stdin line in, one JSON value per stdout line out.
-/
import Lean.Data.Json

namespace Driver
open Lean

def strOf (j : Json) (k : String) : Except String (List Char) := do
  let s ← (← j.getObjVal? k).getStr?
  pure s.toList

def strListOf (j : Json) (k : String) : Except String (List (List Char)) := do
  let a ← (← j.getObjVal? k).getArr?
  a.toList.mapM (fun x => do pure (← x.getStr?).toList)

def natOf (j : Json) (k : String) : Except String Nat := do
  (← j.getObjVal? k).getNat?

def intOf (j : Json) (k : String) : Except String Int := do
  (← j.getObjVal? k).getInt?

def boolOf (j : Json) (k : String) : Except String Bool := do
  (← j.getObjVal? k).getBool?

def jstr (s : List Char) : Json := Json.str (String.ofList s)
def jstrs (l : List (List Char)) : Json := Json.arr (l.map jstr).toArray
def jopt (f : α → Json) : Option α → Json
  | some a => f a
  | none => Json.null

abbrev Handler := Json → Except String Json

def dispatch (handle : String → Option Handler) (line : String) : Json :=
  match Json.parse line with
  | .error e => Json.mkObj [("driver_error", Json.str s!"json: {e}")]
  | .ok j =>
    match j.getObjVal? "op" >>= Json.getStr? with
    | .error e => Json.mkObj [("driver_error", Json.str e)]
    | .ok op =>
      match handle op with
      | none => Json.mkObj [("driver_error", Json.str s!"unknown op {op}")]
      | some h =>
        match h j with
        | .ok r => Json.mkObj [("r", r)]
        | .error e => Json.mkObj [("driver_error", Json.str e)]

partial def loop (handle : String → Option Handler) (hin hout : IO.FS.Stream) : IO Unit := do
  let line ← hin.getLine
  if line.isEmpty then return ()
  hout.putStrLn (dispatch handle line).compress
  loop handle hin hout

/-- one JSON request per stdin line, one JSON answer per stdout line -/
def mainLoop (handle : String → Option Handler) : IO Unit := do
  let hin ← IO.getStdin
  let hout ← IO.getStdout
  loop handle hin hout
  hout.flush

end Driver
