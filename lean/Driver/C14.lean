import Driver.Util
import GIVerif.Model.Lookup
import Std.Data.HashMap

namespace Driver.C14
open Lean Driver GIVerif.Lookup

def optStr (j : Json) : Except String (Option (List Char)) :=
  match j with
  | Json.null => pure none
  | _ => do pure (some (← j.getStr?).toList)

def entryOf (j : Json) : Except String Entry := do
  -- [name, local, blob type] or [name, local, blob type, gtype name|null, error domain|null]
  let a ← j.getArr?
  if a.size ≠ 5 && a.size ≠ 3 then throw "entry: 3 or 5 fields expected"
  pure { name := (← a[0]!.getStr?).toList
         isLocal := (← a[1]!.getNat?) != 0
         blobType := ← a[2]!.getNat?
         gtypeName := ← (if a.size = 5 then optStr a[3]! else pure none)
         errorDomain := ← (if a.size = 5 then optStr a[4]! else pure none) }

def libOf (j : Json) : Except String Lib := do
  let es ← (← j.getObjVal? "entries").getArr?
  let entries ← es.toList.mapM entryOf
  pure { dir := { entries := entries, nLocal := ← natOf j "nlocal" }, cprefix := ← strOf j "cprefix" }

def foundJson : Found → Json
  | .entry i _ => Json.num (Int.ofNat i)
  | .null => Json.num (-1 : Int)
  | .oob => Json.num (-7 : Int)

def rfoundJson : RFound → Json
  | .entry k i _ => Json.arr #[Json.num (Int.ofNat k), Json.num (Int.ofNat i)]
  | .null => Json.arr #[Json.num (-1 : Int), Json.num (-1 : Int)]
  | .oob => Json.arr #[Json.num (-7 : Int), Json.num (-7 : Int)]

def natListOf (j : Json) : Except String (List Nat) := do
  let a ← j.getArr?
  a.toList.mapM (fun x => x.getNat?)

/-- the actual perfect hash of this typelib as an explicit finite map (0 elsewhere) -/
def hOfMap (m : Std.HashMap (List Char) Nat) : List Char → Nat := fun s => m.getD s 0

def probe (j : Json) : Except String Json := do
  let libs ← (← (← j.getObjVal? "libs").getArr?).toList.mapM libOf
  let lib ← match libs with
    | l :: _ => pure l
    | [] => throw "libs is empty"
  let table ← match j.getObjVal? "table" with
    | .ok Json.null => pure none
    | .ok t => do pure (some (← natListOf t))
    | .error _ => pure none
  let names ← (← j.getObjVal? "names").getArr?
  let parsed ← names.toList.mapM (fun p => do
    let a ← p.getArr?
    if a.size ≠ 3 then throw "name probe: 3 fields expected"
    pure ((← a[0]!.getStr?).toList, ← a[1]!.getNat?, (← a[2]!.getNat?) != 0))
  let hm : Std.HashMap (List Char) Nat := parsed.foldl (fun m p => m.insert p.1 p.2.1) {}
  let h := hOfMap hm
  let nameRes := parsed.map (fun p =>
    let hs := match table with
      | some t => (match hashSearch h t lib.dir.nLocal p.1 with
        | some v => Json.num (Int.ofNat v)
        | none => Json.num (-7 : Int))
      | none => Json.num (-1 : Int)
    let idx := foundJson (byName h table lib.dir p.1)
    let lin := if p.2.2 then foundJson (byName h none lib.dir p.1) else Json.num (-9 : Int)
    Json.arr #[hs, idx, lin])
  let gtypes ← strListOf j "gtypes"
  let gRes := gtypes.map (fun g =>
    Json.arr #[foundJson (byGTypeName lib.dir g), Json.bool (matchesGTypePrefix lib.cprefix g),
               rfoundJson (findByGType libs g)])
  let domains ← strListOf j "domains"
  let dRes := domains.map (fun d =>
    Json.arr #[foundJson (byErrorDomain lib.dir d), rfoundJson (findByErrorDomain d 0 libs)])
  let packRes := match j.getObjVal? "checkpack" with
    | .ok (Json.bool true) =>
      (match pack h (lib.dir.locals.map (·.name)) with
       | some t => Json.mkObj [("ok", Json.bool true), ("equal", Json.bool (some t == table))]
       | none => Json.mkObj [("ok", Json.bool false), ("equal", Json.bool false)])
    | _ => Json.null
  pure (Json.mkObj [("names", Json.arr nameRes.toArray), ("gtypes", Json.arr gRes.toArray),
                    ("domains", Json.arr dRes.toArray), ("pack", packRes)])

/-- a typelib of a history: `libOf` plus its namespace; find-by-name runs on the linear path
    (the index path is compared by `c14.probe`) -/
def tlOf (j : Json) : Except String TL := do
  pure { ns := ← strOf j "ns", lib := ← libOf j }

def ransJson : RAns → Json
  | .info h => Json.arr #[jstr h.ns, Json.num (Int.ofNat h.idx)]
  | .null => Json.arr #[Json.null, Json.num (-1 : Int)]
  | .oob => Json.arr #[Json.null, Json.num (-7 : Int)]

def opOf (libs : Array TL) (s : Repo) (j : Json) : Except String Op := do
  let a ← j.getArr?
  if a.size < 2 then throw "history op: at least 2 fields expected"
  let k ← a[0]!.getStr?
  match k with
  | "g" => pure (.findByGType (← a[1]!.getStr?).toList)
  | "d" => pure (.findByErrorDomain (← a[1]!.getStr?).toList)
  | "n" =>
    if a.size ≠ 3 then throw "history op n: 3 fields expected"
    pure (.findByName (← a[1]!.getStr?).toList (← a[2]!.getStr?).toList)
  | "l" =>
    if a.size ≠ 3 then throw "history op l: 3 fields expected"
    let i ← a[1]!.getNat?
    let lazy := (← a[2]!.getNat?) != 0
    match libs[i]? with
    | none => throw "history op l: no such typelib"
    -- a new key goes to the end of the iteration order of the table it is inserted into
    | some t => pure (.load t lazy (if lazy then s.lazy.length else s.eager.length))
  | _ => throw s!"history op: unknown kind {k}"

/-- run a history on the state machine from the empty repository: one answer per call, and the
    namespaces in the two tables after it -/
def history (j : Json) : Except String Json := do
  let libs ← (← (← j.getObjVal? "libs").getArr?).mapM tlOf
  let ops ← (← j.getObjVal? "ops").getArr?
  let mut s : Repo := {}
  let mut out : Array Json := #[]
  for oj in ops do
    let op ← opOf libs s oj
    match step s op with
    | none => out := out.push (Json.str "abort"); break
    | some (s', a) =>
      s := s'
      out := out.push (Json.arr #[ransJson a, jstrs (s'.eager.map (·.ns)), jstrs (s'.lazy.map (·.ns)),
                                  Json.num (Int.ofNat s'.unknownGTypes.length)])
  pure (Json.arr out)

def handle (op : String) : Option Handler :=
  match op with
  | "c14.probe" => some probe
  | "c14.history" => some history
  | "c14.prefix" => some fun j => do
      pure (Json.bool (matchesGTypePrefix (← strOf j "cprefix") (← strOf j "g")))
  | "c14.size" => some fun j => do
      let mph ← natOf j "mph"
      let n ← natOf j "n"
      let bits ← natOf j "bits"
      pure (Json.mkObj [("dirmap", Json.num (Int.ofNat (dirmapOffset mph))),
                        ("packed", Json.num (Int.ofNat (packedSize mph n))),
                        ("section", Json.num (Int.ofNat (sectionSize bits mph n))),
                        ("section_now", Json.num (Int.ofNat (sectionSizeNow mph n))),
                        ("assert_ok", Json.bool (packAssertOk bits mph n)),
                        ("assert_ok_now", Json.bool (packAssertOk GIVerif.Gen.requiredSizeBits mph n))])
  | _ => none

end Driver.C14

def main : IO Unit := Driver.mainLoop Driver.C14.handle
