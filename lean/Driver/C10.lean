import Driver.AnnCommon

def main : IO Unit := Driver.mainLoop (Driver.Ann.handle "c10.")
