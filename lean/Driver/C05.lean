import Driver.Util
import GIVerif.Model.Introspectable
import GIVerif.Spec.GirWF

/-!
  C05 driver.  Ops:
    c05.validate   {ns}                      run the pass model (current and pre-51936cf order)
    c05.index      {names, closure, destroy, length}   writer index model for a parameter
    c05.flength    {names, length, parent}   writer index model for a field's array length
    c05.wf         {main, others}            evaluate `girWellFormed` on a GIR tree
-/
namespace Driver.C05
open Lean Driver GIVerif.Introspectable GIVerif.GirWF

def optStr (j : Json) (k : String) : Except String (Option (List Char)) :=
  match j.getObjVal? k with
  | .error _ => pure none
  | .ok v => if v.isNull then pure none else do pure (some (← v.getStr?).toList)

def boolD (j : Json) (k : String) (d : Bool) : Bool :=
  match j.getObjVal? k >>= Json.getBool? with
  | .ok b => b
  | .error _ => d

def tkOf (s : String) : TKind :=
  match s with
  | "cb" => .callback false
  | "cbx" => .callback true
  | "bare" => .bareCompound
  | _ => .other

partial def tyOf (j : Json) : Except String Ty := do
  let k ← (← j.getObjVal? "k").getStr?
  match k with
  | "unresolved" => pure .unresolved
  | "fund" => pure (.fund (← strOf j "n"))
  | "foreign" => pure .foreignT
  | "varargs" => pure .varargs
  | "ref" => pure (.ref (← strOf j "n"))
  | "ext" => pure (.ext (boolD j "intro" true) (boolD j "skip" false) (tkOf ((j.getObjVal? "tk" >>= Json.getStr?).toOption.getD "other")))
  | "array" => pure (.array (← tyOf (← j.getObjVal? "e")))
  | "list" => pure (.list (← tyOf (← j.getObjVal? "e")))
  | "map" => pure (.map (← tyOf (← j.getObjVal? "key")) (← tyOf (← j.getObjVal? "val")))
  | _ => throw s!"unknown type kind {k}"

def paramOf (j : Json) : Except String Param := do
  pure { ty := ← tyOf (← j.getObjVal? "ty"), skip := boolD j "skip" false, hasScope := boolD j "scope" false,
         hasTransfer := boolD j "transfer" true, transferNone := boolD j "tnone" true }

def arrOf (j : Json) (k : String) : Except String (List Json) := do
  pure (← (← j.getObjVal? k).getArr?).toList

def sigOf (j : Json) : Except String Sig := do
  pure { params := ← (← arrOf j "params").mapM paramOf, ret := ← paramOf (← j.getObjVal? "ret"),
         isCallback := boolD j "cb" false, inline := boolD j "inline" false, isSignal := boolD j "signal" false }

def subOf (j : Json) : Except String Sub := do
  pure { name := ← strOf j "name", skip := boolD j "skip" false, intro := boolD j "intro" true,
         sig := ← sigOf (← j.getObjVal? "sig"), isMethod := boolD j "method" false,
         setProp := ← optStr j "setp", getProp := ← optStr j "getp" }

def fieldOf (j : Json) : Except String Field := do
  let ty ← match j.getObjVal? "ty" with
    | .ok v => if v.isNull then pure none else do pure (some (← tyOf v))
    | .error _ => pure none
  let anon := (j.getObjVal? "anon" >>= Json.getNat?).toOption
  pure { name := ← strOf j "name", intro := boolD j "intro" true, ty := ty, anon := anon }

def propOf (j : Json) : Except String Prop' := do
  pure { name := ← strOf j "name", intro := boolD j "intro" true, ty := ← tyOf (← j.getObjVal? "ty"),
         setter := ← optStr j "setter", getter := ← optStr j "getter" }

def bodyOf (j : Json) : Except String Body := do
  let k ← (← j.getObjVal? "k").getStr?
  match k with
  | "alias" => pure (.alias (← tyOf (← j.getObjVal? "target")))
  | "callable" => pure (.callable (← sigOf (← j.getObjVal? "sig")))
  | "compound" =>
    pure (.compound (boolD j "bare" false) (← (← arrOf j "fields").mapM fieldOf)
      (← (← arrOf j "props").mapM propOf) (← (← arrOf j "subs").mapM subOf))
  | _ => pure .other

def topOf (j : Json) : Except String Top := do
  pure { name := ← strOf j "name", skip := boolD j "skip" false, intro := boolD j "intro" true,
         body := ← bodyOf (← j.getObjVal? "body") }

def nsOf (j : Json) : Except String NS := do
  pure { name := ← strOf j "name", tops := ← (← arrOf j "tops").mapM topOf }

def jbools (l : List Bool) : Json := Json.arr (l.map Json.bool).toArray
def jbools2 (l : List (List Bool)) : Json := Json.arr (l.map jbools).toArray

def jstr? : Option (List Char) → Json
  | some n => jstr n
  | none => Json.null

/-- accessor names after `_introspectable_property_analysis`: per top-level node the
    [setter, getter] of its properties and the [set-property, get-property] of its nested callables -/
def accJson (ns1 : NS) (s : St) : List (String × Json) :=
  let after := ns1.tops.map (accessorsAfter ns1 s.tf)
  [("pacc", Json.arr (after.map fun r => Json.arr (r.1.map fun p => Json.arr #[jstr? p.setter, jstr? p.getter]).toArray).toArray),
   ("macc", Json.arr (after.map fun r => Json.arr (r.2.map fun m => Json.arr #[jstr? m.setProp, jstr? m.getProp]).toArray).toArray)]

def stJson (ns1 : NS) (s : St) : List (String × Json) :=
  [("tf", jbools s.tf), ("sf", jbools2 s.sf), ("ff", jbools2 s.ff), ("pf", jbools2 s.pf),
   ("tskip", jbools (ns1.tops.map (·.skip))), ("sskip", jbools2 (ns1.tops.map fun t => t.subs.map (·.skip))),
   ("closed", Json.bool (closedB ns1 s))]

partial def elemOf (j : Json) : Except String Elem := do
  let t ← strOf j "t"
  let attrs ← (← arrOf j "a").mapM fun kv => do
    let a ← kv.getArr?
    match a.toList with
    | [k, v] => pure ((← k.getStr?).toList, (← v.getStr?).toList)
    | _ => throw "attribute pair expected"
  let kids ← (← arrOf j "c").mapM elemOf
  pure (.mk t attrs kids)

def namesOf (j : Json) (k : String) : Except String (List (Option (List Char))) := do
  (← arrOf j k).mapM fun v => if v.isNull then pure none else do pure (some (← v.getStr?).toList)

def werr : WErr → Json
  | .valueError => Json.mkObj [("err", "value")]
  | .assertion => Json.mkObj [("err", "assert")]

def jnat? : Option Nat → Json
  | some n => Json.num n
  | none => Json.null

def handle (op : String) : Option Handler :=
  match op with
  | "c05.validate" => some fun j => do
      let ns ← nsOf (← j.getObjVal? "ns")
      let cur := match validate ns with
        | some (ns1, s, rounds) => Json.mkObj (stJson ns1 s ++ accJson ns1 s ++ [("rounds", Json.num rounds)])
        | none => Json.null
      let (ons, os) := validateOld ns
      pure (Json.mkObj [("cur", cur), ("old", Json.mkObj (stJson ons os))])
  | "c05.index" => some fun j => do
      let names ← namesOf j "names"
      let p : WParam := { closureName := ← optStr j "closure", destroyName := ← optStr j "destroy",
                          lengthName := ← optStr j "length" }
      pure (match writeParam names p with
        | .ok (c, d, l) => Json.mkObj [("ok", Json.arr #[jnat? c, jnat? d, jnat? l])]
        | .error e => werr e)
  | "c05.flength" => some fun j => do
      let names ← namesOf j "names"
      let parent ← (← j.getObjVal? "parent").getStr?
      let wp : WParent := match parent with
        | "compound" => .compound names
        | "callable" => .callable names
        | _ => .otherNode
      pure (match writeLength wp (← optStr j "length") with
        | .ok l => Json.mkObj [("ok", jnat? l)]
        | .error e => werr e)
  | "c05.wf" => some fun j => do
      let main ← elemOf (← j.getObjVal? "main")
      let others ← (← arrOf j "others").mapM elemOf
      let env : Env := { main := main, others := others }
      let fs := girFindings env
      let (n, nc, nv, nt) := girStats env
      pure (Json.mkObj [
        ("ok", Json.bool (girWellFormed env)),
        ("findings", Json.arr (fs.map fun f => Json.mkObj [("kind", f.kind), ("path", jstr f.path),
            ("code", f.code), ("detail", jstr f.detail)]).toArray),
        ("stats", Json.arr #[Json.num n, Json.num nc, Json.num nv, Json.num nt])])
  | _ => none

end Driver.C05

def main : IO Unit := Driver.mainLoop Driver.C05.handle
