/-
  C08 driver.  ops:
    c08.layout  {nodes:[Node...]}  -> per node: the model's result (raw ints left in the
                 node, the values stored in the blobs, warning flag, per-member size /
                 alignment) and the declarative specification evaluated on the same
                 declaration tree (null when some member has no known size)
    c08.align   {n, a}             -> giAlign n a and Spec.alignUp
    c08.enum    {values:[...]}     -> storage tag chosen by the model (null = g_error)
    c08.struct  {members:[[size,align]...]} / c08.union: model on given member sizes + Spec

  Node   := {name, kind: struct|boxed|object|iface|union|enum|flags|callback|other,
             members:[Member...], values:[int...]}
  Member := {m:"field", name, cb:bool, ty:Ty} | {m:"cbfield", name} (a <callback> inside the <field>:
             Model.inlineCallbackField decides by the container) | {m:"callback", name} | {m:"other"}
  Ty     := {k:"basic", tag, ptr} | {k:"array", ptr, has_size, size, elem:Ty} | {k:"iface", name, ptr}
          | {k:"fieldarray", has_size, size, has_length, ctype_ptr, elem:Ty} (a C array typed field as
             start_type sees it: Model.fieldArrayTy decides is_pointer)
-/
import Driver.Util
import GIVerif.Model.Offsets
import GIVerif.Spec.CLayout

namespace Driver.C08
open Lean Driver GIVerif GIVerif.Offsets

partial def tyOf (j : Json) : Except String Ty := do
  let k ← (← j.getObjVal? "k").getStr?
  match k with
  | "basic" => pure (.basic (← natOf j "tag") (← boolOf j "ptr"))
  | "array" =>
    let e ← tyOf (← j.getObjVal? "elem")
    pure (.array (← boolOf j "ptr") (← boolOf j "has_size") (← intOf j "size") e)
  | "iface" => pure (.iface (← strOf j "name") (← boolOf j "ptr"))
  | "fieldarray" =>
    let e ← tyOf (← j.getObjVal? "elem")
    pure (fieldArrayTy (← boolOf j "has_size") (← intOf j "size") (← boolOf j "has_length") (← boolOf j "ctype_ptr") e)
  | _ => throw s!"bad type kind {k}"

def memberOf (parent : NodeKind) (j : Json) : Except String Member := do
  let m ← (← j.getObjVal? "m").getStr?
  match m with
  | "cbfield" => pure (inlineCallbackField parent (← strOf j "name"))
  | "field" => pure (.field (← strOf j "name") (← boolOf j "cb") (← tyOf (← j.getObjVal? "ty")))
  | "callback" => pure (.callback (← strOf j "name"))
  | _ => pure .other

def kindOf (s : String) : Except String NodeKind :=
  match s with
  | "struct" => pure .struct | "boxed" => pure .boxed | "object" => pure .object
  | "iface" => pure .iface | "union" => pure .union | "enum" => pure .enum
  | "flags" => pure .flags | "callback" => pure .callback | "other" => pure .other
  | _ => throw s!"bad node kind {s}"

def nodeOf (j : Json) : Except String Node := do
  let name ← strOf j "name"
  let kind ← kindOf (← (← j.getObjVal? "kind").getStr?)
  let members ← match j.getObjVal? "members" with
    | .ok a => (← a.getArr?).toList.mapM (memberOf kind)
    | .error _ => pure []
  let values ← match j.getObjVal? "values" with
    | .ok a => (← a.getArr?).toList.mapM (fun v => v.getInt?)
    | .error _ => pure []
  pure ⟨name, kind, members, values⟩

def jint (i : Int) : Json := Json.num (JsonNumber.fromInt i)
def jnat (n : Nat) : Json := Json.num (JsonNumber.fromNat n)
def jints (l : List Int) : Json := Json.arr (l.map jint).toArray
def jnats (l : List Nat) : Json := Json.arr (l.map jnat).toArray

/-! The declarative specification evaluated on the declaration tree: leaves from the platform
    tables, arrays / structs / unions by Spec.cArray / cStructLayout / cUnionLayout. -/

def specLeaf (sa : SA × Bool) : Option Spec.Member :=
  if sa.1.ok && sa.1.size ≥ 0 && sa.1.align > 0 then some (sa.1.size.toNat, sa.1.align.toNat) else none

mutual
partial def specTy (env : List Node) (stack : List Py.Str) : Ty → Option Spec.Member
  | .basic tag isPtr => specLeaf (typeSA (fun _ => (SA.fail, true)) (.basic tag isPtr))
  | .array isPtr hasSize n elem =>
    if isPtr then some (Gen.ffiPointerSize, Gen.ffiPointerAlign)
    else if !hasSize || n < 0 then none
    else (specTy env stack elem).map (Spec.cArray n.toNat)
  | .iface name isPtr =>
    if isPtr then some (Gen.ffiPointerSize, Gen.ffiPointerAlign)
    else match findNode env name with
      | none => none
      | some node =>
        match node.kind with
        | .enum | .flags => specLeaf (enumSA node.values)
        | .callback => some (Gen.ffiPointerSize, Gen.ffiPointerAlign)
        | .other => none
        | _ =>
          if stack.contains name then none
          else (specNode env (name :: stack) node).map (fun (l : Spec.CLayout) => (l.size, l.align))

partial def specMembers (env : List Node) (stack : List Py.Str) : List Member → Option (List Spec.Member)
  | [] => some []
  | .field _ cb ty :: ms => do
    let m ← if cb then some (Gen.ffiPointerSize, Gen.ffiPointerAlign) else specTy env stack ty
    let r ← specMembers env stack ms
    pure (m :: r)
  | .callback _ :: ms => do
    let r ← specMembers env stack ms
    pure ((Gen.ffiPointerSize, Gen.ffiPointerAlign) :: r)
  | .other :: ms => specMembers env stack ms

partial def specNode (env : List Node) (stack : List Py.Str) (node : Node) : Option Spec.CLayout := do
  let ms ← specMembers env stack node.members
  match node.kind with
  | .union => pure (Spec.cUnionLayout ms)
  | _ => pure (Spec.cStructLayout ms)
end

def specJson (l : Spec.CLayout) : Json :=
  Json.mkObj [("size", jnat l.size), ("align", jnat l.align), ("offsets", jnats l.offsets)]

def saJson (m : MemberSA × Bool) : Json :=
  match m.1 with
  | .field sa => Json.mkObj [("size", jint sa.size), ("align", jint sa.align), ("ok", Json.bool sa.ok)]
  | .callback => Json.str "callback"
  | .other => Json.null

def nodeJson (env : List Node) (node : Node) : Json :=
  match node.kind with
  | .enum | .flags =>
    let mm := enumMinMax node.values
    Json.mkObj [("name", jstr node.name), ("kind", Json.str "enum"),
      ("storage", jopt jnat (enumStorageOfValues node.values)), ("min", jint mm.1), ("max", jint mm.2)]
  | .callback | .other => Json.mkObj [("name", jstr node.name), ("kind", Json.str "skip")]
  | _ =>
    let r := computeNode env node
    let st := storeLayout r.layout
    let ms := membersSA (nodeSA env (env.length + 1) [node.name]) node.members
    Json.mkObj [("name", jstr node.name),
      ("kind", Json.str (if node.kind == .union then "union" else "struct")),
      ("size", jint r.layout.size), ("align", jint r.layout.align), ("offsets", jints r.layout.offsets),
      ("stored", Json.mkObj [("size", jnat st.size), ("align", jnat st.align), ("offsets", jnats st.offsets)]),
      ("warn", Json.bool r.warn),
      ("members", Json.arr (ms.map saJson).toArray),
      ("spec", jopt specJson (specNode env [node.name] node))]

def membersOf (j : Json) : Except String (List (Nat × Nat)) := do
  let a ← (← j.getObjVal? "members").getArr?
  a.toList.mapM (fun p => do
    let q ← p.getArr?
    match q.toList with
    | [s, al] => pure ((← s.getNat?), (← al.getNat?))
    | _ => throw "member must be [size, align]")

def layoutJson (l : Layout) : Json :=
  Json.mkObj [("size", jint l.size), ("align", jint l.align), ("offsets", jints l.offsets)]

def handle (op : String) : Option Handler :=
  match op with
  | "c08.layout" => some fun j => do
      let nodes ← (← (← j.getObjVal? "nodes").getArr?).toList.mapM nodeOf
      pure (Json.arr (nodes.map (nodeJson nodes)).toArray)
  | "c08.align" => some fun j => do
      let n ← intOf j "n"
      let a ← intOf j "a"
      pure (Json.mkObj [("model", jint (giAlign n a)),
        ("spec", if n ≥ 0 && a > 0 then jnat (Spec.alignUp n.toNat a.toNat) else Json.null)])
  | "c08.enum" => some fun j => do
      let vs ← (← (← j.getObjVal? "values").getArr?).toList.mapM (fun v => v.getInt?)
      pure (jopt jnat (enumStorageOfValues vs))
  | "c08.struct" => some fun j => do
      let ms ← membersOf j
      let l := structLayout ptrSA (ms.map (fun m => MemberSA.field ⟨m.1, m.2, true⟩))
      pure (Json.mkObj [("model", layoutJson l), ("spec", specJson (Spec.cStructLayout ms))])
  | "c08.union" => some fun j => do
      let ms ← membersOf j
      let l := unionLayout (ms.map (fun m => MemberSA.field ⟨m.1, m.2, true⟩))
      pure (Json.mkObj [("model", layoutJson l), ("spec", specJson (Spec.cUnionLayout ms))])
  | _ => none

end Driver.C08

def main : IO Unit := Driver.mainLoop Driver.C08.handle
