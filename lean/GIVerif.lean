-- Root of the GIVerif library: everything that `lake build` must check.
import GIVerif.Props.C19
