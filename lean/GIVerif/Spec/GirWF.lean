/-
  C05 — the EXECUTABLE statement of the property on an emitted GIR file.

  `girWellFormed env repo : Bool` takes the XML tree of a GIR file (elements with their
  attributes in document order, text dropped, namespace prefixes written the conventional way:
  `c:type`, `glib:signal`) and the trees of the other GIR files that are available for
  resolving `<include>`s, and decides the property:

   for every callable / field / property / alias that is not marked introspectable="0" (itself
   or through an enclosing element — girparser.c drops the whole subtree of a marked element)
     * every type resolves to a fundamental, or to a definition in this namespace or in a
       (transitively) included namespace, and that definition is itself not marked;
       a reference into a namespace whose GIR is not available is NOT judged (finding kind
       `unavail`);
     * no varargs, va_list, long long, unsigned long long, long double;
     * every parameter and return value states transfer-ownership;
     * every parameter whose type is (an alias of) a callback other than GLib.DestroyNotify /
       Gio.AsyncReadyCallback states a scope;
     * every list / array has an element type (for the outermost list / array of a parameter or
       return value the writer's placeholder `gpointer` counts as "not stated"; the target of an
       <alias> is a bare type reference and is not asked for element types);
       values marked skip="1" are exempt from the three "states ..." clauses (kind `skipex`);
   and, everywhere in the file,
     * closure / destroy / length indices are in range (parameters of the enclosing callable,
       not counting the instance parameter; fields of the enclosing record / union);
     * shadows ↔ shadowed-by, glib:type-struct ↔ glib:is-gtype-struct-for point at each other;
     * setter / getter ↔ glib:set-property / glib:get-property agree;
     * a virtual method's invoker is a `<method>` of the same type.

  No Mathlib: linked into the compiled driver.
-/
import GIVerif.Py.Str
import GIVerif.Gen.TypeNames

namespace GIVerif.GirWF
open GIVerif.Py

inductive Elem where
  | mk (tag : Str) (attrs : List (Str × Str)) (kids : List Elem)
  deriving Repr, Inhabited

def Elem.tag : Elem → Str | .mk t _ _ => t
def Elem.attrs : Elem → List (Str × Str) | .mk _ a _ => a
def Elem.kids : Elem → List Elem | .mk _ _ k => k

def Elem.attr? (e : Elem) (k : String) : Option Str :=
  (e.attrs.find? (fun kv => kv.1 == k.toList)).map (·.2)

def Elem.is (e : Elem) (t : String) : Bool := e.tag == t.toList
def Elem.isOneOf (e : Elem) (ts : List String) : Bool := ts.any (fun t => e.tag == t.toList)
def Elem.kidsWith (e : Elem) (t : String) : List Elem := e.kids.filter (·.is t)
def Elem.kid? (e : Elem) (t : String) : Option Elem := e.kids.find? (·.is t)

/-- the name a definition is looked up by (`glib:boxed` carries it in `glib:name`) -/
def Elem.defName? (e : Elem) : Option Str :=
  match e.attr? "name" with
  | some n => some n
  | none => e.attr? "glib:name"

def Elem.marked (e : Elem) : Bool := e.attr? "introspectable" == some "0".toList
def Elem.skipped (e : Elem) : Bool := e.attr? "skip" == some "1".toList

def typeDefTags : List String :=
  ["alias", "record", "union", "class", "interface", "enumeration", "bitfield", "callback", "glib:boxed"]
def callableTags : List String :=
  ["function", "method", "constructor", "callback", "virtual-method", "glib:signal",
   "function-inline", "method-inline"]
def compoundTags : List String := ["record", "union", "class", "interface"]
def memberTags : List String := ["field", "record", "union"]
def judgedHolders : List String :=
  ["parameter", "instance-parameter", "return-value", "field", "property", "alias"]
def listNames : List String := ["GLib.List", "GLib.SList"]
def containerNames : List String :=
  ["GLib.List", "GLib.SList", "GLib.HashTable", "GLib.Array", "GLib.PtrArray", "GLib.ByteArray"]
def exemptCallbacks : List String := ["GLib.DestroyNotify", "Gio.AsyncReadyCallback"]
/-- fundamentals that must not be left in an introspectable value: TYPE_VALIST, TYPE_LONG_LONG,
    TYPE_LONG_ULONG, TYPE_LONG_DOUBLE of giscanner/ast.py (looked up in the generated table) -/
def exoticFundamentals : List Str :=
  (["TYPE_VALIST", "TYPE_LONG_LONG", "TYPE_LONG_ULONG", "TYPE_LONG_DOUBLE"].filterMap
    (fun k => Gen.typeConsts.lookup k)).map String.toList

/-- `name in ast.type_names`: the fundamental a plain name stands for -/
def fundamentalOf (n : Str) : Option Str :=
  (Gen.typeNames.find? (fun r => r.1.toList == n)).map (fun r => r.2.1.toList)

/-! ### the repositories -/

structure Env where
  main : Elem                -- <repository> under judgement
  others : List Elem         -- <repository> of every other GIR file that is available
  deriving Inhabited

def repoNamespace? (repo : Elem) : Option Elem := repo.kid? "namespace"
def repoName (repo : Elem) : Str := ((repoNamespace? repo).bind (·.attr? "name")).getD []
def repoVersion (repo : Elem) : Str := ((repoNamespace? repo).bind (·.attr? "version")).getD []
def repoIncludes (repo : Elem) : List (Str × Str) :=
  (repo.kidsWith "include").map (fun i => ((i.attr? "name").getD [], (i.attr? "version").getD []))

def Env.all (env : Env) : List Elem := env.main :: env.others

def Env.findRepo (env : Env) (nv : Str × Str) : Option Elem :=
  env.all.find? (fun r => repoName r == nv.1 && repoVersion r == nv.2)

/-- transitive closure of `<include>`: (available repositories reached, some include missing) -/
def includeClosure (env : Env) : Nat → List (Str × Str) → List Elem → Bool → List Elem × Bool
  | 0, _, acc, miss => (acc, miss)
  | _, [], acc, miss => (acc, miss)
  | fuel + 1, nv :: rest, acc, miss =>
    if acc.any (fun r => repoName r == nv.1) then includeClosure env fuel rest acc miss
    else
      match env.findRepo nv with
      | none => includeClosure env fuel rest acc true
      | some r => includeClosure env fuel (rest ++ repoIncludes r) (r :: acc) miss

/-- everything a name used in `repo` may refer to besides `repo` itself -/
def reachable (env : Env) (repo : Elem) : List Elem × Bool :=
  includeClosure env ((env.all.length + 1) * (env.all.length + 1) + (repoIncludes repo).length + 1)
    (repoIncludes repo) [] false

def findDef (repo : Elem) (n : Str) : Option Elem :=
  (repoNamespace? repo).bind fun ns =>
    ns.kids.find? (fun k => k.isOneOf typeDefTags && k.defName? == some n)

inductive Res where
  | fundamental (f : Str)
  | node (repo : Elem) (e : Elem)
  | missing                       -- the namespace is there, the definition is not
  | notIncluded                   -- the namespace is not in the include closure (all includes available)
  | unavailable                   -- cannot be decided with the files at hand
  deriving Inhabited

def splitDot (n : Str) : Option (Str × Str) :=
  match splitChar '.' n [] with
  | a :: b :: rest => some (a, join ['.'] (b :: rest))
  | _ => none

/-- resolve a type name written in `repo` -/
def resolve (env : Env) (repo : Elem) (n : Str) : Res :=
  match splitDot n with
  | none =>
    match fundamentalOf n with
    | some f => .fundamental f
    | none =>
      match findDef repo n with
      | some e => .node repo e
      | none => .missing
  | some (nsn, rest) =>
    if nsn == repoName repo then
      match findDef repo rest with
      | some e => .node repo e
      | none => .missing
    else
      let (reach, miss) := reachable env repo
      match reach.find? (fun r => repoName r == nsn) with
      | some r =>
        match findDef r rest with
        | some e => .node r e
        | none => .missing
      | none => if miss then .unavailable else .notIncluded

inductive CbKind where
  | notCallback
  | callback (exempt : Bool)
  | unknown
  deriving Repr, DecidableEq, Inhabited

def isExemptName (n : Str) : Bool := exemptCallbacks.any (fun x => x.toList == n)

/-- is the type named `n` (written in `repo`) a callback, following aliases? -/
def cbKind (env : Env) : Nat → Elem → Str → CbKind
  | 0, _, _ => .unknown
  | fuel + 1, repo, n =>
    if isExemptName n then .callback true
    else
      match resolve env repo n with
      | .fundamental _ => .notCallback
      | .node r e =>
        if e.is "callback" then
          .callback (isExemptName (repoName r ++ ['.'] ++ (e.defName?.getD [])))
        else if e.is "alias" then
          match (e.kid? "type").bind (·.attr? "name") with
          | some m => cbKind env fuel r m
          | none => .notCallback
        else .notCallback
      | .missing => .notCallback
      | .notIncluded => .notCallback
      | .unavailable => .unknown

/-! ### flattening with context -/

structure Ctx where
  path : Str := []
  dead : Bool := false                -- this element or an ancestor is marked introspectable="0"
  holder : Str := []                  -- nearest ancestor that is not <type>/<array> (for type elements)
  holderSkip : Bool := false          -- that ancestor carries skip="1"
  tdepth : Nat := 0                   -- <type>/<array> ancestors below the holder
  nParams : Option Nat := none        -- <parameter> count of the nearest enclosing callable
  nFields : Option Nat := none        -- member count of the nearest enclosing record / union / class
  deriving Inhabited

def seg (e : Elem) : Str :=
  match e.defName? with
  | some n => ['/'] ++ e.tag ++ ['['] ++ n ++ [']']
  | none => ['/'] ++ e.tag

/-- context of `e` itself, given what its parent provides -/
def ownCtx (pc : Ctx) (e : Elem) : Ctx :=
  { pc with path := pc.path ++ seg e, dead := pc.dead || e.marked }

/-- context `e` provides to its children -/
def kidCtx (c : Ctx) (e : Elem) : Ctx :=
  let c1 : Ctx :=
    if e.isOneOf ["type", "array"] then { c with tdepth := c.tdepth + 1 }
    else { c with holder := e.tag, holderSkip := e.skipped, tdepth := 0 }
  let c2 : Ctx :=
    if e.isOneOf callableTags then
      { c1 with nParams := some (((e.kid? "parameters").map (fun p => (p.kidsWith "parameter").length)).getD 0) }
    else c1
  if e.isOneOf compoundTags then
    { c2 with nFields := some (e.kids.filter (·.isOneOf memberTags)).length }
  else c2

mutual
def flat (pc : Ctx) : Elem → List (Ctx × Elem)
  | .mk t a ks =>
    let e := Elem.mk t a ks
    let c := ownCtx pc e
    (c, e) :: flatKids (kidCtx c e) ks
def flatKids (pc : Ctx) : List Elem → List (Ctx × Elem)
  | [] => []
  | k :: ks => flat pc k ++ flatKids pc ks
end

/-! ### the checks -/

structure Finding where
  kind : String          -- "issue" | "unavail" | "skipex"
  path : Str
  code : String
  detail : Str := []
  deriving Repr, Inhabited

def issue (c : Ctx) (code : String) (detail : Str := []) : Finding :=
  { kind := "issue", path := c.path, code := code, detail := detail }

def parseNat? (s : Str) : Option Nat :=
  if s.isEmpty || !s.all isAsciiDigit then none
  else some (s.foldl (fun n ch => n * 10 + (ch.toNat - '0'.toNat)) 0)

def isPlaceholderAny (e : Elem) : Bool :=
  e.is "type" && e.attr? "name" == some "gpointer".toList && (e.kids.filter (·.isOneOf ["type", "array"])).isEmpty

def typeKids (e : Elem) : List Elem := e.kids.filter (·.isOneOf ["type", "array", "varargs"])

/-- `length` of an `<array>`: in range of what it indexes -/
def checkLength (c : Ctx) (e : Elem) : List Finding :=
  match e.attr? "length" with
  | none => []
  | some v =>
    match parseNat? v with
    | none => [issue c "bad-index" v]
    | some i =>
      let bound :=
        if c.holder == "field".toList then c.nFields
        else if c.holder == "parameter".toList || c.holder == "return-value".toList
             || c.holder == "instance-parameter".toList then c.nParams
        else none
      match bound with
      | some n => if i < n then [] else [issue c "length-out-of-range" v]
      | none => [issue c "length-without-context" v]

/-- element type of a list / array -/
def checkElementType (c : Ctx) (e : Elem) : List Finding :=
  match typeKids e with
  | [] => [issue c "no-element-type"]
  | k :: _ =>
    if c.tdepth == 0 && (c.holder == "parameter".toList || c.holder == "return-value".toList)
       && isPlaceholderAny k then
      (if c.holderSkip then [{ kind := "skipex", path := c.path, code := "no-element-type" }]
       else [issue c "no-element-type"])
    else []

/-- a `<type>`, `<array>` or `<varargs>` element below a judged holder -/
def checkTypeElem (env : Env) (c : Ctx) (e : Elem) : List Finding :=
  if !e.isOneOf ["type", "array", "varargs"] then []
  else
    let lengthF := if e.is "array" then checkLength c e else []
    if c.dead || !judgedHolders.any (fun h => h.toList == c.holder) then lengthF
    else if e.is "varargs" then [issue c "varargs"]
    else if e.is "array" then lengthF ++ checkElementType c e
    else
      match e.attr? "name" with
      | none =>
        if e.attr? "foreign" == some "1".toList then [] else [issue c "unresolved-type" ((e.attr? "c:type").getD [])]
      | some n =>
        if listNames.any (fun x => x.toList == n) then
          -- an <alias> holds a type REFERENCE (`_write_type_ref`): it cannot state element types
          (if c.holder == "alias".toList then [] else checkElementType c e)
        else if containerNames.any (fun x => x.toList == n) then []
        else
          match resolve env env.main n with
          | .fundamental f => if exoticFundamentals.contains f then [issue c "exotic-type" f] else []
          | .node _ d => if d.marked then [issue c "refers-to-non-introspectable" n] else []
          | .missing => [issue c "unresolved-reference" n]
          | .notIncluded => [issue c "namespace-not-included" n]
          | .unavailable => [{ kind := "unavail", path := c.path, code := "unresolvable-include", detail := n }]

def checkIndexAttr (c : Ctx) (e : Elem) (a : String) : List Finding :=
  match e.attr? a with
  | none => []
  | some v =>
    match parseNat? v, c.nParams with
    | some i, some n => if i < n then [] else [issue c (a ++ "-out-of-range") v]
    | none, _ => [issue c "bad-index" v]
    | _, none => [issue c (a ++ "-without-context") v]

/-- `<parameter>`, `<instance-parameter>`, `<return-value>` of a callable -/
def checkValue (env : Env) (c : Ctx) (e : Elem) : List Finding :=
  if !e.isOneOf ["parameter", "instance-parameter", "return-value"] || c.nParams.isNone then []
  else
    let idx := if e.is "parameter" then checkIndexAttr c e "closure" ++ checkIndexAttr c e "destroy" else []
    if c.dead then idx
    else
      let transfer :=
        if (e.attr? "transfer-ownership").isSome then []
        else if e.skipped then [{ kind := "skipex", path := c.path, code := "no-transfer" : Finding }]
        else [issue c "no-transfer"]
      let scope :=
        if !e.is "parameter" || (e.attr? "scope").isSome then []
        else
          match (e.kid? "type").bind (·.attr? "name") with
          | none => []
          | some n =>
            match cbKind env (env.all.length * 8 + 64) env.main n with
            | .callback false =>
              if e.skipped then [{ kind := "skipex", path := c.path, code := "no-scope" : Finding }]
              else [issue c "no-scope" n]
            | .unknown => [{ kind := "unavail", path := c.path, code := "callback-or-not", detail := n }]
            | _ => []
      idx ++ transfer ++ scope

/-- a field whose anonymous callback is marked must be marked itself -/
def checkField (c : Ctx) (e : Elem) : List Finding :=
  if !e.is "field" || c.dead then []
  else if (e.kidsWith "callback").any (·.marked) then [issue c "field-callback-non-introspectable"] else []

def nameIs (e : Elem) (n : Str) : Bool := e.attr? "name" == some n

/-- consistency of the names that point at a sibling -/
def checkSiblings (c : Ctx) (e : Elem) : List Finding :=
  let ks := e.kids
  let calls := ks.filter (·.isOneOf callableTags)
  let methods := ks.filter (·.isOneOf ["method", "method-inline"])
  let props := ks.filter (·.is "property")
  let nm (k : Elem) : Str := (k.attr? "name").getD []
  let shadows := calls.filterMap fun f =>
    match f.attr? "shadows" with
    | none => none
    | some x =>
      if calls.any (fun g => nameIs g x && g.attr? "shadowed-by" == some (nm f)) then none
      else some (issue c "shadows-not-mutual" (nm f ++ "->".toList ++ x))
  let shadowedBy := calls.filterMap fun g =>
    match g.attr? "shadowed-by" with
    | none => none
    | some y =>
      if calls.any (fun f => nameIs f y && f.attr? "shadows" == some (nm g)) then none
      else some (issue c "shadowed-by-not-mutual" (nm g ++ "<-".toList ++ y))
  let accessor (pattr mattr code : String) := props.filterMap fun p =>
    match p.attr? pattr with
    | none => none
    | some m =>
      if methods.any (fun f => nameIs f m && f.attr? mattr == some (nm p)) then none
      else some (issue c code (nm p ++ "->".toList ++ m))
  let accessorBack (pattr mattr code : String) := methods.filterMap fun f =>
    match f.attr? mattr with
    | none => none
    | some pn =>
      match props.find? (fun p => nameIs p pn) with
      | none => none
      | some p =>
        if p.attr? pattr == some (nm f) then none
        else some (issue c code (nm f ++ "->".toList ++ pn))
  let invokers := (ks.filter (·.is "virtual-method")).filterMap fun v =>
    match v.attr? "invoker" with
    | none => none
    | some m =>
      if methods.any (fun f => nameIs f m) then none
      else some (issue c "invoker-not-a-method" (nm v ++ "->".toList ++ m))
  let typeStruct := (ks.filter (·.isOneOf ["class", "interface"])).filterMap fun cl =>
    match cl.attr? "glib:type-struct" with
    | none => none
    | some r =>
      if (ks.filter (·.is "record")).any (fun rec => nameIs rec r && rec.attr? "glib:is-gtype-struct-for" == some (nm cl))
      then none else some (issue c "type-struct-not-mutual" (nm cl ++ "->".toList ++ r))
  let structFor := (ks.filter (·.is "record")).filterMap fun rec =>
    match rec.attr? "glib:is-gtype-struct-for" with
    | none => none
    | some cn =>
      if (ks.filter (·.isOneOf ["class", "interface"])).any (fun cl => nameIs cl cn && cl.attr? "glib:type-struct" == some (nm rec))
      then none else some (issue c "is-gtype-struct-for-not-mutual" (nm rec ++ "->".toList ++ cn))
  shadows ++ shadowedBy
    ++ accessor "setter" "glib:set-property" "setter-mismatch"
    ++ accessor "getter" "glib:get-property" "getter-mismatch"
    ++ accessorBack "setter" "glib:set-property" "set-property-mismatch"
    ++ accessorBack "getter" "glib:get-property" "get-property-mismatch"
    ++ invokers ++ typeStruct ++ structFor

def checkOne (env : Env) (ce : Ctx × Elem) : List Finding :=
  let (c, e) := ce
  checkTypeElem env c e ++ checkValue env c e ++ checkField c e
    ++ (if e.kids.isEmpty then [] else checkSiblings c e)

/-- every finding of the file under judgement -/
def girFindings (env : Env) : List Finding :=
  (flat {} env.main).flatMap (checkOne env)

/-- THE PROPERTY: no finding of kind `issue` -/
def girWellFormed (env : Env) : Bool :=
  (girFindings env).all (fun f => f.kind != "issue")

/-- counts for the evidence: (elements, callables judged, values judged, type elements judged) -/
def girStats (env : Env) : Nat × Nat × Nat × Nat :=
  let fl := flat {} env.main
  (fl.length,
   (fl.filter fun ce => !ce.1.dead && ce.2.isOneOf callableTags).length,
   (fl.filter fun ce => !ce.1.dead && ce.1.nParams.isSome
      && ce.2.isOneOf ["parameter", "instance-parameter", "return-value"]).length,
   (fl.filter fun ce => !ce.1.dead && ce.2.isOneOf ["type", "array", "varargs"]
      && judgedHolders.any (fun h => h.toList == ce.1.holder)).length)

end GIVerif.GirWF
