/-
  C08 specification: the System V / Itanium C ABI layout rule for structures and unions,
  stated declaratively over natural numbers (sizes and alignments in bytes).

    * a member is placed at the least multiple of its alignment that is not below the end
      of the previous member (the first member at the least such multiple ≥ 0, i.e. 0);
    * the alignment of a struct/union is the largest member alignment (1 when empty);
    * the size of a struct is the least multiple of its alignment that is not below the
      end of its last member;
    * every union member is at offset 0 and the size of a union is the least multiple of
      its alignment that is not below its largest member.

  `IsStructLayout` / `IsUnionLayout` are the declarative statements (relations);
  `cStructLayout` / `cUnionLayout` are executable functions used by the compiled driver
  to evaluate the specification on concrete declarations (they are proved to satisfy, and
  to be the only solution of, the relations in Lemmas/Offsets.lean).

  That this rule is "what the C compiler does on this platform" is NOT provable; it is
  validated on every run against gcc (sizeof/_Alignof/offsetof of the same declarations).

  No Mathlib: this file is linked into the compiled driver.
-/
namespace GIVerif.Spec

/-- `r` is the least multiple of `a` that is ≥ `n` -/
def IsLeastMultipleGE (r a n : Nat) : Prop :=
  a ∣ r ∧ n ≤ r ∧ ∀ m, a ∣ m → n ≤ m → r ≤ m

/-- `r` is the maximum of `1` and all elements of `l` -/
def IsMaxWithOne (r : Nat) (l : List Nat) : Prop :=
  (r = 1 ∨ r ∈ l) ∧ 1 ≤ r ∧ ∀ x ∈ l, x ≤ r

/-- `r` is the maximum of `0` and all elements of `l` -/
def IsMaxWithZero (r : Nat) (l : List Nat) : Prop :=
  (r = 0 ∨ r ∈ l) ∧ ∀ x ∈ l, x ≤ r

/-- A member is described by (size, alignment). -/
abbrev Member := Nat × Nat

/-- `offs` are the offsets of `ms` when the first of them is placed at or after `start`;
    `fin` is the end of the last one (or `start` when there is none) -/
inductive Placed : Nat → List Member → List Nat → Nat → Prop where
  | nil (start : Nat) : Placed start [] [] start
  | cons {start off fin : Nat} {m : Member} {ms : List Member} {offs : List Nat} :
      IsLeastMultipleGE off m.2 start → Placed (off + m.1) ms offs fin →
      Placed start (m :: ms) (off :: offs) fin

/-- the declarative struct rule -/
structure IsStructLayout (ms : List Member) (offs : List Nat) (size align : Nat) : Prop where
  placed : ∃ fin, Placed 0 ms offs fin ∧ IsLeastMultipleGE size align fin
  align_max : IsMaxWithOne align (ms.map (·.2))

/-- the declarative union rule -/
structure IsUnionLayout (ms : List Member) (offs : List Nat) (size align : Nat) : Prop where
  offsets_zero : offs = ms.map (fun _ => 0)
  size_padded : ∃ mx, IsMaxWithZero mx (ms.map (·.1)) ∧ IsLeastMultipleGE size align mx
  align_max : IsMaxWithOne align (ms.map (·.2))

/-! ### executable form -/

/-- least multiple of `a` that is ≥ `n` (for `a > 0`) -/
def alignUp (n a : Nat) : Nat := (n + a - 1) / a * a

def maxAlign : List Member → Nat
  | [] => 1
  | m :: ms => max m.2 (maxAlign ms)

def maxSize : List Member → Nat
  | [] => 0
  | m :: ms => max m.1 (maxSize ms)

/-- offsets of `ms` from `start`, and the end of the last member -/
def place : Nat → List Member → List Nat × Nat
  | start, [] => ([], start)
  | start, m :: ms =>
    let off := alignUp start m.2
    let r := place (off + m.1) ms
    (off :: r.1, r.2)

structure CLayout where
  size : Nat
  align : Nat
  offsets : List Nat
  deriving Repr, DecidableEq, Inhabited

def cStructLayout (ms : List Member) : CLayout :=
  let p := place 0 ms
  let a := maxAlign ms
  ⟨alignUp p.2 a, a, p.1⟩

def cUnionLayout (ms : List Member) : CLayout :=
  let a := maxAlign ms
  ⟨alignUp (maxSize ms) a, a, ms.map (fun _ => 0)⟩

/-- a fixed-size array of `n` elements: `n` times the element, aligned like the element -/
def cArray (n : Nat) (elem : Member) : Member := (n * elem.1, elem.2)

end GIVerif.Spec
