/-
  C10 specification side: the documented GTK-Doc annotation grammar as DECIDABLE
  well-formedness predicates on annotation models (what a documentation author may
  write "in the current syntax": tokens separated by single spaces, no parentheses or
  angle brackets inside tokens), independent of the parser.  No Mathlib: also linked
  into the drivers so that the harness can ask for `wf` verdicts.
-/
import GIVerif.Model.AnnParse.Tokenizer

namespace GIVerif.AnnParse
open GIVerif.Py

/-- characters allowed inside a token: no whitespace, parentheses or angle brackets -/
def cleanChar (c : Char) : Bool := !isSpace c && c != '(' && c != ')' && c != '<' && c != '>'

/-- a token: non-empty, only clean characters -/
def wfToken (t : Str) : Bool := !t.isEmpty && t.all cleanChar

/-- a list-option token additionally has no `=` -/
def wfListToken (t : Str) : Bool := wfToken t && !t.contains '='

/-- an annotation name: a token already in lower case, not one of the two deprecated spellings
    (those are renamed by the parser, by design) -/
def wfName (n : Str) : Bool :=
  wfToken n && pyLower n == n && n != str Gen.annInoutAlt && n != str Gen.annAttribute

/-- free-form option text of an annotation the parser does not know: words of clean
    characters separated by single spaces -/
def wfFree (s : Str) : Bool := (splitChar ' ' s []).all wfToken

/-- `key` or `key=value`; the value may be empty (`key=`) -/
def wfDictEntry (kv : Str × Option Str) : Bool :=
  wfListToken kv.1 && (match kv.2 with
    | none => true
    | some v => v.all cleanChar)

def nodupKeys {β : Type} : List (Str × β) → Bool
  | [] => true
  | e :: rest => !assocHas rest e.1 && nodupKeys rest

/-- options fit the annotation's class: list annotations carry a list of tokens, dict
    annotations key[=value] pairs with distinct keys, unknown annotations nothing or one
    free-form string -/
def wfOpts (n : Str) : Opts → Bool
  | .none => !isListAnn n && !isDictAnn n
  | .list l =>
    if isListAnn n then l.all wfListToken
    else !isDictAnn n && (match l with
      | [s] => wfFree s
      | _ => false)
  | .dict d => !isListAnn n && isDictAnn n && d.all wfDictEntry && nodupKeys d

def wfAnnotation (a : Str × Opts) : Bool := wfName a.1 && wfOpts a.1 a.2

/-- a well-formed annotation list: every annotation well-formed, names distinct -/
def wfAnns (a : Anns) : Bool := a.all wfAnnotation && nodupKeys a

/-- `render` for annotation fields is the project's own writer -/
def renderAnns (a : Anns) : Str := serializeAnnotations a

end GIVerif.AnnParse
