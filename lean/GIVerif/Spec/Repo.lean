/-
  C17 specifications, each a few lines: the first directory having a file, the election of the
  latest version (maximal (major, minor), ties to the earliest directory), the invariants of the
  repository state and the closure of dependencies.
-/
import GIVerif.Model.Repo

namespace GIVerif.Repo
open GIVerif.Py

/-- the file `p` exists and holds a typelib with header `h` -/
def FileAt (fs : FS) (p : Str) (h : Hdr) : Prop :=
  ∃ d es e, lookupDir fs d = some es ∧ e ∈ es ∧ p = buildFilename d e.name ∧ e.hdr = h

/-- directory `d` exists and has a file called `fname` -/
def DirHas (fs : FS) (d fname : Str) : Prop :=
  ∃ es e, lookupDir fs d = some es ∧ e ∈ es ∧ e.name = fname

/-- exact search: `f` is the file `fname` of the FIRST directory of `path` that has one -/
def FirstWith (fs : FS) (fname : Str) (path : List Str) (f : Found) : Prop :=
  ∃ pre d post es e, path = pre ++ d :: post ∧ (∀ d' ∈ pre, ¬ DirHas fs d' fname) ∧
    lookupDir fs d = some es ∧ es.find? (fun e => e.name == fname) = some e ∧
    f = ⟨buildFilename d fname, e.hdr⟩

/-- the candidate an entry of directory number `i` stands for -/
def candOf (ns d : Str) (i : Nat) (e : Entry) : Option Cand :=
  (entryVersion ns e.name).map (fun v => ⟨i, buildFilename d e.name, v, e.hdr⟩)

/-- every file on the path that counts as a version of `ns` (no deduplication), with the number
    of its directory among the existing directories of the path -/
def matchesFrom (fs : FS) (ns : Str) : List Str → Nat → List Cand
  | [], _ => []
  | d :: ds, i =>
    match lookupDir fs d with
    | none => matchesFrom fs ns ds i
    | some es => es.filterMap (candOf ns d i) ++ matchesFrom fs ns ds (i + 1)

def allMatches (fs : FS) (ns : Str) (path : List Str) : List Cand := matchesFrom fs ns path 0

def verKey (c : Cand) : Int × Int := (parseVersion c.version).getD (0, 0)

/-- `c` is at least as good as `m`: higher (major, minor), or the same and not a later directory -/
def Beats (c m : Cand) : Prop :=
  (verKey c).1 > (verKey m).1 ∨ ((verKey c).1 = (verKey m).1 ∧ (verKey c).2 > (verKey m).2) ∨
    (verKey c = verKey m ∧ c.pathIndex ≤ m.pathIndex)

/-- elect: a file that beats every file -/
def Elected (fs : FS) (ns : Str) (path : List Str) (c : Cand) : Prop :=
  c ∈ allMatches fs ns path ∧ ∀ m ∈ allMatches fs ns path, Beats c m

/-! ### repository invariants -/

/-- the recorded dependency `d` is loaded (eagerly) at the recorded version -/
def DepLoaded (s : Repo) (d : Str) : Prop :=
  ∃ dn dv, splitDep d = some (dn, dv) ∧ ∃ l ∈ s.typelibs, l.ns = dn ∧ l.tl.hdr.ver = dv

structure Inv (fs : FS) (s : Repo) : Prop where
  /-- one entry (hence one version) per namespace, in each table -/
  nodupE : (s.typelibs.map Loaded.ns).Nodup
  nodupL : (s.lazy.map Loaded.ns).Nodup
  /-- the lazy and the eager table are disjoint -/
  disj : ∀ l ∈ s.typelibs, ∀ l' ∈ s.lazy, l.ns ≠ l'.ns
  /-- loaded ⇒ every recorded dependency is loaded at the recorded version -/
  deps : ∀ l ∈ s.typelibs, ∀ d ∈ l.tl.hdr.deps, DepLoaded s d
  /-- the recorded source of every entry is the file its typelib came from -/
  paths : ∀ l ∈ s.typelibs ++ s.lazy, l.source = builtinSource ∨ FileAt fs l.source l.tl.hdr

/-- dependency closure: `d` is reachable from a typelib with header `h` through the recorded
    dependencies of loaded typelibs -/
inductive ReachHdr (s : Repo) : Hdr → Str → Prop where
  | imm {h : Hdr} {d : Str} : d ∈ h.deps → ReachHdr s h d
  | step {h : Hdr} {d d' dn dv : Str} {tl : Typelib} : d' ∈ h.deps → splitDep d' = some (dn, dv) →
      getRegistered s dn = some tl → ReachHdr s tl.hdr d → ReachHdr s h d

def Reach (s : Repo) (ns d : Str) : Prop := ∃ tl, getRegistered s ns = some tl ∧ ReachHdr s tl.hdr d

/-- no namespace depends (through the files of `fs`) on itself: a rank that strictly decreases
    along every recorded dependency -/
def Ranked (fs : FS) (rank : Str → Nat) : Prop :=
  ∀ p h, FileAt fs p h → ∀ d ∈ h.deps, ∀ dn dv, splitDep d = some (dn, dv) → rank dn < rank h.ns

def HdrRanked (rank : Str → Nat) (h : Hdr) : Prop :=
  ∀ d ∈ h.deps, ∀ dn dv, splitDep d = some (dn, dv) → rank dn < rank h.ns

/-- the calls excluded from `C17_inv`: in-memory typelibs that close a dependency cycle -/
def OpOk (rank : Str → Nat) (_s : Repo) : Op → Prop
  | .load hdr _ => HdrRanked rank hdr
  | _ => True

def Guarded (fs : FS) (fuel : Nat) (rank : Str → Nat) : Repo → List Op → Prop
  | _, [] => True
  | s, op :: ops => OpOk rank s op ∧ Guarded fs fuel rank (step fs fuel s op) ops

end GIVerif.Repo
