/-
  C10 specification side, block level: a stated fragment of the documented GTK-Doc grammar as
  DECIDABLE well-formedness predicates on block models, the layouts a block may be written in,
  and the canonical parse result (`blockImage`) the property demands for a block model.
  Independent of the parser's state machine; `render` lays out the lines produced by the
  project's own writer (`bodyLines`), so "every layout of the writer's text" is what is covered.

  The fragment (everything else is outside the `_partial` block theorems of Props/C10.lean):
  * identifier: a symbol (`\w+`) that does not start with `SECTION` (SECTION_RE takes such a line as a
    section, with or without colon), with a well-formed annotation list (Spec/AnnGrammar.lean);
  * parameters: distinct names `\w+` (not `returns` in any case, not `Varargs`), each with a
    well-formed annotation list and an optional ONE-LINE description that does not begin
    with a parenthesis or a colon;
  * block description: one paragraph of lines that are neither parameter nor tag lines and
    carry no white space at either end;
  * tags: an optional `Returns:` with annotations and an optional one-line description.
  Excluded: the other identifier forms, multi-line parameter/tag descriptions, several
  paragraphs / indented lines in the description, `Since:`/`Deprecated:`/`Stability:`,
  annotations continued over several lines (covered at field level by C10_ann_continuation),
  text beside the comment tokens, trailing white space.
-/
import GIVerif.Model.AnnParse
import GIVerif.Spec.AnnGrammar

namespace GIVerif.AnnParse
open GIVerif.Py

/-! ### block models -/

def noBreakChar (c : Char) : Bool := c != '\n' && c != '\r'

/-- one line of text: non-empty, no line break, no white space at either end -/
def trimmedText (s : Str) : Bool :=
  match s with
  | [] => false
  | c :: _ => !isSpace c && !isSpace (s.getLast?.getD 'x') && s.all noBreakChar

/-- a description as it may follow the colon of `@name:` / `Returns:` on the same line -/
def wfDescText (s : Str) : Bool :=
  trimmedText s && s.head? != some '(' && s.head? != some ')' && s.head? != some ':'

/-- `\w+` -/
def wfWord (n : Str) : Bool := !n.isEmpty && n.all isWord

/-- a parameter or the `Returns:` tag -/
structure SPart where
  name : Str
  anns : Anns
  desc : Option Str
  deriving Repr, DecidableEq

def wfPartBody (p : SPart) : Bool :=
  wfAnns p.anns && (match p.desc with
    | none => true
    | some d => wfDescText d)

def wfParam (p : SPart) : Bool :=
  wfWord p.name && pyLower p.name != str Gen.tagReturns && p.name != str "Varargs" && wfPartBody p

/-- a line of the block description: not a parameter line, not a tag line -/
def wfDescLine (l : Str) : Bool := trimmedText l && (matchParameter l).isNone && (matchTag l).isNone

structure SBlock where
  name : Str
  anns : Anns
  params : List SPart
  desc : List Str
  returns : Option SPart
  deriving Repr, DecidableEq

def wfSBlock (b : SBlock) : Bool :=
  wfWord b.name && !startsWith b.name (str "SECTION") && wfAnns b.anns
  && b.params.all wfParam && nodupKeys (b.params.map (fun p => (p.name, ())))
  && b.desc.all wfDescLine
  && (match b.returns with
    | none => true
    | some r => wfPartBody r)

/-! ### the parse result the property demands -/

/-- a part named `name` first seen on line `ln`.  The parser keeps `''` and `None` apart: a part whose
    line has text after the colon gets a (possibly empty) description and positioned annotations. -/
def partImage (name : Str) (p : SPart) (ln : Nat) : PartM :=
  { name := name, line := ln, annotations := p.anns,
    annsLine := if p.anns.isEmpty && p.desc.isNone then none else some ln,
    value := none,
    description := match p.desc with
      | some d => some d
      | none => if p.anns.isEmpty then none else some [] }

def paramImages : List SPart → Nat → List (Str × PartM)
  | [], _ => []
  | p :: ps, ln => (p.name, partImage p.name p ln) :: paramImages ps (ln + 1)

/-- number of body lines before the tags -/
def linesBeforeTags (b : SBlock) : Nat :=
  1 + b.params.length + (if b.desc.isEmpty then 0 else b.desc.length + 1)

/-- the block a comment starting on line `n` must parse to -/
def blockImage (b : SBlock) (n : Nat) (indentation : List Str) : BlockM :=
  { name := b.name, line := n, annotations := b.anns,
    annsLine := if b.anns.isEmpty then none else some (n + 1),
    params := paramImages b.params (n + 2),
    description := if b.desc.isEmpty then none else some (join ['\n'] b.desc),
    tags := match b.returns with
      | none => []
      | some r => [(str Gen.tagReturns, partImage (str Gen.tagReturns) r (n + linesBeforeTags b + 2))],
    codeBefore := [], codeAfter := [], indentation := indentation }

/-! ### layouts -/

/-- how the body lines of a block are laid out as a comment: white space before the opening token,
    before the asterisk of EVERY body line separately (`indents` for body lines 0, 1, …; `indent` for all
    further lines — so any ragged / staircase layout is a `Layout`), before the closing token, the
    white-space character after the asterisks, the line-ending convention -/
structure Layout where
  startIndent : Str
  indents : List Str
  indent : Str
  endIndent : Str
  sp : Char
  eol : Str
  deriving Repr, DecidableEq

/-- the white space in front of the asterisk of body line `k` -/
def Layout.indentAt (L : Layout) (k : Nat) : Str := L.indents.getD k L.indent

def wsString (s : Str) : Bool := s.all (fun c => isSpace c && noBreakChar c)

def wfLayout (L : Layout) : Bool :=
  wsString L.startIndent && L.indents.all wsString && wsString L.indent && wsString L.endIndent
  && isSpace L.sp && noBreakChar L.sp
  && (L.eol == ['\n'] || L.eol == ['\r'] || L.eol == ['\r', '\n'])

def layLine (L : Layout) (k : Nat) (l : Str) : Str :=
  if l.isEmpty then L.indentAt k ++ ['*'] else L.indentAt k ++ '*' :: L.sp :: l

/-- body lines `ls`, the first of which is body line `k`, each behind its own indentation -/
def layLines (L : Layout) : Nat → List Str → List Str
  | _, [] => []
  | k, l :: ls => layLine L k l :: layLines L (k + 1) ls

/-- the indentation of `n` consecutive body lines starting with line `k` (what the parser records) -/
def indentsFrom (L : Layout) : Nat → Nat → List Str
  | _, 0 => []
  | k, n + 1 => L.indentAt k :: indentsFrom L (k + 1) n

def renderLines (L : Layout) (B : BlockM) : List Str :=
  (L.startIndent ++ str "/**") :: (layLines L 0 (bodyLines B) ++ [L.endIndent ++ str "*/"])

/-- the comment token: the writer's lines for `B` in layout `L` -/
def render (L : Layout) (B : BlockM) : Str := join L.eol (renderLines L B)

/-- the layout `GtkDocCommentBlockWriter.write` itself uses for a block whose most common recorded
    indentation is `ind`: the same indentation on every line -/
def writerLayout (ind : Str) : Layout :=
  let indent := if ind.isEmpty then [' '] else ind
  if endsWith indent ['\t'] then
    { startIndent := indent, indents := [], indent := indent ++ [' '], endIndent := indent ++ [' '], sp := ' ', eol := ['\n'] }
  else
    { startIndent := indent.dropLast, indents := [], indent := indent, endIndent := indent, sp := ' ', eol := ['\n'] }

end GIVerif.AnnParse
