/-
  C20 specification: a small XML 1.0 (5th edition) reader on `List Char`.

  This is what "parses back" means in the C20 theorems.  It is written from the XML
  recommendation, not from the writer:
    * `isXmlChar`, `isNameStart`, `isNameChar`: productions [2], [4], [4a];
    * `readRef`: the five predefined entities and decimal / hexadecimal character references
      (productions [66]–[68]); a reference to a non-Char is an error;
    * `readAttrValue`: production [10] with attribute-value normalisation (§3.3.3): a literal
      tab / newline / carriage return becomes a space (`\r\n` one space, §2.11), characters that
      come from references are kept as they are, a literal `<` is an error;
    * `readAttrs` / `readStartTag`: productions [40]–[44] — white space is REQUIRED before every
      attribute, optional around `=`, attribute names must be distinct (WFC "Unique Att Spec");
    * `readUnit` / `readText`: character data [14] with references and line-end normalisation
      (§2.11: a literal `\r\n` or lone `\r` reads as `\n`);
    * `readComment`: production [15] (`--` only as part of the closing `-->`);
    * `readDoc`: the XML declaration [23], then the flat item sequence of the rest of the
      document; `balance` / `wellFormedDoc`: the element nesting constraint of production [39]
      (each end tag closes the most recently opened element), one root element, nothing but
      white space and comments outside it.
  Not supported (rejected): DOCTYPE, CDATA sections, processing instructions other than the
  XML declaration, general entities other than the five predefined ones.

  All functions are total; recursion that follows a sub-reader's remaining input uses fuel
  (the top-level functions supply `length + 1`, which the theorems show to be enough).
  No imports: the file is also linked into the compiled driver so that the harness can compare
  this reader with expat on the real writer's output.
-/

namespace GIVerif.Xml

abbrev Str := List Char

def inRanges (rs : List (Nat × Nat)) (c : Char) : Bool :=
  rs.any (fun r => decide (r.1 ≤ c.toNat) && decide (c.toNat ≤ r.2))

/-- production [2] Char -/
def charRanges : List (Nat × Nat) :=
  [(0x9, 0x9), (0xA, 0xA), (0xD, 0xD), (0x20, 0xD7FF), (0xE000, 0xFFFD), (0x10000, 0x10FFFF)]
def isXmlChar (c : Char) : Bool := inRanges charRanges c

/-- production [3] S -/
def isWs (c : Char) : Bool := c = ' ' || c = '\t' || c = '\n' || c = '\r'

/-- production [4] NameStartChar -/
def nameStartRanges : List (Nat × Nat) :=
  [(0x3A, 0x3A), (0x41, 0x5A), (0x5F, 0x5F), (0x61, 0x7A), (0xC0, 0xD6), (0xD8, 0xF6), (0xF8, 0x2FF),
   (0x370, 0x37D), (0x37F, 0x1FFF), (0x200C, 0x200D), (0x2070, 0x218F), (0x2C00, 0x2FEF),
   (0x3001, 0xD7FF), (0xF900, 0xFDCF), (0xFDF0, 0xFFFD), (0x10000, 0xEFFFF)]
def isNameStart (c : Char) : Bool := inRanges nameStartRanges c

/-- production [4a] NameChar -/
def nameExtraRanges : List (Nat × Nat) :=
  [(0x2D, 0x2E), (0x30, 0x39), (0xB7, 0xB7), (0x300, 0x36F), (0x203F, 0x2040)]
def isNameChar (c : Char) : Bool := isNameStart c || inRanges nameExtraRanges c

/-- production [5] Name, as a predicate on a whole string -/
def isXmlName : Str → Bool
  | [] => false
  | c :: cs => isNameStart c && cs.all isNameChar

/-- read a Name at the start of the input -/
def readName : Str → Option (Str × Str)
  | [] => none
  | c :: cs => if isNameStart c then some (c :: cs.takeWhile isNameChar, cs.dropWhile isNameChar) else none

def skipWs (s : Str) : Str := s.dropWhile isWs

/-! ### references -/

def isDigit (c : Char) : Bool := decide ('0'.toNat ≤ c.toNat) && decide (c.toNat ≤ '9'.toNat)
def isHexDigit (c : Char) : Bool :=
  isDigit c || (decide ('a'.toNat ≤ c.toNat) && decide (c.toNat ≤ 'f'.toNat))
    || (decide ('A'.toNat ≤ c.toNat) && decide (c.toNat ≤ 'F'.toNat))
def hexDigitVal (c : Char) : Nat :=
  if isDigit c then c.toNat - '0'.toNat
  else if decide ('a'.toNat ≤ c.toNat) && decide (c.toNat ≤ 'f'.toNat) then c.toNat - 'a'.toNat + 10
  else c.toNat - 'A'.toNat + 10
def numVal (base : Nat) (ds : Str) : Nat := ds.foldl (fun n d => n * base + hexDigitVal d) 0

/-- the character with code point `n`, if it is an XML Char -/
def charOfCode (n : Nat) : Option Char :=
  if n < 0x110000 then
    let c := Char.ofNat n
    if c.toNat = n && isXmlChar c then some c else none
  else none

/-- productions [66]–[68], input positioned just after the `&` -/
def readRef : Str → Option (Char × Str)
  | 'a' :: 'm' :: 'p' :: ';' :: r => some ('&', r)
  | 'l' :: 't' :: ';' :: r => some ('<', r)
  | 'g' :: 't' :: ';' :: r => some ('>', r)
  | 'q' :: 'u' :: 'o' :: 't' :: ';' :: r => some ('"', r)
  | 'a' :: 'p' :: 'o' :: 's' :: ';' :: r => some ('\'', r)
  | '#' :: 'x' :: r =>
    let ds := r.takeWhile isHexDigit
    match r.dropWhile isHexDigit with
    | ';' :: r' => if ds.isEmpty then none else (charOfCode (numVal 16 ds)).map (fun c => (c, r'))
    | _ => none
  | '#' :: r =>
    let ds := r.takeWhile isDigit
    match r.dropWhile isDigit with
    | ';' :: r' => if ds.isEmpty then none else (charOfCode (numVal 10 ds)).map (fun c => (c, r'))
    | _ => none
  | _ => none

/-! ### attribute values -/

/-- the value up to the closing quote `q`, normalised as §3.3.3 prescribes -/
def readAttrValF : Nat → Char → Str → Option (Str × Str)
  | 0, _, _ => none
  | _ + 1, _, [] => none
  | n + 1, q, c :: r =>
    if c = q then some ([], r)
    else if c = '<' then none
    else if c = '&' then
      match readRef r with
      | some (d, r') => (readAttrValF n q r').map (fun p => (d :: p.1, p.2))
      | none => none
    else if c = '\r' then
      match r with
      | '\n' :: r' => (readAttrValF n q r').map (fun p => (' ' :: p.1, p.2))
      | _ => (readAttrValF n q r).map (fun p => (' ' :: p.1, p.2))
    else if c = '\n' || c = '\t' then (readAttrValF n q r).map (fun p => (' ' :: p.1, p.2))
    else if isXmlChar c then (readAttrValF n q r).map (fun p => (c :: p.1, p.2))
    else none

/-- production [10] AttValue: a quoted value at the start of the input -/
def readAttrValue : Str → Option (Str × Str)
  | c :: r => if c = '"' || c = '\'' then readAttrValF (r.length + 1) c r else none
  | [] => none

/-- `(S Attribute)*` followed by optional white space; stops in front of whatever is not an
    attribute and returns that remaining input -/
def readAttrsF : Nat → Str → Option (List (Str × Str) × Str)
  | 0, _ => none
  | _ + 1, [] => some ([], [])
  | n + 1, c :: r =>
    if isWs c then
      match skipWs r with
      | [] => some ([], [])
      | d :: r1 =>
        if isNameStart d then
          match readName (d :: r1) with
          | none => none
          | some (nm, r2) =>
            match skipWs r2 with
            | '=' :: r3 =>
              match readAttrValue (skipWs r3) with
              | none => none
              | some (v, r4) => (readAttrsF n r4).map (fun p => ((nm, v) :: p.1, p.2))
            | _ => none
        else some ([], d :: r1)
    else some ([], c :: r)

def namesDistinct : List (Str × Str) → Bool
  | [] => true
  | a :: rest => !(rest.any (fun b => b.1 == a.1)) && namesDistinct rest

/-- productions [40] STag / [44] EmptyElemTag, input positioned just after the `<`;
    result: name, attributes, is-empty-element flag, remaining input -/
def readStartTag (s : Str) : Option (Str × List (Str × Str) × Bool × Str) :=
  match readName s with
  | none => none
  | some (nm, r) =>
    match readAttrsF (r.length + 1) r with
    | none => none
    | some (attrs, r1) =>
      if namesDistinct attrs then
        match r1 with
        | '>' :: r2 => some (nm, attrs, false, r2)
        | '/' :: '>' :: r2 => some (nm, attrs, true, r2)
        | _ => none
      else none

/-- production [42] ETag, input positioned just after the `</` -/
def readEndTag (s : Str) : Option (Str × Str) :=
  match readName s with
  | none => none
  | some (nm, r) =>
    match skipWs r with
    | '>' :: r1 => some (nm, r1)
    | _ => none

/-! ### character data -/

/-- one character of character data: a reference, or a literal Char other than `<` and `&`
    (a literal `\r\n` or `\r` reads as `\n`) -/
def readUnit : Str → Option (Char × Str)
  | [] => none
  | c :: r =>
    if c = '&' then readRef r
    else if c = '<' then none
    else if c = '\r' then
      match r with
      | '\n' :: r' => some ('\n', r')
      | _ => some ('\n', r)
    else if isXmlChar c then some (c, r) else none

/-- character data up to the next `<` (or the end of the input), decoded -/
def readTextF : Nat → Str → Option (Str × Str)
  | 0, _ => none
  | _ + 1, [] => some ([], [])
  | n + 1, c :: r =>
    if c = '<' then some ([], c :: r)
    else
      match readUnit (c :: r) with
      | some (d, r') => (readTextF n r').map (fun p => (d :: p.1, p.2))
      | none => none

def readText (s : Str) : Option (Str × Str) := readTextF (s.length + 1) s

/-- production [15] Comment, input positioned just after the `<!--` -/
def readComment : Str → Option (Str × Str)
  | [] => none
  | c :: r =>
    if c = '-' then
      if r.head? = some '-' then
        (if r.tail.head? = some '>' then some ([], r.tail.tail) else none)
      else (readComment r).map (fun p => ('-' :: p.1, p.2))
    else if c = '\r' then
      -- `\r\n` reads as one `\n` (the `\r` is dropped, the `\n` is read next); a lone `\r` as `\n`
      if r.head? = some '\n' then readComment r
      else (readComment r).map (fun p => ('\n' :: p.1, p.2))
    else if isXmlChar c then (readComment r).map (fun p => (c :: p.1, p.2))
    else none

/-! ### one element with text content (what `build_xml_tag` writes) -/

/-- `<name attrs/>` or `<name attrs>text</name>`: name, attributes, text (`none` for the
    empty-element form), remaining input -/
def readTag : Str → Option (Str × List (Str × Str) × Option Str × Str)
  | '<' :: s =>
    match readStartTag s with
    | none => none
    | some (nm, attrs, true, r) => some (nm, attrs, none, r)
    | some (nm, attrs, false, r) =>
      match readText r with
      | some (t, '<' :: '/' :: r1) =>
        match readEndTag r1 with
        | some (nm', r2) => if nm' = nm then some (nm, attrs, some t, r2) else none
        | none => none
      | _ => none
  | _ => none

/-! ### documents -/

inductive Item where
  /-- one character of character data (decoded) -/
  | ch (c : Char)
  | start (name : Str) (attrs : List (Str × Str))
  | empty (name : Str) (attrs : List (Str × Str))
  | close (name : Str)
  | comment (text : Str)
  deriving Repr, DecidableEq

/-- the flat item sequence of `content` -/
def readItemsF : Nat → Str → Option (List Item)
  | 0, _ => none
  | _ + 1, [] => some []
  | n + 1, c :: r =>
    if c = '<' then
      match r with
      | [] => none
      | d :: r1 =>
        if d = '!' then
          match r1 with
          | '-' :: '-' :: r2 =>
            match readComment r2 with
            | some (t, r') => (readItemsF n r').map (Item.comment t :: ·)
            | none => none
          | _ => none
        else if d = '/' then
          match readEndTag r1 with
          | some (nm, r') => (readItemsF n r').map (Item.close nm :: ·)
          | none => none
        else
          match readStartTag (d :: r1) with
          | some (nm, attrs, e, r') =>
            (readItemsF n r').map ((if e then Item.empty nm attrs else Item.start nm attrs) :: ·)
          | none => none
    else
      match readUnit (c :: r) with
      | some (d, r') => (readItemsF n r').map (Item.ch d :: ·)
      | none => none

def readItems (s : Str) : Option (List Item) := readItemsF (s.length + 1) s

def dropPrefix? : Str → Str → Option Str
  | s, [] => some s
  | [], _ :: _ => none
  | c :: cs, p :: ps => if c = p then dropPrefix? cs ps else none

def lookup (k : Str) : List (Str × Str) → Option Str
  | [] => none
  | (a, v) :: rest => if a = k then some v else lookup k rest

/-- production [23] XMLDecl (optional): `<?xml version="1.0" [encoding=...] ?>`; the encoding, if
    declared, must be UTF-8 (the only one `get_encoded_xml` produces).  Returns the rest. -/
def readProlog (s : Str) : Option Str :=
  match dropPrefix? s "<?xml".toList with
  | none => some s
  | some r =>
    match readAttrsF (r.length + 1) r with
    | some (attrs, '?' :: '>' :: r1) =>
      if lookup "version".toList attrs = some "1.0".toList
          && (match lookup "encoding".toList attrs with
              | none => true
              | some e => e.map Char.toLower = "utf-8".toList)
          && attrs.all (fun a => a.1 = "version".toList || a.1 = "encoding".toList || a.1 = "standalone".toList)
      then some r1 else none
    | _ => none

def readDoc (s : Str) : Option (List Item) :=
  match readProlog s with
  | some r => readItems r
  | none => none

/-- element nesting: run the items against a stack of open element names (innermost first);
    `none` when an end tag does not close the innermost open element -/
def balance : List Str → List Item → Option (List Str)
  | st, [] => some st
  | st, .start n _ :: rest => balance (n :: st) rest
  | [], .close _ :: _ => none
  | top :: st, .close n :: rest => if n = top then balance st rest else none
  | st, _ :: rest => balance st rest

/-- outside the root element: only white space and comments -/
def miscOnly : List Item → Bool
  | [] => true
  | .ch c :: rest => isWs c && miscOnly rest
  | .comment _ :: rest => miscOnly rest
  | _ => false

/-- the items from the root's start tag on: consume the root element, return what follows it -/
def afterRoot : Nat → List Item → Option (List Item)
  | _, [] => none
  | d, .start _ _ :: rest => afterRoot (d + 1) rest
  | 0, .close _ :: _ => none
  | d + 1, .close _ :: rest => if d = 0 then some rest else afterRoot d rest
  | d, .empty _ _ :: rest => if d = 0 then some rest else afterRoot d rest
  | d, _ :: rest => if d = 0 then none else afterRoot d rest

/-- production [1] document at the item level: Misc* element Misc*, element properly nested -/
def wellFormedDoc (items : List Item) : Bool :=
  let pre := items.takeWhile (fun i => match i with | .ch _ => true | .comment _ => true | _ => false)
  let body := items.dropWhile (fun i => match i with | .ch _ => true | .comment _ => true | _ => false)
  miscOnly pre && (balance [] items == some []) &&
    (match afterRoot 0 body with
     | some post => miscOnly post
     | none => false)

end GIVerif.Xml
