/-
  C01 — the documented rule table (docs/website/annotations/giannotations.rst and the property
  statement), independent of the model's control flow: for every annotation, where it is valid
  (`Valid ann site`) and which GIR attribute it must produce (`Expected ann site`), after the
  documented overrides: `(not nullable)` beats `(nullable)`; `(not optional)` beats `(optional)` (and the
  optional meaning of `(allow-none)` on an out parameter); `floating` is written as `none`;
  `inout` beats `out` beats `in`; `(allow-none)` means optional on out parameters and nullable
  elsewhere.
-/
import GIVerif.Model.ParamAnn

namespace GIVerif.ParamAnn
open GIVerif.Py

inductive Ann where
  | skip
  | notNullable
  | notOptional
  | nullable
  | optional
  | allowNone
  | dirIn
  | dirOut
  | dirInout
  | transfer (mode : Str)
  deriving DecidableEq, Repr

/-- what the documentation makes validity depend on -/
structure Site where
  isRet : Bool
  dir : Dir          -- direction after the direction annotations
  pointer : Bool     -- pointer type in C, or an out/inout parameter
  floatable : Bool   -- object, interface, GVariant, GClosure
  container : Bool   -- array / list / hash table, or an (array) annotation is present
  ownable : Bool     -- pointer, string, array, struct, union, boxed, object, interface
  hasNot : Bool      -- a (not nullable) annotation (or a bare / unknown (not ...)) is present as well
  hasNotOptional : Bool  -- a (not optional) annotation is present as well
  hasOut : Bool
  hasInout : Bool
  deriving Repr

inductive AttrUpdate where
  | has (k v : Str)
  | lacks (k : Str)
  deriving DecidableEq, Repr

def Valid : Ann → Site → Bool
  | .skip, _ => true
  | .notNullable, _ => true
  | .notOptional, _ => true
  | .nullable, s => s.pointer
  | .optional, s => !s.isRet && (s.dir == .out || s.dir == .inout)
  | .allowNone, s => (s.dir == .out && !s.isRet) || s.pointer
  | .dirIn, s => !s.isRet && !s.hasOut && !s.hasInout
  | .dirOut, s => !s.isRet && !s.hasInout
  | .dirInout, s => !s.isRet
  | .transfer m, s =>
    if m = G "floating" then s.floatable
    else if m = G "container" then s.container
    else if m = G "none" ∨ m = G "full" then s.ownable
    else false

def Expected : Ann → Site → AttrUpdate
  | .skip, _ => .has (G "skip") (G "1")
  | .notNullable, _ => .lacks (G "nullable")
  | .notOptional, _ => .lacks (G "optional")
  | .nullable, s => if s.hasNot then .lacks (G "nullable") else .has (G "nullable") (G "1")
  | .optional, s => if s.hasNotOptional then .lacks (G "optional") else .has (G "optional") (G "1")
  | .allowNone, s =>
    if s.dir == .out && !s.isRet then
      (if s.hasNotOptional then .lacks (G "optional") else .has (G "optional") (G "1"))
    else if s.hasNot then .lacks (G "nullable") else .has (G "nullable") (G "1")
  | .dirIn, _ => .lacks (G "direction")
  | .dirOut, _ => .has (G "direction") (G "out")
  | .dirInout, _ => .has (G "direction") (G "inout")
  | .transfer m, _ => .has (G "transfer-ownership") (if m = G "floating" then G "none" else m)

/-- the annotation is written on the part (with well-formed options) -/
def Present (a : Anns) : Ann → Prop
  | .skip => a.skip.isSome = true
  | .notNullable => notNullableAnn a = true
  | .notOptional => notOptionalAnn a = true
  | .nullable => a.nullable.isSome = true
  | .optional => a.optional.isSome = true
  | .allowNone => a.allowNone.isSome = true
  | .dirIn => a.in_.isSome = true
  | .dirOut => a.out.isSome = true
  | .dirInout => a.inout.isSome = true
  | .transfer m => a.transfer = some [m]

def Satisfies (attrs : List (Str × Str)) : AttrUpdate → Prop
  | .has k v => (k, v) ∈ attrs
  | .lacks k => ∀ v, (k, v) ∉ attrs

/-- the site of a node in terms of the quantities the transformer computes: `ty1` is the type after
    `(type)`, `p1` the pointer test on it, `ty2` the type after `(array)`/`(element-type)`, `p2` the
    pointer test on that -/
def siteOf (n : Node) (a : Anns) (ty1 : Ty) (p1 : Bool) (p2 : Bool) : Site :=
  { isRet := n.isRet
    dir := (dirStep n a ty1).dir
    pointer := p2
    floatable := isClassLike ty1.cls || nodeTypeGiname ty1 == some (G "GLib.Variant")
                 || nodeTypeGiname ty1 == some (G "GObject.Closure")
    container := a.array.isSome || ty1.isContainer
    ownable := p1 || nodeTypeIsString ty1 || ty1.isContainer || isCompoundLike ty1.cls
    hasNot := notNullableAnn a
    hasNotOptional := notOptionalAnn a
    hasOut := a.out.isSome
    hasInout := a.inout.isSome }

end GIVerif.ParamAnn
