/-
  C13 — Enumeration members and constants keep correct names, types and values.
  ONLY property theorems and non-vacuity examples live here; helper lemmas and the
  vocabulary of the statements (NoWordPrefix, SharedWords, IsNsStripped, LacksNsPrefix,
  unsignedWidths, platformUnsigned, ResolvesTo, ChainTo) are in GIVerif/Lemmas/EnumConst.lean,
  the executable model in GIVerif/Model/EnumConst.lean.

  Hypotheses beyond the property's own wording:
  * identifiers are non-empty (`hne`): the C lexer delivers `[a-zA-Z_][a-zA-Z_0-9]*`
    (Gen.lexerIdentPattern, checked in C13_source_shape); `lowerStr` is `str.lower()` on
    that alphabet only;
  * `C13_prefix` / `C13_prefix_names` use exactly the property's carve-out "no member being
    a word-prefix of another" (`NoWordPrefix`); `C13_prefix_perm` (order independence) and
    the closed form in Lemmas (`enumCommonPrefix_eq`) need no such hypothesis;
  * `C13_no_shared`: the fallback presupposes that every public member carries the namespace
    symbol prefix (`IsNsStripped`); when one does not, `C13_no_garbage` shows the enumeration
    is refused (a warning in `parse`) instead of being given other names; hidden members
    (leading `_`) are outside `IsNsStripped`;
  * the enumeration's own C name must carry an identifier prefix (`stripIdentifier … = ok n`);
  * GType-registered enumerations (`C13_dump_member_keeps_header`, `C13_dump_merge_is_header`): the runtime
    dump lists the scanned members under nicks derived from their names (`toNick`: `_` -> `-`), the scanned
    names are pairwise different and contain no `-`; the numbers in the dump are arbitrary (`dv`);
  * constants: type names are resolved against the namespace with the scanner's own lookup
    (`lookupNode`: by stripped name, then by C type); `ResolvesTo*.direct` asks that no
    namespace node is named like the fundamental type; declared types and alias targets are
    keys of `ast.type_names` or names of aliases (pointer stars are canonicalised by the
    model and compared with the real code, but the range theorems do not speak about them);
  * `C13_const_range_partial` excludes EXACTLY the platform-width unsigned types
    `platformUnsigned` = gulong, gsize, guintptr, reached directly or through typedefs of any
    depth (`ResolvesTo`); the exclusion is a genuine defect of the unchanged code, witnessed by
    `C13_const_range_counterexample_platform` and reported by the harness under the key
    `const-unwrapped:platform-width`.  Typedef chains of any length (`C13_const_chain`) and
    `unsigned long long` are covered by the theorem since /repo ecb96bb and 6ff1643;
  * double constants (`'%f'`) are not modelled: validated by the harness only.
-/
import GIVerif.Lemmas.EnumConst
import GIVerif.Gen.TypeNames
import Std.Data.String.ToInt

namespace GIVerif.EnumConst
open GIVerif.Py

/-! ### the source still has the shape the model was written for -/

/-- Literals and statement shapes re-read from /repo on every run (`decide` over the
    generated table): a changed threshold, separator, loop body, `.lower()`, member order,
    private-member rule, bitfield test, branch order or boolean literal breaks this. -/
theorem C13_source_shape :
    Gen.enumMinMembers = 2 ∧ Gen.enumWordSep = 95
    ∧ Gen.commonPrefixShape =
      ["commonparts = []",
       "for aword, bword in zip(a.split('_'), b.split('_')): ;     if aword != bword: ;         if not commonparts: ;             return '' ;         return '_'.join(commonparts) + '_' ;     commonparts.append(aword)",
       "return min(a, b)"]
    ∧ Gen.enumPrefixShape =
      ["if len(list(symbol.base_type.child_list)) < N: ;     return None",
       "prefix = None",
       "for child in symbol.base_type.child_list: ;     if prefix is None: ;         prefix = child.ident ;     else: ;         prefix = common_prefix(prefix, child.ident) ;         if prefix == '': ;             return None",
       "return prefix"]
    ∧ Gen.createEnumShape =
      ["prefix = self._enum_common_prefix(symbol)",
       "if prefix: ;     prefixlen = len(prefix) ; else: ;     prefixlen = 0",
       "members = []",
       "for child in symbol.base_type.child_list: ;     if child.private: ;         continue ;     if prefixlen > 0: ;         name = child.ident[prefixlen:] ;     else: ;         name = self._strip_symbol(child) ;     members.append(ast.Member(name.lower(), child.const_int, child.ident))",
       "enum_name = self.strip_identifier(symbol.ident)",
       "if symbol.base_type.is_bitfield: ;     klass = ast.Bitfield ; else: ;     klass = ast.Enum",
       "node = klass(enum_name, symbol.ident, members=members)",
       "node.add_symbol_reference(symbol)",
       "return node"]
    ∧ Gen.constWrapShape = ["else:str(const_int)"]
    ∧ Gen.constUnaliasedShape =
      ["if symbol.base_type is not None: ;     typeval = self._create_type_from_base(symbol.base_type) ; else: ;     typeval = ast.TYPE_INT",
       "unaliased = typeval",
       "self._resolve_type_from_ctype(unaliased)",
       "if typeval.target_giname and typeval.ctype: ;     target = self.lookup_giname(typeval.target_giname) ;     target = self.resolve_aliases(target) ;     if isinstance(target, ast.Type): ;         unaliased = target"]
    ∧ Gen.resolveAliasesShape =
      ["seen = set()",
       "while isinstance(typenode, ast.Alias) and id(typenode) not in seen: ;     seen.add(id(typenode)) ;     target = typenode.target ;     if not target.resolved and target.ctype: ;         target = target.clone() ;         self._resolve_type_from_ctype(target) ;     if target.target_giname is not None: ;         typenode = self.lookup_giname(target.target_giname) ;     else: ;         try: ;             typenode = ast.type_names[target.target_fundamental] ;         except KeyError: ;             break",
       "return typenode"]
    ∧ Gen.lexerIdentPattern = "[a-zA-Z_][a-zA-Z_0-9]*"
    ∧ Gen.constBranches.map (·.1) = [fConstString, fConstInt, fConstBoolean, fConstDouble]
    ∧ Gen.constBoolLits = (['t','r','u','e'], ['f','a','l','s','e'])
    ∧ Gen.constHiddenPrefix = ['_'] ∧ Gen.constHeaderSuffix = ['.','h'] :=
  ⟨rfl, rfl, rfl, rfl, rfl, rfl, rfl, rfl, rfl, rfl, rfl, rfl, rfl⟩

/-- The character-list type tables used by the model are the shared `ast.type_names` /
    `ast.TYPE_*` tables of Gen/TypeNames.lean. -/
theorem C13_tables_agree :
    Gen.typeNames = Gen.typeNamesL.map (fun r => (String.ofList r.1, String.ofList r.2.1, String.ofList r.2.2))
    ∧ Gen.typeConsts = Gen.typeConstsL.map (fun r => (String.ofList r.1, String.ofList r.2)) := by
  decide +kernel

/-! ### enumerations: the common prefix -/

/-- With at least two members, none a word-prefix of another, the prefix is the shared
    leading whole words joined by `_` plus `_`, and every member is that prefix followed by
    a non-empty remainder (so `ident[prefixlen:]` is the identifier without it). -/
theorem C13_prefix (ids : List Str) (L : List Str) (h2 : 2 ≤ ids.length) (hne : ∀ id ∈ ids, id ≠ [])
    (hnp : NoWordPrefix ids) (hL : SharedWords ids L) (hLne : L ≠ []) :
    enumCommonPrefix ids = some (joinU L ++ ['_']) ∧
    ∀ id ∈ ids, ∃ rest, id = (joinU L ++ ['_']) ++ rest ∧ splitU id = L ++ splitU rest := by
  have hmne : ids.map splitU ≠ [] := by
    intro e
    rw [List.map_eq_nil_iff] at e
    subst e
    simp at h2
  have hlcp : lcpAll (ids.map splitU) = L := (lcpAll_isGCP hmne).unique hL
  have hnot : ∀ id ∈ ids, L ≠ splitU id := by
    intro a ha e
    obtain ⟨b, hb, hR⟩ := pairwise_exists_other hnp h2 ha
    have hLb : splitU a <+: splitU b := e ▸ hL.1 (splitU b) (List.mem_map_of_mem hb)
    rcases hR with hR | hR
    · exact hR.1 hLb
    · exact hR.2 hLb
  constructor
  · rw [enumCommonPrefix_eq ids h2 hne]
    unfold expectedW
    rw [hlcp, if_neg hLne, if_neg, Option.map_some, joinU_append_empty hLne]
    intro hm
    obtain ⟨a, ha, e⟩ := List.mem_map.mp hm
    exact hnot a ha e.symm
  · intro id hid
    obtain ⟨r, hr⟩ := hL.1 (splitU id) (List.mem_map_of_mem hid)
    have hrne : r ≠ [] := by
      rintro rfl
      exact hnot id hid (by simpa using hr)
    refine ⟨joinU r, ?_, ?_⟩
    · have := joinU_splitU id
      rw [← hr, joinU_append hLne hrne] at this
      rw [← this]; simp
    · have hsep : ∀ w ∈ r, '_' ∉ w := fun w hw =>
        splitU_no_sep id w (by rw [← hr]; exact List.mem_append_right L hw)
      rw [splitU_joinU hrne hsep, hr]

/-- The prefix does not depend on the order of the members (for every member list, also
    when some member is a word-prefix of another). -/
theorem C13_prefix_perm (ids ids' : List Str) (hp : ids.Perm ids') (hne : ∀ id ∈ ids, id ≠ []) :
    enumCommonPrefix ids = enumCommonPrefix ids' := by
  by_cases h2 : 2 ≤ ids.length
  · have h2' : 2 ≤ ids'.length := hp.length_eq ▸ h2
    rw [enumCommonPrefix_eq ids h2 hne,
      enumCommonPrefix_eq ids' h2' (fun id hid => hne id (hp.mem_iff.mpr hid)),
      expectedW_perm (hp.map splitU)]
  · have h2' : ids'.length < 2 := hp.length_eq ▸ (by omega)
    rw [enumCommonPrefix_short ids (by omega), enumCommonPrefix_short ids' h2']

/-- Member names under a shared prefix: every public member, in declaration order, named
    lower(identifier without the shared words and their `_`), with its value and identifier;
    the node is a bitfield iff the enumeration is flags-style. -/
theorem C13_prefix_names (idp symp : List Str) (ident n : Str) (bf : Bool) (children : List CMember)
    (L : List Str) (h2 : 2 ≤ children.length) (hne : ∀ ch ∈ children, ch.ident ≠ [])
    (hnp : NoWordPrefix (children.map (·.ident))) (hL : SharedWords (children.map (·.ident)) L)
    (hLne : L ≠ []) (hn : stripIdentifier idp ident = .ok n) :
    createEnum idp symp ident bf children =
      .ok ⟨bf, n, ident, (children.filter (fun ch => !ch.priv)).map
        (fun ch => ⟨lowerStr (ch.ident.drop (joinU L ++ ['_']).length), ch.value, ch.ident⟩)⟩ := by
  have hpre := (C13_prefix (children.map (·.ident)) L (by simpa using h2)
    (by simpa using hne) hnp hL hLne).1
  have hlen : prefixLen (children.map (·.ident)) = (joinU L ++ ['_']).length := by
    simp [prefixLen, hpre]
  unfold createEnum
  rw [hlen, createMembers_ok symp _ (fun ch => ch.ident.drop (joinU L ++ ['_']).length) children
    (fun ch _ _ => by simp [memberName]), hn]

/-- The same names whatever the order of the members: permuting the declaration only
    permutes the members. -/
theorem C13_prefix_names_perm (children children' : List CMember) (hp : children.Perm children')
    (hne : ∀ ch ∈ children, ch.ident ≠ []) :
    prefixLen (children.map (·.ident)) = prefixLen (children'.map (·.ident)) := by
  unfold prefixLen
  rw [C13_prefix_perm _ _ (hp.map (·.ident)) (by simpa using hne)]

/-! ### enumerations: no shared word, or fewer than two members -/

/-- Fewer than two members, or no shared leading word: every public member is named
    lower(identifier without the namespace symbol prefix). -/
theorem C13_no_shared (idp symp : List Str) (ident n : Str) (bf : Bool) (children : List CMember)
    (f : CMember → Str) (hne : ∀ ch ∈ children, ch.ident ≠ [])
    (hcase : children.length < 2 ∨ SharedWords (children.map (·.ident)) [])
    (hns : ∀ ch ∈ children, ch.priv = false → IsNsStripped symp ch.ident (f ch))
    (hn : stripIdentifier idp ident = .ok n) :
    createEnum idp symp ident bf children =
      .ok ⟨bf, n, ident, (children.filter (fun ch => !ch.priv)).map
        (fun ch => ⟨lowerStr (f ch), ch.value, ch.ident⟩)⟩ := by
  have hlen : prefixLen (children.map (·.ident)) = 0 :=
    prefixLen_eq_zero _ (by simpa using hne) (by simpa using hcase)
  unfold createEnum
  rw [hlen, createMembers_ok symp 0 f children ?_, hn]
  intro ch hch hp
  obtain ⟨c, tail, pre, p, post, hid, hc, hs, hP, hfirst⟩ := hns ch hch hp
  simp only [memberName, Nat.lt_irrefl, if_false]
  rw [hid] at hP hfirst ⊢
  exact stripSymbol_ok hc hs hP hfirst

/-- When the fallback cannot be applied (a public member without the namespace prefix) the
    enumeration is refused — `parse` turns that into a warning — never emitted with other
    names. -/
theorem C13_no_garbage (idp symp : List Str) (ident : Str) (bf : Bool) (children : List CMember)
    (hne : ∀ ch ∈ children, ch.ident ≠ [])
    (hcase : children.length < 2 ∨ SharedWords (children.map (·.ident)) [])
    (hbad : ∃ ch ∈ children, ch.priv = false ∧ LacksNsPrefix symp ch.ident) :
    ∃ e, createEnum idp symp ident bf children = .error e := by
  have hlen : prefixLen (children.map (·.ident)) = 0 :=
    prefixLen_eq_zero _ (by simpa using hne) (by simpa using hcase)
  obtain ⟨ch, hch, hp, c, tail, hid, hc, hnone⟩ := hbad
  obtain ⟨e, he⟩ := createMembers_error (symp := symp) (n := 0) ⟨ch, hch, hp, .unknownSymbol (c :: tail), by
    simp only [memberName, Nat.lt_irrefl, if_false]
    rw [hid] at hnone ⊢
    exact stripSymbol_unknown hc hnone⟩
  exact ⟨e, by unfold createEnum; rw [hlen, he]⟩

/-! ### enumerations: order, identifiers, values, bitfield -/

/-- Whatever the names: exactly the public members, in declaration order, each with its
    C identifier and its exact integer value; the C type is the enumeration's identifier;
    a flags-style enumeration becomes a `bitfield` element, any other an `enumeration`;
    the writer emits the members in list order with name, decimal value, c:identifier. -/
theorem C13_order_values (idp symp : List Str) (ident : Str) (bf : Bool) (children : List CMember)
    (node : EnumNode) (h : createEnum idp symp ident bf children = .ok node) :
    node.members.map (·.cident) = (children.filter (fun ch => !ch.priv)).map (·.ident) ∧
    node.members.map (·.value) = (children.filter (fun ch => !ch.priv)).map (·.value) ∧
    node.bitfield = bf ∧ node.ctype = ident ∧
    (writeEnum node).1 = (if bf then c!"bitfield" else c!"enumeration") ∧
    (writeEnum node).2.2 = node.members.map (fun m =>
      [(c!"name", m.name), (c!"value", decimal m.value), (c!"c:identifier", m.cident)]) := by
  unfold createEnum at h
  cases hm : createMembers symp (prefixLen (children.map (·.ident))) children with
  | error e => rw [hm] at h; cases h
  | ok ms =>
    rw [hm] at h
    cases hn : stripIdentifier idp ident with
    | error e => rw [hn] at h; cases h
    | ok n =>
      rw [hn] at h
      simp only [Except.ok.injEq] at h
      subst h
      obtain ⟨h1, h2⟩ := createMembers_shape hm
      refine ⟨h1, h2, rfl, rfl, ?_, rfl⟩
      cases bf <;> simp [writeEnum]

/-- The decimal string of a value reads back as exactly that integer. -/
theorem C13_decimal_roundtrip (v : Int) : (String.ofList (decimal v)).toInt? = some v := by
  unfold decimal
  rw [String.ofList_toList]
  exact Int.toInt?_repr v

/-! ### constants -/

/-- Only public constants defined in a header are described: a leading `_` or a source
    file that is not a `.h` file yields no constant. -/
theorem C13_const_public (idp symp : List Str) (nodes : List Node) (s : ConstSym) (c : ConstNode)
    (h : createConst idp symp nodes s = .ok (some c)) :
    startsWith s.ident ['_'] = false ∧ (∃ file, s.file = some file ∧ endsWith file ['.', 'h'] = true) ∧
    c.cident = s.ident ∧ stripSymbol symp s.ident = .ok c.name := by
  obtain ⟨h1, h2, h3, h4⟩ := createConst_some h
  exact ⟨h1, h2, h4, h3⟩

/-- Strings verbatim, typed utf8. -/
theorem C13_const_string (idp symp : List Str) (nodes : List Node) (s : ConstSym) (c : ConstNode) (str : Str)
    (hs : s.constString = some str) (h : createConst idp symp nodes s = .ok (some c)) :
    c.value = some str ∧ c.fundamental = some c!"utf8" ∧ c.declType = c!"gchar*" := by
  obtain ⟨h1, h2, h3⟩ := createConst_string hs h
  refine ⟨h1, ?_, ?_⟩
  · rw [h3]; decide +kernel
  · rw [h2]; decide +kernel

/-- Booleans as `true` / `false`, typed gboolean. -/
theorem C13_const_bool (idp symp : List Str) (nodes : List Node) (s : ConstSym) (c : ConstNode) (b : Bool)
    (hs : s.constString = none) (hi : s.constInt = none) (hb : s.constBool = some b)
    (h : createConst idp symp nodes s = .ok (some c)) :
    c.value = some (if b then c!"true" else c!"false") ∧ c.fundamental = some c!"gboolean" := by
  obtain ⟨h1, _, h3⟩ := createConst_bool hs hi hb h
  refine ⟨?_, ?_⟩
  · rw [h1]; cases b <;> decide +kernel
  · rw [h3]; decide +kernel

/-- The property for unsigned constants at full strength: for EVERY unsigned type of the
    table, reached through ANY number of typedefs. It does not hold for the unchanged code
    (see `C13_const_range_counterexample_platform` and `C13_const_range_full_fails`). -/
def C13_const_range_full : Prop :=
  ∀ (idp symp : List Str) (nodes : List Node) (s : ConstSym) (c : ConstNode) (v : Int) (t f : Str) (w : Nat),
    s.constString = none → s.constInt = some v → s.baseType = some t →
    createConst idp symp nodes s = .ok (some c) →
    ResolvesTo idp nodes t f → unsignedWidth f = some w →
    ∃ value : Int, c.value = some (decimal value) ∧ 0 ≤ value ∧ value < 2 ^ w ∧ value % 2 ^ w = v % 2 ^ w

/-- Unsigned constants of a type whose width is the same on every platform (guint8/16/32/64,
    guint, gushort, gunichar, unsigned long long and every C spelling that `ast.type_names` maps
    to them), declared directly or through typedefs of ANY depth: the emitted value lies in
    `[0, 2^w)` and is congruent to the constant. -/
theorem C13_const_range_partial (idp symp : List Str) (nodes : List Node) (s : ConstSym) (c : ConstNode)
    (v : Int) (t f : Str) (w : Nat)
    (hs : s.constString = none) (hi : s.constInt = some v) (ht : s.baseType = some t)
    (h : createConst idp symp nodes s = .ok (some c))
    (hr : ResolvesTo idp nodes t f) (hw : unsignedWidth f = some w) (hplat : f ∉ platformUnsigned) :
    ∃ value : Int, c.value = some (decimal value) ∧ 0 ≤ value ∧ value < 2 ^ w ∧ value % 2 ^ w = v % 2 ^ w := by
  obtain ⟨hval, _, _⟩ := (createConst_int hs hi h).1 t ht
  have hm : wrapModulus f = some (2 ^ w) := wrap_table_complete (f, w) (unsignedWidth_mem hw) hplat
  rw [constUnaliased_of_resolves hr, constIntValue_of_modulus hm] at hval
  have hpos : (0 : Int) < ((2 ^ w : Nat) : Int) := by
    exact_mod_cast Nat.pos_of_ne_zero (by simp)
  have hcast : (((2 ^ w : Nat) : Int)) = (2 : Int) ^ w := by push_cast; rfl
  refine ⟨v % ((2 ^ w : Nat) : Int), hval, Int.emod_nonneg _ (by omega), ?_, ?_⟩
  · rw [← hcast]
    exact Int.emod_lt_of_pos v hpos
  · rw [hcast, Int.emod_emod]

/-- A typedef of a typedef of … is followed to its end: whatever the number of typedefs between
    the declared type and a key of `ast.type_names`, the type `_create_const` tests in its wrap
    chain is the fundamental type at the end; the typedefs passed are pairwise distinct nodes of
    the namespace (so the `seen` guard of `resolve_aliases` never cuts a finite chain short). -/
theorem C13_const_chain (idp : List Str) (nodes : List Node) (t f : Str) (p : List Node)
    (h : ChainTo idp nodes t f p) :
    constUnaliased idp nodes t = some f ∧ p.Nodup ∧ p.length ≤ nodes.length ∧ ∀ x ∈ p, x ∈ nodes :=
  ⟨constUnaliased_of_chain h, h.nodup, h.length_le, h.subset⟩

/-- Constants whose type resolves (directly or through typedefs of any depth) to a type that
    is not an unsigned integer type keep the integer as written; so do constants without a
    cast (typed gint). -/
theorem C13_const_signed (idp symp : List Str) (nodes : List Node) (s : ConstSym) (c : ConstNode)
    (v : Int) (t f : Str)
    (hs : s.constString = none) (hi : s.constInt = some v) (ht : s.baseType = some t)
    (h : createConst idp symp nodes s = .ok (some c))
    (hr : ResolvesTo idp nodes t f) (hw : unsignedWidth f = none) :
    c.value = some (decimal v) := by
  obtain ⟨hval, _, _⟩ := (createConst_int hs hi h).1 t ht
  have hm : wrapModulus f = none := wrapModulus_none_of_not_unsigned hw
  rw [constUnaliased_of_resolves hr, constIntValue_of_none hm] at hval
  exact hval

theorem C13_const_uncast (idp symp : List Str) (nodes : List Node) (s : ConstSym) (c : ConstNode) (v : Int)
    (hs : s.constString = none) (hi : s.constInt = some v) (ht : s.baseType = none)
    (h : createConst idp symp nodes s = .ok (some c))
    (hnode : lookupNode idp nodes c!"gint" = none) :
    c.value = some (decimal v) ∧ c.fundamental = some c!"gint" ∧ c.declType = c!"gint" := by
  obtain ⟨hval, hd, hf⟩ := (createConst_int hs hi h).2 ht
  have e1 : (fixedType fConstInt).1 = c!"gint" := by decide +kernel
  have e2 : (fixedType fConstInt).2 = some c!"gint" := by decide +kernel
  have e3 : lookupTypeName c!"gint" = some (c!"gint", c!"gint") := by decide +kernel
  have e4 : wrapModulus c!"gint" = none := by decide +kernel
  rw [e1] at hval hd
  rw [e2] at hf
  rw [constUnaliased_direct e3 hnode, constIntValue_of_none e4] at hval
  exact ⟨hval, hf, hd⟩

/-- "A type matching its declaration": an integer constant written with a cast keeps the C type
    string of the cast as the c:type of its `<type>`; when that string is a key of
    `ast.type_names` the GIR type name is the fundamental type the table gives for it, whatever
    else the final namespace `nodes'` holds. -/
theorem C13_const_type (idp symp : List Str) (nodes nodes' : List Node) (s : ConstSym) (c : ConstNode)
    (v : Int) (t : Str)
    (hs : s.constString = none) (hi : s.constInt = some v) (ht : s.baseType = some t)
    (h : createConst idp symp nodes s = .ok (some c)) :
    c.declType = t ∧
    ∀ x, lookupTypeName t = some x → c.fundamental = some x.1 ∧ constTypeName idp nodes' c = some x.1 := by
  obtain ⟨_, hd, hf⟩ := (createConst_int hs hi h).1 t ht
  refine ⟨hd, fun x hx => ?_⟩
  have hfx : c.fundamental = some x.1 := by rw [hf, createTypeFromCType_of_lookup hx]
  exact ⟨hfx, by unfold constTypeName; rw [hfx]⟩

/-- GENUINE DEFECT, witness: `#define FOO_X ((gulong) -1)` in foo.h is emitted with
    value "-1" although gulong is unsigned (no branch of the chain mentions TYPE_ULONG,
    TYPE_SIZE, TYPE_UINTPTR). -/
theorem C13_const_range_counterexample_platform :
    createConst [c!"Foo"] [c!"foo"] []
      ⟨c!"FOO_X", some c!"/src/foo.h", none, some (-1), none, false, some c!"gulong"⟩
    = .ok (some ⟨c!"X", some c!"-1", c!"FOO_X", c!"gulong", some c!"gulong"⟩) := by
  decide +kernel

/-- … hence the full-strength statement is false for the code as it is. -/
theorem C13_const_range_full_fails : ¬ C13_const_range_full := by
  intro hfull
  have hres : ResolvesTo [c!"Foo"] [] c!"gulong" c!"gulong" :=
    .direct (ct := c!"gulong") (by decide +kernel) (by decide +kernel)
  obtain ⟨value, hv, h0, _, _⟩ := hfull [c!"Foo"] [c!"foo"] []
    ⟨c!"FOO_X", some c!"/src/foo.h", none, some (-1), none, false, some c!"gulong"⟩
    _ (-1) c!"gulong" c!"gulong" 64 rfl rfl rfl C13_const_range_counterexample_platform hres
    (by decide +kernel)
  simp only [Option.some.injEq] at hv
  have hd : decimal (-1) = c!"-1" := by decide +kernel
  have : (String.ofList (decimal value)).toInt? = (String.ofList (decimal (-1))).toInt? := by
    rw [← hv, hd]
  rw [C13_decimal_roundtrip, C13_decimal_roundtrip] at this
  simp only [Option.some.injEq] at this
  omega

/-! ### non-vacuity: concrete instances of the hypotheses and conclusions -/

example : enumCommonPrefix [c!"FOO_COLOR_RED", c!"FOO_COLOR_DARK_BLUE", c!"FOO_COLOR_DARK_RED"]
    = some c!"FOO_COLOR_" := by decide +kernel
example : enumCommonPrefix [c!"FOO_A", c!"BAR_B"] = none := by decide +kernel
example : enumCommonPrefix [c!"FOO_BARX", c!"FOO_BARY"] = some c!"FOO_" := by decide +kernel
example : enumCommonPrefix [c!"FOO_A"] = none := by decide +kernel
-- a member that is a word-prefix of another: the property's carve-out (the fall-through to min)
example : enumCommonPrefix [c!"FOO_A", c!"FOO_A_B"] = some c!"FOO_A" := by decide +kernel

-- hypotheses of C13_prefix are satisfiable: two members, shared words [FOO, COLOR]
example : NoWordPrefix [c!"FOO_COLOR_RED", c!"FOO_COLOR_BLUE"] ∧
    SharedWords [c!"FOO_COLOR_RED", c!"FOO_COLOR_BLUE"] [c!"FOO", c!"COLOR"] := by
  refine ⟨?_, ?_⟩
  · unfold NoWordPrefix
    simp only [List.pairwise_cons, List.mem_singleton, forall_eq, List.not_mem_nil, false_imp_iff,
      implies_true, List.Pairwise.nil, and_true]
    decide +kernel
  · have h : lcpAll ([c!"FOO_COLOR_RED", c!"FOO_COLOR_BLUE"].map splitU)
        = [c!"FOO", c!"COLOR"] := by decide +kernel
    exact h ▸ lcpAll_isGCP (by simp)

example :
    createEnum [c!"Foo"] [c!"foo"] c!"FooColor" true
      [⟨c!"FOO_COLOR_RED", 1, false⟩, ⟨c!"FOO_COLOR_PRIV", 7, true⟩,
       ⟨c!"FOO_COLOR_DARK_BLUE", -2, false⟩]
    = .ok ⟨true, c!"Color", c!"FooColor",
        [⟨c!"red", 1, c!"FOO_COLOR_RED"⟩, ⟨c!"dark_blue", -2, c!"FOO_COLOR_DARK_BLUE"⟩]⟩ := by
  decide +kernel

-- the fallback: no shared word, both members carry the namespace prefix (one in each case)
example :
    createEnum [c!"Foo"] [c!"foo"] c!"FooMix" false
      [⟨c!"FOO_A", 0, false⟩, ⟨c!"foo_b", 1, false⟩]
    = .ok ⟨false, c!"Mix", c!"FooMix", [⟨c!"a", 0, c!"FOO_A"⟩, ⟨c!"b", 1, c!"foo_b"⟩]⟩ := by
  decide +kernel
example : IsNsStripped [c!"foo"] c!"FOO_A" c!"A" :=
  ⟨'F', c!"OO_A", [], c!"foo", [], by decide +kernel, by decide, rfl, by decide +kernel, by simp⟩
example : LacksNsPrefix [c!"foo"] c!"BAR_B" :=
  ⟨'B', c!"AR_B", by decide +kernel, by decide, by decide +kernel⟩
-- … and refused when a member lacks it
example :
    createEnum [c!"Foo"] [c!"foo"] c!"FooMix" false
      [⟨c!"FOO_A", 0, false⟩, ⟨c!"BAR_B", 1, false⟩]
    = .error (.unknownSymbol c!"BAR_B") := by
  decide +kernel

-- constants: (guint8) -1 directly and through one typedef; a signed type; a string; a boolean
example :
    createConst [c!"Foo"] [c!"foo"] []
      ⟨c!"FOO_C8", some c!"/src/foo.h", none, some (-1), none, false, some c!"guint8"⟩
    = .ok (some ⟨c!"C8", some c!"255", c!"FOO_C8", c!"guint8", some c!"guint8"⟩) := by
  decide +kernel
example :
    createConst [c!"Foo"] [c!"foo"] [.alias c!"A" c!"FooA" c!"unsigned short"]
      ⟨c!"FOO_C", some c!"/src/foo.h", none, some (-1), none, false, some c!"FooA"⟩
    = .ok (some ⟨c!"C", some c!"65535", c!"FOO_C", c!"FooA", none⟩) := by
  decide +kernel
example : ResolvesTo [c!"Foo"] [.alias c!"A" c!"FooA" c!"unsigned short"]
    c!"FooA" c!"gushort" :=
  .viaAlias (.last (n := c!"A") (c := c!"FooA") (target := c!"unsigned short") (ct := c!"gushort")
    (by decide +kernel) (by decide +kernel))
-- the repaired case (/repo ecb96bb): typedef guint8 FooA; typedef FooA FooB; typedef FooB FooC;
-- ((FooC) -1) is 255, and FooC resolves to guint8 through three typedefs
example :
    createConst [c!"Foo"] [c!"foo"]
      [.alias c!"A" c!"FooA" c!"guint8", .alias c!"B" c!"FooB" c!"FooA", .alias c!"C" c!"FooC" c!"FooB"]
      ⟨c!"FOO_X", some c!"/src/foo.h", none, some (-1), none, false, some c!"FooC"⟩
    = .ok (some ⟨c!"X", some c!"255", c!"FOO_X", c!"FooC", none⟩) := by
  decide +kernel
example : ResolvesTo [c!"Foo"]
    [.alias c!"A" c!"FooA" c!"guint8", .alias c!"B" c!"FooB" c!"FooA", .alias c!"C" c!"FooC" c!"FooB"]
    c!"FooC" c!"guint8" :=
  .viaAlias (.step (n := c!"C") (c := c!"FooC") (target := c!"FooB") (by decide +kernel) (by decide +kernel)
    (.step (n := c!"B") (c := c!"FooB") (target := c!"FooA") (by decide +kernel) (by decide +kernel)
      (.last (n := c!"A") (c := c!"FooA") (target := c!"guint8") (ct := c!"guint8")
        (by decide +kernel) (by decide +kernel))))
-- the repaired case (/repo 6ff1643): unsigned long long wraps modulo 2**64
example :
    createConst [c!"Foo"] [c!"foo"] []
      ⟨c!"FOO_X", some c!"/src/foo.h", none, some (-1), none, false, some c!"unsigned long long"⟩
    = .ok (some ⟨c!"X", some c!"18446744073709551615", c!"FOO_X", c!"unsigned long long",
        some c!"unsigned long long"⟩) := by
  decide +kernel
example : unsignedWidth c!"unsigned long long" = some 64 ∧ c!"unsigned long long" ∉ platformUnsigned := by
  decide +kernel
-- a typedef that resolves to itself (typedef GdkT0 GtkT0; no GdkT0; prefixes Gtk and Gdk): the walk
-- stops at the `seen` guard and the constant is emitted as written
example :
    createConst [c!"Gtk", c!"Gdk"] [c!"gtk", c!"gdk"] [.alias c!"T0" c!"GtkT0" c!"GdkT0"]
      ⟨c!"GTK_X", some c!"/src/gtk.h", none, some (-1), none, false, some c!"GtkT0"⟩
    = .ok (some ⟨c!"X", some c!"-1", c!"GTK_X", c!"GtkT0", none⟩) := by
  decide +kernel
-- a chain that ends in a platform-width type falls under the remaining defect because of its end type
example :
    createConst [c!"Foo"] [c!"foo"] [.alias c!"A" c!"FooA" c!"gsize", .alias c!"B" c!"FooB" c!"FooA"]
      ⟨c!"FOO_X", some c!"/src/foo.h", none, some (-1), none, false, some c!"FooB"⟩
    = .ok (some ⟨c!"X", some c!"-1", c!"FOO_X", c!"FooB", none⟩) := by
  decide +kernel
example : unsignedWidth c!"gushort" = some 16 ∧ c!"gushort" ∉ platformUnsigned := by decide +kernel
example : unsignedWidth c!"gint64" = none := by decide +kernel
-- C13_const_type: `unsigned short` is a key of type_names (-> gushort)
example : lookupTypeName c!"unsigned short" = some (c!"gushort", c!"gushort") := by decide +kernel
example :
    createConst [c!"Foo"] [c!"foo"] []
      ⟨c!"FOO_US", some c!"/src/foo.h", none, some 70000, none, false, some c!"unsigned short"⟩
    = .ok (some ⟨c!"US", some c!"4464", c!"FOO_US", c!"unsigned short", some c!"gushort"⟩) := by
  decide +kernel
example :
    createConst [c!"Foo"] [c!"foo"] []
      ⟨c!"FOO_S", some c!"/src/foo.h", some c!"a\"b<é", none, none, false, none⟩
    = .ok (some ⟨c!"S", some c!"a\"b<é", c!"FOO_S", c!"gchar*", some c!"utf8"⟩) := by
  decide +kernel
example :
    createConst [c!"Foo"] [c!"foo"] []
      ⟨c!"_FOO_H", some c!"/src/foo.h", none, some 3, none, false, none⟩ = .ok none := by
  decide +kernel
example :
    createConst [c!"Foo"] [c!"foo"] []
      ⟨c!"FOO_N", some c!"/src/foo.c", none, some 3, none, false, none⟩ = .ok none := by
  decide +kernel

/-! ## GType-registered enumerations: the runtime dump never overrides the header -/

/-- a dump member whose normalised nick (`'-'` -> `'_'`) names a scanned member takes the value and the C
identifier scanned from the header, whatever number the dump carries -/
theorem C13_dump_member_keeps_header (prev : List Member) (d : DumpMember) (m : Member)
    (h : lookupPrevious prev (nickName d.nick) = some m) :
    mergeDumpMember prev d = ⟨nickName d.nick, m.value, m.cident⟩ := by
  simp [mergeDumpMember, h]

example : mergeDumpMember [⟨c!"async", 2147483648, c!"FOO_ASYNC"⟩, ⟨c!"no_buffer", 2147483649, c!"FOO_NO_BUFFER"⟩]
    ⟨c!"FOO_NO_BUFFER", c!"no-buffer", -2147483647⟩ = ⟨c!"no_buffer", 2147483649, c!"FOO_NO_BUFFER"⟩ := by
  decide +kernel

/-- when the scanned member names are pairwise different and contain no `'-'`, and the dump lists the same
members under the nicks derived from those names (with ANY numbers `dv`, e.g. the signed 32-bit images), the
node that replaces the scanned enumeration has exactly the scanned members: names, values, identifiers, order -/
theorem C13_dump_merge_is_header (prev : List Member) (dv : Member → Int)
    (hd : prev.Pairwise (fun a b => a.name ≠ b.name)) (hn : ∀ m ∈ prev, '-' ∉ m.name) :
    mergeDump prev (prev.map (fun m => ⟨m.cident, toNick m.name, dv m⟩)) = prev := by
  unfold mergeDump
  rw [List.map_map]
  conv => rhs; rw [← List.map_id prev]
  apply List.map_congr_left
  intro m hm
  simp only [Function.comp, mergeDumpMember, nickName_toNick m.name (hn m hm), lookupPrevious_mem hd hm, id]

example : mergeDump [⟨c!"none", 0, c!"FOO_NONE"⟩, ⟨c!"no_buffer", 2147483649, c!"FOO_NO_BUFFER"⟩]
    [⟨c!"FOO_NONE", c!"none", 0⟩, ⟨c!"FOO_NO_BUFFER", c!"no-buffer", -2147483647⟩]
    = [⟨c!"none", 0, c!"FOO_NONE"⟩, ⟨c!"no_buffer", 2147483649, c!"FOO_NO_BUFFER"⟩] := by
  decide +kernel

end GIVerif.EnumConst
