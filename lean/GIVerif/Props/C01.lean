/-
  C01 — Parameter and return annotations are reflected exactly in the GIR.
  ONLY property theorems and non-vacuity examples; helper lemmas are in
  GIVerif/Lemmas/ParamAnn.lean, the model in GIVerif/Model/ParamAnn.lean, the documented rule
  table (`Valid`, `Expected`) in GIVerif/Spec/ParamAnn.lean.

  Hypotheses beyond the property's wording (all are inputs the harness supplies from the real run):
  * the node's state before the annotation pass, `TClass` (what lookup_typenode+resolve_aliases
    returns), `env` (create_type_from_user_string per identifier) and the answer of
    `_is_pointer_type` are parameters: "valid at the site" is phrased through `siteOf`, i.e. through
    the pointer test the transformer itself performs.  Where that test disagrees with the
    documentation (by-value enum/struct, pointer to an alias of a basic type) the theorems
    `C01_*_counterexample` below exhibit the witness and the harness reports the finding.
  * `n.notNullable = false` in `C01_valid_reflected`: the node has not been through an earlier
    annotation pass that set `not_nullable` (only `(not ...)` ever sets it).
  * an option word outside the documented vocabulary (`(transfer bogus)`, `(scope bogus)`) is invalid
    everywhere: the warning comes from the parser's validation of the part (`validateList … = 1`),
    the transformer leaves the attribute alone (`C01_invalid_warns_unchanged_transfer`,
    `C01_invalid_warns_unchanged_scope`; guards of fix 0c5d020).
  * `C01_valid_reflected` speaks about the node as the annotation pass leaves it and the writer's
    attribute list for it; pass 3 (callback autodetection) afterwards may overwrite
    scope/closure/destroy/transfer/nullable of callback and user-data parameters
    (`C01_closure_overridden_counterexample`, `C01_destroy_overridden_counterexample`,
    `C01_scope_overridden_counterexample`).  The first step of pass 3 drops every (closure)/(destroy)
    reference that has no index in `parameters` (`C01_references_have_index`), so the writer's
    `get_parameter_index` cannot fail on them.
-/
import GIVerif.Lemmas.ParamAnn
import GIVerif.Spec.ParamAnn

namespace GIVerif.ParamAnn
open GIVerif.Py

/-- The literals the mirrored functions compare against are still the ones the model was written
    for (re-extracted from /repo on every run). -/
theorem C01_tables_shape :
    Gen.ParamAnn.transformerLiterals =
      [("_apply_annotations_array", ["*", "0", "1", "has:OPT_ARRAY_ZERO_TERMINATED", "isa:Array", "isa:Compound", "none:ctype"]),
       ("_apply_annotations_element_type", ["isa:Array", "isa:List", "isa:Map"]),
       ("_apply_annotations_param_callback", ["in:SCOPE_OPTIONS", "isa:Callback", "isa:Type", "none:destroy_name", "none:scope"]),
       ("_apply_annotations_param_closure", ["has:ANN_CLOSURE", "isa:Type"]),
       ("_apply_annotations_param_ret_common", ["**", "Gio.AsyncReadyCallback", "Gio.Cancellable", "has:ANN_ALLOW_NONE", "has:ANN_IN", "has:ANN_INOUT", "has:ANN_NULLABLE", "has:ANN_OPTIONAL", "has:ANN_OUT", "has:ANN_SKIP", "has:OPT_NOT_OPTIONAL", "isa:Record", "isa:Return", "isa:Union"]),
       ("_apply_transfer_annotation", ["GLib.Variant", "GObject.Closure", "has:ANN_ARRAY", "in:TRANSFER_OPTIONS", "isa:Array", "isa:Boxed", "isa:Class", "isa:Compound", "isa:Interface", "isa:List", "isa:Map", "isa:Record", "isa:Type"]),
       ("_check_array_element_type", ["in:BASIC_GIR_TYPES", "in:POINTER_TYPES", "isa:Bitfield", "isa:Enum"]),
       ("_check_instance_parameter", ["destroy", "free", "has:ANN_NULLABLE"]),
       ("_get_transfer_default_param", []),
       ("_is_pointer_type", ["*", "in:BASIC_TYPES", "isa:Return", "isa:Type", "none:ctype"]),
       ("_pass3_callable_callbacks", ["GLib.DestroyNotify", "Gio.AsyncReadyCallback", "attr:Gio.AsyncReadyCallback", "data", "isa:Callback", "none:argname", "none:closure_name"]),
       ("_pass3_callable_references", ["GError**", "isa:Array"]),
       ("_pass3_callable_throws", ["GError**"]),
       ("_resolve_toplevel", ["none:ctype", "none:gtype_name"])]
    ∧ Gen.ParamAnn.writerLiterals =
      [("_write_generic", ["attr:column", "attr:filename", "attr:line", "attr:name", "attr:value", "attr:xml:space"]),
       ("_write_parameter", ["attr:allow-none", "attr:caller-allocates", "attr:closure", "attr:destroy", "attr:direction", "attr:name", "attr:nullable", "attr:optional", "attr:scope", "attr:skip", "attr:transfer-ownership", "in", "none:argname", "none:closure_name", "none:destroy_name", "none:direction"]),
       ("_write_return_type", ["attr:nullable", "attr:skip", "attr:transfer-ownership"]),
       ("_write_type", ["attr:c:type", "attr:fixed-size", "attr:foreign", "attr:length", "attr:name", "attr:zero-terminated", "isa:Array", "isa:Callable", "isa:Compound", "isa:List", "isa:Map", "isa:Type", "isa:Varargs", "none:length_param_name", "none:size"])]
    ∧ Gen.ParamAnn.transferOptions = ["container", "floating", "full", "none"]
    ∧ Gen.ParamAnn.scopeOptions = ["async", "call", "notified", "forever"]
    ∧ (Gen.ParamAnn.dirIn, Gen.ParamAnn.dirOut, Gen.ParamAnn.dirInout) = ("in", "out", "inout")
    ∧ (Gen.ParamAnn.paramValidate.map (·.1)) =
        ["allow-none", "array", "attributes", "closure", "destroy", "element-type", "in", "inout", "out", "scope",
         "skip", "transfer", "type", "optional", "nullable", "not"]
    ∧ (Gen.ParamAnn.tagValidate.map (·.1)) =
        ["allow-none", "array", "attributes", "element-type", "skip", "transfer", "type", "nullable", "optional", "not"] := by
  decide

/-- **Valid annotations are reflected.**  For every parameter, every annotation set and every
    annotation `ann` written on it that the rule table declares valid at the site: the attribute list
    the writer produces for the node left by the annotation step carries the documented attribute
    with the documented value — after the documented overrides (`(not ...)` beats `(nullable)` and
    `(allow-none)`; `floating` is written as `none`; `inout` beats `out` beats `in`; `(allow-none)` on
    an out parameter means optional). -/
theorem C01_valid_reflected (env : Env) (f : Bool) (all : List Node) (part : Str) (n : Node) (a : Anns)
    (out : StepOut) (c : Callable) (l : List (Str × Str)) (t1 : Ty × List Warning)
    (cs : Ty × List Warning × Option LenEffect) (p1 p2 : Bool)
    (hr : n.isRet = false) (hfresh : n.notNullable = false)
    (h : commonStep env f all part n (some a) = .ok out)
    (hw : paramAttrs c out.node = .ok l)
    (ht1 : typeStep env (if f then .part part else .parent) n a = .ok t1)
    (hcs : containerStep env (if f then .part part else .parent) part all (dirStep n a t1.1).dir t1.1 a = .ok cs)
    (hp1 : isPointerType false (dirStep n a t1.1).dir t1.1 = .ok p1)
    (hp2 : isPointerType false (dirStep n a t1.1).dir cs.1 = .ok p2)
    (ann : Ann) (hpres : Present a ann) (hv : Valid ann (siteOf n a t1.1 p1 p2) = true) :
    Satisfies l (Expected ann (siteOf n a t1.1 p1 p2)) := by
  obtain ⟨t1', tr, cs', nl, e1, e2, e3, e4, hnode, _, _⟩ := commonStep_ok h
  simp only [Option.getD_some] at e1 e2 e3 e4 hnode
  rw [ht1] at e1; injection e1 with e1; subst e1
  rw [hcs] at e3; injection e3 with e3; subst e3
  obtain ⟨p, hnl, hpp⟩ := nullStep_ok e4
  rw [hr] at hpp
  rw [hnode] at hw
  cases ann with
  | skip =>
    simp only [Present] at hpres
    exact written_has_skip hw (by simp [skipOf, hpres])
  | notNullable =>
    simp only [Present] at hpres
    have := nullPure_not part n a (dirStep n a t1.1).dir cs.1 p hpres
    exact written_lacks_nullable hw (Or.inl (by simp [hnl, this.1]))
  | notOptional =>
    simp only [Present] at hpres
    have := nullPure_notOptional part n a (dirStep n a t1.1).dir cs.1 p hpres
    exact written_lacks_optional hw (by simp [hnl, this])
  | nullable =>
    simp only [Present] at hpres
    simp only [Valid, siteOf] at hv
    subst hv
    have hneed : needsPointerTest n a (dirStep n a t1.1).dir = true := by simp [needsPointerTest, hpres]
    have hp : p = true := by
      have := hpp hneed; rw [hp2] at this; injection this with this; exact this.symm
    subst hp
    cases hnot : notNullableAnn a with
    | true =>
      have hexp : Expected .nullable (siteOf n a t1.1 p1 true) = .lacks (G "nullable") := by
        simp [Expected, siteOf, hnot]
      rw [hexp]
      have := nullPure_not part n a (dirStep n a t1.1).dir cs.1 true hnot
      exact written_lacks_nullable hw (Or.inl (by simp [hnl, this.1]))
    | false =>
      have hexp : Expected .nullable (siteOf n a t1.1 p1 true) = .has (G "nullable") (G "1") := by
        simp [Expected, siteOf, hnot]
      rw [hexp]
      have := nullPure_nullable_valid part n a (dirStep n a t1.1).dir cs.1 hpres hnot
      exact written_has_nullable hw (by simp [hnl, this.1]) (by simp [hnl, this.2])
  | optional =>
    simp only [Present] at hpres
    simp only [Valid, siteOf, hr, Bool.not_false, Bool.true_and] at hv
    have hd : isOutish (dirStep n a t1.1).dir = true := by simpa [isOutish] using hv
    cases hno : notOptionalAnn a with
    | true =>
      have hexp : Expected .optional (siteOf n a t1.1 p1 p2) = .lacks (G "optional") := by
        simp [Expected, siteOf, hno]
      rw [hexp]
      have := nullPure_notOptional part n a (dirStep n a t1.1).dir cs.1 p hno
      exact written_lacks_optional hw (by simp [hnl, this])
    | false =>
      have hexp : Expected .optional (siteOf n a t1.1 p1 p2) = .has (G "optional") (G "1") := by
        simp [Expected, siteOf, hno]
      rw [hexp]
      have := nullPure_optional_valid part n a (dirStep n a t1.1).dir cs.1 p hpres hr hd hno
      exact written_has_optional hw (by simp [hnl, this])
  | allowNone =>
    simp only [Present] at hpres
    cases hd0 : ((dirStep n a t1.1).dir == Dir.out) with
    | true =>
      cases hno : notOptionalAnn a with
      | true =>
        have hexp : Expected .allowNone (siteOf n a t1.1 p1 p2) = .lacks (G "optional") := by
          simp [Expected, siteOf, hd0, hr, hno]
        rw [hexp]
        have := nullPure_notOptional part n a (dirStep n a t1.1).dir cs.1 p hno
        exact written_lacks_optional hw (by simp [hnl, this])
      | false =>
        have hexp : Expected .allowNone (siteOf n a t1.1 p1 p2) = .has (G "optional") (G "1") := by
          simp [Expected, siteOf, hd0, hr, hno]
        rw [hexp]
        have hd' : (dirStep n a t1.1).dir = .out := by simpa using hd0
        have := nullPure_allowNone_out part n a cs.1 p hpres hr hno
        rw [hd'] at hnl
        exact written_has_optional hw (by simp [hnl, this])
    | false =>
      simp only [Valid, siteOf, hd0, hr, Bool.false_and, Bool.false_or] at hv
      subst hv
      have hdd : ((dirStep n a t1.1).dir == Dir.out && !n.isRet) = false := by simp [hd0]
      have hneed : needsPointerTest n a (dirStep n a t1.1).dir = true := by
        simp [needsPointerTest, hpres, hd0]
      have hp : p = true := by
        have := hpp hneed; rw [hp2] at this; injection this with this; exact this.symm
      subst hp
      cases hnot : notNullableAnn a with
      | true =>
        have hexp : Expected .allowNone (siteOf n a t1.1 p1 true) = .lacks (G "nullable") := by
          simp [Expected, siteOf, hd0, hnot]
        rw [hexp]
        have := nullPure_not part n a (dirStep n a t1.1).dir cs.1 true hnot
        exact written_lacks_nullable hw (Or.inl (by simp [hnl, this.1]))
      | false =>
        have hexp : Expected .allowNone (siteOf n a t1.1 p1 true) = .has (G "nullable") (G "1") := by
          simp [Expected, siteOf, hd0, hnot]
        rw [hexp]
        have h1 := nullPure_allowNone_pointer part n a (dirStep n a t1.1).dir cs.1 hpres hdd hnot
        have h2 := nullPure_true_notNullable part n a (dirStep n a t1.1).dir cs.1 hnot
          (Or.inr ⟨hpres, hdd⟩)
        exact written_has_nullable hw (by simp [hnl, h1]) (by simp [hnl, h2, hfresh])
  | dirIn =>
    simp only [Present] at hpres
    simp only [Valid, siteOf, hr, Bool.not_false, Bool.true_and, Bool.and_eq_true, Bool.not_eq_true'] at hv
    have ho : a.out = none := by cases hh : a.out <;> simp_all
    have hi : a.inout = none := by cases hh : a.inout <;> simp_all
    have hd := dirStep_dir n a t1.1 .in_ hr (annotatedDir_in a hi ho hpres)
    exact written_lacks_direction hw (Or.inl (by simp [hd]))
  | dirOut =>
    simp only [Present] at hpres
    simp only [Valid, siteOf, hr, Bool.not_false, Bool.true_and, Bool.not_eq_true'] at hv
    have hi : a.inout = none := by cases hh : a.inout <;> simp_all
    have hd := dirStep_dir n a t1.1 .out hr (annotatedDir_out a hi hpres)
    exact (written_has_direction_out hw (by simp [hd])).1
  | dirInout =>
    simp only [Present] at hpres
    have hd := dirStep_dir n a t1.1 .inout hr (annotatedDir_inout a hpres)
    exact (written_has_direction_inout hw (by simp [hd])).1
  | transfer m =>
    simp only [Present] at hpres
    rw [hpres, hr] at e2
    have hF : G Gen.ParamAnn.optTransferFloating = G "floating" := rfl
    have hC : G Gen.ParamAnn.optTransferContainer = G "container" := rfl
    have hN : G Gen.ParamAnn.optTransferNone = G "none" := rfl
    by_cases hf : m = G "floating"
    · subst hf
      simp only [Valid, siteOf, if_true] at hv
      have := transferStep_floating false (dirStep n a t1.1).dir t1.1 (dirStep n a t1.1).tr a.array.isSome
      rw [hF, hv, if_pos rfl] at this
      rw [this] at e2
      injection e2 with e2
      have htr : tr.1 = some (G "none") := by rw [← e2]; rfl
      have hexp : Expected (.transfer (G "floating")) (siteOf n a t1.1 p1 p2) = .has (G "transfer-ownership") (G "none") := by
        simp [Expected]
      rw [hexp]
      exact written_has_transfer hw (G "none") (by simp [htr]) (by decide)
    · by_cases hc : m = G "container"
      · subst hc
        have hcf : ¬ (G "container" = G "floating") := by decide
        simp only [Valid, siteOf, if_neg hcf, if_true] at hv
        have := transferStep_container false (dirStep n a t1.1).dir t1.1 (dirStep n a t1.1).tr a.array.isSome
        rw [hC, hv, if_pos rfl] at this
        rw [this] at e2
        injection e2 with e2
        have htr : tr.1 = some (G "container") := by rw [← e2]
        have hexp : Expected (.transfer (G "container")) (siteOf n a t1.1 p1 p2)
            = .has (G "transfer-ownership") (G "container") := by
          simp [Expected, hcf]
        rw [hexp]
        exact written_has_transfer hw (G "container") (by simp [htr]) (by decide)
      · simp only [Valid, siteOf, if_neg hf, if_neg hc] at hv
        split at hv
        · rename_i hm
          have hk : knownTransfer m = true := by rcases hm with rfl | rfl <;> decide
          have hne : m ≠ [] := by rcases hm with rfl | rfl <;> decide
          have := transferStep_other false (dirStep n a t1.1).dir t1.1 (dirStep n a t1.1).tr a.array.isSome m p1
            hk (by rw [hF]; exact hf) (by rw [hC]; exact hc) hp1
          have hcond : (!p1 && !nodeTypeIsString t1.1 && !t1.1.isContainer && !isCompoundLike t1.1.cls) = false := by
            revert hv
            generalize nodeTypeIsString t1.1 = s1
            generalize t1.1.isContainer = s2
            generalize isCompoundLike t1.1.cls = s3
            clear hp1 this
            cases p1 <;> cases s1 <;> cases s2 <;> cases s3 <;> simp
          rw [hcond] at this
          simp only [Bool.false_eq_true, if_false] at this
          rw [this] at e2
          injection e2 with e2
          have htr : tr.1 = some m := by rw [← e2]
          have hexp : Expected (.transfer m) (siteOf n a t1.1 p1 p2) = .has (G "transfer-ownership") m := by
            simp [Expected, hf]
          rw [hexp]
          exact written_has_transfer hw m (by simp [htr]) hne
        · cases hv

/-- **Invalid nullability annotations warn and change nothing.**  `(nullable)` / `(allow-none)` on a
    site that fails the pointer test, `(optional)` on anything but an out/inout parameter: a warning
    attributed to that annotation is emitted and nullable / optional / not-nullable are exactly what
    the step computes with the annotation erased (same direction `d`, same type `ty`: neither depends
    on these three annotations). -/
theorem C01_invalid_warns_unchanged_nullability (part : Str) (n : Node) (a : Anns) (d : Dir) (ty : Ty) :
    (a.nullable.isSome = true →
      Warning.mk (G "nullable") (.ann part) ∈ (nullPure part n a d ty false).warnings ∧
      (nullPure part n a d ty false).nullable = (nullPure part n { a with nullable := none } d ty false).nullable ∧
      (nullPure part n a d ty false).notNullable = (nullPure part n { a with nullable := none } d ty false).notNullable ∧
      (nullPure part n a d ty false).optional = (nullPure part n { a with nullable := none } d ty false).optional)
    ∧ (∀ p, a.optional.isSome = true → (!n.isRet && isOutish d) = false →
      Warning.mk (G "optional") (.ann part) ∈ (nullPure part n a d ty p).warnings ∧
      (nullPure part n a d ty p).optional = (nullPure part n { a with optional := none } d ty p).optional ∧
      (nullPure part n a d ty p).nullable = (nullPure part n { a with optional := none } d ty p).nullable)
    ∧ (a.allowNone.isSome = true → (d == .out && !n.isRet) = false →
      Warning.mk (G "allow-none") (.ann part) ∈ (nullPure part n a d ty false).warnings ∧
      (nullPure part n a d ty false).nullable = (nullPure part n { a with allowNone := none } d ty false).nullable ∧
      (nullPure part n a d ty false).optional = (nullPure part n { a with allowNone := none } d ty false).optional) :=
  ⟨nullPure_nullable_invalid part n a d ty, fun p => nullPure_optional_invalid part n a d ty p,
   nullPure_allowNone_invalid part n a d ty⟩

/-- ... and the step really uses `nullPure` with the transformer's own pointer test, and its warnings
    reach the callable's warning list. -/
theorem C01_invalid_warns_unchanged_lift (env : Env) (f : Bool) (all : List Node) (part : Str) (n : Node) (a : Anns)
    (out : StepOut) (h : commonStep env f all part n (some a) = .ok out) :
    ∃ d ty p nl, nl = nullPure part n a d ty p ∧
      (needsPointerTest n a d = true → isPointerType n.isRet d ty = .ok p) ∧
      out.node.nullable = nl.nullable ∧ out.node.notNullable = nl.notNullable ∧ out.node.optional = nl.optional ∧
      (∀ w ∈ nl.warnings, w ∈ out.warnings) := by
  obtain ⟨t1, tr, cs, nl, _, _, _, e4, hnode, _, hws⟩ := commonStep_ok h
  simp only [Option.getD_some] at e4 hnode hws
  obtain ⟨p, hnl, hpp⟩ := nullStep_ok e4
  refine ⟨(dirStep n a t1.1).dir, cs.1, p, nl, hnl, hpp, by simp [hnode], by simp [hnode], by simp [hnode], ?_⟩
  intro w hw
  rw [hws]
  simp [hw]

/-- **Invalid transfer annotations warn and change nothing**: whenever the rule table rejects a
    single-option transfer annotation at the site — a known mode on a site where it does not apply, or
    ANY other word — the step keeps the transfer the node had after the direction step (`cur`), and a
    warning is emitted: by the step itself (`w = true`) for the known modes, by the parser's
    validation of the part for every unknown word (the transformer then returns silently). -/
theorem C01_invalid_warns_unchanged_transfer (n : Node) (a : Anns) (ty1 : Ty) (p1 p2 : Bool) (m : Str) (cur : Option Str)
    (hr : n.isRet = false)
    (hp1 : isPointerType false (dirStep n a ty1).dir ty1 = .ok p1)
    (hv : Valid (.transfer m) (siteOf n a ty1 p1 p2) = false) :
    ∃ w, transferStep n.isRet (dirStep n a ty1).dir ty1 cur (some [m]) a.array.isSome = .ok (cur, w)
      ∧ (w = true ∨ validateList Gen.ParamAnn.paramValidate (G "transfer") [m] = 1) := by
  rw [hr]
  have hF : G Gen.ParamAnn.optTransferFloating = G "floating" := rfl
  have hC : G Gen.ParamAnn.optTransferContainer = G "container" := rfl
  cases hk : knownTransfer m with
  | false =>
    exact ⟨false, transferStep_unknown false _ ty1 cur _ m hk, Or.inr (validate_transfer_unknown m hk)⟩
  | true =>
    refine ⟨true, ?_, Or.inl rfl⟩
    have hm := knownTransfer_cases m hk
    rcases hm with rfl | rfl | hm
    · simp only [Valid, siteOf, if_true] at hv
      have := transferStep_floating false (dirStep n a ty1).dir ty1 cur a.array.isSome
      rw [hF, hv] at this
      simpa using this
    · have hcf : ¬ (G "container" = G "floating") := by decide
      simp only [Valid, siteOf, if_neg hcf, if_true] at hv
      have := transferStep_container false (dirStep n a ty1).dir ty1 cur a.array.isSome
      rw [hC, hv] at this
      simpa using this
    · have hf : m ≠ G "floating" := by rcases hm with rfl | rfl <;> decide
      have hc : m ≠ G "container" := by rcases hm with rfl | rfl <;> decide
      simp only [Valid, siteOf, if_neg hf, if_neg hc, if_pos hm] at hv
      have := transferStep_other false (dirStep n a ty1).dir ty1 cur a.array.isSome m p1 hk
        (by rw [hF]; exact hf) (by rw [hC]; exact hc) hp1
      rw [this]
      have hcond : (!p1 && !nodeTypeIsString ty1 && !ty1.isContainer && !isCompoundLike ty1.cls) = true := by
        revert hv
        generalize nodeTypeIsString ty1 = s1
        generalize ty1.isContainer = s2
        generalize isCompoundLike ty1.cls = s3
        clear hp1 this
        cases p1 <;> cases s1 <;> cases s2 <;> cases s3 <;> simp
      rw [hcond]
      rfl

/-- **An unknown scope word on a callback parameter** (`(scope bogus)`): the parser reports it and the
    callback step leaves the callable exactly as it was — no scope is written. -/
theorem C01_invalid_warns_unchanged_scope (c : Callable) (i : Nat) (part : Str) (s : Str) (p : Node)
    (hp : c.getAll? i = some p) (hcb : isCallbackCls p.ty.cls = true)
    (hs : Gen.ParamAnn.scopeOptions.any (fun o => G o == s) = false) :
    callbackStep c i part (some { scope := some [s] }) = .ok (c, [])
    ∧ validateList Gen.ParamAnn.paramValidate (G "scope") [s] = 1 := by
  constructor
  · unfold callbackStep
    simp [hp, hcb, hs, bind, Except.bind, pure, Except.pure]
  · have hr : findRow Gen.ParamAnn.paramValidate (G "scope") =
        some ("scope", "generic", some 1, none, none, some Gen.ParamAnn.scopeOptions) := by rfl
    simp [validateList, hr, validateGeneric, hs]

/-- **(scope)/(closure)/(destroy) on a parameter that is no callback**: one warning per annotation,
    nothing changes — no scope, no closure, no destroy, no other parameter touched. -/
theorem C01_invalid_warns_unchanged_callback (c : Callable) (i : Nat) (part : Str) (a : Anns) (p : Node)
    (hp : c.getAll? i = some p) (hcb : isCallbackCls p.ty.cls = false) :
    ∃ ws, callbackStep c i part (some a) = .ok (c, ws) ∧
      (a.scope.isSome = true → ⟨G "scope", .ann part⟩ ∈ ws) ∧
      (a.destroy.isSome = true → ⟨G "destroy", .ann part⟩ ∈ ws) ∧
      (a.closure.isSome = true → ⟨G "closure", .ann part⟩ ∈ ws) := by
  refine ⟨_, callbackStep_noncallback hp hcb, ?_, ?_, ?_⟩ <;> intro h <;> simp [h]

/-- **Annotations the parser does not accept on a return value** (`in`, `out`, `inout`, `scope`,
    `closure`, `destroy`): parse-time validation reports each, whatever its options. -/
theorem C01_invalid_warns_on_return (opts : List Str) :
    validateList Gen.ParamAnn.tagValidate (G "in") opts = 1 ∧ validateList Gen.ParamAnn.tagValidate (G "out") opts = 1 ∧
    validateList Gen.ParamAnn.tagValidate (G "inout") opts = 1 ∧ validateList Gen.ParamAnn.tagValidate (G "scope") opts = 1 ∧
    validateList Gen.ParamAnn.tagValidate (G "closure") opts = 1 ∧ validateList Gen.ParamAnn.tagValidate (G "destroy") opts = 1 := by
  have h : ∀ nm : Str, findRow Gen.ParamAnn.tagValidate nm = none → validateList Gen.ParamAnn.tagValidate nm opts = 1 := by
    intro nm hn; simp [validateList, hn]
  exact ⟨h _ (by decide), h _ (by decide), h _ (by decide), h _ (by decide), h _ (by decide), h _ (by decide)⟩

/-- ... and the common step never looks at scope/closure/destroy, so on a return value (which gets
    no callback step) they leave every attribute unchanged. -/
theorem C01_return_ignores_callback_annotations (env : Env) (f : Bool) (all : List Node) (part : Str) (n : Node) (a : Anns) :
    commonStep env f all part n (some a)
      = commonStep env f all part n (some { a with scope := none, closure := none, destroy := none }) := rfl

/-- **Indices.**  A written `closure`/`destroy` index `k` names the referenced parameter: it is the
    FIRST entry of `parameters` (the instance parameter is not in that list) with that name; and the
    writer fails exactly when no parameter of that name exists (the real writer raises ValueError). -/
theorem C01_indices (c : Callable) (p : Node) :
    (∀ l, paramAttrs c p = .ok l →
      (∀ nm, p.closure = some nm → ∃ k q, (G "closure", natStr k) ∈ l ∧ c.params[k]? = some q ∧ q.name = nm ∧
          ∀ j, j < k → ∀ r, c.params[j]? = some r → r.name ≠ nm) ∧
      (∀ nm, p.destroy = some nm → ∃ k q, (G "destroy", natStr k) ∈ l ∧ c.params[k]? = some q ∧ q.name = nm ∧
          ∀ j, j < k → ∀ r, c.params[j]? = some r → r.name ≠ nm))
    ∧ ((∃ e, paramAttrs c p = .error e) ↔
        (∃ nm, (p.closure = some nm ∨ p.destroy = some nm) ∧ ∀ q ∈ c.params, q.name ≠ nm)) := by
  constructor
  · intro l hl
    obtain ⟨cl, de, hcl, hde, rfl⟩ := paramAttrs_ok hl
    constructor
    · intro nm hnm
      rw [hnm] at hcl
      rcases refAttr_ok hcl with ⟨h, _⟩ | ⟨n', k, hn', hk, rfl⟩
      · cases h
      · injection hn' with hn'; subst hn'
        obtain ⟨q, hq, hqn, hfirst⟩ := paramIndex?_some hk
        exact ⟨k, q, by simp, hq, hqn, hfirst⟩
    · intro nm hnm
      rw [hnm] at hde
      rcases refAttr_ok hde with ⟨h, _⟩ | ⟨n', k, hn', hk, rfl⟩
      · cases h
      · injection hn' with hn'; subst hn'
        obtain ⟨q, hq, hqn, hfirst⟩ := paramIndex?_some hk
        exact ⟨k, q, by simp, hq, hqn, hfirst⟩
  · constructor
    · rintro ⟨e, he⟩
      unfold paramAttrs at he
      simp only [bind, Except.bind, pure, Except.pure] at he
      split at he
      · rename_i e' h1
        obtain ⟨nm, hnm, hnone⟩ := refAttr_error h1
        exact ⟨nm, Or.inl hnm, paramIndex?_none hnone⟩
      · split at he
        · rename_i e' h2
          obtain ⟨nm, hnm, hnone⟩ := refAttr_error h2
          exact ⟨nm, Or.inr hnm, paramIndex?_none hnone⟩
        · cases he
    · rintro ⟨nm, hnm, hall⟩
      have hidx : paramIndex? c nm = none := by
        unfold paramIndex?
        rw [List.findIdx?_eq_none_iff]
        intro q hq
        simpa using hall q hq
      cases hres : paramAttrs c p with
      | error e => exact ⟨e, rfl⟩
      | ok l =>
        obtain ⟨cl, de, hcl, hde, _⟩ := paramAttrs_ok hres
        rcases hnm with hnm | hnm
        · rw [hnm] at hcl; simp [refAttr, hidx] at hcl
        · rw [hnm] at hde; simp [refAttr, hidx] at hde

/-- **The length parameter follows the array.**  Applying the effect of `(array length=p)` gives the
    first parameter called `p` (instance parameter included, as `get_parameter` does) the array's
    direction, transfer full exactly when that direction is out, and leaves every other parameter
    and the return value untouched. -/
theorem C01_length_follows_array (c : Callable) (e : LenEffect) (j : Nat) (p : Node)
    (hj : allIndex? c e.target = some j) (hp : c.getAll? j = some p) :
    (applyLenEffect c e).getAll? j =
        some { p with dir := e.dir,
                      transfer := if e.dir == .out then some (G "full") else p.transfer }
    ∧ (∀ k, k ≠ j → (applyLenEffect c e).getAll? k = c.getAll? k)
    ∧ (applyLenEffect c e).ret = c.ret := by
  refine ⟨applyLenEffect_target c e j p hj hp, ?_, applyLenEffect_ret c e⟩
  intro k hk
  apply applyLenEffect_frame
  rw [hj]
  intro h
  injection h with h
  exact hk h.symm

/-- **Where the length effect comes from**: the only way the annotation step of a node touches
    another parameter's direction/transfer is an `(array length=l)` on that node; the effect carries
    the node's direction and names `l`. -/
theorem C01_length_effect_origin (env : Env) (f : Bool) (all : List Node) (part : Str) (n : Node) (a : Anns)
    (out : StepOut) (e : LenEffect) (h : commonStep env f all part n (some a) = .ok out) (he : out.eff = some e) :
    e.dir = out.node.dir ∧ (a.array.bind (fun o => dictGetTruthy o Gen.ParamAnn.optArrayLength)) = some e.target := by
  obtain ⟨t1, tr, cs, nl, _, _, e3, _, hnode, heff, _⟩ := commonStep_ok h
  simp only [Option.getD_some] at e3 hnode
  rw [heff] at he
  obtain ⟨hd, hl⟩ := containerStep_eff e3 e he
  exact ⟨by rw [hnode]; simpa using hd, hl⟩

/-- the full frame statement: annotations on parameter `i` change no attribute of any parameter
    other than `i`, its length target and its destroy target (a closure target is only read) -/
def C01_frame_full : Prop :=
  ∀ (env : Env) (c c' : Callable) (i : Nat) (tag : Option Anns) (ws : List Warning),
    applyParam env c i tag = .ok (c', ws) → ∀ j, j ≠ i →
    (∀ q l, c.getAll? j = some q →
      (tag.getD Anns.empty).array.bind (fun o => dictGetTruthy o Gen.ParamAnn.optArrayLength) = some l → q.name ≠ l) →
    (∀ q d, c.getAll? j = some q → (tag.getD Anns.empty).destroy = some [d] → q.name ≠ d) →
    c'.getAll? j = c.getAll? j ∧ c'.ret = c.ret

/-- **Frame** (proved for parts without a `(destroy)` annotation; with `(destroy d)` the destroy
    target's scope is set as well, see `C01_frame_full` and the correspondence run): the annotation
    step of parameter `i` leaves every parameter `j ≠ i` that is not the `(array length=...)` target
    exactly as it was. -/
theorem C01_frame_partial (env : Env) (c c' : Callable) (i : Nat) (tag : Option Anns) (ws : List Warning)
    (h : applyParam env c i tag = .ok (c', ws)) (j : Nat) (hj : j ≠ i)
    (hnd : (tag.getD Anns.empty).destroy = none)
    (hlen : ∀ q l, c.getAll? j = some q →
      (tag.getD Anns.empty).array.bind (fun o => dictGetTruthy o Gen.ParamAnn.optArrayLength) = some l → q.name ≠ l) :
    c'.getAll? j = c.getAll? j := by
  unfold applyParam at h
  cases hp0 : c.getAll? i with
  | none =>
    rw [hp0] at h
    injection h with h
    injection h with h1 _
    rw [← h1]
  | some p0 =>
    rw [hp0] at h
    simp only at h
    cases hfs : firstStep c i p0.name tag with
    | error err => rw [hfs] at h; cases h
    | ok r =>
      rw [hfs] at h
      simp only at h
      -- the first half agrees with c at j
      have hc1 : r.1.getAll? j = c.getAll? j := by
        unfold firstStep at hfs
        cases hk : c.kind with
        | function => rw [hk] at hfs; exact callbackStep_frame (c' := r.1) (ws := r.2) hfs j hj hnd
        | vfunc => rw [hk] at hfs; exact callbackStep_frame (c' := r.1) (ws := r.2) hfs j hj hnd
        | callback =>
          rw [hk] at hfs
          injection hfs with hfs
          rw [← hfs]
          exact closureStep_frame c i p0.name tag j hj
        | signal =>
          rw [hk] at hfs
          injection hfs with hfs
          rw [← hfs]
      unfold commonApply at h
      cases hp : r.1.getAll? i with
      | none =>
        rw [hp] at h
        injection h with h
        injection h with h1 _
        rw [← h1, hc1]
      | some p =>
        rw [hp] at h
        simp only at h
        cases hcs : commonStep env (c.kind == CKind.function) r.1.all p0.name p tag with
        | error err => rw [hcs] at h; cases h
        | ok out =>
          rw [hcs] at h
          simp only [pure, Except.pure] at h
          injection h with h
          injection h with h1 _
          rw [← h1]
          have h2 : (r.1.setAll i fun _ => out.node).getAll? j = c.getAll? j := by
            rw [setAll_getAll?_ne _ _ _ _ hj, hc1]
          cases heff : out.eff with
          | none => simpa using h2
          | some e =>
            simp only
            rw [applyLenEffect_frame, h2]
            intro hidx
            obtain ⟨q, hq, hqn⟩ := allIndex?_name hidx
            rw [h2] at hq
            cases tag with
            | none =>
              have := (C01_length_effect_origin env (c.kind == CKind.function) r.1.all p0.name p Anns.empty out e
                hcs heff).2
              simp [Anns.empty] at this
            | some a =>
              have := (C01_length_effect_origin env (c.kind == CKind.function) r.1.all p0.name p a out e hcs heff).2
              exact hlen q e.target hq (by simpa using this) hqn

/-! ### witnesses of the documented-vs-actual mismatches found on the unchanged tree
(each is replayed on the real scanner by the harness; keys in `PENDING_FINDINGS`) -/

def enumByValue : Ty := .leaf none (some (G "Foo.Enum")) .enum { ctype := some (G "FooEnum") }
def aliasPtr : Ty := .leaf none (some (G "Foo.Int")) (.fund (G "gint") (some (G "gint"))) { ctype := some (G "FooInt*") }
def objPtr : Ty := .leaf none (some (G "Foo.Obj")) .klass { ctype := some (G "FooObj*") }
def anyTy : Ty := .leaf (some (G "gpointer")) none .none { ctype := some (G "gpointer") }
def cbTy : Ty := .leaf none (some (G "Foo.Cb")) (.callback (G "Foo.Cb")) { ctype := some (G "FooCb") }

/-- the transformer's pointer test accepts a by-value enum (so `(nullable)`, `(transfer full)` on it
    are written without a warning) and rejects a pointer to an alias of a basic type -/
theorem C01_pointer_test_counterexample :
    (isPointerType false .in_ enumByValue).toOption = some true ∧ (isPointerType false .in_ aliasPtr).toOption = some false := by
  decide

/-- pass 3 overwrites an explicit `(closure x)` with the autodetected `data` -/
theorem C01_closure_overridden_counterexample :
    let ps : List Node := [{ name := G "cb", ty := cbTy, closure := some (G "x") }, { name := G "data", ty := anyTy },
                          { name := G "x", ty := anyTy }]
    ((pass3Pair ps 0 none ps).map (·.closure)) = [some (G "data"), none, none] := by
  decide

def dnTy : Ty :=
  .leaf none (some (G "GLib.DestroyNotify")) (.callback (G "GLib.DestroyNotify")) { ctype := some (G "GDestroyNotify") }

/-- pass 3 overwrites an explicit `(destroy x)` with the LAST `GDestroyNotify` parameter that follows
    (here `x` itself is a `GDestroyNotify`, and so is `notify`) -/
theorem C01_destroy_overridden_counterexample :
    let ps : List Node := [{ name := G "cb", ty := cbTy, destroy := some (G "x"), scope := some (G "notified") },
                          { name := G "x", ty := dnTy }, { name := G "notify", ty := dnTy }]
    ((pass3Pair ps 0 none ps).map (·.destroy)) = [some (G "notify"), none, none] := by
  decide

/-- pass 3 overwrites an explicit `(scope call)`: with `notified` when a `GDestroyNotify` follows the
    callback, with `async` when the annotated parameter is itself a `GDestroyNotify` -/
theorem C01_scope_overridden_counterexample :
    (let ps : List Node := [{ name := G "cb", ty := cbTy, scope := some (G "call") }, { name := G "d", ty := dnTy }]
     ((pass3Pair ps 0 none ps).map (fun p => (p.scope, p.destroy))) = [(some (G "notified"), some (G "d")), (none, none)])
    ∧ ((pass3WellKnown [{ name := G "d", ty := dnTy, scope := some (G "call") }]).map (·.scope)) = [some (G "async")] := by
  decide

/-- **References that survive pass 3 have an index** (fix af359fc): after `_pass3_callable_references`
    every `closure` / `destroy` name left on a parameter or on the instance parameter is the name of an
    entry of `parameters` — so `C01_indices` gives it an index and the writer does not raise. -/
theorem C01_references_have_index (c : Callable) (p : Node)
    (hp : p ∈ (pass3References c).params ∨ (pass3References c).inst = some p) (nm : Str)
    (h : p.closure = some nm ∨ p.destroy = some nm) :
    ∃ q ∈ (pass3References c).params, q.name = nm := by
  have key : ∀ o : Option Str, chkRef (refNames c) o = some nm → (refNames c).contains nm = true := by
    intro o ho
    cases o with
    | none => simp [chkRef] at ho
    | some x =>
      simp only [chkRef] at ho
      split at ho
      · rename_i hx; injection ho with ho; subst ho; exact hx
      · cases ho
  have hnames : (refNames c).contains nm = true → ∃ q ∈ (pass3References c).params, q.name = nm := by
    intro hc
    have hmem : nm ∈ c.params.map (fun p => p.name) := by
      unfold refNames at hc
      split at hc
      · split at hc
        · exact List.dropLast_subset _ (by simpa using hc)
        · simpa using hc
      · simpa using hc
    obtain ⟨q, hq, hqn⟩ := List.mem_map.mp hmem
    exact ⟨fixRefs (refNames c) q, List.mem_map_of_mem hq, by simpa [fixRefs] using hqn⟩
  have hfix : ∀ p0 : Node, p = fixRefs (refNames c) p0 → ∃ q ∈ (pass3References c).params, q.name = nm := by
    intro p0 hp0
    subst hp0
    rcases h with h | h
    · exact hnames (key _ (by simpa [fixRefs] using h))
    · exact hnames (key _ (by simpa [fixRefs] using h))
  rcases hp with hp | hp
  · obtain ⟨p0, _, hp0⟩ := List.mem_map.mp (by simpa [pass3References] using hp)
    exact hfix p0 hp0.symm
  · cases hi : c.inst with
    | none => simp [pass3References, hi] at hp
    | some p0 =>
      have : fixRefs (refNames c) p0 = p := by simpa [pass3References, hi] using hp
      exact hfix p0 this.symm

/-! ### non-vacuity: concrete instances of the hypotheses and conclusions -/

/-- `(closure self)` on a method: pass 3 drops the reference, the writer succeeds -/
example :
    let cb : Node := { name := G "cb", ty := cbTy, closure := some (G "self") }
    let c : Callable := { kind := .function, inst := some { name := G "self", ty := objPtr }, params := [cb] }
    (((pass3References c).params.map (·.closure)) = [none]) ∧
    ((pass3References c).params.all fun p => (paramAttrs (pass3References c) p).toOption.isSome) = true := by decide

/-- `(closure error)` naming the trailing `GError**`: dropped as well; `(closure data)` stays -/
example :
    let errTy : Ty := .leaf none (some (G "GLib.Error")) .record { ctype := some (G "GError**") }
    let c : Callable := { kind := .function, params := [{ name := G "cb", ty := cbTy, closure := some (G "error") },
      { name := G "cb2", ty := cbTy, closure := some (G "data") }, { name := G "data", ty := anyTy }, { name := G "error", ty := errTy }] }
    ((pass3References c).params.map (·.closure)) = [none, some (G "data"), none, none] := by decide

/-- `(nullable) (not optional)` keeps nullable; `(optional) (not optional)` on an out parameter is not optional (fix faf246d) -/
example :
    (nullPure [] {} { not_ := some [G "optional"], nullable := some [] } .in_ objPtr true).nullable = true
    ∧ (nullPure [] {} { not_ := some [G "optional"], optional := some [] } .out objPtr true).optional = false
    ∧ (nullPure [] {} { not_ := some [G "nullable"], nullable := some [] } .in_ objPtr true).nullable = false := by
  decide

/-- `@data: (scope async)` and `@items: (destroy data)` in either parameter order: the explicit scope of
    `data` survives (fix 05dfe62) -/
example :
    (let c : Callable := { kind := .function, params := [{ name := G "data", ty := cbTy }, { name := G "items", ty := cbTy }] }
     ((callbackStep c 0 (G "data") (some { scope := some [G "async"] })).toOption.bind fun r =>
        (callbackStep r.1 1 (G "items") (some { destroy := some [G "data"] })).toOption.map
          fun r' => r'.1.params.map (·.scope)) = some [some (G "async"), some (G "notified")])
    ∧ (let c : Callable := { kind := .function, params := [{ name := G "items", ty := cbTy }, { name := G "data", ty := cbTy }] }
     ((callbackStep c 0 (G "items") (some { destroy := some [G "data"] })).toOption.bind fun r =>
        (callbackStep r.1 1 (G "data") (some { scope := some [G "async"] })).toOption.map
          fun r' => r'.1.params.map (·.scope)) = some [some (G "notified"), some (G "async")]) := by
  decide

/-- `Returns: (in)`: the direction step leaves a return value alone -/
example : (dirStep { isRet := true, dir := .out, transfer := some (G "full") } { in_ := some [] } objPtr).dir = .out
    ∧ (dirStep { isRet := true, dir := .out, transfer := some (G "full") } { in_ := some [] } objPtr).tr = some (G "full") := by
  decide

/-- `@p: (nullable) (transfer full) (out)` on `FooObj *p` -/
def exAnns : Anns := { nullable := some [], transfer := some [G "full"], out := some [] }
def exNode : Node := { name := G "p", transfer := some (G "none"), ty := objPtr }

example : (match commonStep [] true [exNode] (G "p") exNode (some exAnns) with
    | .ok o => (o.node.dir, o.node.transfer, o.node.nullable, o.warnings.length)
    | .error _ => (.unset, none, false, 99)) = (.out, some (G "full"), true, 0) := by decide

example : (match commonStep [] true [exNode] (G "p") exNode (some exAnns) with
    | .ok o => (match paramAttrs { kind := .function, params := [o.node] } o.node with | .ok l => l | .error _ => [])
    | .error _ => []) =
    [(G "name", G "p"), (G "direction", G "out"), (G "caller-allocates", G "0"), (G "transfer-ownership", G "full"),
     (G "nullable", G "1")] := by decide

example : Valid .nullable (siteOf exNode exAnns objPtr true true) = true
    ∧ Valid (.transfer (G "full")) (siteOf exNode exAnns objPtr true true) = true
    ∧ Valid .dirOut (siteOf exNode exAnns objPtr true true) = true
    ∧ Valid .optional (siteOf exNode exAnns objPtr true true) = true := by decide

/-- `(transfer full)` on a plain `int`: rejected by the rule table, warned, unchanged -/
example :
    let intTy : Ty := .leaf (some (G "gint")) none .none { ctype := some (G "gint") }
    Valid (.transfer (G "full")) (siteOf { ty := intTy } { transfer := some [G "full"] } intTy false false) = false
    ∧ (transferStep false .unset intTy (some (G "none")) (some [G "full"]) false).toOption = some (some (G "none"), true) := by
  decide

/-- `(array length=n)` on an out array makes `n` an out parameter with transfer full -/
example :
    let c : Callable := { kind := .function, params := [{ name := G "n" }, { name := G "arr", dir := .out }] }
    ((applyLenEffect c ⟨G "n", .out⟩).params.map (fun p => (p.dir, p.transfer)))
      = [(.out, some (G "full")), (.out, none)] := by decide

/-- `(transfer bogus)` on `FooObj *p`: rejected by the rule table, reported by the parser, transfer unchanged -/
example :
    Valid (.transfer (G "bogus")) (siteOf exNode { transfer := some [G "bogus"] } objPtr true true) = false
    ∧ (transferStep false .in_ objPtr (some (G "none")) (some [G "bogus"]) false).toOption = some (some (G "none"), false)
    ∧ validateList Gen.ParamAnn.paramValidate (G "transfer") [G "bogus"] = 1 := by decide

/-- `(scope bogus)` on a callback parameter: no scope is written -/
example :
    let c : Callable := { kind := .function, params := [{ name := G "cb", ty := cbTy }] }
    ((callbackStep c 0 (G "cb") (some { scope := some [G "bogus"] })).toOption.map fun r => r.1.params.map (·.scope))
      = some [none] := by decide

/-- `Returns: (array length=n)` on a signal: the writer finds the index of `n` -/
example :
    let arr : Ty := .array (G "C") objPtr false none (some (G "n")) { ctype := some (G "FooObj**") }
    let c : Callable := { kind := .signal, params := [{ name := G "a" }, { name := G "n" }], ret := { isRet := true, ty := arr } }
    ((writeReturn (G "Foo") c).toOption.map fun x => x.ty.attrs.contains (G "length", G "1")) = some true := by decide

example : validateList Gen.ParamAnn.tagValidate (G "scope") [G "call"] = 1 := by decide
example : validateList Gen.ParamAnn.paramValidate (G "transfer") [G "bogus"] = 1 := by decide
example : validateList Gen.ParamAnn.paramValidate (G "transfer") [G "full"] = 0 := by decide

end GIVerif.ParamAnn
