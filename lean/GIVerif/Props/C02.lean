/-
  C02 — Undocumented APIs get the documented default ownership, types and roles.
  ONLY property theorems and non-vacuity examples live here; helper lemmas are in
  GIVerif/Lemmas/Types.lean and GIVerif/Lemmas/Defaults.lean, the executable models in
  GIVerif/Model/Types.lean and GIVerif/Model/Defaults.lean.

  Hypotheses beyond the property's own wording:
  * `C02_ctype_kept`: none for the spelling (it is the full statement, for every type tree, including
    const/volatile-qualified `void` pointees: `const void *p` is written c:type="const void*" since /repo
    1f72dc6); the star-count conjunct assumes type names contain no `*` (C identifiers); the conjunct about
    the WRITTEN attribute (`GIRWriter._write_type` falls back to the plain ctype when the complete one is
    empty) assumes the spelling is not empty (a nameless base type without qualifiers or pointer levels).
  * `C02_transfer_alias`: the typedef chain is well formed — every typedef but the last has a typedef name as
    its target (a giname, no fundamental), the last one a fundamental; what `lookup_typenode` finds along the
    chain is a parameter of the model (`Target.alias links`).  No restriction on the length of the chain
    (since /repo 11a984f a typedef of a typedef is followed).
  * `C02_callbacks`: none for the grouping; the written closure/destroy INDEX equals the position of
    the user-data / destroy parameter when no earlier parameter has the same name (C forbids duplicate
    parameter names).
  * `C02_transfer_defaults`: namespace lookup (what `lookup_typenode` finds) is a parameter of the
    model (`TyInfo.node`); the constructor rows hold for the `Target`s `_is_constructor` admits.
  * `_Bool`/`bool` map to gboolean as VALUE spellings only; a pointer to `_Bool` stays unresolved
    (1-byte `_Bool` vs 4-byte `gboolean`), as in the real code.
-/
import GIVerif.Lemmas.Types
import GIVerif.Lemmas.Defaults

namespace GIVerif.Defaults
open GIVerif.Py GIVerif.Types

/-! ### tie to the source: the modelled functions still have the shape the models were written for -/

/-- Control-flow skeletons (tests, assignments, returns, in source order) of every modelled function,
    re-extracted from /repo on every run, equal the skeletons the models mirror. -/
theorem C02_source_shape :
    Gen.bareContainerShape =
      ["if base In ('GList','GSList','GLib.List','GLib.SList')", ".if base In ('GList','GSList')", "..name = ('GLib.' Add base[1:])", ".else", "..name = base", ".return ast.List(name,ast.TYPE_ANY,ctype=ctype,is_const=is_const,complete_ctype=complete_ctype)", "else", ".if base In ('GByteArray','GLib.ByteArray','GObject.ByteArray')", "..return ast.Array('GLib.ByteArray',ast.TYPE_UINT8,ctype=ctype,is_const=is_const,complete_ctype=complete_ctype)", ".else", "..if base In ('GArray','GPtrArray','GLib.Array','GLib.PtrArray','GObject.Array','GObject.PtrArray')", "...if '.' In base", "....name = ('GLib.' Add base.split('.',1)[1])", "...else", "....name = ('GLib.' Add base[1:])", "...return ast.Array(name,ast.TYPE_ANY,ctype=ctype,is_const=is_const,complete_ctype=complete_ctype)", "..else", "...if base In ('GHashTable','GLib.HashTable','GObject.HashTable')", "....return ast.Map(ast.TYPE_ANY,ast.TYPE_ANY,ctype=ctype,is_const=is_const,complete_ctype=complete_ctype)", "return None"] ∧
    Gen.callableDefaultsShape =
      ["if isinstance(node,(ast.Callable,ast.Signal))", ".for param in node.parameters", "..if param.transfer Is None", "...param.transfer = self._get_transfer_default(node,param)", ".if node.retval.transfer Is None", "..node.retval.transfer = self._get_transfer_default(node,node.retval)", "return True"] ∧
    Gen.canonicalizeShape =
      ["firstpass = ast.type_names.get(ctype)", "if firstpass", ".return firstpass.target_fundamental", "if Not ctype.endswith('*')", ".return ctype", "base = ctype[:USub 1]", "canonical_base = self._canonicalize_ctype(base)", "canonical = (canonical_base Add '*')", "return canonical"] ∧
    Gen.createCallbackShape =
      ["if symbol.base_type.type Eq CTYPE_FUNCTION", ".paramtype = symbol.base_type", ".retvaltype = symbol.base_type.base_type", "else", ".if symbol.base_type.type Eq CTYPE_POINTER", "..paramtype = symbol.base_type.base_type", "..retvaltype = symbol.base_type.base_type.base_type", "parameters = list(self._create_parameters(symbol,paramtype))", "retval = self._create_return(retvaltype)", "for (i,param) in enumerate(parameters)", ".if (param.type.target_fundamental Eq 'gpointer' And param.argname Eq 'user_data')", "..param.closure_name = param.argname", "if member", ".name = symbol.ident", "else", ".if symbol.ident.find('_') Gt 0", "..name = self._strip_symbol(symbol)", ".else", "..name = self.strip_identifier(symbol.ident)", "callback = ast.Callback(name,retval,parameters,False,ctype=symbol.ident)", "callback.add_symbol_reference(symbol)", "return callback"] ∧
    Gen.createCompleteSourceTypeShape =
      ["assert source_type IsNot None", "const = (source_type.type_qualifier BitAnd TYPE_QUALIFIER_CONST)", "volatile = (source_type.type_qualifier BitAnd TYPE_QUALIFIER_VOLATILE)", "if source_type.type In (CTYPE_VOID,CTYPE_BASIC_TYPE,CTYPE_TYPEDEF,CTYPE_STRUCT,CTYPE_UNION,CTYPE_ENUM)", ".if source_type.type Eq CTYPE_VOID", "..value = 'void'", ".else", "..value = source_type.name", ".if const", "..value = ('const ' Add value)", ".if volatile", "..value = ('volatile ' Add value)", ".return value", "else", ".if (source_type.type Eq CTYPE_POINTER Or (source_type.type Eq CTYPE_ARRAY And is_parameter))", "..value = (self._create_complete_source_type(source_type.base_type) Add '*')", "..if const", "...value Add= ' const'", "..if volatile", "...value Add= ' volatile'", "..return value", ".else", "..if source_type.type Eq CTYPE_ARRAY", "...return self._create_complete_source_type(source_type.base_type)", "..else", "...if const", "....value = 'gconstpointer'", "...else", "....value = 'gpointer'", "...if volatile", "....value = ('volatile ' Add value)", "...return value"] ∧
    Gen.createSourceTypeShape =
      ["assert source_type IsNot None", "if source_type.type Eq CTYPE_VOID", ".value = 'void'", "else", ".if source_type.type Eq CTYPE_BASIC_TYPE", "..value = source_type.name", ".else", "..if source_type.type Eq CTYPE_TYPEDEF", "...value = source_type.name", "..else", "...if (source_type.type Eq CTYPE_POINTER Or (source_type.type Eq CTYPE_ARRAY And is_parameter))", "....value = (self._create_source_type(source_type.base_type) Add '*')", "...else", "....if source_type.type Eq CTYPE_ARRAY", ".....return self._create_source_type(source_type.base_type)", "....else", ".....value = 'gpointer'", "return value"] ∧
    Gen.createTypeFromBaseShape =
      ["ctype = self._create_source_type(source_type,is_parameter=is_parameter)", "complete_ctype = self._create_complete_source_type(source_type,is_parameter=is_parameter)", "const = (source_type.type Eq CTYPE_POINTER And (source_type.base_type.type_qualifier BitAnd TYPE_QUALIFIER_CONST))", "return self.create_type_from_ctype_string(ctype,is_const=const,is_parameter=is_parameter,is_return=is_return,complete_ctype=complete_ctype)"] ∧
    Gen.createTypeFromCtypeStringShape =
      ["canonical = self._canonicalize_ctype(ctype)", "base = canonical.replace('*','')", "if canonical In ('_Bool','bool')", ".canonical = 'gboolean'", ".base = canonical", "if ((is_return And canonical Eq 'utf8*') Or base Eq 'GStrv')", ".bare_utf8 = ast.TYPE_STRING.clone()", ".bare_utf8.ctype = None", ".return ast.Array(None,bare_utf8,ctype=ctype,is_const=is_const,complete_ctype=complete_ctype)", "fundamental = ast.type_names.get(base)", "if fundamental IsNot None", ".return ast.Type(,target_fundamental=fundamental.target_fundamental,ctype=ctype,is_const=is_const,complete_ctype=complete_ctype)", "container = self._create_bare_container_type(base,ctype=ctype,is_const=is_const,complete_ctype=complete_ctype)", "if container", ".return container", "return ast.Type(,ctype=ctype,is_const=is_const,complete_ctype=complete_ctype)"] ∧
    Gen.pass3CallbacksShape =
      ["params = node.parameters", "for param in params", ".argnode = self._transformer.lookup_typenode(param.type)", ".argnode = self._transformer.resolve_aliases(argnode)", ".if isinstance(argnode,ast.Callback)", "..if argnode.gi_name In ('Gio.AsyncReadyCallback','GLib.DestroyNotify')", "...param.scope = ast.PARAM_SCOPE_ASYNC", "...param.transfer = ast.PARAM_TRANSFER_NONE", "callback_param = None", "for param in params", ".argnode = self._transformer.lookup_typenode(param.type)", ".argnode = self._transformer.resolve_aliases(argnode)", ".is_destroynotify = False", ".if isinstance(argnode,ast.Callback)", "..if argnode.gi_name Eq 'GLib.DestroyNotify'", "...is_destroynotify = True", "..else", "...callback_param = param", "...continue", ".if callback_param Is None", "..continue", ".if is_destroynotify", "..callback_param.destroy_name = param.argname", "..callback_param.scope = ast.PARAM_SCOPE_NOTIFIED", "..callback_param.transfer = ast.PARAM_TRANSFER_NONE", ".else", "..if (param.type.is_equiv(ast.TYPE_ANY) And param.argname IsNot None And param.argname.endswith('data'))", "...callback_param.closure_name = param.argname", "for param in params", ".if param.closure_name IsNot None", "..idx = node.get_parameter_index(param.closure_name)", "..assert idx GtE 0", "..closure_param = params[idx]", "..if Not closure_param.not_nullable", "...closure_param.nullable = True"] ∧
    Gen.pass3ThrowsShape =
      ["if Not node.parameters", ".return ", "last_param = node.parameters[USub 1]", "if last_param.type.ctype Eq 'GError**'", ".node.parameters.pop()", ".node.throws = True"] ∧
    Gen.transferDefaultShape =
      ["if (node.type.is_equiv(ast.TYPE_NONE) Or isinstance(node.type,ast.Varargs))", ".return ast.PARAM_TRANSFER_NONE", "else", ".if isinstance(node,ast.Parameter)", "..return self._get_transfer_default_param(parent,node)", ".else", "..if isinstance(node,ast.Return)", "...return self._get_transfer_default_return(parent,node)", "..else", "...if isinstance(node,ast.Field)", "....return ast.PARAM_TRANSFER_NONE", "...else", "....if isinstance(node,ast.Property)", ".....return ast.PARAM_TRANSFER_NONE", "....else", ".....raise AssertionError(node)", "--", "if node.direction In (ast.PARAM_DIRECTION_INOUT,ast.PARAM_DIRECTION_OUT)", ".if node.caller_allocates", "..return ast.PARAM_TRANSFER_NONE", ".return ast.PARAM_TRANSFER_FULL", "return ast.PARAM_TRANSFER_NONE", "--", "if (typeval.is_equiv(ast.BASIC_GIR_TYPES) Or typeval.is_const Or typeval.is_equiv((ast.TYPE_ANY,ast.TYPE_NONE)))", ".return ast.PARAM_TRANSFER_NONE", "else", ".if typeval.is_equiv(ast.TYPE_STRING)", "..return ast.PARAM_TRANSFER_FULL", ".else", "..if typeval.target_fundamental", "...return None", "return None", "--", "typeval = node.type", "basic = self._get_transfer_default_returntype_basic(typeval)", "if basic", ".return basic", "if Not typeval.target_giname", ".return None", "target = self._transformer.lookup_typenode(typeval)", "if isinstance(target,ast.Alias)", ".seen = set()", ".while (isinstance(target,ast.Alias) And id(target) NotIn seen)", "..seen.add(id(target))", "..basic = self._get_transfer_default_returntype_basic(target.target)", "..if (basic Or Not target.target.target_giname)", "...return basic", "..target = self._transformer.lookup_typenode(target.target)", ".return None", "else", ".if (isinstance(target,ast.Boxed) Or (isinstance(target,(ast.Record,ast.Union)) And (target.gtype_name IsNot None Or target.foreign)))", "..return ast.PARAM_TRANSFER_FULL", ".else", "..if isinstance(target,(ast.Enum,ast.Bitfield))", "...return ast.PARAM_TRANSFER_NONE", "..else", "...if (isinstance(parent,ast.Function) And parent.is_constructor)", "....if isinstance(target,ast.Class)", ".....initially_unowned_type = ast.Type(,target_giname='GObject.InitiallyUnowned')", ".....try", "......initially_unowned = self._transformer.lookup_typenode(initially_unowned_type)", ".....except KeyError", "......message.error_node(node,'constructor found but GObject is not in includes')", "......return None", ".....if (initially_unowned And self._is_gi_subclass(typeval,initially_unowned_type))", "......return ast.PARAM_TRANSFER_NONE", ".....else", "......return ast.PARAM_TRANSFER_FULL", "....else", ".....if isinstance(target,(ast.Record,ast.Union))", "......return ast.PARAM_TRANSFER_FULL", ".....else", "......raise AssertionError('Invalid constructor')", "...else", "....if isinstance(target,(ast.Class,ast.Record,ast.Union))", ".....return None", "....else", ".....return None"] ∧
    Gen.typeContainerShape =
      ["Annotated.__init__(self)", "self.type = typenode", "self.nullable = nullable", "self.not_nullable = not_nullable", "self.direction = direction", "if transfer IsNot None", ".self.transfer = transfer", "else", ".if (typenode And typenode.is_const)", "..self.transfer = PARAM_TRANSFER_NONE", ".else", "..self.transfer = None"] := by
  decide +kernel

/-- The literal names the passes compare against (re-read from the source on every run). -/
theorem C02_source_literals :
    Gen.asyncScopeCallbacks = ["Gio.AsyncReadyCallback", "GLib.DestroyNotify"] ∧
    Gen.destroyNotifyName = "GLib.DestroyNotify" ∧ Gen.closureSuffix = "data" ∧
    Gen.throwsCtype = "GError**" ∧ Gen.callbackUserDataFundamental = "gpointer" ∧
    Gen.callbackUserDataName = "user_data" ∧
    Gen.nullableGinames = ["Gio.AsyncReadyCallback", "Gio.Cancellable"] ∧
    Gen.boolAliases = ["_Bool", "bool"] ∧ Gen.boolTarget = "gboolean" ∧
    Gen.strvReturnCanonical = "utf8*" ∧ Gen.strvBase = "GStrv" ∧
    Gen.typeAnyName = "gpointer" ∧ Gen.typeNoneName = "none" ∧ Gen.typeStringName = "utf8" := by
  decide +kernel

/-! ### C type spellings map to the canonical introspection types -/

def tyOf (base : String) (depth : Nat) : CType :=
  (List.range depth).foldl (fun t _ => .ptr Qual.plain t)
    (if base = "void" then .void Qual.plain else .basic Qual.plain base.toList)

/-- The spellings named in the statement, over the GENERATED table: int ↦ gint, char* ↦ utf8,
    `_Bool` ↦ gboolean, a returned `char**` ↦ array of utf8 (a `char**` parameter stays utf8),
    stdint exact-width types and the GLib aliases ↦ their fixed-width types, `void*`/gconstpointer ↦
    gpointer. -/
theorem C02_table :
    -- C builtins
    [("int", "gint"), ("unsigned int", "guint"), ("unsigned", "guint"), ("signed", "gint"), ("short", "gshort"),
     ("unsigned short", "gushort"), ("long", "glong"), ("unsigned long", "gulong"), ("char", "gchar"),
     ("signed char", "gint8"), ("unsigned char", "guint8"), ("float", "gfloat"), ("double", "gdouble"),
     ("void", "none"), ("char*", "utf8"), ("gchar*", "utf8"), ("void*", "gpointer"),
     -- stdint: intN_t ↦ gintN, uintN_t ↦ guintN for N ∈ {8,16,32,64}
     ("int8_t", "gint8"), ("int16_t", "gint16"), ("int32_t", "gint32"), ("int64_t", "gint64"),
     ("uint8_t", "guint8"), ("uint16_t", "guint16"), ("uint32_t", "guint32"), ("uint64_t", "guint64"),
     ("size_t", "gsize"), ("ssize_t", "gssize"), ("intptr_t", "gintptr"), ("uintptr_t", "guintptr"),
     -- GLib aliases
     ("guchar", "guint8"), ("goffset", "gint64"), ("gunichar2", "guint16"), ("gconstpointer", "gpointer"),
     ("gpointer", "gpointer"), ("gsize", "gsize"), ("gssize", "gssize"), ("gboolean", "gboolean"),
     ("gint", "gint"), ("guint", "guint"), ("gint8", "gint8"), ("guint8", "guint8"), ("gint16", "gint16"),
     ("guint16", "guint16"), ("gint32", "gint32"), ("guint32", "guint32"), ("gint64", "gint64"),
     ("guint64", "guint64"), ("glong", "glong"), ("gulong", "gulong"), ("gfloat", "gfloat"),
     ("gdouble", "gdouble"), ("gunichar", "gunichar"), ("GType", "GType")].all
      (fun r => lookup r.1.toList == some r.2.toList) = true ∧
    -- `_Bool` / `bool` in any position become gboolean, keeping the C spelling as c:type
    (paramType (tyOf "_Bool" 0)).kind = .fundamental "gboolean".toList ∧
    (returnType (tyOf "_Bool" 0)).kind = .fundamental "gboolean".toList ∧
    (plainType (tyOf "bool" 0)).kind = .fundamental "gboolean".toList ∧
    writtenCtype (paramType (tyOf "_Bool" 0)) = "_Bool".toList ∧
    -- char* is a string everywhere; a RETURNED char** is an array of utf8, a char** parameter is utf8
    (paramType (tyOf "char" 1)).kind = .fundamental "utf8".toList ∧
    (returnType (tyOf "char" 1)).kind = .fundamental "utf8".toList ∧
    (returnType (tyOf "char" 2)).kind = .strv ∧
    writtenCtype (returnType (tyOf "char" 2)) = "char**".toList ∧
    (paramType (tyOf "char" 2)).kind = .fundamental "utf8".toList ∧
    (returnType (tyOf "char" 3)).kind = .fundamental "utf8".toList ∧
    -- untyped pointers
    (paramType (tyOf "void" 1)).kind = .fundamental "gpointer".toList ∧
    (paramType (tyOf "int" 0)).kind = .fundamental "gint".toList ∧
    writtenCtype (paramType (tyOf "int" 0)) = "int".toList := by
  decide +kernel

/-- Every value of `ast.type_names` is one of `ast.GIR_TYPES`: whatever spelling resolves, resolves to
    a type the GIR format knows. -/
theorem C02_table_values_are_gir_types (s f : Str) (h : lookup s = some f) : f ∈ strs Gen.girTypes := by
  have hall : table.all (fun r => (strs Gen.girTypes).contains r.2) = true := by decide +kernel
  have := List.all_eq_true.mp hall _ (lookupIn_some_mem h)
  simpa using this

/-- Pointer-aware canonicalisation.  (1) stars behind a spelling that has no pointer alias of its own
    are kept: canonicalize (s ++ '*'^k) = canonicalize s ++ '*'^k; (2) no spelling with two or more
    trailing stars has an alias; hence (3) when `s*` has its own alias `f` (char* ↦ utf8) the longest
    aliased prefix wins: `s` + k+1 stars ↦ f + k stars (char** ↦ utf8*); (4) when only `s` has an alias,
    s + k stars ↦ f + k stars; (5) an unknown spelling not ending in `*` is kept verbatim with its stars. -/
theorem C02_canon_ptr :
    (∀ (s : Str) (k : Nat), (∀ j, 1 ≤ j → j ≤ k → lookup (s ++ stars j) = none) →
      canonicalize (s ++ stars k) = canonicalize s ++ stars k) ∧
    (∀ (s : Str) (j : Nat), 2 ≤ j → lookup (s ++ stars j) = none) ∧
    (∀ (s f : Str) (k : Nat), lookup (s ++ ['*']) = some f →
      canonicalize (s ++ stars (k + 1)) = f ++ stars k) ∧
    (∀ (s f : Str) (k : Nat), lookup s = some f → lookup (s ++ ['*']) = none →
      canonicalize (s ++ stars k) = f ++ stars k) ∧
    (∀ (s : Str) (k : Nat), lookup s = none → lookup (s ++ ['*']) = none → (∀ t, s ≠ t ++ ['*']) →
      canonicalize (s ++ stars k) = s ++ stars k) := by
  have h1 : ∀ (s : Str) (k : Nat), (∀ j, 1 ≤ j → j ≤ k → lookup (s ++ stars j) = none) →
      canonicalize (s ++ stars k) = canonicalize s ++ stars k :=
    fun s k h => canonicalizeIn_stars table s k h
  have hone : ∀ s : Str, s ++ stars 1 = s ++ ['*'] := fun s => rfl
  have hno : ∀ (s : Str) (k : Nat), lookup (s ++ ['*']) = none →
      ∀ j, 1 ≤ j → j ≤ k → lookup (s ++ stars j) = none := by
    intro s k h j hj1 _
    by_cases hj : j = 1
    · subst hj; rw [hone]; exact h
    · exact lookup_many_stars s j (by omega)
  refine ⟨h1, lookup_many_stars, ?_, ?_, ?_⟩
  · intro s f k h
    have : s ++ stars (k + 1) = (s ++ ['*']) ++ stars k := by
      have : stars (k + 1) = '*' :: stars k := by simp [stars, List.replicate_succ]
      rw [this]; simp
    rw [this, h1 (s ++ ['*']) k, show canonicalize (s ++ ['*']) = f from canonicalizeIn_hit h]
    intro j hj1 hj2
    have : (s ++ ['*']) ++ stars j = s ++ stars (j + 1) := by
      have : stars (j + 1) = '*' :: stars j := by simp [stars, List.replicate_succ]
      rw [this]; simp
    rw [this]
    exact lookup_many_stars s (j + 1) (by omega)
  · intro s f k h hn
    rw [h1 s k (hno s k hn), show canonicalize s = f from canonicalizeIn_hit h]
  · intro s k h hn hs
    rw [h1 s k (hno s k hn), show canonicalize s = s from canonicalizeIn_plain h hs]

/-- Canonicalisation is idempotent. -/
theorem C02_canon_idem (s : Str) : canonicalize (canonicalize s) = canonicalize s :=
  canonicalizeIn_idem table table_valuesFixed table_starAliasesCovered s

/-! ### the original C spelling is kept as c:type -/

/-- The statement at full strength, for EVERY type tree (no side condition on the type): the written
    c:type is the documented spelling — base name with `const`/`volatile` in front iff the innermost pointee
    is so qualified (`void` included), then exactly one `*` per pointer level (a parameter's outermost array
    decays to one level, other arrays to none), each followed by that level's own qualifiers; the plain
    ctype used for type lookup is the qualifier-free base name followed by exactly `ptrDepth` stars; the
    `is_const` flag that drives "const ⇒ transfer none" is the constness of the IMMEDIATE pointee (not of
    deeper or shallower levels); when no name contains `*` the written c:type has exactly `ptrDepth` stars;
    parameter arrays decay once, other arrays not at all.  The complete spelling is what the writer puts
    into the c:type attribute (second conjunct). -/
theorem C02_ctype_kept (t : CType) (isParameter isReturn : Bool) :
    (createTypeFromBase t isParameter isReturn).complete = spelled t isParameter ∧
    (spelled t isParameter ≠ [] →
      writtenCtype (createTypeFromBase t isParameter isReturn) = spelled t isParameter) ∧
    (createTypeFromBase t isParameter isReturn).ctype = baseName (baseOf t) ++ stars (ptrDepth t isParameter) ∧
    (createTypeFromBase t isParameter isReturn).isConst = pointeeConst t ∧
    ('*' ∉ baseSpelling (baseOf t) →
      (createTypeFromBase t isParameter isReturn).complete.count '*' = ptrDepth t isParameter) ∧
    (∀ q u n, ptrDepth (.array q u n) true = ptrDepth u false + 1 ∧ ptrDepth (.array q u n) false = ptrDepth u false) ∧
    (∀ q u, ptrDepth (.ptr q u) isParameter = ptrDepth u false + 1) := by
  obtain ⟨h1, h2, h3⟩ := createTypeFromCtypeString_fields (createSourceType t isParameter) (pointeeConst t) isReturn
    (createCompleteSourceType t isParameter)
  have hc : (createTypeFromBase t isParameter isReturn).complete = spelled t isParameter := by
    unfold createTypeFromBase; rw [h3]; exact complete_eq_spelled t isParameter
  refine ⟨hc, ?_, ?_, ?_, ?_, ?_, ?_⟩
  · intro hne
    unfold writtenCtype
    rw [hc, if_neg]
    simpa only [List.isEmpty_iff] using hne
  · unfold createTypeFromBase; rw [h1]; exact source_eq t isParameter
  · unfold createTypeFromBase; exact h2
  · intro hn
    rw [hc]
    unfold spelled
    rw [List.count_append, count_star_levels, List.count_eq_zero_of_not_mem hn]
    simp [ptrDepth]
  · intro q u n
    simp [ptrDepth, levels]
  · intro q u
    simp [ptrDepth, levels]

/-- The input class that used to be excluded (a qualified `void` pointee) now keeps its spelling:
    `const void *` is written `const void*`, `volatile const void *const` likewise. -/
theorem C02_ctype_kept_qualified_void :
    writtenCtype (paramType (.ptr Qual.plain (.void ⟨true, false⟩))) = "const void*".toList ∧
    writtenCtype (returnType (.ptr Qual.plain (.void ⟨true, false⟩))) = "const void*".toList ∧
    writtenCtype (plainType (.ptr ⟨true, false⟩ (.void ⟨true, true⟩))) = "volatile const void* const".toList ∧
    (paramType (.ptr Qual.plain (.void ⟨true, false⟩))).kind = .fundamental "gpointer".toList ∧
    (paramType (.ptr Qual.plain (.void ⟨true, false⟩))).isConst = true := by
  decide +kernel

/-! ### documented ownership defaults -/

/-- The documented defaults ("Default Annotations" of giannotations.rst and the statement), for ALL type
    descriptions `ty`:
    (1) `(in)` (or un-annotated) parameters: none; `(out)`/`(inout)`: full, unless caller-allocates: none;
    (2) void and varargs: none in every position; (3) fields and properties: none;
    (4) returned const values, basic types, untyped pointers: none; (5) returned non-const strings: full;
    (6) returned boxed / registered records: full, enums: none, plain records/objects/interfaces/callbacks:
    no default; (7) constructors: objects full unless GInitiallyUnowned-derived (none), records full;
    (8) TypeContainer: an explicit transfer wins, a const type gives none. -/
theorem C02_transfer_defaults :
    (∀ ctor ca ty, isEquivNone ty = false → ty.isVarargs = false →
      transferDefault .parameter ctor none ca ty = .ok (some .none) ∧
      transferDefault .parameter ctor (some .in_) ca ty = .ok (some .none) ∧
      transferDefault .parameter ctor (some .out) ca ty = .ok (some (if ca then .none else .full)) ∧
      transferDefault .parameter ctor (some .inout) ca ty = .ok (some (if ca then .none else .full))) ∧
    (∀ pos ctor d ca ty, (isEquivNone ty = true ∨ ty.isVarargs = true) →
      transferDefault pos ctor d ca ty = .ok (some .none)) ∧
    (∀ ctor d ca ty, transferDefault .field ctor d ca ty = .ok (some .none) ∧
      transferDefault .property ctor d ca ty = .ok (some .none)) ∧
    (∀ ctor d ca ty, isEquivNone ty = false → ty.isVarargs = false →
      (ty.isConst = true ∨ isEquivBasicGir ty = true ∨ isEquivAny ty = true) →
      transferDefault .return_ ctor d ca ty = .ok (some .none)) ∧
    (∀ ctor d ca ty, isEquivNone ty = false → ty.isVarargs = false → ty.isConst = false →
      isEquivBasicGir ty = false → isEquivAny ty = false → isEquivFund ty stringName = true →
      transferDefault .return_ ctor d ca ty = .ok (some .full)) ∧
    (∀ ctor d ca ty g, isEquivNone ty = false → ty.isVarargs = false → ty.isConst = false →
      ty.fundamental = none → ty.giname = some g →
      (ty.node = some .boxed → transferDefault .return_ ctor d ca ty = .ok (some .full)) ∧
      (ty.node = some (.compound true) → transferDefault .return_ ctor d ca ty = .ok (some .full)) ∧
      (ty.node = some .enumLike → transferDefault .return_ ctor d ca ty = .ok (some .none)) ∧
      (∀ u, ty.node = some (.klass u) → transferDefault .return_ false d ca ty = .ok none) ∧
      (ty.node = some (.compound false) → transferDefault .return_ false d ca ty = .ok none) ∧
      (ty.node = some .interface → transferDefault .return_ false d ca ty = .ok none) ∧
      (ty.node = some .callback → transferDefault .return_ false d ca ty = .ok none) ∧
      (∀ u, ty.node = some (.klass u) →
        transferDefault .return_ true d ca ty = .ok (some (if u then .none else .full))) ∧
      (ty.node = some (.compound false) → transferDefault .return_ true d ca ty = .ok (some .full))) ∧
    (∀ (t : Transfer) c, typeContainerTransfer (some t) c = some t) ∧
    typeContainerTransfer none true = some .none ∧ typeContainerTransfer none false = none := by
  refine ⟨?_, ?_, ?_, ?_, ?_, ?_, ?_, rfl, rfl⟩
  · intro ctor ca ty h1 h2
    simp only [transferDefault_param ctor _ ca ty h1 h2]
    refine ⟨rfl, rfl, ?_, ?_⟩ <;> cases ca <;> rfl
  · intro pos ctor d ca ty h
    exact transferDefault_void pos ctor d ca ty h
  · intro ctor d ca ty
    exact transferDefault_field ctor d ca ty
  · intro ctor d ca ty h1 h2 h
    rw [transferDefault_return ctor d ca ty h1 h2]
    unfold transferDefaultReturn transferDefaultReturnBasic
    rcases h with h | h | h <;> simp [h]
  · intro ctor d ca ty h1 h2 h3 h4 h5 h6
    rw [transferDefault_return ctor d ca ty h1 h2]
    unfold transferDefaultReturn transferDefaultReturnBasic
    simp [h1, h3, h4, h5, h6]
  · intro ctor d ca ty g h1 h2 h3 hf hg
    have hb : isEquivBasicGir ty = false := by
      simp [isEquivBasicGir, isEquivFund, hf, hg]
    have ha : isEquivAny ty = false := by simp [isEquivAny, isEquivFund, hf, hg]
    have hs : isEquivFund ty stringName = false := by simp [isEquivFund, hf, hg]
    have hbasic : transferDefaultReturnBasic ty = none := by
      unfold transferDefaultReturnBasic
      simp [h1, h3, hb, ha, hs]
    have hret : ∀ c, transferDefault .return_ c d ca ty = transferDefaultReturn c ty :=
      fun c => transferDefault_return c d ca ty h1 h2
    refine ⟨?_, ?_, ?_, ?_, ?_, ?_, ?_, ?_, ?_⟩
    all_goals first
      | (intro u hn; rw [hret]; unfold transferDefaultReturn; simp [hbasic, hg, hn])
      | (intro hn; rw [hret]; unfold transferDefaultReturn; simp [hbasic, hg, hn])
  · intro t c; rfl

/-- `_pass_callable_defaults` never overrides a transfer that is already decided (const ⇒ none from
    `TypeContainer.__init__`), and fills the undecided ones with the default above. -/
theorem C02_callable_defaults_keep (p : Param) (t : Transfer) (h : p.transfer = some t) :
    paramDefault p = .ok p := by
  unfold paramDefault
  simp [h]

/-! ### returned typedef chains (aliases) -/

/-- The statement for returned typedef'd types, for typedef chains of ANY length: a value declared with a
    typedef name whose chain of typedefs `mid ++ [last]` (each entry the typedef's own target type, outermost
    first; the last one targets the fundamental `f`) gets the documented default — const anywhere along the
    chain makes it a returned const value: none; otherwise basic types and untyped pointers none, non-const
    strings full, other fundamentals no default (`documentedChainDefault`). -/
theorem C02_transfer_alias (g : Str) (mid : List AliasLink) (last : AliasLink) (f : Str) (ctor : Bool)
    (d : Option Direction) (ca : Bool)
    (hmid : ∀ l ∈ mid, l.fundamental = none ∧ l.giname.isSome = true) (hlast : last.fundamental = some f) :
    transferDefault .return_ ctor d ca (chainTy g (mid ++ [last])) =
      .ok (documentedChainDefault ((mid ++ [last]).map (·.isConst)) f) ∧
    -- the rows of `documentedChainDefault`, spelled out
    (∀ consts, consts.any id = true → documentedChainDefault consts f = some .none) ∧
    (∀ consts, consts.any id = false → (strs Gen.basicGirTypes).contains f = true →
      documentedChainDefault consts f = some .none) ∧
    (∀ consts, consts.any id = false → documentedChainDefault consts "gpointer".toList = some .none) ∧
    (∀ consts, consts.any id = false → documentedChainDefault consts "utf8".toList = some .full) := by
  refine ⟨?_, ?_, ?_, ?_, ?_⟩
  · obtain ⟨hn, hb⟩ := chainTy_basic g (mid ++ [last])
    rw [transferDefault_return ctor d ca _ hn rfl]
    unfold transferDefaultReturn
    rw [hb]
    simp only [chainTy, Option.isNone_some, Bool.false_eq_true, if_false]
    rw [aliasChainDefault_chain mid last f hmid hlast]
  · intro consts h; simp [documentedChainDefault, h]
  · intro consts h hf
    have : isEquivBasicGir
        { fundamental := some f, giname := none, node := none, callbackName := none, ctype := [], isConst := false,
          isVarargs := false } = true := by
      simp only [isEquivBasicGir, isEquivFund, List.any_eq_true]
      simp only [List.contains_iff_mem] at hf
      exact ⟨f, hf, by simp⟩
    simp [documentedChainDefault, h, fundDefault, transferDefaultReturnBasic, this]
  · intro consts h
    have : fundDefault "gpointer".toList = some .none := by decide +kernel
    unfold documentedChainDefault
    rw [h, this]
    rfl
  · intro consts h
    have : fundDefault "utf8".toList = some .full := by decide +kernel
    unfold documentedChainDefault
    rw [h, this]
    rfl

/-! ### untyped pointers are nullable -/

theorem C02_nullable_gpointer (ty : TyInfo) (d : Option Direction) (n : Bool) (h : isEquivAny ty = true) :
    commonNullable ty d n = true := by
  unfold commonNullable
  simp [h]

/-! ### callback / user_data / destroy-notify roles -/

/-- The grouping rule of `_pass3_callable_callbacks`, for ALL parameter lists:
    (1) parameters in front of the first callback are untouched;
    (2) a callback `c` followed by a stretch `seg` without further callbacks (and then the end of the list
        or the next callback) is rewritten to `absorb c seg`, the stretch itself and everything behind it
        being processed independently — so a follower only ever affects the LATEST preceding callback;
    (3) `absorb` sets closure to the name of the LAST user-data follower (a gpointer whose name ends in
        `data`, not a destroy notify) or leaves it alone when there is none;
    (4) it sets destroy to the LAST GDestroyNotify follower together with scope notified and transfer none,
        or leaves all three alone;
    (5) nothing else of the callback changes;
    (6) the first loop gives GAsyncReadyCallback (and a bare GDestroyNotify) scope async, other parameters
        are untouched;
    (7) the index written for a closure/destroy name is the position of the first parameter of that name;
    (8) the third loop changes nothing but `nullable` flags. -/
theorem C02_callbacks :
    (∀ pre rest, NoPlainCallback pre → assignCallbacks (pre ++ rest) = pre ++ assignCallbacks rest) ∧
    (∀ c seg rest, isPlainCallback c = true → NoPlainCallback seg →
      (rest = [] ∨ ∃ r rs, rest = r :: rs ∧ isPlainCallback r = true) →
      assignCallbacks (c :: (seg ++ rest)) = absorb c seg :: (seg ++ assignCallbacks rest)) ∧
    (∀ c seg, (absorb c seg).closure =
      match (seg.filter isClosureData).getLast? with
      | some p => some p.name
      | none => c.closure) ∧
    (∀ c seg, ((absorb c seg).destroy, (absorb c seg).scope, (absorb c seg).transfer) =
      match (seg.filter isDestroyNotify).getLast? with
      | some p => (some p.name, some Scope.notified, some Transfer.none)
      | none => (c.destroy, c.scope, c.transfer)) ∧
    (∀ c seg, (absorb c seg).name = c.name ∧ (absorb c seg).node = c.node ∧ (absorb c seg).ty = c.ty ∧
      (absorb c seg).direction = c.direction ∧ (absorb c seg).callerAllocates = c.callerAllocates ∧
      (absorb c seg).nullable = c.nullable ∧ (absorb c seg).notNullable = c.notNullable) ∧
    (∀ p : Param, (p.ty.callbackName = some "Gio.AsyncReadyCallback".toList →
        (asyncDefaults p).scope = some .async ∧ (asyncDefaults p).transfer = some .none) ∧
      (p.ty.callbackName = none → asyncDefaults p = p)) ∧
    (∀ a b (p : Param), (∀ x ∈ a, x.name ≠ p.name) → getParameterIndex (a ++ p :: b) p.name = .ok a.length) ∧
    (∀ ps ps', closureNullable ps = .ok ps' → ps'.map clearNullable = ps.map clearNullable) := by
  refine ⟨assignCallbacks_prefix, assignCallbacks_group, absorb_closure, absorb_destroy, absorb_frame, ?_,
    getParameterIndex_at, closureNullable_frame⟩
  intro p
  constructor
  · intro h
    have hm : (strs Gen.asyncScopeCallbacks).contains "Gio.AsyncReadyCallback".toList = true := by decide +kernel
    unfold asyncDefaults
    rw [h]
    simp only [hm, if_true, and_self]
  · intro h
    unfold asyncDefaults
    rw [h]

/-- `_create_callback`: inside a callback type, a gpointer parameter named exactly `user_data` is its own
    closure; every other parameter is untouched. -/
theorem C02_callback_user_data (p : Param) :
    (p.ty.fundamental = some "gpointer".toList → p.name = "user_data".toList →
      (markUserData p).closure = some p.name) ∧
    ((p.ty.fundamental ≠ some "gpointer".toList ∨ p.name ≠ "user_data".toList) → markUserData p = p) := by
  have e1 : Gen.callbackUserDataFundamental.toList = "gpointer".toList := by decide +kernel
  have e2 : Gen.callbackUserDataName.toList = "user_data".toList := by decide +kernel
  unfold markUserData
  rw [e1, e2]
  generalize "gpointer".toList = g
  generalize "user_data".toList = u
  constructor
  · intro h1 h2
    simp only [h1, h2, beq_self_eq_true, Bool.and_self, if_true]
  · intro h
    rcases h with h | h
    · have : (p.ty.fundamental == some g) = false := by simpa using h
      simp only [this, Bool.false_and, Bool.false_eq_true, if_false]
    · have : (p.name == u) = false := by simpa using h
      simp only [this, Bool.and_false, Bool.false_eq_true, if_false]

/-! ### a trailing GError** becomes `throws` -/

/-- Exactly the trailing `GError**` is removed and `throws` set; in every other case the list and the
    flag are returned unchanged. -/
theorem C02_throws :
    (∀ (init : List Param) (last : Param) (b : Bool), last.ty.ctype = "GError**".toList →
      pass3Throws (init ++ [last]) b = (init, true)) ∧
    (∀ (init : List Param) (last : Param) (b : Bool), last.ty.ctype ≠ "GError**".toList →
      pass3Throws (init ++ [last]) b = (init ++ [last], b)) ∧
    (∀ b, pass3Throws [] b = ([], b)) := by
  have e : Gen.throwsCtype.toList = "GError**".toList := by decide +kernel
  refine ⟨?_, ?_, pass3Throws_nil⟩
  · intro init last b h
    rw [pass3Throws_concat, e]
    generalize "GError**".toList = g at h
    simp only [h, beq_self_eq_true, if_true]
  · intro init last b h
    rw [pass3Throws_concat, e]
    generalize "GError**".toList = g at h
    have : (last.ty.ctype == g) = false := by simpa using h
    simp only [this, Bool.false_eq_true, if_false]

/-- A function named after a plain record / union / boxed / interface / enum is written twice (namespace function
    with `moved-to` + static function of the type).  `throws` and the written parameters depend on the declaration
    alone, so EVERY emitted copy of a declaration ending in `GError**` has the error parameter removed and is marked
    as throwing; without a trailing `GError**` both copies keep the whole list. -/
theorem C02_throws_every_copy :
    (∀ (init : List Param) (last : Param) (b : Bool), last.ty.ctype = "GError**".toList →
      pairStaticThrows (init ++ [last]) b = ((init, true), (init, true))) ∧
    (∀ (ps : List Param) (b : Bool), (pairStaticThrows ps b).1 = (pairStaticThrows ps b).2) := by
  refine ⟨?_, ?_⟩
  · intro init last b h
    simp only [pairStaticThrows, List.map_id_fun, id_eq, C02_throws.1 init last b h]
  · intro ps b
    simp only [pairStaticThrows, List.map_id_fun, id_eq]

/-! ### non-vacuity: concrete instances of hypotheses and conclusions -/

section Examples

def gp : TyInfo := { fundamental := some "gpointer".toList, giname := none, node := none, callbackName := none,
                     ctype := "gpointer".toList, isConst := false, isVarargs := false }
def cbTy (n : String) : TyInfo :=
  ⟨none, some n.toList, some Target.callback, some n.toList, "X".toList, false, false⟩
def intTy : TyInfo := ⟨some "gint".toList, none, none, none, "int".toList, false, false⟩
def errTy : TyInfo :=
  ⟨none, some "GLib.Error".toList, some (Target.compound true), none, "GError**".toList, false, false⟩
def klassTy (unowned : Bool) : TyInfo :=
  ⟨none, some "Gtk.Button".toList, some (Target.klass unowned), none, "GtkButton*".toList, false, false⟩
def mkP (n : String) (ty : TyInfo) : Param := { name := n.toList, node := default, ty := ty }

/-- cb, user_data, destroy, cb2, more_data, n -/
def demo : List Param :=
  [mkP "cb" (cbTy "Foo.Cb"), mkP "user_data" gp, mkP "dn" (cbTy "GLib.DestroyNotify"),
   mkP "cb2" (cbTy "Gio.AsyncReadyCallback"), mkP "more_data" gp, mkP "n" intTy]

example : isPlainCallback (mkP "cb" (cbTy "Foo.Cb")) = true := by decide +kernel
example : NoPlainCallback [mkP "user_data" gp, mkP "dn" (cbTy "GLib.DestroyNotify")] := by
  intro p hp
  simp only [List.mem_cons, List.not_mem_nil, or_false] at hp
  rcases hp with rfl | rfl <;> decide +kernel
example : (pass3Callbacks demo).toOption.map (fun ps => ps.map (·.closure)) =
    some [some "user_data".toList, none, none, some "more_data".toList, none, none] := by decide +kernel
example : (pass3Callbacks demo).toOption.map (fun ps => ps.map (·.destroy)) =
    some [some "dn".toList, none, none, none, none, none] := by decide +kernel
example : (pass3Callbacks demo).toOption.map (fun ps => ps.map (·.scope)) =
    some [some .notified, none, some .async, some .async, none, none] := by decide +kernel
example : (pass3Callbacks demo).toOption.map (fun ps => ps.map (·.nullable)) =
    some [false, true, false, false, true, false] := by decide +kernel
example : pass3Throws (demo ++ [mkP "error" errTy]) false = (demo, true) := by decide +kernel
example : pass3Throws demo false = (demo, false) := by decide +kernel
example : (getParameterIndex demo "more_data".toList).toOption = some 4 := by decide +kernel
example : isEquivAny gp = true ∧ isEquivNone gp = false ∧ isEquivBasicGir intTy = true := by decide +kernel
example : (transferDefault .parameter false (some .out) false intTy).toOption = some (some .full) := by
  decide +kernel
example : (transferDefault .return_ true none false (klassTy true)).toOption = some (some .none) ∧
    (transferDefault .return_ true none false (klassTy false)).toOption = some (some .full) ∧
    (transferDefault .return_ false none false (klassTy false)).toOption = some none := by decide +kernel
example : spelled (.ptr Qual.plain (.void ⟨true, false⟩)) true = "const void*".toList := by decide +kernel
example : '*' ∉ baseSpelling (baseOf (.ptr Qual.plain (.void ⟨true, false⟩))) := by decide +kernel
example : spelled (.ptr ⟨true, false⟩ (.ptr Qual.plain (.basic ⟨true, false⟩ "char".toList))) true
    = "const char** const".toList := by decide +kernel
example : (createTypeFromBase (.array Qual.plain (.ptr Qual.plain (.typedef ⟨true, true⟩ "FooRec".toList)) (some 4))
    true false).complete = "volatile const FooRec**".toList := by decide +kernel
example : canonicalize "char**".toList = "utf8*".toList ∧ canonicalize "FooBar**".toList = "FooBar**".toList ∧
    canonicalize "unsigned long*".toList = "gulong*".toList := by decide +kernel
example : lookup ("char".toList ++ ['*']) = some "utf8".toList ∧ lookup "FooBar".toList = none := by decide +kernel
def lnkF (f : String) (c : Bool) : AliasLink := ⟨some f.toList, none, f.toList, c⟩
def lnkG (g : String) (c : Bool) : AliasLink := ⟨none, some g.toList, g.toList, c⟩
-- typedef const char *FooStr; typedef FooStr FooStr2; typedef FooStr2 FooStr3;  FooStr3 f(void)  -> none
example : (transferDefault .return_ false none false
    (chainTy "Foo.Str3".toList [lnkG "Foo.Str2" false, lnkG "Foo.Str" false, lnkF "utf8" true])).toOption
    = some (some .none) := by decide +kernel
-- typedef char *FooBuf; typedef FooBuf FooBuf2;  FooBuf2 f(void) -> full;  typedef int chains -> none
example : (transferDefault .return_ false none false
    (chainTy "Foo.Buf2".toList [lnkG "Foo.Buf" false, lnkF "utf8" false])).toOption = some (some .full) ∧
    (transferDefault .return_ false none false
    (chainTy "Foo.Alias2".toList [lnkG "Foo.Alias" false, lnkF "gint" false])).toOption = some (some .none) ∧
    (transferDefault .return_ false none false (chainTy "Foo.Str".toList [lnkF "utf8" true])).toOption
    = some (some .none) := by decide +kernel
example : ∀ l ∈ [lnkG "Foo.Str2" false, lnkG "Foo.Str" false], l.fundamental = none ∧ l.giname.isSome = true := by
  decide
example : (markUserData (mkP "user_data" gp)).closure = some "user_data".toList := by decide +kernel
example : commonNullable gp none false = true := by decide +kernel

example : pairStaticThrows [mkP "path" intTy, mkP "error" errTy] false =
    (([mkP "path" intTy], true), ([mkP "path" intTy], true)) := by decide +kernel
end Examples

end GIVerif.Defaults
