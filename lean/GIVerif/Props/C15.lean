/-
  C15 — Whatever the scanner writes, the typelib compiler accepts.
  ONLY property theorems and non-vacuity examples live here; the executable model and the
  contract checkers are in GIVerif/Model/GirConsume.lean, helper lemmas in
  GIVerif/Lemmas/GirConsume.lean, the vocabulary tables in GIVerif/Gen/GirVocabPy.lean
  (from giscanner/girwriter.py) and GIVerif/Gen/GirVocabC.lean (from girepository/girparser.c),
  both regenerated from /repo on every run.

  What is proved: the vocabulary contract between the two implementations (`decide` over the
  generated tables: a vocabulary change on either side breaks an obligation) and the balance of
  the PASSTHROUGH depth counter for EVERY well-nested event sequence (induction).
  What is NOT proved here: the GIR -> typelib semantic mapping (validated end to end on the
  real scanner/compiler pair by harness/c15.py).

  How the `decide` obligations are evaluated.  The kernel compares strings slowly, so the obligations
  run on the number-coded, grouped copies of the tables (`Gen.c15*G`; a name is 1 followed by its bytes,
  base 256 — `code`).  The lists written in this file are written twice: readable (strings) and coded
  (`…N`, produced with `#eval`); `C15_constants_coded` proves the two agree.  That the GENERATED coded
  tables are the coding of the generated string tables (which the state machine of the model and the
  driver use) is evaluated by the compiled driver on every run (`tablesCoded`, op c15.coded; in the
  kernel that comparison takes minutes) and pinned for the first entry of every table by
  `C15_tables_coded_first`.

  Hypotheses beyond the property's wording:
  * the unchanged tree VIOLATES the element clause of the contract at the places listed in
    `knownElementOffences`; each is replayed on the real pair by the harness (PENDING_FINDINGS).  The full
    statement is kept as `C15_elements_full : Prop`, refuted by `C15_elements_counterexample`, and
    `C15_elements_partial` says that these are the ONLY exceptions.  The attribute clause (`C15_attributes`)
    and the value clause for everything a scanner path produces (`C15_values`) hold in full
    (`C15_values_full`, over everything the writer could write, fails only at the writer-only combination).
  * `writerOnlyOffences`, `writerOnlyValueOffences`: combinations girwriter.py could write but no scanner
    path produces (fields of an interface; transfer-ownership="container" on an instance parameter); the
    harness checks on every produced GIR that they do not occur.
  * C15_passthrough_balanced, hypothesis `hrow`: the table row taking the element, if it runs
    introspectable_prelude, does not name PASSTHROUGH as the state of the introspectable element (no
    start_* function of girparser.c does; C15_no_prelude_to_passthrough checks it on the whole table).
-/
import GIVerif.Lemmas.GirConsume

namespace GIVerif.GirConsume
open GIVerif

/-! ### the translators understood both sources -/

theorem C15_shape : Gen.c15CShape = [] ∧ Gen.c15PyShape = [] := by decide

/-! ### the hand-written half of the model has the shape of the source -/

/-- the rows of end_element_handler that are not of the regular form: mirrored by hand in `endEv` -/
def irregularEnds : List (List String × List String) := [
  (["START", "END"], []),
  (["FUNCTION"], ["pop", "if-no-node", "switch:NAMESPACE", "if-embedded", "switch:embedded", "node:INTERFACE",
    "switch:INTERFACE", "node:OBJECT", "switch:CLASS", "node:BOXED", "switch:BOXED", "node:STRUCT", "switch:STRUCT",
    "node:UNION", "switch:UNION", "node:ENUM", "node:FLAGS", "switch:ENUM"]),
  (["STRUCT"], ["require:record", "end_struct_or_union"]),
  (["UNION"], ["require:union", "end_struct_or_union"]),
  (["NAMESPACE_CONSTANT", "CLASS_CONSTANT", "INTERFACE_CONSTANT"], ["stay:type", "require:constant",
    "case:NAMESPACE_CONSTANT", "pop", "switch:NAMESPACE", "case:CLASS_CONSTANT", "switch:CLASS",
    "case:INTERFACE_CONSTANT", "switch:INTERFACE"]),
  (["TYPE"], ["if-type|array|varargs", "end_type"]),
  (["ATTRIBUTE"], ["if-attribute", "switch:prev"]),
  (["PASSTHROUGH"], ["depth-1", "if-depth-0", "switch:prev"]),
  (["default"], [])]

/-- state_switch, introspectable_prelude, end_type, state_switch_end_struct_or_union, the hand-written
    introspectable test of start_member, the "function pointer member of a union / boxed / interface is a gpointer,
    its <callback> skipped" branch of start_function (the model takes its guard — the field has no type yet — as
    true: a written field has ONE child describing its type; either way the parser ends in PASSTHROUGH, with a
    warning when the guard fails), the comparison chain on `when` of start_glib_signal with its default branch
    (what `elseBranchByDesign` relies on) and the PASSTHROUGH branch of start_element_handler, statement by statement, as mirrored by
    `stateSwitch`, `startEv`, `endEv` -/
def expectedHelpers : List (String × List String) := [
  ("state_switch", ["g_assert (ctx->state != newstate)", "ctx->prev_state = ctx->state", "ctx->state = newstate",
    "if (ctx->state == STATE_PASSTHROUGH) ctx->unknown_depth = 1"]),
  ("introspectable_prelude", ["g_assert (ctx->state != STATE_PASSTHROUGH)",
    "introspectable_arg = find_attribute (\"introspectable\", attribute_names, attribute_values)",
    "shadowed_by = find_attribute (\"shadowed-by\", attribute_names, attribute_values)",
    "introspectable = !(introspectable_arg && atoi (introspectable_arg) == 0) && shadowed_by == NULL",
    "if (introspectable) state_switch (ctx, new_state)", "else state_switch (ctx, STATE_PASSTHROUGH)",
    "return introspectable"]),
  ("end_type", ["if (ctx->type_depth == 1)", "end_type_top (ctx)", "state_switch (ctx, ctx->prev_state)", "else",
    "end_type_recurse (ctx)", "ctx->type_depth--"]),
  ("state_switch_end_struct_or_union", ["pop_node (ctx)", "if (ctx->node_stack == NULL)",
    "state_switch (ctx, STATE_NAMESPACE)", "else",
    "if (CURRENT_NODE (ctx)->type == G_IR_NODE_STRUCT) state_switch (ctx, STATE_STRUCT)",
    "else if (CURRENT_NODE (ctx)->type == G_IR_NODE_UNION) state_switch (ctx, STATE_UNION)",
    "else if (CURRENT_NODE (ctx)->type == G_IR_NODE_OBJECT) state_switch (ctx, STATE_CLASS)", "else",
    "g_markup_parse_context_get_position (context, &line_number, &char_number)",
    "g_set_error (error, G_MARKUP_ERROR, G_MARKUP_ERROR_INVALID_CONTENT, \"Unexpected end tag '%s' on line %d char %d\", element_name, line_number, char_number)",
    "return FALSE", "return TRUE"]),
  ("start_member:own-introspectable-test", ["introspectable = find_attribute (\"introspectable\", attribute_names, attribute_values)",
    "if (introspectable && atoi (introspectable) == 0)", "state_switch (ctx, STATE_PASSTHROUGH)", "return TRUE"]),
  ("start_function:early-take:callback", ["states UNION_FIELD BOXED_FIELD INTERFACE_FIELD",
    "if ctx->current_typed && ctx->current_typed->type == G_IR_NODE_FIELD && ((GIrNodeField *)ctx->current_typed)->type == NULL",
    "((GIrNodeField *)ctx->current_typed)->type = parse_type (ctx, \"gpointer\")", "ctx->current_typed = NULL",
    "state_switch (ctx, STATE_PASSTHROUGH)", "return TRUE"]),
  ("start_glib_signal:when", ["if (when == NULL || g_ascii_strcasecmp (when, \"LAST\") == 0) signal->run_last = TRUE",
    "else if (g_ascii_strcasecmp (when, \"FIRST\") == 0) signal->run_first = TRUE",
    "else if (g_ascii_strcasecmp (when, \"CLEANUP\") == 0) signal->run_cleanup = TRUE", "else signal->run_last = TRUE"]),
  ("start_element_handler:passthrough", ["ctx->unknown_depth += 1", "return"])]

/-- The hand-written half of the model is the source's: the irregular rows of end_element_handler
    (FUNCTION, STRUCT, UNION, the constant states, TYPE, ATTRIBUTE, PASSTHROUGH) and the helper functions
    re-extracted this run are literally the ones `endEv`, `stateSwitch`, `startEv` were written for (the
    regular rows and the whole start table are not written by hand at all: the model reads them from the
    generated tables). -/
theorem C15_model_shape :
    Gen.c15CEndOther = irregularEnds
    ∧ Gen.c15CHelpers = expectedHelpers
    ∧ Gen.c15CEmbeddedStates = ["CLASS_FIELD", "STRUCT_FIELD"]
    ∧ Gen.c15CStates.length = 36 ∧ Gen.c15CStates.getD 34 "" = "PASSTHROUGH" :=
  ⟨rfl, rfl, rfl, rfl, rfl⟩

/-! ### the lists of this file: readable, and number-coded -/

/-- Elements the compiler drops together with their subtree BY DESIGN, by name, in whatever state
    they occur (`case 'd' / 'f' / 'm' / 's'` of start_element_handler switch to STATE_PASSTHROUGH):
    * doc, doc-deprecated, doc-stability, doc-version: documentation text has no place in a typelib;
    * source-position: file/line of the declaration, documentation tooling only;
    * docsection: a free-standing documentation section;
    * function-macro: a C macro has no symbol to call;
    * function-inline, method-inline: inline functions have no exported symbol.
    Besides these: `doc:format` is handled (STATE_DOC_FORMAT), `c:include` falls to the unknown-element
    branch, which stays silent for names starting with "c:", and `attribute` is taken by start_attribute
    wherever a node exists to attach it to. -/
def passthroughByDesign : List String :=
  ["doc", "doc-deprecated", "doc-stability", "doc-version", "docsection", "function-inline", "function-macro",
   "method-inline", "source-position"]

/-- The contexts of the walk: (written element just entered, parser state inside it, node stack non-empty).
    `C15_contexts_closed` shows the list contains the document root in STATE_START and is closed under
    "the writer emits a child the parser enters", so it contains every context reachable in scanner output. -/
def contexts : List (Visit String) := [
  ⟨"", "START", false⟩, ⟨"repository", "REPOSITORY", false⟩, ⟨"doc:format", "DOC_FORMAT", false⟩,
  ⟨"include", "INCLUDE", false⟩, ⟨"namespace", "NAMESPACE", false⟩, ⟨"package", "PACKAGE", false⟩,
  ⟨"alias", "ALIAS", false⟩, ⟨"bitfield", "ENUM", true⟩, ⟨"callback", "FUNCTION", true⟩, ⟨"class", "CLASS", true⟩,
  ⟨"constant", "NAMESPACE_CONSTANT", true⟩, ⟨"enumeration", "ENUM", true⟩, ⟨"function", "FUNCTION", true⟩,
  ⟨"glib:boxed", "BOXED", true⟩, ⟨"interface", "INTERFACE", true⟩, ⟨"record", "STRUCT", true⟩,
  ⟨"union", "UNION", true⟩, ⟨"type", "TYPE", false⟩, ⟨"attribute", "ATTRIBUTE", true⟩, ⟨"member", "ENUM", true⟩,
  ⟨"parameters", "FUNCTION_PARAMETERS", true⟩, ⟨"return-value", "FUNCTION_RETURN", true⟩,
  ⟨"constructor", "FUNCTION", true⟩, ⟨"field", "CLASS_FIELD", true⟩, ⟨"glib:signal", "FUNCTION", true⟩,
  ⟨"implements", "IMPLEMENTS", true⟩, ⟨"method", "FUNCTION", true⟩, ⟨"property", "CLASS_PROPERTY", true⟩,
  ⟨"virtual-method", "FUNCTION", true⟩, ⟨"array", "TYPE", true⟩, ⟨"type", "TYPE", true⟩, ⟨"varargs", "TYPE", true⟩,
  ⟨"field", "INTERFACE_FIELD", true⟩, ⟨"prerequisite", "PREREQUISITE", true⟩,
  ⟨"property", "INTERFACE_PROPERTY", true⟩, ⟨"field", "STRUCT_FIELD", true⟩, ⟨"field", "UNION_FIELD", true⟩,
  ⟨"array", "TYPE", false⟩, ⟨"varargs", "TYPE", false⟩, ⟨"parameter", "FUNCTION_PARAMETER", true⟩]

/-- The offences of the UNCHANGED tree (each replayed on the real scanner/compiler pair, see
    PENDING_FINDINGS in harness/c15.py):
    * <record> directly in <record>, <union> directly in <union>: state_switch to the current state → abort.
    (`<alias><attribute/>` and `<field><callback/>` in a union were offences until start_element_handler /
    start_function learnt to take them.) -/
def knownElementOffences : List (Offence String) := [
  ⟨"STRUCT", "record", "record", .selfSwitch⟩,
  ⟨"UNION", "union", "union", .selfSwitch⟩]

/-- What girwriter.py could write but the scanner never produces: `_write_class` writes `node.fields`
    (and with them anonymous record / union members) for interfaces too, but no scanner path fills `ast.Interface.fields`
    (GDumpParser._introspect_interface does not call _add_record_fields; checked on every GIR of the run). -/
def writerOnlyOffences : List (Offence String) := [
  ⟨"INTERFACE", "interface", "record", .unknown⟩,
  ⟨"INTERFACE", "interface", "union", .unknown⟩]

/-- (written element, start_* function that reads its attributes), over all contexts -/
def handlers : List (String × String) := [
  ("repository", "inline:repository"), ("doc:format", "inline:doc:format"), ("include", "inline:include"),
  ("namespace", "inline:namespace"), ("package", "inline:package"), ("alias", "inline:alias"),
  ("bitfield", "start_enum"), ("callback", "start_function"), ("class", "start_class"),
  ("constant", "start_constant"), ("enumeration", "start_enum"), ("function", "start_function"),
  ("glib:boxed", "start_glib_boxed"), ("interface", "start_interface"), ("record", "start_struct"),
  ("union", "start_union"), ("type", "start_type"), ("attribute", "start_attribute"), ("member", "start_member"),
  ("parameters", "inline:parameters"), ("return-value", "start_return_value"), ("constructor", "start_function"),
  ("field", "start_field"), ("glib:signal", "start_glib_signal"), ("implements", "start_implements"),
  ("method", "start_function"), ("property", "start_property"), ("virtual-method", "start_vfunc"),
  ("array", "start_type"), ("varargs", "start_type"), ("prerequisite", "inline:prerequisite"),
  ("instance-parameter", "start_instance_parameter"), ("parameter", "start_parameter")]

/-- Attributes the compiler does not read BY DESIGN (no place in a typelib / other consumers):
    * c:type, c:symbol-prefix, c:symbol-prefixes: C spellings, for documentation and code generators
      (the pointer depth of a <type> IS read from c:type by start_type: that pair is fetched);
    * version, deprecated-version, stability: documentation; only the `deprecated` flag is stored;
    * moved-to, glib:async-func, glib:finish-func, glib:sync-func, emitter, default-value: cross references
      for language bindings that read the GIR;
    * private: a private field is written readable="0"; glib:name, glib:nick: GEnumValue names;
    * xmlns…: namespace declarations of the document. -/
def ignoredAttrs : List String :=
  ["c:type", "c:symbol-prefix", "c:symbol-prefixes", "version", "deprecated-version", "stability", "moved-to",
   "glib:async-func", "glib:finish-func", "glib:sync-func", "emitter", "default-value", "private", "glib:name",
   "glib:nick", "xmlns", "xmlns:c", "xmlns:doc", "xmlns:glib"]

/-- … and per element:
    * doc:format / package name: kept in the GIR only;
    * alias: aliases are expanded by the compiler and never reach the typelib, so their flags are moot;
    * field / virtual-method `deprecated`: FieldBlob and VFuncBlob have no deprecated bit;
    * type `foreign`: no code path constructs ast.Type(target_foreign=…);
    * instance-parameter: only transfer-ownership exists in the typelib (instance_transfer_ownership). -/
def ignoredPairs : List (String × String) :=
  [("doc:format", "name"), ("package", "name"),
   ("alias", "deprecated"), ("alias", "introspectable"),
   ("field", "deprecated"), ("virtual-method", "deprecated"), ("type", "foreign"),
   ("instance-parameter", "name"), ("instance-parameter", "direction"), ("instance-parameter", "caller-allocates"),
   ("instance-parameter", "nullable"), ("instance-parameter", "allow-none"), ("instance-parameter", "optional"),
   ("instance-parameter", "scope"), ("instance-parameter", "closure"), ("instance-parameter", "destroy"),
   ("instance-parameter", "skip")]

/-- a value that reaches the final `else` of a comparison chain ON PURPOSE: start_glib_signal tests LAST, FIRST,
    CLEANUP and lets everything else run LAST, "as if the attribute were absent".  when="must-collect"
    (ast.SIGNAL_MUST_COLLECT, written verbatim from the runtime dump, which reports it for a signal that names none
    of the three phases) is recognised that way, as the default phase: G_SIGNAL_MUST_COLLECT is not a run phase and
    SignalBlob has no bit for it, and a signal blob must name exactly one phase (validate_signal_blob). -/
def elseBranchByDesign : List (String × String × String × String) :=
  [("glib:signal", "start_glib_signal", "when", "must-collect")]

/-- What girwriter.py could write but the scanner never produces: transfer-ownership="container" on an
    <instance-parameter> (an error for start_instance_parameter, which knows "none"/"full" only).  The writer
    passes `parameter.transfer` through, but MainTransformer._apply_transfer_annotation accepts
    (transfer container) only for array / list / map typed nodes, which an instance parameter never is
    (checked on every GIR of the run). -/
def writerOnlyValueOffences : List (String × String × String × String) :=
  [("instance-parameter", "start_instance_parameter", "transfer-ownership", "container")]

/-! the same lists, number-coded (regenerate with `#eval (contexts.map codeVisit)` etc.; `C15_constants_coded` checks them) -/

def cPASSTHROUGH : Nat := 406507566296163769080170312
def cInstanceParameter : Nat := 9108040582535409498726417970461977819827324383652908131698
def cZero : Nat := 304
def cOne : Nat := 305
def cType : Nat := 6249082981
def cArray : Nat := 1518043554169
def cVarargs : Nat := 105378785178838899
def cAttribute : Nat := 6520092115822118794341
def cALIAS : Nat := 1379964371283
def cCallback : Nat := 25607868168968168299
def cStartFunction : Nat := 7533994588219474832613092375490414
def silentN : List Nat := [6552803162866945713253]
def startVisitN : Visit Nat := ⟨1, 1457407480404, false⟩
def passthroughByDesignN : List Nat :=
  [23359331, 7229362838830820080306787741623652, 28239698589460668724015096493177, 430903603965987135255310190, 1683217222676685362130798,
  1861224063156721376927524727732924005, 7270406496705942878623160428884591, 28949678032274435722894604070501, 1928602787078893127524631153117589358]
def contextsN : List (Visit Nat) :=
  [⟨1, 1457407480404, false⟩, ⟨1749146821634364818813561, 1597438483486646647870041, false⟩, ⟨1683217206633762707562868, 1531508887907817929654612,
  false⟩, ⟨101733839892997221, 92691318288237637, false⟩, ⟨6758528709918317437797, 6165918014028793332549, false⟩, ⟨103689871060723557,
  94647349455963973, false⟩, ⟨1517942301043, 1379964371283, false⟩, ⟨25538071145184848996, 5457728845, true⟩, ⟨25607868168968168299,
  23514787080468778830, true⟩, ⟨1526531715955, 1388553786195, true⟩, ⟨25611811048032136820, 29117724565571740505478320417068041008926292, true⟩,
  ⟨432108144067427386033532782, 5457728845, true⟩, ⟨25829672611287232366, 23514787080468778830, true⟩, ⟨1697329409406279414736228, 1384310654276,
  true⟩, ⟨6667233708592636978021, 6074623012703112872773, true⟩, ⟨407254762222180, 373096600388436, true⟩, ⟨1603875204974, 1465897275214, true⟩,
  ⟨6249082981, 5710106693, false⟩, ⟨6520092115822118794341, 5927481419932594689093, true⟩, ⟨401757371000178, 5457728845, true⟩,
  ⟨1739628441860254841795187, 7277474110545718151193009248948116614531076691, true⟩, ⟨114632105102705400431902487909,
  1694418981332731934076412293971006030, true⟩, ⟨429694886104040255855554418, 23514787080468778830, true⟩, ⟨1539366546532,
  390843144630835591283821636, true⟩, ⟨434516328808026195815719276, 23514787080468778830, true⟩, ⟨1706793096381326523528307,
  1555084758233608352584787, true⟩, ⟨401757488836452, 23514787080468778830, true⟩, ⟨26549405281831515257, 6557259859590769698576620380640345, true⟩,
  ⟨7593975570910551210316123863543652, 23514787080468778830, true⟩, ⟨1518043554169, 5710106693, true⟩, ⟨6249082981, 5710106693, true⟩,
  ⟨105378785178838899, 5710106693, true⟩, ⟨1539366546532, 1709854371026623682704719365642996804, true⟩, ⟨114028780226944400019658732645,
  104086422578095541968704197701, true⟩, ⟨26549405281831515257, 28686596111257807275452541739895763756012633, true⟩, ⟨1539366546532,
  105017356905160056178662001732, true⟩, ⟨1539366546532, 412613401401179494360108100, true⟩, ⟨1518043554169, 5710106693, false⟩, ⟨105378785178838899,
  5710106693, false⟩, ⟨6795423601016620475762, 28427633244319211528097692378703580525512018, true⟩]
def knownElementOffencesN : List (Offence Nat) :=
  [⟨373096600388436, 407254762222180, 407254762222180, .selfSwitch⟩,
   ⟨1465897275214, 1603875204974, 1603875204974, .selfSwitch⟩]
def writerOnlyOffencesN : List (Offence Nat) :=
  [⟨6074623012703112872773, 6667233708592636978021, 407254762222180, .unknown⟩,
   ⟨6074623012703112872773, 6667233708592636978021, 1603875204974, .unknown⟩]
def allOffencesN : List (Offence Nat) :=
  [⟨6074623012703112872773, 6667233708592636978021, 407254762222180, .unknown⟩,
   ⟨6074623012703112872773, 6667233708592636978021, 1603875204974, .unknown⟩,
   ⟨373096600388436, 407254762222180, 407254762222180, .selfSwitch⟩,
   ⟨1465897275214, 1603875204974, 1603875204974, .selfSwitch⟩]
def handlersN : List (Nat × Nat) :=
  [(1749146821634364818813561, 122988712444455282721586500523022917530233), (1683217206633762707562868, 122988712444455282655656885522420806279540),
  (101733839892997221, 7330698516634421508267538862400613), (6758528709918317437797, 480424657986153448057121205577138135909), (103689871060723557,
  7330698516634421510223570030126949), (1517942301043, 111857582346106285186974572915), (25538071145184848996, 1754144809259910778746221),
  (25607868168968168299, 7533994588219474832613092375490414), (1526531715955, 449061071170537150734234483), (25611811048032136820,
  7533994588219474614751529120394868), (432108144067427386033532782, 1754144809259910778746221), (25829672611287232366,
  7533994588219474832613092375490414), (1697329409406279414736228, 493747869333551507186116815561424397668), (6667233708592636978021,
  1928702614584185611986471751231038309), (407254762222180, 114959634219657528214795150196), (1603875204974, 449061071170537228077723502),
  (6249082981, 1754144809259911031124069), (6520092115822118794341, 1928702614584185464844878980712854629), (401757371000178,
  114959634219657521553215743346), (1739628441860254841795187, 122988712444455282712068120748912940511859), (114632105102705400431902487909,
  32358260364643634970874276814030213252674917), (429694886104040255855554418, 7533994588219474832613092375490414), (1539366546532,
  449061071170537163569065060), (434516328808026195815719276, 126399454549389185839645904802390289047916), (1706793096381326523528307,
  493747869333551516649803749926602962035), (401757488836452, 7533994588219474832613092375490414), (26549405281831515257,
  7533994588219475552345762919773305), (7593975570910551210316123863543652, 449061071170537232239259235), (1518043554169, 1754144809259911031124069),
  (105378785178838899, 1754144809259911031124069), (114028780226944400019658732645, 8060188258759821407838587022591497177154548837),
  (31485119747228842716540428525926096580142450, 9108040582535409498726417970461977819827324383652908131698), (6795423601016620475762,
  1928702614584185740176364175214536050)]
def ignoredAttrsN : List Nat :=
  [390577690079333, 1844450913355488695431409864412653944, 120877935057665307143792876874147688899955, 105383183526752110,
  31046491778279429493373909530223179356270446, 6852128143532314162297, 26332395724103054447, 1866233421808370356507594039460458083,
  477755755982948808468107413996053032547, 7289974303939279175738129873464931, 100606866378483058, 28236607611739293543638131045733,
  103708588712752229, 6630193005493479370085, 6630193005493479891819, 1616743526003, 105954903720147555, 6943860570203590258531,
  1777628305972119156320610]
def ignoredPairsN : List (Nat × Nat) :=
  [(1683217206633762707562868, 6146846053), (103689871060723557, 6146846053), (1517942301043, 1683033691703195464918372), (1517942301043,
  7330701003399816966431809153952869), (1539366546532, 1683033691703195464918372), (7593975570910551210316123863543652, 1683033691703195464918372),
  (6249082981, 100890578780776302), (31485119747228842716540428525926096580142450, 6146846053), (31485119747228842716540428525926096580142450,
  6574639137239757057902), (31485119747228842716540428525926096580142450, 472381790387197776920803776826531145075),
  (31485119747228842716540428525926096580142450, 26406131202902879333), (31485119747228842716540428525926096580142450, 1668995430407860913139301),
  (31485119747228842716540428525926096580142450, 26476790205501038956), (31485119747228842716540428525926096580142450, 1595101114469),
  (31485119747228842716540428525926096580142450, 100042842666529381), (31485119747228842716540428525926096580142450, 100316638258294649),
  (31485119747228842716540428525926096580142450, 6231386480)]
def elseBranchByDesignN : List (Nat × Nat × Nat × Nat) :=
  [(434516328808026195815719276, 126399454549389185839645904802390289047916, 6298297710, 113104018120924284523360117620)]
def writerOnlyValueOffencesN : List (Nat × Nat × Nat × Nat) :=
  [(31485119747228842716540428525926096580142450, 9108040582535409498726417970461977819827324383652908131698,
    32444692065052634086064121267185753780676976, 6556623629314268489074)]

/-- all of them, in the order the walk meets them -/
def allOffences : List (Offence String) := [
  ⟨"INTERFACE", "interface", "record", .unknown⟩,
  ⟨"INTERFACE", "interface", "union", .unknown⟩,
  ⟨"STRUCT", "record", "record", .selfSwitch⟩,
  ⟨"UNION", "union", "union", .selfSwitch⟩]

/-- every coded list of this file is the coding of its readable twin -/
theorem C15_constants_coded :
    cPASSTHROUGH = code "PASSTHROUGH" ∧ cInstanceParameter = code "start_instance_parameter"
    ∧ cZero = code "0" ∧ cOne = code "1" ∧ cType = code "type" ∧ cArray = code "array" ∧ cVarargs = code "varargs"
    ∧ cAttribute = code "attribute" ∧ cALIAS = code "ALIAS" ∧ cCallback = code "callback"
    ∧ cStartFunction = code "start_function" ∧ silentN = [code "c:include"] ∧ startVisitN = codeVisit startVisit
    ∧ passthroughByDesignN = passthroughByDesign.map code
    ∧ contextsN = contexts.map codeVisit
    ∧ knownElementOffencesN = knownElementOffences.map codeOffence
    ∧ writerOnlyOffencesN = writerOnlyOffences.map codeOffence
    ∧ allOffencesN = allOffences.map codeOffence
    ∧ handlersN = handlers.map code2
    ∧ ignoredAttrsN = ignoredAttrs.map code ∧ ignoredPairsN = ignoredPairs.map code2
    ∧ elseBranchByDesignN = elseBranchByDesign.map code4
    ∧ writerOnlyValueOffencesN = writerOnlyValueOffences.map code4 := by
  decide +kernel

/-- the coding of the generated tables, pinned on the first entry of each (the whole tables: `tablesCoded`,
    evaluated by the driver on every run) -/
theorem C15_tables_coded_first :
    (Gen.c15PyChildrenG.head?.map fun g => (g.1, g.2.head?)) = (Gen.c15PyChildren.head?.map fun p => (code p.1, some (code p.2)))
    ∧ (Gen.c15PyAttrsG.head?.map fun g => (g.1, g.2.head?)) = (Gen.c15PyAttrs.head?.map fun p => (code p.1, some (code p.2)))
    ∧ (Gen.c15CAcceptG.head?.map fun g => (g.1, g.2.head?.map fun r => (r.1, r.2.1, r.2.2.2.2.2.1)))
        = (Gen.c15CAccept.head?.map fun r => (code r.1, some (code r.2.1, code r.2.2.1, code r.2.2.2.2.2.2.1)))
    ∧ (Gen.c15CFetchedG.head?.map fun g => (g.1, g.2.head?)) = (Gen.c15CFetched.head?.map fun p => (code p.1, some (code p.2))) := by
  decide +kernel

/-! ### C15_elements -/

/-- the steps of the walk of everything GIRWriter can emit through the parser's table, from `contexts` -/
def stepsN : List (Step Nat) :=
  walkG Gen.c15PyChildrenG Gen.c15CAcceptG silentN cPASSTHROUGH cInstanceParameter contextsN

/-- all offences met from the contexts -/
def offElementsN : List (Offence Nat) := offOf stepsN

/-- the walk, evaluated once: `contexts` is closed, the offences met, the (element, handler) pairs met -/
theorem C15_walk :
    closedOf startVisitN contextsN stepsN = true ∧ offElementsN = allOffencesN ∧ handlersOfSteps stepsN = handlersN := by
  decide +kernel

/-- `contexts` is an inductive invariant of "walk what the writer emits through the parser's table":
    it holds the start (document, STATE_START, empty node stack) and every child element the writer can put
    into a listed context and the parser enters leads to a listed context again. -/
theorem C15_contexts_closed : closedOf startVisitN contextsN stepsN = true := C15_walk.1

/-- the property's vocabulary clause at full strength: every element the writer can emit, in every
    context it can emit it in, is taken by the parser in the state reached there (or skipped by design) -/
def C15_elements_full : Prop := offElementsN = []

theorem C15_elements_counterexample : ¬ C15_elements_full := by
  unfold C15_elements_full; rw [C15_walk.2.1]; decide

/-- Walking everything GIRWriter can emit (all parent/child pairs, in all reachable contexts) through
    the parser's (state, element) table: every child is handled by a start_* function in the state
    its parent leaves the parser in, or is skipped by design, EXCEPT exactly the listed pairs. -/
theorem C15_elements_partial :
    (offElementsN.filter fun o => !writerOnlyOffencesN.contains o) = knownElementOffencesN
    ∧ (writerOnlyOffencesN.all fun o => offElementsN.contains o) = true := by
  rw [C15_walk.2.1]; decide +kernel

/-- the by-name passthrough list written above is the one in girparser.c, and apart from it the only
    handled elements that end in PASSTHROUGH are <instance-parameter> (read, then its subtree skipped: an
    instance parameter has no argument blob), <attribute> inside <alias> (an alias is not stored in the
    typelib, neither are its attributes), <callback> taken by start_function without the prelude (a function
    pointer member of a union / boxed / interface: the field becomes a gpointer) and elements skipped by introspectable_prelude or by the hand-written
    test of start_member (which is the only such test: `Gen.c15COwnIntroTest`) -/
theorem C15_passthrough_list :
    Gen.c15CPassthroughByName = passthroughByDesign
    ∧ Gen.c15CSilentPrefixes = ["c:"]
    ∧ (Gen.c15CAcceptG.all fun g => g.2.all fun r => r.2.2.2.2.2.1 != cPASSTHROUGH || passthroughByDesignN.contains r.1
        || r.2.1 == cInstanceParameter || (g.1 == cALIAS && r.1 == cAttribute)
        || (r.1 == cCallback && r.2.1 == cStartFunction)) = true
    ∧ Gen.c15COwnIntroTest = ["start_member"] :=
  ⟨rfl, rfl, by decide +kernel, rfl⟩

/-- no element that can be skipped or unknown is ever written inside <type>/<array> or <attribute>: the
    single `prev_state` slot that STATE_TYPE and STATE_ATTRIBUTE return through is never overwritten
    by a PASSTHROUGH excursion in scanner output -/
theorem C15_no_markup_inside_type :
    (Gen.c15PyChildrenG.all fun g =>
      (!(g.1 == cType || g.1 == cArray) || g.2.all fun ch => ch == cType || ch == cArray || ch == cVarargs)
      && g.1 != cAttribute && g.1 != cVarargs) = true := by
  decide +kernel

/-! ### C15_attributes -/

/-- `handlers` is exactly what the table yields over all contexts -/
theorem C15_handlers : handlersOfSteps stepsN = handlersN := C15_walk.2.2

def unfetchedNotByDesign : List (Nat × Nat × Nat) :=
  (unfetchedG Gen.c15PyAttrsG Gen.c15CFetchedG handlersN).filter fun x =>
    !(ignoredAttrsN.contains x.2.2 || ignoredPairsN.contains (x.1, x.2.2))

/-- Every attribute GIRWriter can put on an element the parser handles is fetched (find_attribute) by the
    start_* function that handles that element, or is in the explicit ignored-by-design lists.  No exception:
    `<property deprecated>` (start_property) and `<member introspectable>` (start_member) were the last two. -/
theorem C15_attributes : unfetchedNotByDesign = [] := by
  decide +kernel

/-! ### C15_values -/

def offValuesNotByDesign : List (Nat × Nat × Nat × Nat) :=
  (offValuesG Gen.c15PyValuesG Gen.c15PyDynamicG Gen.c15CLiteralsG cZero cOne handlersN).filter fun x =>
    !elseBranchByDesignN.contains x

/-- the value clause over everything girwriter.py COULD write -/
def C15_values_full : Prop := offValuesNotByDesign = []

/-- Every enumerated attribute value GIRWriter can produce (string constants in girwriter.py and the
    PARAM_TRANSFER_*/PARAM_DIRECTION_*/PARAM_SCOPE_*/SIGNAL_* constants of ast.py, minus what an enclosing
    `!=` test excludes) is one of the literals the handling start_* function compares that attribute with, or
    reaches a default on purpose (`elseBranchByDesign`) — EXCEPT exactly the one combination no scanner path
    produces. -/
theorem C15_values_partial : offValuesNotByDesign = writerOnlyValueOffencesN := by
  decide +kernel

theorem C15_values_counterexample : ¬ C15_values_full := by
  unfold C15_values_full; rw [C15_values_partial]; decide

/-- … so for everything a scanner path produces (hypothesis `writerOnlyValueOffences`, checked by the harness on
    every GIR) the value clause holds in full: no offence of the real pair is left. -/
theorem C15_values : (offValuesNotByDesign.filter fun x => !writerOnlyValueOffencesN.contains x) = [] := by
  rw [C15_values_partial]; decide +kernel

/-- … and, against the written contract docs/gir-1.2.rnc: every such value is one the schema allows for
    that attribute, except when="must-collect" (the schema lists first / last / cleanup only). -/
theorem C15_values_in_schema :
    notInSchemaG Gen.c15PyValuesG Gen.c15PyDynamicG Gen.c15RncValuesG
      = elseBranchByDesignN.map (fun x => (x.1, x.2.2.1, x.2.2.2)) := by
  decide +kernel

/-! ### C15_passthrough_balanced -/

/-- no start_* function hands STATE_PASSTHROUGH to introspectable_prelude as the state of an introspectable
    element (hypothesis `hrow` of C15_passthrough_balanced, here on the whole coded table): an element that
    runs the prelude enters PASSTHROUGH only when it is hidden -/
theorem C15_no_prelude_to_passthrough :
    (Gen.c15CAcceptG.all fun g => g.2.all fun r => !r.2.2.2.1 || r.2.2.2.2.2.1 != cPASSTHROUGH) = true := by
  decide +kernel

/-- For EVERY parser context outside PASSTHROUGH, every element the parser decides to skip there
    (non-introspectable — by introspectable_prelude or by start_member's own test —, shadowed, passthrough by
    name, or unknown — whatever makes `startEv` enter
    PASSTHROUGH) and EVERY well-nested content of that element: after the matching end tag the parser is
    exactly where it was — same state, node stack, embedded state, type depth, and nothing in the subtree
    was acted on (the log only has the entry of the skipped element itself).  The counter is back to 0 and
    the only trace is `prev_state = PASSTHROUGH`.  A skipped element removes exactly its own subtree.
    (`hrow`: the row of the table that takes the element, if it runs introspectable_prelude, does not name
    PASSTHROUGH as the state of the introspectable element — C15_no_prelude_to_passthrough.) -/
theorem C15_passthrough_balanced (c c1 : Ctx) (n : String) (hidden intro0 : Bool) (body : List Ev)
    (hb : WN body) (hs : c.state ≠ "PASSTHROUGH")
    (hrow : ∀ r, lookup c.state n (!c.stack.isEmpty) = some r → r.prelude = true → r.target ≠ "PASSTHROUGH")
    (h1 : startEv c n hidden intro0 = .ok c1) (hp : c1.state = "PASSTHROUGH") :
    ∃ entry, c1.log = c.log ++ [entry] ∧
      run c (Ev.start n hidden intro0 :: (body ++ [Ev.stop n]))
        = .ok { c with prev := "PASSTHROUGH", depth := 0, log := c.log ++ [entry] } := by
  obtain ⟨entry, rfl⟩ := startEv_enters_passthrough c c1 n hidden intro0 hs hrow h1 hp
  refine ⟨entry, rfl, ?_⟩
  -- start
  simp only [run, step, h1]
  -- body: nothing happens
  have hbody := run_passthrough_wn body hb
    { c with prev := c.state, state := "PASSTHROUGH", depth := 1, log := c.log ++ [entry] } rfl (by simp)
  rw [run_append_ok hbody]
  -- stop: counter reaches 0, back to prev_state
  simp only [run, step]
  rw [endEv_passthrough_last _ n rfl rfl]
  have hne : ¬ ("PASSTHROUGH" = c.state) := fun h => hs h.symm
  simp [stateSwitch, hne, hs]

/-- … so whatever follows is parsed as if the skipped element had not been there. -/
theorem C15_skipped_subtree_invisible (c c1 : Ctx) (n : String) (hidden intro0 : Bool) (body rest : List Ev)
    (hb : WN body) (hs : c.state ≠ "PASSTHROUGH")
    (hrow : ∀ r, lookup c.state n (!c.stack.isEmpty) = some r → r.prelude = true → r.target ≠ "PASSTHROUGH")
    (h1 : startEv c n hidden intro0 = .ok c1) (hp : c1.state = "PASSTHROUGH") :
    ∃ entry, run c (Ev.start n hidden intro0 :: (body ++ Ev.stop n :: rest))
        = run { c with prev := "PASSTHROUGH", depth := 0, log := c.log ++ [entry] } rest := by
  obtain ⟨entry, _, h⟩ := C15_passthrough_balanced c c1 n hidden intro0 body hb hs hrow h1 hp
  refine ⟨entry, ?_⟩
  have : Ev.start n hidden intro0 :: (body ++ Ev.stop n :: rest) = (Ev.start n hidden intro0 :: (body ++ [Ev.stop n])) ++ rest := by
    simp
  rw [this, run_append_ok h]

/-- inside PASSTHROUGH nothing is ever acted on, however deep and whatever the names -/
theorem C15_passthrough_inert (c : Ctx) (evs : List Ev) (hw : WN evs) (hs : c.state = "PASSTHROUGH")
    (hd : 1 ≤ c.depth) : run c evs = .ok c :=
  run_passthrough_wn evs hw c hs hd

/-- a hidden element (introspectable="0" / shadowed-by) whose handler runs introspectable_prelude always
    enters PASSTHROUGH, whatever state the handler would have switched to -/
theorem C15_hidden_enters_passthrough (c : Ctx) (n : String) (intro0 : Bool) (r : Row) (hs : c.state ≠ "PASSTHROUGH")
    (hl : lookup c.state n (!c.stack.isEmpty) = some r) (hpre : r.prelude = true) :
    startEv c n true intro0
      = .ok { c with prev := c.state, state := "PASSTHROUGH", depth := 1, log := c.log ++ ["~" ++ n] } := by
  simp [startEv, hs, hl, hpre, stateSwitch]

/-- <member introspectable="0">: a handler with the hand-written test (start_member; it does NOT run
    introspectable_prelude, so `hrow` has nothing to say about its row) enters PASSTHROUGH exactly like a
    hidden element of a prelude handler — C15_passthrough_balanced then removes the member and its subtree -/
theorem C15_own_test_enters_passthrough (c : Ctx) (n : String) (hidden : Bool) (r : Row) (hs : c.state ≠ "PASSTHROUGH")
    (hl : lookup c.state n (!c.stack.isEmpty) = some r) (hpre : r.prelude = false)
    (hown : r.handler ∈ Gen.c15COwnIntroTest) :
    startEv c n hidden true
      = .ok { c with prev := c.state, state := "PASSTHROUGH", depth := 1, log := c.log ++ ["~" ++ n] } := by
  simp [startEv, hs, hl, hpre, hown, stateSwitch]

/-- … and without introspectable="0" such a handler never enters PASSTHROUGH unless its row says so -/
theorem C15_own_test_only_on_intro0 (c c1 : Ctx) (n : String) (hidden : Bool) (r : Row) (hs : c.state ≠ "PASSTHROUGH")
    (hl : lookup c.state n (!c.stack.isEmpty) = some r) (hpre : r.prelude = false) (hsw : r.switch = false)
    (h1 : startEv c n hidden false = .ok c1) : c1.state = c.state := by
  simp only [startEv, if_neg hs, hl, hpre, hsw, Bool.and_false, Bool.false_eq_true, if_false, pure, Except.pure] at h1
  split at h1 <;> (cases h1; rfl)

/-- an element no handler takes in the current state is skipped the same way (with a warning unless its
    name has a silent prefix) -/
theorem C15_unknown_enters_passthrough (c : Ctx) (n : String) (hidden intro0 : Bool) (hs : c.state ≠ "PASSTHROUGH")
    (hl : lookup c.state n (!c.stack.isEmpty) = none) :
    ∃ entry, startEv c n hidden intro0
      = .ok { c with prev := c.state, state := "PASSTHROUGH", depth := 1, log := c.log ++ [entry] } := by
  refine ⟨if silentPrefix n then "." ++ n else "?" ++ n ++ "@" ++ c.state, ?_⟩
  simp [startEv, hs, hl, stateSwitch]

/-! ### non-vacuity -/

/-- a well-nested body: <parameters><parameter><doc/><type/></parameter></parameters> -/
def sampleBody : List Ev :=
  [.start "parameters" false false, .start "parameter" false false, .start "doc" false false, .stop "doc", .start "type" false false,
   .stop "type", .stop "parameter", .stop "parameters"]

example : WN sampleBody := by
  have h1 : WN [Ev.start "doc" false false, Ev.stop "doc", Ev.start "type" false false, Ev.stop "type"] :=
    WN.node "doc" false false [] _ WN.nil (WN.node "type" false false [] [] WN.nil WN.nil)
  have h2 : WN [Ev.start "parameter" false false, Ev.start "doc" false false, Ev.stop "doc", Ev.start "type" false false,
      Ev.stop "type", Ev.stop "parameter"] := WN.node "parameter" false false _ [] h1 WN.nil
  exact WN.node "parameters" false false _ [] h2 WN.nil

/- The examples below are evaluated by the kernel on the string tables, which is slow; they stay in
   STATE_START, whose rows come first in the table. -/

-- a <doc> element met at the top of the document is skipped by name: the hypotheses of
-- C15_passthrough_balanced hold (`hrow`: the row that takes it does not run the prelude) …
example : (startEv Ctx.init "doc" false).map (·.state) = .ok "PASSTHROUGH" := by decide +kernel
example : (lookup Ctx.init.state "doc" (!Ctx.init.stack.isEmpty)).map (·.prelude) = some false := by decide +kernel
-- … and the conclusion computes: whatever is inside, only the entry of the skipped element is logged
example : run Ctx.init (Ev.start "doc" false false :: (sampleBody ++ [Ev.stop "doc"]))
    = .ok { Ctx.init with prev := "PASSTHROUGH", log := ["+doc"] } := by decide +kernel
-- an element that is taken is consumed: the states really differ
example : (run Ctx.init [.start "repository" false false, .stop "repository"]).map (fun c => (c.state, c.log))
    = .ok ("END", ["+repository"]) := by decide +kernel
-- the defect behind the selfSwitch offences: state_switch to the current state trips its assertion
example : (stateSwitch { Ctx.init with state := "STRUCT" } "STRUCT").toOption = none := by decide +kernel
-- the tables are not empty
example : 30 ≤ Gen.c15PyChildrenG.length ∧ 30 ≤ Gen.c15CAcceptG.length ∧ 30 ≤ handlers.length
    ∧ 200 ≤ Gen.c15PyChildren.length ∧ 400 ≤ Gen.c15CAccept.length := by decide +kernel
-- the full element statement is refuted by concrete table entries, e.g. the first offence met is a <record> in an <interface>
example : offElementsN.head? = some ⟨code "INTERFACE", code "interface", code "record", .unknown⟩ := by
  rw [C15_walk.2.1]; decide +kernel

end GIVerif.GirConsume
