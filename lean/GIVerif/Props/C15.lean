/-
  C15 — Whatever the scanner writes, the typelib compiler accepts.
  ONLY property theorems and non-vacuity examples live here; the executable model and the
  contract checkers are in GIVerif/Model/GirConsume.lean, helper lemmas in
  GIVerif/Lemmas/GirConsume.lean, the vocabulary tables in GIVerif/Gen/GirVocabPy.lean
  (from giscanner/girwriter.py) and GIVerif/Gen/GirVocabC.lean (from girepository/girparser.c),
  both regenerated from /repo on every run.

  What is proved: the vocabulary contract between the two implementations (`decide` over the
  generated tables: a vocabulary change on either side breaks an obligation) and the balance of
  the PASSTHROUGH depth counter for EVERY well-nested event sequence (induction).
  What is NOT proved here: the GIR -> typelib semantic mapping (validated end to end on the
  real scanner/compiler pair by harness/c15.py).

  Hypotheses beyond the property's wording:
  * the unchanged tree VIOLATES the contract at the places listed in `knownElementOffences`,
    `knownUnfetched`, `knownValueOffences`; each is replayed on the real pair by the harness
    (PENDING_FINDINGS).  The full statements are kept as `C15_*_full : Prop`, refuted by
    `C15_*_counterexample`, and the `_partial` theorems say that these are the ONLY exceptions.
  * `writerOnlyOffences`: combinations girwriter.py could write but no scanner path produces
    (fields of an interface); the harness checks on every produced GIR that they do not occur.
-/
import GIVerif.Lemmas.GirConsume

namespace GIVerif.GirConsume
open GIVerif

/-! ### the translators understood both sources -/

theorem C15_shape : Gen.c15CShape = [] ∧ Gen.c15PyShape = [] := by decide

/-! ### the hand-written half of the model has the shape of the source -/

/-- the rows of end_element_handler that are not of the regular form: mirrored by hand in `endEv` -/
def irregularEnds : List (List String × List String) := [
  (["START", "END"], []),
  (["FUNCTION"], ["pop", "if-no-node", "switch:NAMESPACE", "if-embedded", "switch:embedded", "node:INTERFACE",
    "switch:INTERFACE", "node:OBJECT", "switch:CLASS", "node:BOXED", "switch:BOXED", "node:STRUCT", "switch:STRUCT",
    "node:UNION", "switch:UNION", "node:ENUM", "node:FLAGS", "switch:ENUM"]),
  (["STRUCT"], ["require:record", "end_struct_or_union"]),
  (["UNION"], ["require:union", "end_struct_or_union"]),
  (["NAMESPACE_CONSTANT", "CLASS_CONSTANT", "INTERFACE_CONSTANT"], ["stay:type", "require:constant",
    "case:NAMESPACE_CONSTANT", "pop", "switch:NAMESPACE", "case:CLASS_CONSTANT", "switch:CLASS",
    "case:INTERFACE_CONSTANT", "switch:INTERFACE"]),
  (["TYPE"], ["if-type|array|varargs", "end_type"]),
  (["ATTRIBUTE"], ["if-attribute", "switch:prev"]),
  (["PASSTHROUGH"], ["depth-1", "if-depth-0", "switch:prev"]),
  (["default"], [])]

/-- state_switch, introspectable_prelude, end_type, state_switch_end_struct_or_union and the
    PASSTHROUGH branch of start_element_handler, statement by statement, as mirrored by
    `stateSwitch`, `startEv`, `endEv` -/
def expectedHelpers : List (String × List String) := [
  ("state_switch", ["g_assert (ctx->state != newstate)", "ctx->prev_state = ctx->state", "ctx->state = newstate",
    "if (ctx->state == STATE_PASSTHROUGH) ctx->unknown_depth = 1"]),
  ("introspectable_prelude", ["g_assert (ctx->state != STATE_PASSTHROUGH)",
    "introspectable_arg = find_attribute (\"introspectable\", attribute_names, attribute_values)",
    "shadowed_by = find_attribute (\"shadowed-by\", attribute_names, attribute_values)",
    "introspectable = !(introspectable_arg && atoi (introspectable_arg) == 0) && shadowed_by == NULL",
    "if (introspectable) state_switch (ctx, new_state)", "else state_switch (ctx, STATE_PASSTHROUGH)",
    "return introspectable"]),
  ("end_type", ["if (ctx->type_depth == 1)", "end_type_top (ctx)", "state_switch (ctx, ctx->prev_state)", "else",
    "end_type_recurse (ctx)", "ctx->type_depth--"]),
  ("state_switch_end_struct_or_union", ["pop_node (ctx)", "if (ctx->node_stack == NULL)",
    "state_switch (ctx, STATE_NAMESPACE)", "else",
    "if (CURRENT_NODE (ctx)->type == G_IR_NODE_STRUCT) state_switch (ctx, STATE_STRUCT)",
    "else if (CURRENT_NODE (ctx)->type == G_IR_NODE_UNION) state_switch (ctx, STATE_UNION)",
    "else if (CURRENT_NODE (ctx)->type == G_IR_NODE_OBJECT) state_switch (ctx, STATE_CLASS)", "else",
    "g_markup_parse_context_get_position (context, &line_number, &char_number)",
    "g_set_error (error, G_MARKUP_ERROR, G_MARKUP_ERROR_INVALID_CONTENT, \"Unexpected end tag '%s' on line %d char %d\", element_name, line_number, char_number)",
    "return FALSE", "return TRUE"]),
  ("start_element_handler:passthrough", ["ctx->unknown_depth += 1", "return"])]

/-- The hand-written half of the model is the source's: the irregular rows of end_element_handler
    (FUNCTION, STRUCT, UNION, the constant states, TYPE, ATTRIBUTE, PASSTHROUGH) and the helper functions
    re-extracted this run are literally the ones `endEv`, `stateSwitch`, `startEv` were written for (the
    regular rows and the whole start table are not written by hand at all: the model reads them from the
    generated tables). -/
theorem C15_model_shape :
    Gen.c15CEndOther = irregularEnds
    ∧ Gen.c15CHelpers = expectedHelpers
    ∧ Gen.c15CEmbeddedStates = ["CLASS_FIELD", "STRUCT_FIELD"]
    ∧ Gen.c15CStates.length = 36 ∧ Gen.c15CStates.getD 34 "" = "PASSTHROUGH" := by
  decide +kernel

/-! ### the number-coded tables are the string tables -/

/-- The obligations below are evaluated on the number-coded copies of the tables; they are the very
    tables the model and the driver use, name by name. -/
theorem C15_tables_coded :
    Gen.c15PyChildrenN = Gen.c15PyChildren.map code2
    ∧ Gen.c15PyAttrsN = Gen.c15PyAttrs.map code2
    ∧ Gen.c15PyValuesN = valuesS.map code4
    ∧ Gen.c15PyDynamicN = Gen.c15PyDynamic.map code2 := by
  decide +kernel

theorem C15_tables_coded_c :
    Gen.c15CAcceptN = Gen.c15CAccept.map (fun r => (code r.1, code r.2.1, code r.2.2.1, r.2.2.2.1, r.2.2.2.2.1,
        r.2.2.2.2.2.1, code r.2.2.2.2.2.2.1, r.2.2.2.2.2.2.2))
    ∧ Gen.c15CFetchedN = Gen.c15CFetched.map code2
    ∧ Gen.c15CLiteralsN = literalsS.map (fun l => (code l.1, code l.2.1, code l.2.2.1, l.2.2.2)) := by
  decide +kernel

/-! ### C15_elements -/

/-- Elements the compiler drops together with their subtree BY DESIGN, by name, in whatever state
    they occur (`case 'd' / 'f' / 'm' / 's'` of start_element_handler switch to STATE_PASSTHROUGH):
    * doc, doc-deprecated, doc-stability, doc-version: documentation text has no place in a typelib;
    * source-position: file/line of the declaration, documentation tooling only;
    * docsection: a free-standing documentation section;
    * function-macro: a C macro has no symbol to call;
    * function-inline, method-inline: inline functions have no exported symbol.
    Besides these: `doc:format` is handled (STATE_DOC_FORMAT), `c:include` falls to the unknown-element
    branch, which stays silent for names starting with "c:", and `attribute` is taken by start_attribute
    wherever a node exists to attach it to. -/
def passthroughByDesign : List String :=
  ["doc", "doc-deprecated", "doc-stability", "doc-version", "docsection", "function-inline", "function-macro",
   "method-inline", "source-position"]

/-- The contexts of the walk: (written element just entered, parser state inside it, node stack non-empty).
    `C15_contexts_closed` shows the list contains the document root in STATE_START and is closed under
    "the writer emits a child the parser enters", so it contains every context reachable in scanner output. -/
def contexts : List (Visit String) := [
  ⟨"", "START", false⟩, ⟨"repository", "REPOSITORY", false⟩, ⟨"doc:format", "DOC_FORMAT", false⟩,
  ⟨"include", "INCLUDE", false⟩, ⟨"namespace", "NAMESPACE", false⟩, ⟨"package", "PACKAGE", false⟩,
  ⟨"alias", "ALIAS", false⟩, ⟨"bitfield", "ENUM", true⟩, ⟨"callback", "FUNCTION", true⟩, ⟨"class", "CLASS", true⟩,
  ⟨"constant", "NAMESPACE_CONSTANT", true⟩, ⟨"enumeration", "ENUM", true⟩, ⟨"function", "FUNCTION", true⟩,
  ⟨"glib:boxed", "BOXED", true⟩, ⟨"interface", "INTERFACE", true⟩, ⟨"record", "STRUCT", true⟩,
  ⟨"union", "UNION", true⟩, ⟨"type", "TYPE", false⟩, ⟨"attribute", "ATTRIBUTE", true⟩, ⟨"member", "ENUM", true⟩,
  ⟨"parameters", "FUNCTION_PARAMETERS", true⟩, ⟨"return-value", "FUNCTION_RETURN", true⟩,
  ⟨"constructor", "FUNCTION", true⟩, ⟨"field", "CLASS_FIELD", true⟩, ⟨"glib:signal", "FUNCTION", true⟩,
  ⟨"implements", "IMPLEMENTS", true⟩, ⟨"method", "FUNCTION", true⟩, ⟨"property", "CLASS_PROPERTY", true⟩,
  ⟨"virtual-method", "FUNCTION", true⟩, ⟨"array", "TYPE", true⟩, ⟨"type", "TYPE", true⟩, ⟨"varargs", "TYPE", true⟩,
  ⟨"field", "INTERFACE_FIELD", true⟩, ⟨"prerequisite", "PREREQUISITE", true⟩,
  ⟨"property", "INTERFACE_PROPERTY", true⟩, ⟨"field", "STRUCT_FIELD", true⟩, ⟨"field", "UNION_FIELD", true⟩,
  ⟨"array", "TYPE", false⟩, ⟨"varargs", "TYPE", false⟩, ⟨"parameter", "FUNCTION_PARAMETER", true⟩]

def contextsN : List (Visit Nat) := contexts.map codeVisit

/-- the code of "PASSTHROUGH" and the coded list of written elements with a silent prefix (`c:include`) -/
def cPASSTHROUGH : Nat := 97351750344739538462598429000
def silentN : List Nat := [7161093912806324266341]

theorem C15_constants_coded : cPASSTHROUGH = code "PASSTHROUGH" ∧ silentN = silentS.map code := by decide +kernel

/-- `contexts` is an inductive invariant of "walk what the writer emits through the parser's table":
    it holds the start (document, STATE_START, empty node stack) and every child element the writer can put
    into a listed context and the parser enters leads to a listed context again. -/
theorem C15_contexts_closed :
    closedG Gen.c15PyChildrenN Gen.c15CAcceptN silentN cPASSTHROUGH (codeVisit startVisit) contextsN = true := by
  decide +kernel

/-- The offences of the UNCHANGED tree (each replayed on the real scanner/compiler pair, see
    PENDING_FINDINGS in harness/c15.py):
    * <alias><attribute/>: no node exists for an alias, start_attribute refuses → warning;
    * <record> directly in <record>, <union> directly in <union>: state_switch to the current state → abort;
    * <field><callback/> in a <union>: start_function knows embedded callbacks only in class/struct fields → warning, then fatal. -/
def knownElementOffences : List (Offence String) := [
  ⟨"ALIAS", "alias", "attribute", .unknown⟩,
  ⟨"STRUCT", "record", "record", .selfSwitch⟩,
  ⟨"UNION", "union", "union", .selfSwitch⟩,
  ⟨"UNION_FIELD", "field", "callback", .unknown⟩]

/-- What girwriter.py could write but the scanner never produces: `_write_class` writes `node.fields`
    for interfaces too, but no scanner path fills `ast.Interface.fields`
    (GDumpParser._introspect_interface does not call _add_record_fields; checked on every GIR of the run). -/
def writerOnlyOffences : List (Offence String) := [
  ⟨"INTERFACE", "interface", "record", .unknown⟩,
  ⟨"INTERFACE", "interface", "union", .unknown⟩,
  ⟨"INTERFACE_FIELD", "field", "callback", .unknown⟩]

/-- all offences met from the contexts -/
def offElementsN : List (Offence Nat) :=
  offFromG Gen.c15PyChildrenN Gen.c15CAcceptN silentN cPASSTHROUGH contextsN

/-- the property's vocabulary clause at full strength: every element the writer can emit, in every
    context it can emit it in, is taken by the parser in the state reached there (or skipped by design) -/
def C15_elements_full : Prop := offElementsN = []

theorem C15_elements_counterexample : ¬ C15_elements_full := by
  unfold C15_elements_full; decide +kernel

/-- Walking everything GIRWriter can emit (all parent/child pairs, in all reachable contexts) through
    the parser's (state, element) table: every child is handled by a start_* function in the state
    its parent leaves the parser in, or is skipped by design, EXCEPT exactly the listed pairs. -/
theorem C15_elements_partial :
    (offElementsN.filter fun o => !(writerOnlyOffences.map codeOffence).contains o) = knownElementOffences.map codeOffence
    ∧ ((writerOnlyOffences.map codeOffence).all fun o => offElementsN.contains o) = true := by
  decide +kernel

/-- the by-name passthrough list written above is the one in girparser.c, and apart from it the only
    handled elements that end in PASSTHROUGH are <instance-parameter> (read, then its subtree skipped: an
    instance parameter has no argument blob) and elements skipped by introspectable_prelude -/
theorem C15_passthrough_list :
    Gen.c15CPassthroughByName = passthroughByDesign
    ∧ Gen.c15CSilentPrefixes = ["c:"]
    ∧ (Gen.c15CAcceptN.all fun r => r.2.2.2.2.2.2.1 != cPASSTHROUGH || (passthroughByDesign.map code).contains r.2.1
        || r.2.1 == code "instance-parameter") = true := by
  decide +kernel

/-- no element that can be skipped or unknown is ever written inside <type>/<array> or <attribute>: the
    single `prev_state` slot that STATE_TYPE and STATE_ATTRIBUTE return through is never overwritten
    by a PASSTHROUGH excursion in scanner output -/
theorem C15_no_markup_inside_type :
    (Gen.c15PyChildrenN.all fun p =>
      (!(p.1 == code "type" || p.1 == code "array") || (p.2 == code "type" || p.2 == code "array" || p.2 == code "varargs"))
      && p.1 != code "attribute" && p.1 != code "varargs") = true := by
  decide +kernel

/-! ### C15_attributes -/

/-- (written element, start_* function that reads its attributes), over all contexts -/
def handlers : List (String × String) := [
  ("repository", "inline:repository"), ("doc:format", "inline:doc:format"), ("include", "inline:include"),
  ("namespace", "inline:namespace"), ("package", "inline:package"), ("alias", "inline:alias"),
  ("bitfield", "start_enum"), ("callback", "start_function"), ("class", "start_class"),
  ("constant", "start_constant"), ("enumeration", "start_enum"), ("function", "start_function"),
  ("glib:boxed", "start_glib_boxed"), ("interface", "start_interface"), ("record", "start_struct"),
  ("union", "start_union"), ("type", "start_type"), ("attribute", "start_attribute"), ("member", "start_member"),
  ("parameters", "inline:parameters"), ("return-value", "start_return_value"), ("constructor", "start_function"),
  ("field", "start_field"), ("glib:signal", "start_glib_signal"), ("implements", "start_implements"),
  ("method", "start_function"), ("property", "start_property"), ("virtual-method", "start_vfunc"),
  ("array", "start_type"), ("varargs", "start_type"), ("prerequisite", "inline:prerequisite"),
  ("instance-parameter", "start_instance_parameter"), ("parameter", "start_parameter")]

def handlersN : List (Nat × Nat) := handlers.map fun p => (code p.1, code p.2)

/-- `handlers` is exactly what the table yields over all contexts -/
theorem C15_handlers :
    handlersFromG Gen.c15PyChildrenN Gen.c15CAcceptN cPASSTHROUGH (code "start_instance_parameter") contextsN
      = handlersN := by
  decide +kernel

/-- Attributes the compiler does not read BY DESIGN (no place in a typelib / other consumers):
    * c:type, c:symbol-prefix, c:symbol-prefixes: C spellings, for documentation and code generators
      (the pointer depth of a <type> IS read from c:type by start_type: that pair is fetched);
    * version, deprecated-version, stability: documentation; only the `deprecated` flag is stored;
    * moved-to, glib:async-func, glib:finish-func, glib:sync-func, emitter, default-value: cross references
      for language bindings that read the GIR;
    * private: a private field is written readable="0"; glib:name, glib:nick: GEnumValue names;
    * xmlns…: namespace declarations of the document. -/
def ignoredAttrs : List String :=
  ["c:type", "c:symbol-prefix", "c:symbol-prefixes", "version", "deprecated-version", "stability", "moved-to",
   "glib:async-func", "glib:finish-func", "glib:sync-func", "emitter", "default-value", "private", "glib:name",
   "glib:nick", "xmlns", "xmlns:c", "xmlns:doc", "xmlns:glib"]

/-- … and per element:
    * doc:format / package name: kept in the GIR only;
    * alias: aliases are expanded by the compiler and never reach the typelib, so their flags are moot;
    * field / virtual-method `deprecated`: FieldBlob and VFuncBlob have no deprecated bit;
    * type `foreign`: no code path constructs ast.Type(target_foreign=…);
    * instance-parameter: only transfer-ownership exists in the typelib (instance_transfer_ownership). -/
def ignoredPairs : List (String × String) :=
  [("doc:format", "name"), ("package", "name"),
   ("alias", "deprecated"), ("alias", "introspectable"),
   ("field", "deprecated"), ("virtual-method", "deprecated"), ("type", "foreign"),
   ("instance-parameter", "name"), ("instance-parameter", "direction"), ("instance-parameter", "caller-allocates"),
   ("instance-parameter", "nullable"), ("instance-parameter", "allow-none"), ("instance-parameter", "optional"),
   ("instance-parameter", "scope"), ("instance-parameter", "closure"), ("instance-parameter", "destroy"),
   ("instance-parameter", "skip")]

/-- The offences of the UNCHANGED tree:
    * <member introspectable="0">: start_member neither runs introspectable_prelude nor reads the attribute;
    * <property deprecated="1">: start_property does not read it although PropertyBlob has the bit. -/
def knownUnfetched : List (String × String × String) :=
  [("member", "start_member", "introspectable"), ("property", "start_property", "deprecated")]

def unfetchedNotByDesign : List (Nat × Nat × Nat) :=
  (unfetchedG Gen.c15PyAttrsN Gen.c15CFetchedN handlersN).filter fun x =>
    !((ignoredAttrs.map code).contains x.2.2 || (ignoredPairs.map fun p => (code p.1, code p.2)).contains (x.1, x.2.2))

def C15_attributes_full : Prop := unfetchedNotByDesign = []

theorem C15_attributes_counterexample : ¬ C15_attributes_full := by
  unfold C15_attributes_full; decide +kernel

/-- Every attribute GIRWriter can put on an element the parser handles is fetched (find_attribute) by the
    start_* function that handles that element, or is in the explicit ignored-by-design lists, EXCEPT
    exactly the listed pairs. -/
theorem C15_attributes_partial : unfetchedNotByDesign = knownUnfetched.map code3 := by
  decide +kernel

/-! ### C15_values -/

/-- a value that reaches the final `else` of a comparison chain ON PURPOSE: start_glib_signal tests
    LAST, then FIRST, and treats everything else as RUN_CLEANUP — "cleanup" is the third value -/
def elseBranchByDesign : List (String × String × String × String) :=
  [("glib:signal", "start_glib_signal", "when", "cleanup")]

/-- The offences of the UNCHANGED tree:
    * when="must-collect" (ast.SIGNAL_MUST_COLLECT, written verbatim from the runtime dump) silently becomes RUN_CLEANUP;
    * transfer-ownership="container" on an <instance-parameter> is an error for start_instance_parameter
      (only "none"/"full"); the writer passes any (transfer …) annotation of the instance parameter through. -/
def knownValueOffences : List (String × String × String × String) :=
  [("glib:signal", "start_glib_signal", "when", "must-collect"),
   ("instance-parameter", "start_instance_parameter", "transfer-ownership", "container")]

def offValuesNotByDesign : List (Nat × Nat × Nat × Nat) :=
  (offValuesG Gen.c15PyValuesN Gen.c15PyDynamicN Gen.c15CLiteralsN (code "0") (code "1") handlersN).filter fun x => !(elseBranchByDesign.map code4).contains x

def C15_values_full : Prop := offValuesNotByDesign = []

theorem C15_values_counterexample : ¬ C15_values_full := by
  unfold C15_values_full; decide +kernel

/-- Every enumerated attribute value GIRWriter can produce (string constants in girwriter.py and the
    PARAM_TRANSFER_*/PARAM_DIRECTION_*/PARAM_SCOPE_*/SIGNAL_* constants of ast.py, minus what an enclosing
    `!=` test excludes) is one of the literals the handling start_* function compares that attribute with —
    no silent default — EXCEPT exactly the listed values. -/
theorem C15_values_partial : offValuesNotByDesign = knownValueOffences.map code4 := by
  decide +kernel

/-- … and, against the written contract docs/gir-1.2.rnc: every such value is one the schema allows for
    that attribute, except when="must-collect". -/
theorem C15_values_in_schema :
    (Gen.c15PyValues.filter fun x =>
      (Gen.c15RncValues.any fun r => r.1 == x.2.1) && !Gen.c15RncValues.contains (x.2.1, x.2.2)
      && !Gen.c15PyDynamic.contains (x.1, x.2.1))
      = [("glib:signal", "when", "must-collect")] := by
  decide +kernel

/-! ### C15_passthrough_balanced -/

/-- For EVERY parser context outside PASSTHROUGH, every element the parser decides to skip there
    (non-introspectable, shadowed, passthrough by name, or unknown — whatever makes `startEv` enter
    PASSTHROUGH) and EVERY well-nested content of that element: after the matching end tag the parser is
    exactly where it was — same state, node stack, embedded state, type depth, and nothing in the subtree
    was acted on (the log only has the entry of the skipped element itself).  The counter is back to 0 and
    the only trace is `prev_state = PASSTHROUGH`.  A skipped element removes exactly its own subtree. -/
theorem C15_passthrough_balanced (c c1 : Ctx) (n : String) (hidden : Bool) (body : List Ev)
    (hb : WN body) (hs : c.state ≠ "PASSTHROUGH")
    (h1 : startEv c n hidden = .ok c1) (hp : c1.state = "PASSTHROUGH") :
    ∃ entry, c1.log = c.log ++ [entry] ∧
      run c (Ev.start n hidden :: (body ++ [Ev.stop n]))
        = .ok { c with prev := "PASSTHROUGH", depth := 0, log := c.log ++ [entry] } := by
  -- what entering PASSTHROUGH from outside looks like
  have key : ∃ entry, c1 = { c with prev := c.state, state := "PASSTHROUGH", depth := 1, log := c.log ++ [entry] } := by
    unfold startEv at h1
    rw [if_neg hs] at h1
    have sw : ∀ (c' : Ctx) (s : String) (r : Ctx), stateSwitch c' s = .ok r →
        r = { c' with prev := c'.state, state := s, depth := if s = "PASSTHROUGH" then 1 else c'.depth } := by
      intro c' s r h
      unfold stateSwitch at h
      split at h
      · cases h
      · cases h; rfl
    split at h1
    · rename_i r _
      split at h1
      · split at h1
        · -- hidden: straight to PASSTHROUGH
          have := sw _ _ _ h1
          exact ⟨"~" ++ n, by simpa using this⟩
        · -- introspectable: the target state would have to be PASSTHROUGH
          simp only [bind, Except.bind] at h1
          split at h1
          · cases h1
          · rename_i c2 h2
            have e2 := sw _ _ _ h2
            cases h1
            by_cases ht : r.target = "PASSTHROUGH"
            · refine ⟨"+" ++ n, ?_⟩
              simp only [pure, Except.pure] at hp ⊢
              subst e2
              split <;> split <;> simp_all
            · exfalso
              simp only [pure, Except.pure] at hp
              subst e2
              split at hp <;> split at hp <;> simp_all
      · split at h1
        · simp only [bind, Except.bind] at h1
          split at h1
          · cases h1
          · rename_i c2 h2
            have e2 := sw _ _ _ h2
            cases h1
            by_cases ht : r.target = "PASSTHROUGH"
            · refine ⟨"+" ++ n, ?_⟩
              simp only [pure, Except.pure] at hp ⊢
              subst e2
              split <;> simp_all
            · exfalso
              simp only [pure, Except.pure] at hp
              subst e2
              split at hp <;> simp_all
        · exfalso
          simp only [pure, Except.pure] at h1
          split at h1 <;> (cases h1; simp_all)
    · have := sw _ _ _ h1
      exact ⟨_, by simpa using this⟩
  obtain ⟨entry, rfl⟩ := key
  refine ⟨entry, rfl, ?_⟩
  -- start
  simp only [run, step, h1]
  -- body: nothing happens
  have hbody := run_passthrough_wn body hb
    { c with prev := c.state, state := "PASSTHROUGH", depth := 1, log := c.log ++ [entry] } rfl (by simp)
  rw [run_append_ok hbody]
  -- stop: counter reaches 0, back to prev_state
  simp only [run, step]
  rw [endEv_passthrough_last _ n rfl rfl]
  have hne : ¬ ("PASSTHROUGH" = c.state) := fun h => hs h.symm
  simp [stateSwitch, hne, hs]

/-- … so whatever follows is parsed as if the skipped element had not been there. -/
theorem C15_skipped_subtree_invisible (c c1 : Ctx) (n : String) (hidden : Bool) (body rest : List Ev)
    (hb : WN body) (hs : c.state ≠ "PASSTHROUGH")
    (h1 : startEv c n hidden = .ok c1) (hp : c1.state = "PASSTHROUGH") :
    ∃ entry, run c (Ev.start n hidden :: (body ++ Ev.stop n :: rest))
        = run { c with prev := "PASSTHROUGH", depth := 0, log := c.log ++ [entry] } rest := by
  obtain ⟨entry, _, h⟩ := C15_passthrough_balanced c c1 n hidden body hb hs h1 hp
  refine ⟨entry, ?_⟩
  have : Ev.start n hidden :: (body ++ Ev.stop n :: rest) = (Ev.start n hidden :: (body ++ [Ev.stop n])) ++ rest := by
    simp
  rw [this, run_append_ok h]

/-- inside PASSTHROUGH nothing is ever acted on, however deep and whatever the names -/
theorem C15_passthrough_inert (c : Ctx) (evs : List Ev) (hw : WN evs) (hs : c.state = "PASSTHROUGH")
    (hd : 1 ≤ c.depth) : run c evs = .ok c :=
  run_passthrough_wn evs hw c hs hd

/-! ### non-vacuity -/

/-- the context inside <namespace> -/
def inNamespace : Ctx :=
  { Ctx.init with state := "NAMESPACE", prev := "REPOSITORY" }

/-- a well-nested body: <parameters><parameter><doc/><type/></parameter></parameters> -/
def sampleBody : List Ev :=
  [.start "parameters" false, .start "parameter" false, .start "doc" false, .stop "doc", .start "type" false,
   .stop "type", .stop "parameter", .stop "parameters"]

example : WN sampleBody := by
  have h1 : WN [Ev.start "doc" false, Ev.stop "doc", Ev.start "type" false, Ev.stop "type"] :=
    WN.node "doc" false [] _ WN.nil (WN.node "type" false [] [] WN.nil WN.nil)
  have h2 : WN [Ev.start "parameter" false, Ev.start "doc" false, Ev.stop "doc", Ev.start "type" false,
      Ev.stop "type", Ev.stop "parameter"] := WN.node "parameter" false _ [] h1 WN.nil
  exact WN.node "parameters" false _ [] h2 WN.nil

-- a non-introspectable function: hypotheses of C15_passthrough_balanced hold, and the conclusion computes
example : (startEv inNamespace "function" true).map (·.state) = .ok "PASSTHROUGH" := by decide +kernel
example : run inNamespace (Ev.start "function" true :: (sampleBody ++ [Ev.stop "function"]))
    = .ok { inNamespace with prev := "PASSTHROUGH", log := ["~function"] } := by decide +kernel
-- the same element left introspectable is consumed: the states really differ
example : (run inNamespace (Ev.start "function" false :: (sampleBody ++ [Ev.stop "function"]))).map (·.log)
    = .ok ["+function", "+parameters", "+parameter", "+doc", "+type"] := by decide +kernel
-- an element nobody knows is skipped with a warning, and only it
example : (run inNamespace [.start "frobnicate" false, .start "function" false, .stop "function", .stop "frobnicate",
    .start "alias" false, .stop "alias"]).map (fun c => (c.state, c.log))
    = .ok ("NAMESPACE", ["?frobnicate@NAMESPACE", "+alias"]) := by decide +kernel
-- the defect behind knownElementOffences: <record> directly inside <record> trips the assertion of state_switch
example : (run inNamespace [.start "record" false, .start "record" false]).toOption = none := by decide +kernel
-- the tables are not empty
example : 200 ≤ Gen.c15PyChildren.length ∧ 400 ≤ Gen.c15CAccept.length ∧ 30 ≤ handlers.length := by decide +kernel

end GIVerif.GirConsume
