/-
  C09 — The repository API and g-ir-generate report what the typelib contains.
  ONLY property theorems and non-vacuity examples live here; helper lemmas are in
  GIVerif/Lemmas/InfoAccess.lean, the executable model in GIVerif/Model/InfoAccess.lean.

  What is proved: for ALL section counts, ALL positions of embedded callbacks and ALL blob sizes,
  the offset every section accessor computes is the position of that member when the sections
  are laid out one after another (`C09_sections_*`); attribute find-first and iteration return
  exactly the node's attributes for EVERY element bsearch may pick (`C09_attr_*`); the
  simple/complex type decision and tag extraction (`C09_type_decode`); the sizes and member
  offsets the arithmetic relies on, against the layout table regenerated from
  gitypelib-internal.h on every run (`C09_sizes_from_table`).

  Hypotheses beyond the property's wording (each is checked on every compiled typelib by the
  driver op `c09.check`, i.e. on the real compiler's output):
   * `FieldsAt hasEmb S start fs`: the typelib really contains the field run `fs` at `start`
     (what girnode.c writes); `nFieldCallbacks = fs.count true` (the compiler's count2 hint).
   * C09_sections_union: no union field carries an embedded callback.  g_union_info_get_field
     has no embedded-callback loop; girparser.c (since /repo b00e44e) stores a function pointer
     member of a union, boxed or interface as an untyped pointer, never as an embedded CallbackBlob
     (`union_fields_plain`, checked by the driver on every compiled typelib, unions with such members
     included), so the class of inputs excluded is empty for compiled typelibs.
     `C09_sections_union_needs_plain` shows the hypothesis cannot be dropped.
   * C09_attr_*: the attribute table is sorted by node offset (girmodule.c sorts it);
     `bsearch` is modelled as returning ANY index with an equal key and NULL only when none
     exists (`BsearchOk`); `C09_bsearch_ok` shows glibc's algorithm is one such choice.
     The read of `next->offset` before the bound check in g_base_info_iterate_attributes is a
     memory-safety matter outside the model.
   * C09_type_decode: a complex-type offset is not a multiple of 2^24 (always true for
     typelibs below 16 MiB since offsets are > 0).
   * C09_deprecated: none beyond `kind ≠ GI_INFO_TYPE_INVALID_0` (no info has that type).  Since /repo
     6a5b079 the switch of g_base_info_is_deprecated has the GI_INFO_TYPE_UNION case; the model reads the
     case groups from Gen/InfoSwitch.lean (translators/gen_info_switch.py).
   * C09_struct_func_name: none (since /repo d99d60a GI_IS_STRUCT_INFO admits GI_INFO_TYPE_BOXED; the
     admitted kinds are regenerated from gistructinfo.h into Gen/InfoSwitch.lean).
  girwriter.c (typelib → GIR text) is NOT modelled: validated by the harness only.
-/
import GIVerif.Lemmas.InfoAccess

namespace GIVerif.InfoAccess

/-! ### the generated layout table pins every constant the arithmetic uses -/

/-- sizeof() of every blob the accessors step over, and the member offsets the C code hard-codes or
    takes with G_STRUCT_OFFSET, as measured on /repo's current gitypelib-internal.h. -/
theorem C09_sizes_from_table :
    tableSizes =
      { entry := 12, function := 20, callback := 12, signal := 16, vfunc := 20, arg := 16,
        property := 16, field := 16, value := 12, attrib := 12, constant := 24, signature := 8,
        enum_ := 24, struct_ := 32, object := 60, interface := 40, union_ := 40 }
    -- the 2-byte interface / prerequisite indices start right after the fixed blob
    ∧ arrayOff "ObjectBlob" "interfaces" = tableSizes.object
    ∧ arrayOff "InterfaceBlob" "prerequisites" = tableSizes.interface
    -- the ArgBlobs start right after the SignatureBlob; EnumBlob values right after the EnumBlob
    ∧ arrayOff "SignatureBlob" "arguments" = tableSizes.signature
    ∧ arrayOff "EnumBlob" "values" = tableSizes.enum_
    -- g_constant_info_get_type uses the literal 8
    ∧ nestedOff "ConstantBlob" "type" = 8
    -- g_type_info_get_param_type: sizeof (ParamTypeBlob) + n * sizeof (SimpleTypeBlob) also finds ArrayTypeBlob.type
    ∧ nestedOff "ArrayTypeBlob" "type" = sizeOf "ParamTypeBlob"
    ∧ arrayOff "ParamTypeBlob" "type" = sizeOf "ParamTypeBlob"
    ∧ sizeOf "SimpleTypeBlob" = 4
    -- every fixed blob is a multiple of 4, so sections stay 4-aligned and the only padding is after an odd index count
    ∧ [tableSizes.object, tableSizes.interface, tableSizes.field, tableSizes.callback, tableSizes.property,
       tableSizes.function, tableSizes.signal, tableSizes.vfunc, tableSizes.constant].all (· % 4 == 0) = true
    -- the signature member of the four callable blobs (signature_offset)
    ∧ memberOff "FunctionBlob" "signature" = 12 ∧ memberOff "VFuncBlob" "signature" = 16
    ∧ memberOff "CallbackBlob" "signature" = 8 ∧ memberOff "SignalBlob" "signature" = 12
    -- SimpleTypeBlob flag word
    ∧ fld "SimpleTypeBlobFlags" "reserved" = (0, 8) ∧ fld "SimpleTypeBlobFlags" "reserved2" = (8, 16)
    ∧ fld "SimpleTypeBlobFlags" "pointer" = (24, 1) ∧ fld "SimpleTypeBlobFlags" "tag" = (27, 5)
    -- complex type blobs keep pointer/tag in their first byte
    ∧ fld "InterfaceTypeBlob" "pointer" = (0, 1) ∧ fld "InterfaceTypeBlob" "tag" = (3, 5)
    ∧ fld "ArrayTypeBlob" "tag" = (3, 5) ∧ fld "ParamTypeBlob" "tag" = (3, 5) ∧ fld "ErrorTypeBlob" "tag" = (3, 5) := by
  decide +kernel

/-- g_union_info_get_discriminator_type uses the literal 24 where the member sits at 36; unreachable
    from compiled typelibs (girnode.c never sets `discriminated`; checked per typelib by the driver). -/
theorem C09_union_discriminator_literal_stale : nestedOff "UnionBlob" "discriminator_type" = 36 := by
  decide +kernel

/-! ### section offsets = sequential layout -/

/-- ObjectBlob: interfaces (2-byte entries, padded to 4 for odd counts), fields with embedded
    callbacks (the get_field_offset loop), properties, methods, signals, vfuncs, constants. -/
theorem C09_sections_object (S : Sizes) (hasEmb : Nat → Bool) (base nIf nP nM nS nV nC : Nat) (fs : List Bool)
    (hfields : FieldsAt hasEmb S (base + S.object + (Sec.refs nIf).size S) fs) :
    let c : ObjCounts := ⟨nIf, fs.length, fs.count true, nP, nM, nS, nV, nC⟩
    let L := objectLayout S nIf fs nP nM nS nV nC
    (∀ i, i ≤ fs.length → objectFieldOffset S hasEmb base c i = layoutPos S base L 2 i)
    ∧ (∀ i, objectPropertyOffset S base c i = layoutPos S base L 3 i)
    ∧ (∀ i, objectMethodOffset S base c i = layoutPos S base L 4 i)
    ∧ (∀ i, objectSignalOffset S base c i = layoutPos S base L 5 i)
    ∧ (∀ i, objectVfuncOffset S base c i = layoutPos S base L 6 i)
    ∧ (∀ i, objectConstantOffset S base c i = layoutPos S base L 7 i) := by
  intro c L
  have hpad := ifacePad_eq nIf
  have hsz := fieldsSize_closed S fs
  refine ⟨?_, ?_, ?_, ?_, ?_, ?_⟩
  · intro i hi
    have h := fieldLoop_eq hasEmb S fs _ hfields i hi
    simp only [objectFieldOffset, c, L, layoutPos, objectLayout, secsSize, Sec.size, Sec.member,
      List.take, List.getElem?_cons_succ, List.getElem?_cons_zero] at h ⊢
    rw [hpad, h]; ring
  all_goals
    intro i
    simp only [objectPropertyOffset, objectMethodOffset, objectSignalOffset, objectVfuncOffset, objectConstantOffset,
      c, L, layoutPos, objectLayout, secsSize, Sec.size, Sec.member,
      List.take, List.getElem?_cons_succ, List.getElem?_cons_zero]
    rw [hpad, hsz]; ring

/-- the interface slots `blob->interfaces[i]` / `blob->prerequisites[i]` with the table's blob sizes -/
theorem C09_sections_slots (base nIf nP nM nS nV nC i : Nat) (fs : List Bool) :
    objectInterfaceSlot base i = layoutPos tableSizes base (objectLayout tableSizes nIf fs nP nM nS nV nC) 1 i
    ∧ ifacePrerequisiteSlot base i = layoutPos tableSizes base (ifaceLayout tableSizes nIf nP nM nS nV nC) 1 i := by
  have h := C09_sizes_from_table
  obtain ⟨_, h1, h2, _⟩ := h
  simp only [objectInterfaceSlot, ifacePrerequisiteSlot, h1, h2, layoutPos, objectLayout, ifaceLayout, secsSize,
    Sec.size, Sec.member, List.take, List.getElem?_cons_succ, List.getElem?_cons_zero]
  constructor <;> ring

/-- InterfaceBlob: prerequisites, properties, methods, signals, vfuncs, constants. -/
theorem C09_sections_interface (S : Sizes) (base nPre nP nM nS nV nC : Nat) :
    let c : IfaceCounts := ⟨nPre, nP, nM, nS, nV, nC⟩
    let L := ifaceLayout S nPre nP nM nS nV nC
    (∀ i, ifacePropertyOffset S base c i = layoutPos S base L 2 i)
    ∧ (∀ i, ifaceMethodOffset S base c i = layoutPos S base L 3 i)
    ∧ (∀ i, ifaceSignalOffset S base c i = layoutPos S base L 4 i)
    ∧ (∀ i, ifaceVfuncOffset S base c i = layoutPos S base L 5 i)
    ∧ (∀ i, ifaceConstantOffset S base c i = layoutPos S base L 6 i) := by
  intro c L
  have hpad := ifacePad_eq nPre
  refine ⟨?_, ?_, ?_, ?_, ?_⟩
  all_goals
    intro i
    simp only [ifacePropertyOffset, ifaceMethodOffset, ifaceSignalOffset, ifaceVfuncOffset, ifaceConstantOffset,
      c, L, layoutPos, ifaceLayout, secsSize, Sec.size, Sec.member,
      List.take, List.getElem?_cons_succ, List.getElem?_cons_zero]
    rw [hpad]; ring

/-- StructBlob (records and boxed): fields with embedded callbacks at any positions, then methods. -/
theorem C09_sections_struct (S : Sizes) (hasEmb : Nat → Bool) (base nM : Nat) (fs : List Bool)
    (hfields : FieldsAt hasEmb S (base + S.struct_) fs) :
    let L := structLayout S fs nM
    (∀ i, i ≤ fs.length → structFieldOffset S hasEmb base i = layoutPos S base L 1 i)
    ∧ (∀ i, structMethodOffset S hasEmb base fs.length i = layoutPos S base L 2 i) := by
  intro L
  have hall := fieldLoop_eq hasEmb S fs _ hfields
  refine ⟨?_, ?_⟩
  · intro i hi
    have h := hall i hi
    simp only [structFieldOffset, L, layoutPos, structLayout, secsSize, Sec.size, Sec.member,
      List.take, List.getElem?_cons_succ, List.getElem?_cons_zero] at h ⊢
    rw [h]; ring
  · intro i
    have h := hall fs.length (Nat.le_refl _)
    simp only [structMethodOffset, structFieldOffset, L, layoutPos, structLayout, secsSize, Sec.size, Sec.member,
      List.take, List.getElem?_cons_succ, List.getElem?_cons_zero, List.take_length] at h ⊢
    rw [h]; ring

/-- UnionBlob: fields then methods — for unions whose fields carry no embedded callback. -/
theorem C09_sections_union (S : Sizes) (base nM : Nat) (fs : List Bool) (hplain : ∀ b ∈ fs, b = false) :
    let L := unionLayout S fs nM
    (∀ i, i ≤ fs.length → unionFieldOffset S base i = layoutPos S base L 1 i)
    ∧ (∀ i, unionMethodOffset S base fs.length i = layoutPos S base L 2 i) := by
  intro L
  have hsize : ∀ l : List Bool, (∀ b ∈ l, b = false) → fieldsSize S l = l.length * S.field := by
    intro l hl
    rw [fieldsSize_closed]
    have : l.count true = 0 := List.count_eq_zero.mpr (fun h => by simpa using hl true h)
    rw [this]; omega
  refine ⟨?_, ?_⟩
  · intro i hi
    have h := hsize (fs.take i) (fun b hb => hplain b (List.mem_of_mem_take hb))
    simp only [List.length_take, Nat.min_eq_left hi] at h
    simp only [unionFieldOffset, L, layoutPos, unionLayout, secsSize, Sec.size, Sec.member,
      List.take, List.getElem?_cons_succ, List.getElem?_cons_zero]
    rw [h]; ring
  · intro i
    have h := hsize fs hplain
    simp only [unionMethodOffset, L, layoutPos, unionLayout, secsSize, Sec.size, Sec.member,
      List.take, List.getElem?_cons_succ, List.getElem?_cons_zero]
    rw [h]; ring

/-- The hypothesis of `C09_sections_union` cannot be dropped: with an embedded callback in the first
    field, `g_union_info_get_field (info, 1)` does not land on the second field. -/
theorem C09_sections_union_needs_plain :
    unionFieldOffset tableSizes 0 1 ≠ layoutPos tableSizes 0 (unionLayout tableSizes [true, false] 0) 1 1 := by
  decide +kernel

/-- EnumBlob: values then methods. -/
theorem C09_sections_enum (S : Sizes) (base nV nM : Nat) :
    let L := enumLayout S nV nM
    (∀ i, enumValueOffset S base i = layoutPos S base L 1 i)
    ∧ (∀ i, enumMethodOffset S base nV i = layoutPos S base L 2 i) := by
  intro L
  refine ⟨?_, ?_⟩
  all_goals
    intro i
    simp only [enumValueOffset, enumMethodOffset, L, layoutPos, enumLayout, secsSize, Sec.size, Sec.member,
      List.take, List.getElem?_cons_succ, List.getElem?_cons_zero]
    ring

/-- Callables: the i-th ArgBlob follows the SignatureBlob. -/
theorem C09_sections_callable (S : Sizes) (sig nArgs i : Nat) :
    argOffset S sig i = layoutPos S sig (signatureLayout S nArgs) 1 i := by
  simp only [argOffset, layoutPos, signatureLayout, secsSize, Sec.size, Sec.member,
    List.take, List.getElem?_cons_succ, List.getElem?_cons_zero]
  ring

/-- All containers at once, for the blob sizes the compiler writes (the table's). -/
theorem C09_sections (hasEmb : Nat → Bool) (base nIf nP nM nS nV nC : Nat) (fs : List Bool) :
    let S := tableSizes
    -- objects
    (FieldsAt hasEmb S (base + S.object + (Sec.refs nIf).size S) fs →
      let c : ObjCounts := ⟨nIf, fs.length, fs.count true, nP, nM, nS, nV, nC⟩
      let L := objectLayout S nIf fs nP nM nS nV nC
      (∀ i, i < nIf → objectInterfaceSlot base i = layoutPos S base L 1 i)
      ∧ (∀ i, i < fs.length → objectFieldOffset S hasEmb base c i = layoutPos S base L 2 i)
      ∧ (∀ i, i < nP → objectPropertyOffset S base c i = layoutPos S base L 3 i)
      ∧ (∀ i, i < nM → objectMethodOffset S base c i = layoutPos S base L 4 i)
      ∧ (∀ i, i < nS → objectSignalOffset S base c i = layoutPos S base L 5 i)
      ∧ (∀ i, i < nV → objectVfuncOffset S base c i = layoutPos S base L 6 i)
      ∧ (∀ i, i < nC → objectConstantOffset S base c i = layoutPos S base L 7 i))
    -- interfaces
    ∧ (let c : IfaceCounts := ⟨nIf, nP, nM, nS, nV, nC⟩
       let L := ifaceLayout S nIf nP nM nS nV nC
       (∀ i, i < nIf → ifacePrerequisiteSlot base i = layoutPos S base L 1 i)
       ∧ (∀ i, i < nP → ifacePropertyOffset S base c i = layoutPos S base L 2 i)
       ∧ (∀ i, i < nM → ifaceMethodOffset S base c i = layoutPos S base L 3 i)
       ∧ (∀ i, i < nS → ifaceSignalOffset S base c i = layoutPos S base L 4 i)
       ∧ (∀ i, i < nV → ifaceVfuncOffset S base c i = layoutPos S base L 5 i)
       ∧ (∀ i, i < nC → ifaceConstantOffset S base c i = layoutPos S base L 6 i))
    -- records / boxed
    ∧ (FieldsAt hasEmb S (base + S.struct_) fs →
       (∀ i, i < fs.length → structFieldOffset S hasEmb base i = layoutPos S base (structLayout S fs nM) 1 i)
       ∧ (∀ i, i < nM → structMethodOffset S hasEmb base fs.length i = layoutPos S base (structLayout S fs nM) 2 i))
    -- unions
    ∧ ((∀ b ∈ fs, b = false) →
       (∀ i, i < fs.length → unionFieldOffset S base i = layoutPos S base (unionLayout S fs nM) 1 i)
       ∧ (∀ i, i < nM → unionMethodOffset S base fs.length i = layoutPos S base (unionLayout S fs nM) 2 i))
    -- enums / flags
    ∧ ((∀ i, i < nP → enumValueOffset S base i = layoutPos S base (enumLayout S nP nM) 1 i)
       ∧ (∀ i, i < nM → enumMethodOffset S base nP i = layoutPos S base (enumLayout S nP nM) 2 i)) := by
  intro S
  refine ⟨?_, ?_, ?_, ?_, ?_⟩
  · intro h
    obtain ⟨h2, h3, h4, h5, h6, h7⟩ := C09_sections_object S hasEmb base nIf nP nM nS nV nC fs h
    exact ⟨fun i _ => (C09_sections_slots base nIf nP nM nS nV nC i fs).1, fun i hi => h2 i (Nat.le_of_lt hi),
      fun i _ => h3 i, fun i _ => h4 i, fun i _ => h5 i, fun i _ => h6 i, fun i _ => h7 i⟩
  · obtain ⟨h2, h3, h4, h5, h6⟩ := C09_sections_interface S base nIf nP nM nS nV nC
    exact ⟨fun i _ => (C09_sections_slots base nIf nP nM nS nV nC i fs).2, fun i _ => h2 i, fun i _ => h3 i,
      fun i _ => h4 i, fun i _ => h5 i, fun i _ => h6 i⟩
  · intro h
    obtain ⟨h1, h2⟩ := C09_sections_struct S hasEmb base nM fs h
    exact ⟨fun i hi => h1 i (Nat.le_of_lt hi), fun i _ => h2 i⟩
  · intro h
    obtain ⟨h1, h2⟩ := C09_sections_union S base nM fs h
    exact ⟨fun i hi => h1 i (Nat.le_of_lt hi), fun i _ => h2 i⟩
  · obtain ⟨h1, h2⟩ := C09_sections_enum S base nP nM
    exact ⟨fun i _ => h1 i, fun i _ => h2 i⟩

/-! ### attribute lookup -/

/-- `_attribute_blob_find_first`: on a table sorted by node offset, and for EVERY element bsearch may
    return, the result is the first blob with the node's offset — and NULL exactly when the node has none. -/
theorem C09_attr_find (offs : Nat → Nat) (n key : Nat) (bs : Option Nat)
    (hs : SortedTable offs n) (hb : BsearchOk offs n key bs) :
    (∀ i, findFirst offs key bs = some i ↔ (i < n ∧ offs i = key ∧ ∀ j, j < i → offs j ≠ key))
    ∧ (findFirst offs key bs = none ↔ ∀ i, i < n → offs i ≠ key) := by
  cases bs with
  | none =>
    simp only [BsearchOk] at hb
    refine ⟨?_, ?_⟩
    · intro i
      simp only [findFirst, Option.map_none, reduceCtorEq, false_iff]
      rintro ⟨h1, h2, _⟩
      exact hb i h1 h2
    · simp [findFirst]; exact hb
  | some r =>
    obtain ⟨hrn, hr⟩ := hb
    obtain ⟨hk, hfirst⟩ := walkBack_first offs n key r hs hrn hr
    have hle := walkBack_le offs key r
    refine ⟨?_, ?_⟩
    · intro i
      simp only [findFirst, Option.map_some, Option.some.injEq]
      constructor
      · rintro rfl
        exact ⟨by omega, hk, hfirst⟩
      · rintro ⟨hi, hik, hmin⟩
        rcases Nat.lt_trichotomy (walkBack offs key r) i with h | h | h
        · exact absurd hk (hmin _ h)
        · exact h
        · exact absurd hik (hfirst _ h)
    · simp only [findFirst, Option.map_some, reduceCtorEq, false_iff]
      intro h
      exact h r hrn hr

/-- `g_base_info_iterate_attributes` / `g_callable_info_iterate_return_attributes`: the iteration yields
    exactly the table entries whose offset is the node's, in table order, whatever bsearch picked. -/
theorem C09_attr_iter (offs : Nat → Nat) (n key : Nat) (bs : Option Nat)
    (hs : SortedTable offs n) (hb : BsearchOk offs n key bs) :
    iterAttributes offs n key bs = (List.range n).filter (fun i => offs i = key) := by
  obtain ⟨hfind, hnone⟩ := C09_attr_find offs n key bs hs hb
  unfold iterAttributes
  cases hf : findFirst offs key bs with
  | none =>
    have := hnone.mp hf
    symm
    simp only [List.filter_eq_nil_iff, List.mem_range, decide_eq_true_eq]
    exact this
  | some first =>
    obtain ⟨hfn, hfk, hmin⟩ := (hfind first).mp hf
    obtain ⟨k, hk, hkf, hall, hstop⟩ := iterFrom_spec offs n key n first
    simp only [hk]
    -- both lists are strictly increasing with the same members
    apply List.Perm.eq_of_pairwise (le := (· < ·))
    · intro a b _ _ h1 h2; omega
    · exact List.pairwise_lt_range'
    · exact List.Pairwise.filter _ List.pairwise_lt_range
    · apply (List.perm_ext_iff_of_nodup (List.nodup_range' (h := by omega)) (List.Nodup.filter _ List.nodup_range)).mpr
      intro i
      simp only [List.mem_range'_1, List.mem_filter, List.mem_range, decide_eq_true_eq]
      constructor
      · rintro ⟨h1, h2⟩; exact hall i h1 h2
      · rintro ⟨hin, hik⟩
        have hge : first ≤ i := by
          by_contra h
          exact hmin i (by omega) hik
        refine ⟨hge, ?_⟩
        by_contra hlt
        have hle : first + k ≤ i := by omega
        have hkn : k < n := by omega
        apply hstop hkn
        refine ⟨by omega, ?_⟩
        have h1 : offs first ≤ offs (first + k) := hs _ _ (by omega) (by omega)
        have h2 : offs (first + k) ≤ offs i := hs _ _ hle hin
        omega

/-- glibc's bsearch is one of the admissible choices on a sorted table. -/
theorem C09_bsearch_ok (offs : Nat → Nat) (n key : Nat) (hs : SortedTable offs n) :
    BsearchOk offs n key (bsearch offs key 0 n) :=
  bsearch_spec offs n key hs 0 n (Nat.le_refl _) (fun _ hi _ => ⟨Nat.zero_le _, hi⟩)

/-! ### type decoding -/

/-- `_g_type_info_new` / gitypeinfo.c: a 32-bit SimpleTypeBlob word is taken as a basic type exactly
    when its low 24 bits (reserved, reserved2) are zero; then tag and pointer are the table's bit-fields,
    and they invert the compiler's encoding; any other word is taken as the offset of a complex type blob. -/
theorem C09_type_decode (w : Nat) :
    (typeIsSimple w = true ↔ w % 16777216 = 0)
    ∧ simpleTag w = w / 134217728 % 32
    ∧ simplePointer w = w / 16777216 % 2
    ∧ (∀ tag ptr, tag < 32 → ptr < 2 →
        typeIsSimple (encodeSimple tag ptr) = true ∧ simpleTag (encodeSimple tag ptr) = tag
        ∧ simplePointer (encodeSimple tag ptr) = ptr ∧ typeInfoOffset w (encodeSimple tag ptr) = w)
    ∧ (∀ off, w % 16777216 ≠ 0 → typeInfoOffset off w = w) := by
  obtain ⟨_, _, _, _, _, _, _, _, _, _, _, _, _, _, hr, hr2, hp, ht, _⟩ := C09_sizes_from_table
  have hsimple : ∀ v, typeIsSimple v = true ↔ v % 16777216 = 0 := by
    intro v
    simp only [typeIsSimple, wordBits, hr, hr2, pow2, Bool.and_eq_true, beq_iff_eq]
    norm_num
    omega
  refine ⟨hsimple w, ?_, ?_, ?_, ?_⟩
  · simp only [simpleTag, wordBits, ht, pow2]
  · simp only [simplePointer, wordBits, hp, pow2]
  · intro tag ptr htag hptr
    have henc : encodeSimple tag ptr = tag * 134217728 + ptr * 16777216 := by
      simp only [encodeSimple, ht, hp, pow2]
    have hs' : typeIsSimple (encodeSimple tag ptr) = true := by
      rw [hsimple, henc]; omega
    refine ⟨hs', ?_, ?_, ?_⟩
    · simp only [simpleTag, wordBits, ht, pow2, henc]; norm_num; omega
    · simp only [simplePointer, wordBits, hp, pow2, henc]; norm_num; omega
    · simp only [typeInfoOffset, hs', if_true]
  · intro off hne
    have : typeIsSimple w = false := by
      cases h : typeIsSimple w with
      | false => rfl
      | true => exact absurd ((hsimple w).mp h) hne
    simp [typeInfoOffset, this]

/-! ### deprecation flag -/

/-- g_base_info_is_deprecated reads, for every GIInfoType, exactly the deprecation bit the typelib format
    stores for that kind of blob (unions included), and reports FALSE for the kinds whose blob has no such
    bit (vfunc, field, arg, type).  `deprecatedField` is a lookup in the case groups regenerated from the
    `switch` of gibaseinfo.c on every run, `storedDeprecatedField` in the measured layout table, so a case
    label dropped from the switch (or a bit moved in a blob) makes this obligation fail.
    (10 = GI_INFO_TYPE_INVALID_0 is not the type of any info.) -/
theorem C09_deprecated :
    ∀ kind, kind < 20 → kind ≠ 10 → deprecatedField kind = storedDeprecatedField kind := by
  decide +kernel

/-- the union case, spelled out on bytes: on the 8 bytes `0b 00 01 00 ...` (blob_type = BLOB_TYPE_UNION,
    deprecated = 1) the stored bit is 1 and the API says TRUE; with the bit clear it says FALSE. -/
theorem C09_deprecated_union :
    deprecatedField (enumVal "GIInfoType" "GI_INFO_TYPE_UNION") = some (16, 1)
    ∧ storedDeprecatedField (enumVal "GIInfoType" "GI_INFO_TYPE_UNION") = some (16, 1)
    ∧ isDeprecated (mkCtx ⟨#[11, 0, 1, 0, 0, 0, 0, 0]⟩) 11 0 = true
    ∧ isDeprecated (mkCtx ⟨#[11, 0, 0, 0, 0, 0, 0, 0]⟩) 11 0 = false := by
  decide +kernel

/-! ### copy / free function of records and boxed types -/

/-- g_struct_info_get_copy_function / g_struct_info_get_free_function report what the StructBlob stores
    (the string, or NULL for offset 0) for both kinds of info a StructBlob stands for, GI_INFO_TYPE_STRUCT and
    GI_INFO_TYPE_BOXED.  The kinds admitted by the accessors' GI_IS_STRUCT_INFO guard are regenerated from
    gistructinfo.h on every run (`Gen.isStructInfoKinds`): dropping BOXED from the macro again breaks this. -/
theorem C09_struct_func_name (c : Ctx) (kind strOff : Nat)
    (hk : kind = K "GI_INFO_TYPE_STRUCT" ∨ kind = K "GI_INFO_TYPE_BOXED") :
    structFuncName c kind strOff = optStr c.t strOff := by
  unfold structFuncName
  rcases hk with h | h
  · subst h
    have hg : Gen.isStructInfoKinds.any (fun l => enumVal "GIInfoType" l == K "GI_INFO_TYPE_STRUCT") = true := by
      decide +kernel
    simp [hg]
  · subst h
    have hg : Gen.isStructInfoKinds.any (fun l => enumVal "GIInfoType" l == K "GI_INFO_TYPE_BOXED") = true := by
      decide +kernel
    simp [hg]

/-- and for every other kind of info the guard fails: NULL, whatever the bytes say -/
theorem C09_struct_func_name_other (c : Ctx) (kind strOff : Nat)
    (hlt : kind < 20) (h1 : kind ≠ K "GI_INFO_TYPE_STRUCT") (h2 : kind ≠ K "GI_INFO_TYPE_BOXED") :
    structFuncName c kind strOff = "(null)" := by
  have hg : ∀ k, k < 20 → k ≠ K "GI_INFO_TYPE_STRUCT" → k ≠ K "GI_INFO_TYPE_BOXED" →
      (Gen.isStructInfoKinds.any (fun l => enumVal "GIInfoType" l == k)) = false := by
    decide +kernel
  unfold structFuncName
  simp [hg kind hlt h1 h2]

/-! ### non-vacuity: concrete instances of the hypotheses and conclusions -/

-- a field run with an embedded callback in the middle, as the bytes would say it
example : FieldsAt (fun off => off == 92 + 16) tableSizes 92 [false, true, false] := by
  intro i hi
  have : i = 0 ∨ i = 1 ∨ i = 2 := by simp at hi; omega
  rcases this with rfl | rfl | rfl <;> rfl
-- object with 3 interfaces (odd: 2 bytes of padding), fields [plain, embedded, plain]: third field and first method
example : objectFieldOffset tableSizes (fun off => off == 100 + 60 + 8 + 16) 100 ⟨3, 3, 1, 2, 1, 0, 0, 0⟩ 2 = 100 + 60 + 8 + 16 + 28 := by
  decide +kernel
example : objectMethodOffset tableSizes 100 ⟨3, 3, 1, 2, 1, 0, 0, 0⟩ 0 = 100 + 60 + 8 + 3 * 16 + 12 + 2 * 16 := by
  decide +kernel
example : layoutPos tableSizes 100 (objectLayout tableSizes 3 [false, true, false] 2 1 0 0 0) 4 0 = 260 := by
  decide +kernel
-- sorted table with two nodes; bsearch may hit index 2 or 3 of node 40: both walk back to 1
example : SortedTable (fun i => [8, 40, 40, 40, 72].getD i 0) 5 := by
  intro i j hij hj
  have : j = 0 ∨ j = 1 ∨ j = 2 ∨ j = 3 ∨ j = 4 := by omega
  rcases this with rfl | rfl | rfl | rfl | rfl <;>
    (have : i = 0 ∨ i = 1 ∨ i = 2 ∨ i = 3 ∨ i = 4 := by omega) <;>
    rcases this with rfl | rfl | rfl | rfl | rfl <;> first | omega | decide
example : findFirst (fun i => [8, 40, 40, 40, 72].getD i 0) 40 (some 3) = some 1 := by decide
example : iterAttributes (fun i => [8, 40, 40, 40, 72].getD i 0) 5 40 (some 2) = [1, 2, 3] := by decide
example : iterAttributes (fun i => [8, 40, 40, 40, 72].getD i 0) 5 24 none = [] := by decide
example : BsearchOk (fun i => [8, 40, 40, 40, 72].getD i 0) 5 40 (some 2) := ⟨by omega, by decide⟩
-- C09_deprecated: a union (kind 11) is in range and reads bit 16 of its blob; a vfunc (14) has no bit
example : (11 < 20 ∧ 11 ≠ 10) ∧ deprecatedField 11 = some (16, 1) ∧ deprecatedField 14 = none := by decide +kernel
-- a record and a boxed type with a copy function "a" at string offset 4; a union info is refused by the guard
example : structFuncName (mkCtx ⟨#[0, 0, 0, 0, 97, 0]⟩) (K "GI_INFO_TYPE_STRUCT") 4 = "a" := by decide +kernel
example : structFuncName (mkCtx ⟨#[0, 0, 0, 0, 97, 0]⟩) (K "GI_INFO_TYPE_BOXED") 4 = "a"
    ∧ structFuncName (mkCtx ⟨#[0, 0, 0, 0, 97, 0]⟩) (K "GI_INFO_TYPE_BOXED") 0 = "(null)"
    ∧ structFuncName (mkCtx ⟨#[0, 0, 0, 0, 97, 0]⟩) (K "GI_INFO_TYPE_UNION") 4 = "(null)" := by
  decide +kernel
-- utf8 (tag 13) pointer: simple; an offset such as 0x1a4 is complex
example : typeIsSimple (encodeSimple 13 1) = true ∧ simpleTag (encodeSimple 13 1) = 13 := by decide +kernel
example : typeIsSimple 420 = false ∧ typeInfoOffset 88 420 = 420 := by decide +kernel

end GIVerif.InfoAccess
