/-
  C10 — Well-formed GTK-Doc comment blocks are parsed exactly.
  ONLY property theorems and non-vacuity examples live here; helper lemmas are in
  GIVerif/Lemmas/AnnParse*.lean, the executable model in GIVerif/Model/AnnParse/*.lean (tokenizer,
  line matchers, the block state machine `parseBlock` = `parse_comment_block` without `validate()`,
  the writer `writeBlock` = `GtkDocCommentBlockWriter.write`), the grammar (well-formedness
  predicates, layouts, the demanded parse result) in GIVerif/Spec/AnnGrammar.lean and BlockGrammar.lean.

  Proved for ALL inputs of the stated classes:
  * annotation layer: tokenizer / option parsers against the project's own writer, continuation
    over several lines (C10_ann_roundtrip, C10_ann_continuation);
  * layout: the three line-ending conventions give the same lines and the same parse
    (C10_line_endings), any white space in front of the asterisk is stripped (C10_asterisk_strip),
    parameter and tag lines are recognised under any indentation behind it (C10_indent_lines);
  * block layer, for the grammar fragment of Spec/BlockGrammar.lean (symbol identifier with
    annotations, parameters with annotations and one-line descriptions, one description paragraph,
    `Returns:`): every layout parses to exactly the block with no diagnostic (C10_parse_render_partial),
    all layouts agree (C10_layout_indep_partial) — a layout fixes the indentation in front of the
    asterisk of every line separately, so ragged and staircase layouts are covered —, and writing the parsed block with the project's
    writer and parsing that again gives the same block (C10_write_parse_partial).
  What the fragment excludes is listed in Spec/BlockGrammar.lean.  The three classes for which the
  last sentence of the property used to be false (empty option values `key=`, action identifiers,
  symbols named `ACTION…`) were repaired in /repo (902d172, a1e3aaa); they are now inside the
  theorems (`wfAnns` admits empty values, the fragment admits every `\w+` symbol not starting with
  `SECTION`) and kept as concrete regressions (C10_write_parse_regressions).
  What still prevents a `C10_write_parse` over ALL texts that parse without a diagnostic is that
  this is more than the property says: outside the documented grammar there are diagnostic-free
  texts the writer cannot reproduce (C10_write_parse_full_false: a `Since:` tag without value whose
  description, continued on the next line, reads like a value), and a decidable `WFBlock` for the
  whole documented grammar (other identifier forms, multi-line descriptions,
  `Since:`/`Deprecated:`/`Stability:`, continuation inside a block) is not written down in Lean;
  those parts are covered by the model correspondence and the statement oracles of harness/c10.py.

  Hypotheses beyond the property's wording (all from its quantifier: "tokens inside one
  annotation separated by single spaces"): `wfAnns` = names are lower-case tokens without
  white space / parentheses / angle brackets and are not the deprecated spellings
  `in-out` / `attribute` (which the parser renames by design); list options are such
  tokens without `=`; dict options are `key` or `key=value` with distinct keys (the value may
  be empty); options of unknown
  annotations are single-space separated tokens; annotation names are distinct.
  `StopRest`: what follows the annotations on the line is empty or starts with a character
  that is neither white space nor a parenthesis (the statement's "descriptions not beginning
  with a parenthesis"; the writer emits `:`).
  `str.lower()` is modelled character-wise (no final-sigma rule); names are required to
  be already lower-case, so this does not restrict the theorems.
-/
import GIVerif.Lemmas.AnnParseRoundtrip
import GIVerif.Lemmas.AnnParseCaret
import GIVerif.Lemmas.AnnParseBlockRT

namespace GIVerif.AnnParse
open GIVerif.Py

/-- The line patterns in the source still have the shapes the hand-written matchers of the
    model were written for (re-extracted from /repo with CPython's regex parser on every run). -/
theorem C10_pattern_shapes :
    Gen.patternShapes =
      [("LINE_BREAK_RE", "flags() alt(lit(13)+lit(10)|lit(13)|lit(10))"),
       ("COMMENT_BLOCK_START_RE", "flags() bol group<code>(lazy(0,inf,any)) rep(0,inf,in(s)) group<token>(lit(47)+rep(2,2,lit(42))+nla1(in(42,47))) rep(0,inf,in(s)) group<comment>(lazy(0,inf,any)) rep(0,inf,in(s)) eol"),
       ("COMMENT_BLOCK_END_RE", "flags() bol rep(0,inf,in(s)) group<comment>(lazy(0,inf,any)) rep(0,inf,in(s)) group<token>(rep(1,inf,lit(42))+lit(47)) group<code>(lazy(0,inf,any)) rep(0,inf,in(s)) eol"),
       ("COMMENT_ASTERISK_RE", "flags() bol rep(0,inf,in(s)) group<comment>(lazy(0,inf,any)) rep(0,inf,in(s)) lit(42) rep(0,1,in(s))"),
       ("INDENTATION_RE", "flags() bol group<indentation>(rep(0,inf,in(s))) rep(0,inf,any) eol"),
       ("EMPTY_LINE_RE", "flags() bol rep(0,inf,in(s)) eol"),
       ("SECTION_RE", "flags() bol rep(0,inf,in(s)) lit(83) lit(69) lit(67) lit(84) lit(73) lit(79) lit(78) rep(0,inf,in(s)) group<delimiter>(rep(0,1,lit(58))) rep(0,inf,in(s)) group<section_name>(in(w)+lazy(1,inf,in(S))) rep(0,inf,in(s)) rep(0,1,lit(58)) rep(0,inf,in(s)) eol"),
       ("SYMBOL_RE", "flags() bol rep(0,inf,in(s)) group<symbol_name>(rep(0,inf,in(w,45))+in(w)) rep(0,inf,in(s)) group<delimiter>(rep(0,1,lit(58))) rep(0,inf,in(s)) group<fields>(lazy(0,inf,any)) rep(0,inf,in(s)) rep(0,1,lit(58)) rep(0,inf,in(s)) eol"),
       ("PROPERTY_RE", "flags() bol rep(0,inf,in(s)) group<class_name>(rep(1,inf,in(w))) rep(0,inf,in(s)) rep(1,1,lit(58)) rep(0,inf,in(s)) group<property_name>(rep(0,inf,in(w,45))+in(w)) rep(0,inf,in(s)) group<delimiter>(rep(0,1,lit(58))) rep(0,inf,in(s)) group<fields>(lazy(0,inf,any)) rep(0,inf,in(s)) rep(0,1,lit(58)) rep(0,inf,in(s)) eol"),
       ("SIGNAL_RE", "flags() bol rep(0,inf,in(s)) group<class_name>(rep(1,inf,in(w))) rep(0,inf,in(s)) rep(2,2,lit(58)) rep(0,inf,in(s)) group<signal_name>(rep(0,inf,in(w,45))+in(w)) rep(0,inf,in(s)) group<delimiter>(rep(0,1,lit(58))) rep(0,inf,in(s)) group<fields>(lazy(0,inf,any)) rep(0,inf,in(s)) rep(0,1,lit(58)) rep(0,inf,in(s)) eol"),
       ("ACTION_RE", "flags() bol rep(0,inf,in(s)) group<class_name>(rep(1,inf,in(w))) rep(0,inf,in(s)) rep(1,1,lit(124)) rep(0,inf,in(s)) group<action_name>(rep(1,inf,in(w,45))+lit(46)+rep(1,inf,in(w,45))) rep(0,inf,in(s)) group<delimiter>(rep(0,1,lit(58))) rep(0,inf,in(s)) group<fields>(lazy(0,inf,any)) rep(0,inf,in(s)) rep(0,1,lit(58)) rep(0,inf,in(s)) eol"),
       ("FIELD_RE", "flags() bol rep(0,inf,in(s)) group<class_name>(rep(1,inf,in(w))) rep(0,inf,in(s)) rep(1,1,lit(46)) rep(0,inf,in(s)) group<field_name>(rep(0,inf,in(w,45))+in(w)) rep(0,inf,in(s)) group<delimiter>(rep(0,1,lit(58))) rep(0,inf,in(s)) group<fields>(lazy(0,inf,any)) rep(0,inf,in(s)) rep(0,1,lit(58)) rep(0,inf,in(s)) eol"),
       ("PARAMETER_RE", "flags() bol rep(0,inf,in(s)) lit(64) group<parameter_name>(alt(rep(0,inf,in(w,45))+in(w)|lazy(0,inf,any)+lit(46)+lit(46)+lit(46))) rep(0,inf,in(s)) rep(1,1,lit(58)) rep(0,inf,in(s)) group<fields>(lazy(0,inf,any)) rep(0,inf,in(s)) eol"),
       ("TAG_RE", "flags(I) bol rep(0,inf,in(s)) group<tag_name>(alt(lit(100)+lit(101)+lit(112)+lit(114)+lit(101)+lit(99)+lit(97)+lit(116)+lit(101)+lit(100)|lit(114)+lit(101)+lit(116)+lit(117)+lit(114)+lit(110)+lit(115)|lit(115)+lit(105)+lit(110)+lit(99)+lit(101)|lit(115)+lit(116)+lit(97)+lit(98)+lit(105)+lit(108)+lit(105)+lit(116)+lit(121)|lit(100)+lit(101)+lit(115)+lit(99)+lit(114)+lit(105)+lit(112)+lit(116)+lit(105)+lit(111)+lit(110)|lit(114)+lit(101)+lit(116)+lit(117)+lit(114)+lit(110)+in(s)+lit(118)+lit(97)+lit(108)+lit(117)+lit(101)|lit(114)+lit(101)+lit(116)+lit(117)+lit(114)+lit(110)|lit(114)+lit(101)+lit(116)+lit(117)+lit(114)+lit(110)+lit(115)+in(s)+lit(118)+lit(97)+lit(108)+lit(117)+lit(101)|lit(97)+lit(116)+lit(116)+lit(114)+lit(105)+lit(98)+lit(117)+lit(116)+lit(101)+lit(115)|lit(103)+lit(101)+lit(116)+in(s)+lit(118)+lit(97)+lit(108)+lit(117)+lit(101)+in(s)+lit(102)+lit(117)+lit(110)+lit(99)|lit(114)+lit(101)+lit(102)+in(s)+lit(102)+lit(117)+lit(110)+lit(99)|lit(114)+lit(101)+lit(110)+lit(97)+lit(109)+lit(101)+in(s)+lit(116)+lit(111)|lit(115)+lit(101)+lit(116)+in(s)+lit(118)+lit(97)+lit(108)+lit(117)+lit(101)+in(s)+lit(102)+lit(117)+lit(110)+lit(99)|lit(116)+lit(114)+lit(97)+lit(110)+lit(115)+lit(102)+lit(101)+lit(114)|lit(116)+lit(121)+lit(112)+lit(101)|lit(117)+lit(110)+lit(114)+lit(101)+lit(102)+in(s)+lit(102)+lit(117)+lit(110)+lit(99)|lit(118)+lit(97)+lit(108)+lit(117)+lit(101)|lit(118)+lit(105)+lit(114)+lit(116)+lit(117)+lit(97)+lit(108))) rep(0,inf,in(s)) rep(1,1,lit(58)) rep(0,inf,in(s)) group<fields>(lazy(0,inf,any)) rep(0,inf,in(s)) eol"),
       ("TAG_VALUE_VERSION_RE", "flags() bol rep(0,inf,in(s)) group<value>(rep(0,inf,group<2>(in(48-57,46)))) rep(0,inf,in(s)) group<delimiter>(rep(0,1,lit(58))) rep(0,inf,in(s)) group<description>(lazy(0,inf,any)) rep(0,inf,in(s)) eol"),
       ("TAG_VALUE_STABILITY_RE", "flags(I) bol rep(0,inf,in(s)) group<value>(rep(0,1,group<2>(alt(lit(115)+lit(116)+lit(97)+lit(98)+lit(108)+lit(101)|lit(117)+lit(110)+lit(115)+lit(116)+lit(97)+lit(98)+lit(108)+lit(101)|lit(112)+lit(114)+lit(105)+lit(118)+lit(97)+lit(116)+lit(101)|lit(105)+lit(110)+lit(116)+lit(101)+lit(114)+lit(110)+lit(97)+lit(108))))) rep(0,inf,in(s)) group<delimiter>(rep(0,1,lit(58))) rep(0,inf,in(s)) group<description>(lazy(0,inf,any)) rep(0,inf,in(s)) eol")] := by
  rfl

/-- The vocabulary tables the model and the theorems rest on. -/
theorem C10_vocabulary :
    Gen.dictAnnotations = ["array", "attributes"]
    ∧ Gen.deprecatedAnns = ["attribute", "in-out"]
    ∧ Gen.listAnnotations = Gen.allAnnotations.filter (fun a => !Gen.dictAnnotations.contains a)
    ∧ (Gen.annLPar, Gen.annRPar) = ("(", ")")
    ∧ (Gen.annInoutAlt, Gen.annInout, Gen.annAttribute, Gen.annAttributes) = ("in-out", "inout", "attribute", "attributes")
    ∧ Gen.allTags = Gen.gtkdocTags ++ Gen.deprecatedGtkdocTags ++ Gen.deprecatedGiTags ++ Gen.deprecatedGiAnnTags
    ∧ Gen.blockLiteralsMissing = []
    ∧ Gen.writerPatternShapes = ["flags() bol lit(65) lit(67) lit(84) lit(73) lit(79) lit(78) lit(58) group<1>(rep(1,inf,in(w))) lit(58) group<2>(rep(1,inf,in(w,45))+lit(46)+rep(1,inf,in(w,45))) eol"] := by
  decide +kernel

/-- Round trip of the annotation field: for every well-formed annotation list, parsing what
    the writer emits gives back exactly that list (after the annotations already present),
    consumes exactly the serialized text, reports a change iff there was an annotation, and
    logs nothing. -/
theorem C10_ann_roundtrip (col : Nat) (a : Anns) (init : Option Anns) (rest : Str)
    (hwf : wfAnns a = true) (hdisj : ∀ x ∈ a, assocHas (init.getD []) x.1 = false) (hrest : StopRest rest) :
    ∃ sp, parseAnnotations true col (serializeAnnotations a ++ rest) init =
      .ok (init.getD [] ++ a) [] (!a.isEmpty) sp (serializeAnnotations a).length [] :=
  parseAnnotations_serialize col a init rest hwf hdisj hrest

/-- Continuation: an annotation field split over several lines (each continuation line is
    parsed with the annotations collected so far, as `parse_comment_block` does) gives the
    same annotations as the single-line field. -/
def contLines (cur : Anns) : List (Nat × Str) → Anns
  | [] => cur
  | (col, l) :: ls =>
    match parseAnnotations true col l (some cur) with
    | .ok a _ true _ _ _ => contLines a ls
    | _ => cur

theorem contLines_chunks : ∀ (chunks : List (Nat × Anns)) (cur : Anns),
    (∀ c ∈ chunks, c.2 ≠ []) → (∀ c ∈ chunks, ∀ x ∈ c.2, wfAnnotation x = true) →
    nodupKeys (cur ++ (chunks.map (·.2)).flatten) = true →
    contLines cur (chunks.map (fun c => (c.1, serializeAnnotations c.2))) = cur ++ (chunks.map (·.2)).flatten
  | [], cur, _, _, _ => by simp [contLines]
  | (col, c) :: rest, cur, hne, hw, hn => by
    simp only [List.map_cons, List.flatten_cons] at hn ⊢
    obtain ⟨_, hn2, hdisj⟩ := nodupKeys_append cur (c ++ (rest.map (·.2)).flatten) hn
    obtain ⟨hnc, _, _⟩ := nodupKeys_append c _ hn2
    have hwc : wfAnns c = true := by
      simp only [wfAnns, Bool.and_eq_true, List.all_eq_true]
      exact ⟨fun x hx => hw (col, c) (by simp) x hx, hnc⟩
    obtain ⟨sp, h⟩ := parseAnnotations_serialize col c (some cur) [] hwc
      (fun x hx => hdisj x (by simp [hx])) (Or.inl rfl)
    have hcne : c ≠ [] := hne (col, c) (by simp)
    have hce : c.isEmpty = false := by cases c <;> simp_all
    simp only [List.append_nil, Option.getD_some, hce, Bool.not_false] at h
    simp only [contLines, h]
    rw [contLines_chunks rest (cur ++ c) (fun x hx => hne x (by simp [hx]))
      (fun x hx => hw x (by simp [hx])) (by rw [List.append_assoc]; exact hn)]
    simp

theorem C10_ann_continuation (col : Nat) (chunks : List (Nat × Anns)) (hne : ∀ c ∈ chunks, c.2 ≠ [])
    (hwf : wfAnns (chunks.map (·.2)).flatten = true) :
    contLines [] (chunks.map (fun c => (c.1, serializeAnnotations c.2))) = (chunks.map (·.2)).flatten ∧
    ∃ sp n, parseAnnotations true col (serializeAnnotations (chunks.map (·.2)).flatten) none =
      .ok (chunks.map (·.2)).flatten [] (!(chunks.map (·.2)).flatten.isEmpty) sp n [] := by
  obtain ⟨hw, hn⟩ := wfAnns_spec hwf
  refine ⟨?_, ?_⟩
  · have := contLines_chunks chunks [] hne
      (fun c hc x hx => hw x (List.mem_flatten.mpr ⟨c.2, List.mem_map.mpr ⟨c, hc, rfl⟩, hx⟩)) (by simpa using hn)
    simpa using this
  · obtain ⟨sp, h⟩ := parseAnnotations_serialize col _ none [] hwf (fun _ _ => rfl) (Or.inl rfl)
    exact ⟨sp, _, by simpa using h⟩

/-! ### layout -/

/-- Either line-ending convention: a comment text written with LF, CR or CRLF line endings is split into
    the same lines, hence parsed to the same result. -/
theorem C10_line_endings (ls : List Str) (hne : ls ≠ []) (hl : ∀ l ∈ ls, NoBreak l) (n : Nat) :
    commentLines (join ['\n'] ls) = ls ∧ commentLines (join ['\r'] ls) = ls ∧ commentLines (join ['\r', '\n'] ls) = ls ∧
    parseBlock (join ['\r', '\n'] ls) n = parseBlock (join ['\n'] ls) n ∧
    parseBlock (join ['\r'] ls) n = parseBlock (join ['\n'] ls) n := by
  have h1 := commentLines_join ['\n'] (Or.inl rfl) ls hne hl
  have h2 := commentLines_join ['\r'] (Or.inr (Or.inl rfl)) ls hne hl
  have h3 := commentLines_join ['\r', '\n'] (Or.inr (Or.inr rfl)) ls hne hl
  refine ⟨h1, h2, h3, ?_, ?_⟩ <;> simp only [parseBlock, h1, h2, h3]

/-- Any indentation in front of the asterisks: whatever white space precedes the asterisk, removing
    ` * ` leaves exactly the text (and nothing is reported as stray text in front of the asterisk);
    `end(0)` is the column the text starts at. -/
theorem C10_asterisk_strip (indent : Str) (sp : Char) (text : Str) (hind : ∀ x ∈ indent, isSpace x = true)
    (hsp : isSpace sp = true) :
    stripAsterisk 0 (indent ++ '*' :: sp :: text) = ([], indent.length + 2, text) ∧
    stripAsterisk 0 (indent ++ ['*']) = ([], indent.length + 1, []) := by
  unfold stripAsterisk
  rw [matchAsterisk_indent indent sp text hind hsp, matchAsterisk_bare indent hind]
  have hd : (indent ++ '*' :: sp :: text).drop (indent.length + 2) = text := by rw [drop_len_add]; rfl
  have hd2 : (indent ++ ['*']).drop (indent.length + 1) = [] := List.drop_eq_nil_of_le (by simp)
  simp [groupText, hd, hd2]

/-- Indentation behind the asterisk: a parameter line and a tag line are recognised whatever white space
    stands in front of them, with every group moved by that many columns; an empty line stays empty. -/
theorem C10_indent_lines (ws line : Str) (h : ∀ c ∈ ws, isSpace c = true) :
    matchParameter (ws ++ line) = (matchParameter line).map (shiftGroups ws.length) ∧
    matchTag (ws ++ line) = (matchTag line).map (shiftGroups ws.length) ∧
    matchEmpty (ws ++ line) = matchEmpty line :=
  ⟨matchParameter_indent ws line h, matchTag_indent ws line h, matchEmpty_indent ws line h⟩

/-! ### block level, for the grammar fragment of Spec/BlockGrammar.lean -/

/-- parse ∘ render: every layout of the writer's lines for a block model of the fragment parses — with no
    diagnostic at all — to exactly the block the property demands: identifier, annotations with their
    options, every parameter with annotations and description, the description, the `Returns:` tag, all
    with their source lines.  A layout chooses the white space in front of the asterisk SEPARATELY FOR
    EVERY LINE (uniform, ragged, staircase, tabs and spaces mixed), the white space before the two tokens,
    the white-space character after the asterisks and LF / CR / CRLF; only the recorded indentation
    (`indentsFrom L`: each line's own) depends on it. -/
theorem C10_parse_render_partial (L : Layout) (b : SBlock) (n : Nat) (hL : wfLayout L = true) (hb : wfSBlock b = true) :
    parseBlock (render L (blockImage b n [])) n =
      .ok (some (blockImage b n (indentsFrom L 0 (bodyOf b).length)), []) :=
  parseBlock_render L (wfLayout_spec hL) b (wfSBlock_spec hb) n []

/-- the block without the layout-dependent record of the indentation -/
def eraseIndent (B : BlockM) : BlockM := { B with indentation := [] }

/-- Layout independence ("any indentation in front of the asterisks", line by line): all layouts of one
    block model parse to the same block (the recorded indentation, which is the layout itself, aside) and
    to the same (empty) list of diagnostics. -/
theorem C10_layout_indep_partial (L L' : Layout) (b : SBlock) (n : Nat) (hL : wfLayout L = true)
    (hL' : wfLayout L' = true) (hb : wfSBlock b = true) :
    ∃ B B', parseBlock (render L (blockImage b n [])) n = .ok (some B, []) ∧
      parseBlock (render L' (blockImage b n [])) n = .ok (some B', []) ∧ eraseIndent B = eraseIndent B' :=
  ⟨_, _, C10_parse_render_partial L b n hL hb, C10_parse_render_partial L' b n hL' hb, rfl⟩

/-- write ∘ parse: writing the parsed block out with the project's own comment writer and parsing that
    again (the comment token ends with the closing `*/`, the writer adds the final line break) gives the
    same block; only the recorded indentation follows the writer, which puts the most common indentation
    of the source in front of every asterisk. -/
theorem C10_write_parse_partial (L : Layout) (b : SBlock) (n : Nat) (hL : wfLayout L = true) (hb : wfSBlock b = true) :
    ∃ B w B', parseBlock (render L (blockImage b n [])) n = .ok (some B, []) ∧
      writeBlock B = .ok (w ++ ['\n']) ∧ parseBlock w n = .ok (some B', []) ∧ eraseIndent B' = eraseIndent B := by
  have hLs := wfLayout_spec hL
  have hne : indentsFrom L 0 (bodyOf b).length ≠ [] := by
    have : (bodyOf b).length = ((bodyOf b).length - 1) + 1 := by
      have : 0 < (bodyOf b).length := by simp [bodyOf]
      omega
    rw [this]; simp [indentsFrom]
  obtain ⟨m, hm, hmem⟩ := mostCommon_mem _ hne
  have hWL := writerLayout_wf m (indentsFrom_ws L hLs _ 0 m hmem)
  exact ⟨_, _, _, C10_parse_render_partial L b n hL hb, writeBlock_image b n _ m hm,
    parseBlock_render (writerLayout m) hWL b (wfSBlock_spec hb) n _, rfl⟩

/-! ### block level: former violations as regressions, and the statement stretched beyond the grammar -/

def parsedBlock (s : Str) (n : Nat) : Option BlockM := ((parseBlock s n).toOption.map (·.1)).join
def parsedDiags (s : Str) (n : Nat) : Option (List BDiag) := (parseBlock s n).toOption.map (·.2)
def writtenToken (B : BlockM) : Option Str := (writeBlock B).toOption.map (fun w => w.dropLast)

/-- the three inputs on which write + parse used to change the block (an action identifier, a symbol
    named `ACTION…`, an empty option value) now come back unchanged -/
theorem C10_write_parse_regressions :
    ((parsedBlock (str "/**\n * GtkWidget|win.close\n */") 1).bind writtenToken = some (str "/**\n * GtkWidget|win.close\n */") ∧
     (parsedBlock (str "/**\n * GtkWidget|win.close\n */") 1).map (·.name) = some (str "ACTION:GtkWidget:win.close")) ∧
    ((parsedBlock (str "/**\n * ACTION_FOO: (skip)\n */") 1).bind writtenToken = some (str "/**\n * ACTION_FOO: (skip)\n */") ∧
     (parsedBlock (str "/**\n * ACTION_FOO: (skip)\n */") 1).map (·.annotations) = some [(str "skip", .list [])]) ∧
    ((parsedBlock (str "/**\n * foo: (attributes k=)\n */") 1).bind writtenToken = some (str "/**\n * foo: (attributes k=)\n */") ∧
     (parsedBlock (str "/**\n * foo: (attributes k=)\n */") 1).map (·.annotations) =
       some [(str "attributes", .dict [(str "k", some [])])]) := by
  decide +kernel

/-- the last sentence of the property stretched to EVERY text that parses to a block without a diagnostic
    (more than the property says: it speaks of blocks following the documented grammar) -/
def C10_write_parse_full : Prop :=
  ∀ (s : Str) (n : Nat) (B : BlockM), parsedBlock s n = some B → parsedDiags s n = some [] →
    ∃ w B', writtenToken B = some w ∧ parsedBlock w n = some B' ∧ eraseIndent B' = eraseIndent B

/-- witness that the stretched statement fails outside the documented grammar: a `Since:` tag without a
    value whose description stands on the next line and reads like a version.  The parser keeps it as a
    description; written on one line (the only form the writer has) it is a value. -/
theorem C10_write_parse_full_counterexample :
    (parsedBlock (str "/**\n * foo:\n *\n * Since:\n * 2.0 x\n */") 1).map (fun B => B.tags.map (fun t => (t.2.value, t.2.description))) =
      some [(none, some (str "2.0 x"))] ∧
    parsedDiags (str "/**\n * foo:\n *\n * Since:\n * 2.0 x\n */") 1 = some [] ∧
    (parsedBlock (str "/**\n * foo:\n *\n * Since:\n * 2.0 x\n */") 1).bind writtenToken =
      some (str "/**\n * foo:\n *\n * Since: 2.0 x\n */") ∧
    (parsedBlock (str "/**\n * foo:\n *\n * Since: 2.0 x\n */") 1).map (fun B => B.tags.map (fun t => (t.2.value, t.2.description))) =
      some [(some (str "2.0"), some (str "x"))] := by
  decide +kernel

theorem C10_write_parse_full_false : ¬ C10_write_parse_full := by
  intro h
  obtain ⟨h1, h2, h3, h4⟩ := C10_write_parse_full_counterexample
  cases hp : parsedBlock (str "/**\n * foo:\n *\n * Since:\n * 2.0 x\n */") 1 with
  | none => rw [hp] at h1; cases h1
  | some B =>
    obtain ⟨w, B', hw, hB', he⟩ := h _ 1 B hp h2
    rw [hp] at h1 h3
    simp only [Option.bind_some] at h3
    rw [h3] at hw
    cases hw
    rw [hB'] at h4
    simp only [Option.map_some, Option.some.injEq] at h1 h4
    have ht : B'.tags = B.tags := by
      have := congrArg (fun X : BlockM => X.tags) he
      exact this
    rw [ht, h1] at h4
    revert h4
    decide +kernel

/-! ### non-vacuity -/

example : wfAnns [(str "transfer", .list [str "full"]), (str "array", .dict [(str "length", some (str "n")), (str "zero-terminated", none)]),
    (str "foo", .list [str "free form text"]), (str "bar", .none)] = true := by decide +kernel

example : serializeAnnotations [(str "transfer", .list [str "full"]), (str "array", .dict [(str "length", some (str "n")), (str "zero-terminated", none)])]
    = str "(transfer full) (array length=n zero-terminated)" := by decide +kernel

example : parseAnnotations true 3 (str "(transfer full) (array length=n zero-terminated): text") none =
    .ok [(str "transfer", .list [str "full"]), (str "array", .dict [(str "length", some (str "n")), (str "zero-terminated", none)])]
      [] true 16 48 [] := by decide +kernel

example : StopRest (str ": a description") := Or.inr ⟨':', _, rfl, by decide, by decide, by decide⟩

example : wfAnns ([(str "in", .list [])] ++ [(str "transfer", .list [str "none"])]) = true := by decide +kernel

example : wfAnns [(str "attributes", .dict [(str "k", some []), (str "j", some (str "v"))])] = true ∧
    serializeAnnotations [(str "attributes", .dict [(str "k", some []), (str "j", some (str "v"))])] =
      str "(attributes k= j=v)" := by decide +kernel

/-- values may contain `=` (and `:` `/` `?` `.` `,`, non-ASCII): only the first `=` of `key=value` separates -/
example : wfAnns [(str "attributes", .dict [(str "doc.url", some (str "http://x/?id=3")), (str "expr", some (str "a==b")),
                                          (str "é", some (str "=中,x:y"))]),
                  (str "array", .dict [(str "length", some (str "n=len"))])] = true ∧
    parseAnnotations true 0 (str "(attributes doc.url=http://x/?id=3 expr=a==b) (array length=n=len)") none =
      .ok [(str "attributes", .dict [(str "doc.url", some (str "http://x/?id=3")), (str "expr", some (str "a==b"))]),
           (str "array", .dict [(str "length", some (str "n=len"))])] [] true 46 66 [] := by decide +kernel

/-- a block model of the fragment, a layout (tab indentation, CRLF) and the text it renders to -/
def exampleBlock : SBlock :=
  { name := str "ACTION_foo_bar", anns := [(str "skip", .list [])],
    params := [{ name := str "obj", anns := [(str "in", .list []), (str "transfer", .list [str "none"])], desc := some (str "the object") },
               { name := str "n", anns := [], desc := none }],
    desc := [str "Frobnicates the object.", str "See also baz()."],
    returns := some { name := str "returns", anns := [(str "transfer", .list [str "full"])], desc := some (str "a new value") } }

def exampleLayout : Layout :=
  { startIndent := ['\t'], indents := [], indent := ['\t', ' '], endIndent := ['\t', ' '], sp := ' ', eol := ['\r', '\n'] }

/-- a ragged layout of the same block: the tag lines and the parameter lines sit deeper than the identifier line,
    spaces and tabs mixed (the layout on which seeded change c10-a loses the `Returns:` tag) -/
def raggedLayout : Layout :=
  { startIndent := [], indents := [[' '], ['\t'], [' ', ' ', ' '], [' '], [], ['\t', ' '], [' ', ' '], ['\t', '\t']],
    indent := [' ', ' ', ' ', ' '], endIndent := [' '], sp := ' ', eol := ['\n'] }

example : wfSBlock exampleBlock = true ∧ wfLayout exampleLayout = true ∧ wfLayout raggedLayout = true := by decide +kernel

example : render raggedLayout (blockImage exampleBlock 7 []) =
    str "/**\n * ACTION_foo_bar: (skip)\n\t* @obj: (in) (transfer none): the object\n   * @n:\n *\n* Frobnicates the object.\n\t * See also baz().\n  *\n\t\t* Returns: (transfer full): a new value\n */" := by
  decide +kernel

example : (parsedBlock (render raggedLayout (blockImage exampleBlock 7 [])) 7).map eraseIndent =
    some (eraseIndent (blockImage exampleBlock 7 [])) := by decide +kernel

example : render exampleLayout (blockImage exampleBlock 7 []) =
    str "\t/**\r\n\t * ACTION_foo_bar: (skip)\r\n\t * @obj: (in) (transfer none): the object\r\n\t * @n:\r\n\t *\r\n\t * Frobnicates the object.\r\n\t * See also baz().\r\n\t *\r\n\t * Returns: (transfer full): a new value\r\n\t */" := by
  decide +kernel

example : (parsedBlock (render exampleLayout (blockImage exampleBlock 7 [])) 7).map eraseIndent =
    some (eraseIndent (blockImage exampleBlock 7 [])) := by decide +kernel

example : NoBreak (str "a line") := by intro c hc; revert c; decide

example : matchParameter (str "\t  @p: (in): x") =
    some [("parameter_name", 4, 5), ("fields", 7, 14)] ∧ (∀ c ∈ str "\t  ", isSpace c = true) := by decide +kernel

end GIVerif.AnnParse
