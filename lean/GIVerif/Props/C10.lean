/-
  C10 — Well-formed GTK-Doc comment blocks are parsed exactly.
  ONLY property theorems and non-vacuity examples live here; helper lemmas are in
  GIVerif/Lemmas/AnnParse*.lean, the executable model in GIVerif/Model/AnnParse*.lean, the
  grammar (well-formedness predicates) in GIVerif/Spec/AnnGrammar.lean.

  What is proved here (all inputs): the ANNOTATION layer of the property — tokenizer
  `_parse_annotations` / `_parse_annotation` / option parsers against the project's own
  writer `_serialize_annotations`, including continuation over several lines.
  The line matchers (layer 2) and the block state machine (layer 3) are tied to the real
  code by the differential harness and by the statement-level oracles of harness/c10.py;
  their full statements are kept below as `def ..._full : Prop`.

  Hypotheses beyond the property's wording (all from its quantifier: "tokens inside one
  annotation separated by single spaces"): `wfAnns` = names are lower-case tokens without
  white space / parentheses / angle brackets and are not the deprecated spellings
  `in-out` / `attribute` (which the parser renames by design); list options are such
  tokens without `=`; dict options are `key` or `key=value` with distinct keys and
  non-empty values; options of unknown annotations are single-space separated tokens;
  annotation names are distinct.  `StopRest`: what follows the annotations on the line is
  empty or starts with a character that is neither white space nor a parenthesis (the
  statement's "descriptions not beginning with a parenthesis"; the writer emits `:`).
  `str.lower()` is modelled character-wise (no final-sigma rule); names are required to
  be already lower-case, so this does not restrict the theorems.
-/
import GIVerif.Lemmas.AnnParseRoundtrip
import GIVerif.Lemmas.AnnParseCaret

namespace GIVerif.AnnParse
open GIVerif.Py

/-- The line patterns in the source still have the shapes the hand-written matchers of the
    model were written for (re-extracted from /repo with CPython's regex parser on every run). -/
theorem C10_pattern_shapes :
    Gen.patternShapes =
      [("LINE_BREAK_RE", "flags() alt(lit(13)+lit(10)|lit(13)|lit(10))"),
       ("COMMENT_BLOCK_START_RE", "flags() bol group<code>(lazy(0,inf,any)) rep(0,inf,in(s)) group<token>(lit(47)+rep(2,2,lit(42))+nla1(in(42,47))) rep(0,inf,in(s)) group<comment>(lazy(0,inf,any)) rep(0,inf,in(s)) eol"),
       ("COMMENT_BLOCK_END_RE", "flags() bol rep(0,inf,in(s)) group<comment>(lazy(0,inf,any)) rep(0,inf,in(s)) group<token>(rep(1,inf,lit(42))+lit(47)) group<code>(lazy(0,inf,any)) rep(0,inf,in(s)) eol"),
       ("COMMENT_ASTERISK_RE", "flags() bol rep(0,inf,in(s)) group<comment>(lazy(0,inf,any)) rep(0,inf,in(s)) lit(42) rep(0,1,in(s))"),
       ("INDENTATION_RE", "flags() bol group<indentation>(rep(0,inf,in(s))) rep(0,inf,any) eol"),
       ("EMPTY_LINE_RE", "flags() bol rep(0,inf,in(s)) eol"),
       ("SECTION_RE", "flags() bol rep(0,inf,in(s)) lit(83) lit(69) lit(67) lit(84) lit(73) lit(79) lit(78) rep(0,inf,in(s)) group<delimiter>(rep(0,1,lit(58))) rep(0,inf,in(s)) group<section_name>(in(w)+lazy(1,inf,in(S))) rep(0,inf,in(s)) rep(0,1,lit(58)) rep(0,inf,in(s)) eol"),
       ("SYMBOL_RE", "flags() bol rep(0,inf,in(s)) group<symbol_name>(rep(0,inf,in(w,45))+in(w)) rep(0,inf,in(s)) group<delimiter>(rep(0,1,lit(58))) rep(0,inf,in(s)) group<fields>(lazy(0,inf,any)) rep(0,inf,in(s)) rep(0,1,lit(58)) rep(0,inf,in(s)) eol"),
       ("PROPERTY_RE", "flags() bol rep(0,inf,in(s)) group<class_name>(rep(1,inf,in(w))) rep(0,inf,in(s)) rep(1,1,lit(58)) rep(0,inf,in(s)) group<property_name>(rep(0,inf,in(w,45))+in(w)) rep(0,inf,in(s)) group<delimiter>(rep(0,1,lit(58))) rep(0,inf,in(s)) group<fields>(lazy(0,inf,any)) rep(0,inf,in(s)) rep(0,1,lit(58)) rep(0,inf,in(s)) eol"),
       ("SIGNAL_RE", "flags() bol rep(0,inf,in(s)) group<class_name>(rep(1,inf,in(w))) rep(0,inf,in(s)) rep(2,2,lit(58)) rep(0,inf,in(s)) group<signal_name>(rep(0,inf,in(w,45))+in(w)) rep(0,inf,in(s)) group<delimiter>(rep(0,1,lit(58))) rep(0,inf,in(s)) group<fields>(lazy(0,inf,any)) rep(0,inf,in(s)) rep(0,1,lit(58)) rep(0,inf,in(s)) eol"),
       ("ACTION_RE", "flags() bol rep(0,inf,in(s)) group<class_name>(rep(1,inf,in(w))) rep(0,inf,in(s)) rep(1,1,lit(124)) rep(0,inf,in(s)) group<action_name>(rep(1,inf,in(w,45))+lit(46)+rep(1,inf,in(w,45))) rep(0,inf,in(s)) group<delimiter>(rep(0,1,lit(58))) rep(0,inf,in(s)) group<fields>(lazy(0,inf,any)) rep(0,inf,in(s)) rep(0,1,lit(58)) rep(0,inf,in(s)) eol"),
       ("FIELD_RE", "flags() bol rep(0,inf,in(s)) group<class_name>(rep(1,inf,in(w))) rep(0,inf,in(s)) rep(1,1,lit(46)) rep(0,inf,in(s)) group<field_name>(rep(0,inf,in(w,45))+in(w)) rep(0,inf,in(s)) group<delimiter>(rep(0,1,lit(58))) rep(0,inf,in(s)) group<fields>(lazy(0,inf,any)) rep(0,inf,in(s)) rep(0,1,lit(58)) rep(0,inf,in(s)) eol"),
       ("PARAMETER_RE", "flags() bol rep(0,inf,in(s)) lit(64) group<parameter_name>(alt(rep(0,inf,in(w,45))+in(w)|lazy(0,inf,any)+lit(46)+lit(46)+lit(46))) rep(0,inf,in(s)) rep(1,1,lit(58)) rep(0,inf,in(s)) group<fields>(lazy(0,inf,any)) rep(0,inf,in(s)) eol"),
       ("TAG_RE", "flags(I) bol rep(0,inf,in(s)) group<tag_name>(alt(lit(100)+lit(101)+lit(112)+lit(114)+lit(101)+lit(99)+lit(97)+lit(116)+lit(101)+lit(100)|lit(114)+lit(101)+lit(116)+lit(117)+lit(114)+lit(110)+lit(115)|lit(115)+lit(105)+lit(110)+lit(99)+lit(101)|lit(115)+lit(116)+lit(97)+lit(98)+lit(105)+lit(108)+lit(105)+lit(116)+lit(121)|lit(100)+lit(101)+lit(115)+lit(99)+lit(114)+lit(105)+lit(112)+lit(116)+lit(105)+lit(111)+lit(110)|lit(114)+lit(101)+lit(116)+lit(117)+lit(114)+lit(110)+in(s)+lit(118)+lit(97)+lit(108)+lit(117)+lit(101)|lit(114)+lit(101)+lit(116)+lit(117)+lit(114)+lit(110)|lit(114)+lit(101)+lit(116)+lit(117)+lit(114)+lit(110)+lit(115)+in(s)+lit(118)+lit(97)+lit(108)+lit(117)+lit(101)|lit(97)+lit(116)+lit(116)+lit(114)+lit(105)+lit(98)+lit(117)+lit(116)+lit(101)+lit(115)|lit(103)+lit(101)+lit(116)+in(s)+lit(118)+lit(97)+lit(108)+lit(117)+lit(101)+in(s)+lit(102)+lit(117)+lit(110)+lit(99)|lit(114)+lit(101)+lit(102)+in(s)+lit(102)+lit(117)+lit(110)+lit(99)|lit(114)+lit(101)+lit(110)+lit(97)+lit(109)+lit(101)+in(s)+lit(116)+lit(111)|lit(115)+lit(101)+lit(116)+in(s)+lit(118)+lit(97)+lit(108)+lit(117)+lit(101)+in(s)+lit(102)+lit(117)+lit(110)+lit(99)|lit(116)+lit(114)+lit(97)+lit(110)+lit(115)+lit(102)+lit(101)+lit(114)|lit(116)+lit(121)+lit(112)+lit(101)|lit(117)+lit(110)+lit(114)+lit(101)+lit(102)+in(s)+lit(102)+lit(117)+lit(110)+lit(99)|lit(118)+lit(97)+lit(108)+lit(117)+lit(101)|lit(118)+lit(105)+lit(114)+lit(116)+lit(117)+lit(97)+lit(108))) rep(0,inf,in(s)) rep(1,1,lit(58)) rep(0,inf,in(s)) group<fields>(lazy(0,inf,any)) rep(0,inf,in(s)) eol"),
       ("TAG_VALUE_VERSION_RE", "flags() bol rep(0,inf,in(s)) group<value>(rep(0,inf,group<2>(in(48-57,46)))) rep(0,inf,in(s)) group<delimiter>(rep(0,1,lit(58))) rep(0,inf,in(s)) group<description>(lazy(0,inf,any)) rep(0,inf,in(s)) eol"),
       ("TAG_VALUE_STABILITY_RE", "flags(I) bol rep(0,inf,in(s)) group<value>(rep(0,1,group<2>(alt(lit(115)+lit(116)+lit(97)+lit(98)+lit(108)+lit(101)|lit(117)+lit(110)+lit(115)+lit(116)+lit(97)+lit(98)+lit(108)+lit(101)|lit(112)+lit(114)+lit(105)+lit(118)+lit(97)+lit(116)+lit(101)|lit(105)+lit(110)+lit(116)+lit(101)+lit(114)+lit(110)+lit(97)+lit(108))))) rep(0,inf,in(s)) group<delimiter>(rep(0,1,lit(58))) rep(0,inf,in(s)) group<description>(lazy(0,inf,any)) rep(0,inf,in(s)) eol")] := by
  rfl

/-- The vocabulary tables the model and the theorems rest on. -/
theorem C10_vocabulary :
    Gen.dictAnnotations = ["array", "attributes"]
    ∧ Gen.deprecatedAnns = ["attribute", "in-out"]
    ∧ Gen.listAnnotations = Gen.allAnnotations.filter (fun a => !Gen.dictAnnotations.contains a)
    ∧ (Gen.annLPar, Gen.annRPar) = ("(", ")")
    ∧ (Gen.annInoutAlt, Gen.annInout, Gen.annAttribute, Gen.annAttributes) = ("in-out", "inout", "attribute", "attributes")
    ∧ Gen.allTags = Gen.gtkdocTags ++ Gen.deprecatedGtkdocTags ++ Gen.deprecatedGiTags ++ Gen.deprecatedGiAnnTags := by
  decide +kernel

/-- Round trip of the annotation field: for every well-formed annotation list, parsing what
    the writer emits gives back exactly that list (after the annotations already present),
    consumes exactly the serialized text, reports a change iff there was an annotation, and
    logs nothing. -/
theorem C10_ann_roundtrip (col : Nat) (a : Anns) (init : Option Anns) (rest : Str)
    (hwf : wfAnns a = true) (hdisj : ∀ x ∈ a, assocHas (init.getD []) x.1 = false) (hrest : StopRest rest) :
    ∃ sp, parseAnnotations true col (serializeAnnotations a ++ rest) init =
      .ok (init.getD [] ++ a) [] (!a.isEmpty) sp (serializeAnnotations a).length [] :=
  parseAnnotations_serialize col a init rest hwf hdisj hrest

/-- Continuation: an annotation field split over several lines (each continuation line is
    parsed with the annotations collected so far, as `parse_comment_block` does) gives the
    same annotations as the single-line field. -/
def contLines (cur : Anns) : List (Nat × Str) → Anns
  | [] => cur
  | (col, l) :: ls =>
    match parseAnnotations true col l (some cur) with
    | .ok a _ true _ _ _ => contLines a ls
    | _ => cur

theorem contLines_chunks : ∀ (chunks : List (Nat × Anns)) (cur : Anns),
    (∀ c ∈ chunks, c.2 ≠ []) → (∀ c ∈ chunks, ∀ x ∈ c.2, wfAnnotation x = true) →
    nodupKeys (cur ++ (chunks.map (·.2)).flatten) = true →
    contLines cur (chunks.map (fun c => (c.1, serializeAnnotations c.2))) = cur ++ (chunks.map (·.2)).flatten
  | [], cur, _, _, _ => by simp [contLines]
  | (col, c) :: rest, cur, hne, hw, hn => by
    simp only [List.map_cons, List.flatten_cons] at hn ⊢
    obtain ⟨_, hn2, hdisj⟩ := nodupKeys_append cur (c ++ (rest.map (·.2)).flatten) hn
    obtain ⟨hnc, _, _⟩ := nodupKeys_append c _ hn2
    have hwc : wfAnns c = true := by
      simp only [wfAnns, Bool.and_eq_true, List.all_eq_true]
      exact ⟨fun x hx => hw (col, c) (by simp) x hx, hnc⟩
    obtain ⟨sp, h⟩ := parseAnnotations_serialize col c (some cur) [] hwc
      (fun x hx => hdisj x (by simp [hx])) (Or.inl rfl)
    have hcne : c ≠ [] := hne (col, c) (by simp)
    have hce : c.isEmpty = false := by cases c <;> simp_all
    simp only [List.append_nil, Option.getD_some, hce, Bool.not_false] at h
    simp only [contLines, h]
    rw [contLines_chunks rest (cur ++ c) (fun x hx => hne x (by simp [hx]))
      (fun x hx => hw x (by simp [hx])) (by rw [List.append_assoc]; exact hn)]
    simp

theorem C10_ann_continuation (col : Nat) (chunks : List (Nat × Anns)) (hne : ∀ c ∈ chunks, c.2 ≠ [])
    (hwf : wfAnns (chunks.map (·.2)).flatten = true) :
    contLines [] (chunks.map (fun c => (c.1, serializeAnnotations c.2))) = (chunks.map (·.2)).flatten ∧
    ∃ sp n, parseAnnotations true col (serializeAnnotations (chunks.map (·.2)).flatten) none =
      .ok (chunks.map (·.2)).flatten [] (!(chunks.map (·.2)).flatten.isEmpty) sp n [] := by
  obtain ⟨hw, hn⟩ := wfAnns_spec hwf
  refine ⟨?_, ?_⟩
  · have := contLines_chunks chunks [] hne
      (fun c hc x hx => hw x (List.mem_flatten.mpr ⟨c.2, List.mem_map.mpr ⟨c, hc, rfl⟩, hx⟩)) (by simpa using hn)
    simpa using this
  · obtain ⟨sp, h⟩ := parseAnnotations_serialize col _ none [] hwf (fun _ _ => rfl) (Or.inl rfl)
    exact ⟨sp, _, by simpa using h⟩

/-! ### block level: full statements, VALIDATED on the real code, not proved

The Lean model stops at the tokenizer (layer 1) and the line matchers (layer 2).  The
block-level conjuncts of the property are kept here at full strength over the functions the
model does not define (`parseBlock` = `parse_comment_block`, `render` = any documented
layout, `writeBlock` = `GtkDocCommentBlockWriter.write`); harness/c10.py evaluates exactly
these statements on the real parser and writer for generated block models. -/

/-- a parameter or tag part -/
structure Part where
  name : Str
  annotations : Anns
  value : Option Str
  description : Option Str

/-- what the property calls "the block" -/
structure Block where
  name : Str
  annotations : Anns
  params : List Part
  description : Option Str
  tags : List Part

def C10_parse_render_full {Layout : Type} (parseBlock : Str → Option Block) (render : Layout → Block → Str)
    (WFBlock : Block → Prop) : Prop :=
  ∀ (L : Layout) (b : Block), WFBlock b → parseBlock (render L b) = some b

def C10_layout_indep_full {Layout : Type} (parseBlock : Str → Option Block) (render : Layout → Block → Str)
    (WFBlock : Block → Prop) : Prop :=
  ∀ (L L' : Layout) (b : Block), WFBlock b → parseBlock (render L b) = parseBlock (render L' b)

def C10_write_parse_full {Layout : Type} (parseBlock : Str → Option Block) (writeBlock : Block → Str)
    (render : Layout → Block → Str) (WFBlock : Block → Prop) : Prop :=
  ∀ (L : Layout) (b : Block), WFBlock b →
    (parseBlock (render L b)).bind (fun p => parseBlock (writeBlock p)) = parseBlock (render L b)

/-! ### non-vacuity -/

example : wfAnns [(str "transfer", .list [str "full"]), (str "array", .dict [(str "length", some (str "n")), (str "zero-terminated", none)]),
    (str "foo", .list [str "free form text"]), (str "bar", .none)] = true := by decide +kernel

example : serializeAnnotations [(str "transfer", .list [str "full"]), (str "array", .dict [(str "length", some (str "n")), (str "zero-terminated", none)])]
    = str "(transfer full) (array length=n zero-terminated)" := by decide +kernel

example : parseAnnotations true 3 (str "(transfer full) (array length=n zero-terminated): text") none =
    .ok [(str "transfer", .list [str "full"]), (str "array", .dict [(str "length", some (str "n")), (str "zero-terminated", none)])]
      [] true 16 48 [] := by decide +kernel

example : StopRest (str ": a description") := Or.inr ⟨':', _, rfl, by decide, by decide, by decide⟩

example : wfAnns ([(str "in", .list [])] ++ [(str "transfer", .list [str "none"])]) = true := by decide +kernel

end GIVerif.AnnParse
