/-
  C07 — GIR files survive a read/write cycle unchanged.
  ONLY property theorems and non-vacuity examples live here; the executable model is
  GIVerif/Model/GirCodec.lean (mirrors giscanner/girwriter.py and giscanner/girparser.py at the
  XML tree level), helper lemmas are in GIVerif/Lemmas/GirCodec.lean, the vocabulary tables in
  GIVerif/Gen/GirVocabRW.lean are re-extracted from the two Python files on every run.

  What is proved, for ALL values of the modelled fragment (types, parameters, return values and
  everything written through `GIRWriter._write_callable`: function, function-inline, method,
  method-inline, constructor, virtual-method, callback — and through `_write_signal`: glib:signal — with
  their doc children, attributes, source positions, version / deprecated / stability / introspectable
  attributes; and the members of a record / union: `_write_field`, `_parse_fields`, `_parse_field`, the
  array-length loop of `_parse_compound`):
    * C07_vocab                every attribute / child / text the writer can emit on an element is read by the
                               reader for that element, up to the listed, justified exceptions;
    * C07_type_roundtrip, C07_param_roundtrip, C07_callable_roundtrip
                               parse (write m) = canon m, and = m when m is canonical (`_exact`);
    * C07_fixpoint             write (parse (write m)) = write m;
    * C07_members_roundtrip    parse (write ms) = canon ms for the member list of a record / union: typed fields,
                               fields holding a callback, anonymous struct / union members, array lengths resolved
                               back to FIELD names.
  Whole-file byte identity for every node kind is VALIDATED on the real code by harness/c07.py, not proved.

  Hypotheses beyond the property's wording (all decidable, evaluated by the harness through the
  driver on every value it generates or reads back from the real code):
    * `wfTy`: a type reference names a fundamental type of `ast.type_names` or a GI name that is not
      itself spelled like a fundamental / GLib.List / GLib.SList / GLib.HashTable; array types are one
      of the four known kinds; a GLib.List's element is not varargs (the reader spells that child name
      `'    varargs'`; no scanner code path builds such a list: C07_type_list_varargs_counterexample);
      `target_foreign` is unset (no scanner code path sets it; the reader ignores the attribute:
      C07_type_foreign_counterexample).  These are representation invariants of `ast.Type`, checked by the harness
      on every callable and member list of every scanned namespace; none of them excludes a scanner-producible input.
    * `wfDocs`: attribute names are distinct (an OrderedDict), only `ast.Node`s have source positions.
    * `wfParam`: `direction` is not the empty string.
    * `wfCallable`: the instance parameter carries no closure / destroy / array length (the reader resolves
      them only for `<parameter>`; maintransformer only puts them on callback-typed parameters), fields of
      the other classes are unset (a signal has no throws / finish-func / sync-func / async-func: `_write_signal`
      does not write them and no scanner code path sets them).
    * `wfMember`: the type / callback of the member is well-formed as above; an anonymous member is a record or a union.
    * the write succeeded (`= .ok x`): `doc` implies `doc_position`, referenced parameter names exist,
      nested arrays have no length.
  What the format cannot carry is folded by `canon*` and stated by C07_canon_*: `complete_ctype` vs
  `ctype`, `not_nullable`, `direction = None` vs `'in'`, `caller_allocates` of in-parameters, `skip` of a
  node (one `introspectable` attribute), falsy (empty) optional strings, column 0, the `ast.Field` attributes of
  an anonymous struct / union member (only its `anonymous_node` is written), and an unset `transfer`
  of a SKIPPED return value (written as the mandatory `transfer-ownership="none"`: C07_canon_return).
  `int()` is modelled on ASCII decimal literals; file names are taken relative to the source roots.
-/
import GIVerif.Lemmas.GirCodec
import GIVerif.Lemmas.GirMembers
import GIVerif.Gen.GirVocabRW
import GIVerif.Gen.GirReaderState

namespace GIVerif.GirCodec
open GIVerif.Py
open GIVerif.Gen.GirVocabRW

/-! ### vocabulary: what the writer can emit is read -/

/-- Written but deliberately not read, with the reason.  `"*"` = on every element. -/
def vocabExceptions : List (String × String × String) := [
  -- XML namespace declarations: consumed by the XML parser, re-emitted unconditionally by the writer
  ("attr", "repository", "xmlns"), ("attr", "repository", "xmlns:c"), ("attr", "repository", "xmlns:doc"),
  ("attr", "repository", "xmlns:glib"),
  -- a whitespace hint for XML tools, re-emitted unconditionally with every doc element
  ("attr", "doc", "xml:space"), ("attr", "doc-version", "xml:space"), ("attr", "doc-deprecated", "xml:space"),
  ("attr", "doc-stability", "xml:space"),
  -- derived: written iff `deprecated-version` or `<doc-deprecated>` is present, which the reader does read
  ("attr", "*", "deprecated"),
  -- `_write_parameter` is shared with `<parameter>`; closure / destroy only ever sit on callback-typed
  -- parameters (maintransformer rejects them elsewhere) and the instance parameter is never one
  ("attr", "instance-parameter", "closure"), ("attr", "instance-parameter", "destroy"),
  -- `Type.target_foreign` is never set by any scanner code path; see C07_type_foreign_counterexample
  ("attr", "type", "foreign")]

def tableGet (tbl : List (String × List String)) (e : String) : List String := (tbl.lookup e).getD []

def excused (ex : List (String × String × String)) (kind e n : String) : Bool :=
  ex.contains (kind, e, n) || ex.contains (kind, "*", n)

/-- everything in `w` is in `r`, or listed -/
def coveredBy (kind : String) (ex : List (String × String × String)) (w r : List (String × List String)) : Bool :=
  w.all fun p => p.2.all fun n => (tableGet r p.1).contains n || excused ex kind p.1 n

/-- a listed entry that is in fact read (or no longer written) would hide nothing: reject stale entries -/
def entryLive (kind : String) (w r : List (String × List String)) (x : String × String × String) : Bool :=
  x.1 != kind ||
    (if x.2.1 = "*" then w.any fun p => p.2.contains x.2.2 && !(tableGet r p.1).contains x.2.2
     else (tableGet w x.2.1).contains x.2.2 && !(tableGet r x.2.1).contains x.2.2)

def vocabOK (ex : List (String × String × String)) : Bool :=
  coveredBy "attr" ex wAttrs rAttrs && coveredBy "child" ex wChildren rChildren
  && wText.all (fun e => rText.contains e)
  && ex.all (fun x => entryLive "attr" wAttrs rAttrs x && entryLive "child" wChildren rChildren x)

/-- W ⊆ R for every element, attribute, child and text, up to the justified exceptions; every listed
    exception is live (really written and really not read). -/
theorem C07_vocab : vocabOK vocabExceptions = true := by decide

-- `<glib:boxed>`: the static functions `_write_boxed` writes are read by `_parse_boxed` (fixed by 8ec1ba5)
example : (tableGet wChildren "glib:boxed").contains "function" = true ∧
    (tableGet rChildren "glib:boxed").contains "function" = true := by decide

/-! ### types -/

/-- reading the type child of an element the way the reader does for parameters, return values and
    fields: `_parse_type(node)` followed by `_parse_type_array_length(siblings, node, type)` -/
def readType (ns : Str) (siblings : List (Option Str)) (kids : List Xml) : Except Err Ty :=
  match parseType ns kids with
  | .error e => .error e
  | .ok t => parseTypeArrayLength siblings kids t

/-- ∀ t, WFTy t → parseType (writeType t) = canon t: next to any doc children, with the length index
    resolved back to the parameter (field) name, at every nesting depth. -/
theorem C07_type_roundtrip (ns : Str) (names : List (Option Str)) (t : Ty) (x : Xml) (dk : List Xml)
    (hwf : wfTy ns t = true) (hw : writeType ns (some names) t = .ok x) (hdk : DocKids dk) :
    readType ns names (dk ++ [x]) = .ok (canonTy t) := by
  obtain ⟨h1, h2⟩ := parse_top_type ns names t x dk hwf hw hdk.noTypeTags (hdk.ne _ (by decide))
  simp only [readType, h1, h2]

/-- … and exactly `t` for a type that carries nothing the format cannot express
    (`complete_ctype` unset, no empty strings: `canonTy t = t`). -/
theorem C07_type_roundtrip_exact (ns : Str) (names : List (Option Str)) (t : Ty) (x : Xml)
    (hwf : wfTy ns t = true) (hc : canonTy t = t) (hw : writeType ns (some names) t = .ok x) :
    readType ns names [x] = .ok t := by
  have := C07_type_roundtrip ns names t x [] hwf hw (fun _ h => by cases h)
  rwa [hc] at this

/-- the inner level alone (`_parse_type_simple`), for any parent: everything but the length index -/
theorem C07_type_simple_roundtrip (ns : Str) (parent : Option (List (Option Str))) (t : Ty) (x : Xml)
    (hwf : wfTy ns t = true) (hw : writeType ns parent t = .ok x) :
    parseTypeSimple ns x = .ok (dropLen (canonTy t)) :=
  parse_write_type ns t parent x hwf hw

/-- what `canonTy` changes is invisible to the writer -/
theorem C07_canon_type_same_output (ns : Str) (parent : Option (List (Option Str))) (t : Ty) :
    writeType ns parent (canonTy t) = writeType ns parent t := write_canonTy ns t parent

/-- index -> name -> index: the `length` / `closure` / `destroy` index written for a name reads back as
    that name (first parameter of that name: no uniqueness needed in this direction) -/
theorem C07_index_name (names : List (Option Str)) (n : Str) (i : Nat) (h : getIndex names n = .ok i) :
    resolveIndex names (showNat i) = .ok (some n) := resolveIndex_showNat names n i h

def nsFoo : Str := "Foo".toList
def tyUtf8 : Ty := .plain none none (.fundamental "utf8".toList)
def tyMapArr : Ty := .map (some "GHashTable*".toList) none tyUtf8 (.array none none none true none none tyUtf8)

def isOkEq (r : Except Err Ty) (t : Ty) : Bool :=
  match r with
  | .ok t' => t' == t
  | .error _ => false

-- `(element-type utf8 GStrv)` on a GHashTable: the `<array>` nested in the GLib.HashTable type is read back
-- (fixed by 4965d4a; harness corpus `finding-map-array.json` is the regression on the real code)
example : wfTy nsFoo tyMapArr = true ∧
    (match writeType nsFoo (some []) tyMapArr with
     | .ok x => isOkEq (readType nsFoo [] [x]) (canonTy tyMapArr)
     | .error _ => false) = true := by decide

/-- not producible by the scanner (no code sets `target_foreign`), but shows why `wfTy` excludes it:
    `foreign="1"` is written and never read -/
theorem C07_type_foreign_counterexample :
    (match writeType nsFoo (some []) (.plain (some "cairo_t*".toList) none (.foreign "x".toList)) with
     | .ok x => isOkEq (readType nsFoo [] [x]) (.plain (some "cairo_t*".toList) none .none)
     | .error _ => false) = true := by decide

/-- a `<varargs/>` inside a GLib.List is not recognised by the reader (`'    varargs'` in the source) -/
theorem C07_type_list_varargs_counterexample :
    (match writeType nsFoo (some []) (.list none none (some sList) .varargs) with
     | .ok x => isOkEq (readType nsFoo [] [x]) (.list none none (some sList) tyAny)
     | .error _ => false) = true := by decide

/-! ### parameters -/

/-- `parse (write p) = canon p` for a parameter inside its callable: `_parse_parameter`, then the
    index pass of `_parse_function_common` with the same parameter names. -/
theorem C07_param_roundtrip (ns : Str) (names : List (Option Str)) (p : Param) (x : Xml)
    (hwf : wfParam ns p = true) (hw : writeParam ns names "parameter" p = .ok x) :
    parseParam ns x = .ok (canonParam0 p) ∧ resolveParam names (x, canonParam0 p) = .ok (canonParam p) :=
  (parse_write_param ns names "parameter" p x hw hwf).2

/-- … and exactly `p` when `p` is canonical -/
theorem C07_param_roundtrip_exact (ns : Str) (names : List (Option Str)) (p : Param) (x : Xml)
    (hwf : wfParam ns p = true) (hc : canonParam p = p) (hw : writeParam ns names "parameter" p = .ok x) :
    ∃ p0, parseParam ns x = .ok p0 ∧ resolveParam names (x, p0) = .ok p := by
  have := C07_param_roundtrip ns names p x hwf hw
  rw [hc] at this
  exact ⟨_, this.1, this.2⟩

/-- what is lost is exactly: `not_nullable` (the format has no way to say it — a parameter that is
    nullable AND not_nullable reads back as not nullable), `direction = None`, `caller_allocates` of
    an in-parameter, `complete_ctype`, falsy strings.  Everything else is kept. -/
theorem C07_canon_param (p : Param) :
    (canonParam p).argname = p.argname ∧ (canonParam p).optional = p.optional ∧ (canonParam p).skip = p.skip ∧
    (canonParam p).closureName = p.closureName ∧ (canonParam p).destroyName = p.destroyName ∧
    (canonParam p).notNullable = false ∧ (canonParam p).nullable = (p.nullable && !p.notNullable) ∧
    (canonParam p).direction = some (p.direction.getD sIn) ∧
    (p.notNullable = false → (canonParam p).nullable = p.nullable) := by
  refine ⟨rfl, rfl, rfl, rfl, rfl, rfl, rfl, rfl, ?_⟩
  intro h
  simp [canonParam, h]

/-- a return value keeps its type, skip flag and a truthy transfer; an unset transfer stays unset unless
    the return value is skipped, in which case it reads back as `none` (`ast.PARAM_TRANSFER_NONE`) -/
theorem C07_canon_return (r : Return) :
    (canonReturn r).skip = r.skip ∧ (canonReturn r).nullable = (r.nullable && !r.notNullable) ∧
    (truthy r.transfer = true → (canonReturn r).transfer = r.transfer) ∧
    (truthy r.transfer = false → r.skip = false → (canonReturn r).transfer = none) ∧
    (truthy r.transfer = false → r.skip = true → (canonReturn r).transfer = some "none".toList) := by
  refine ⟨rfl, rfl, ?_, ?_, ?_⟩
  · intro h; simp only [canonReturn, returnTransfer, h, ↓reduceIte]
  · intro h hs; simp [canonReturn, returnTransfer, h, hs, optIf]
  · intro h hs; simp [canonReturn, returnTransfer, h, hs, optIf, sTransferNone]

theorem C07_canon_param_same_output (ns : Str) (names : List (Option Str)) (nodename : String) (p : Param) :
    writeParam ns names nodename (canonParam p) = writeParam ns names nodename p :=
  write_canonParam ns names nodename p

/-! ### callables -/

/-- `parse (write c) = canon c` for everything written through `_write_callable`: attributes, doc
    children, source position, return value, instance parameter, parameters with closure / destroy /
    array-length indices resolved back to names. -/
theorem C07_callable_roundtrip (ns : Str) (c : Callable) (x : Xml)
    (hwf : wfCallable ns c = true) (hw : writeCallable ns c = .ok x) :
    parseCallable ns c.klass x = .ok (canonCallable c) :=
  parse_write_callable ns c x hw hwf

theorem C07_callable_roundtrip_exact (ns : Str) (c : Callable) (x : Xml)
    (hwf : wfCallable ns c = true) (hc : canonCallable c = c) (hw : writeCallable ns c = .ok x) :
    parseCallable ns c.klass x = .ok c := by
  have := C07_callable_roundtrip ns c x hwf hw
  rwa [hc] at this

theorem C07_canon_callable_same_output (ns : Str) (c : Callable) :
    writeCallable ns (canonCallable c) = writeCallable ns c := write_canonCallable ns c

/-! ### the write fixed point -/

/-- write (parse (write c)) = write c: what the writer produced is read, and writing what was read
    produces the same tree again (and therefore so does every further cycle: w1 = w2 = w3 = …). -/
theorem C07_fixpoint (ns : Str) (c : Callable) (x : Xml)
    (hwf : wfCallable ns c = true) (hw : writeCallable ns c = .ok x) :
    ∃ c', parseCallable ns c.klass x = .ok c' ∧ writeCallable ns c' = .ok x :=
  ⟨canonCallable c, C07_callable_roundtrip ns c x hwf hw, by rw [write_canonCallable]; exact hw⟩

/-! ### non-vacuity -/

def exDocs : Docs :=
  { attributes := [(some "k".toList, some "v w".toList), (some "org.x".toList, some [])],
    doc := some "Some  doc\twith <b> & \n\nsecond paragraph ".toList,
    docPos := some ⟨"foo.c".toList, some "102".toList, none⟩,
    deprecatedDoc := some "Use other".toList, mainPos := some ⟨"foo.h".toList, 40, none⟩ }

def exParamArr : Param :=
  { argname := some "a".toList,
    ty := .array (some "int*".toList) (some "const int*".toList) none false (some 4) (some "n".toList)
            (.plain (some "int".toList) none (.fundamental "gint".toList)),
    direction := some "out".toList, transfer := some "full".toList, nullable := true, notNullable := false,
    optional := true, scope := none, callerAllocates := true, closureName := none, destroyName := none, skip := false,
    docs := { doc := some "the <array>".toList, docPos := some ⟨"foo.c".toList, some "103".toList, some "7".toList⟩ } }

def exParamN : Param :=
  { argname := some "n".toList, ty := .plain (some "gsize".toList) none (.fundamental "gsize".toList), direction := none,
    transfer := some "none".toList, nullable := false, notNullable := false, optional := false, scope := none,
    callerAllocates := false, closureName := none, destroyName := none, skip := false, docs := {} }

def exParamCb : Param :=
  { argname := some "cb".toList, ty := .plain (some "FooCb".toList) none (.giname "Foo.Cb".toList),
    direction := some "in".toList, transfer := some "none".toList, nullable := true, notNullable := true,
    optional := false, scope := some "notified".toList, callerAllocates := false, closureName := some "data".toList,
    destroyName := some "notify".toList, skip := false, docs := {} }

def exParamData : Param :=
  { exParamN with argname := some "data".toList, ty := .plain (some "gpointer".toList) none (.fundamental "gpointer".toList),
                  nullable := true }

def exParamNotify : Param :=
  { exParamN with argname := some "notify".toList,
                  ty := .plain (some "GDestroyNotify".toList) none (.giname "GLib.DestroyNotify".toList),
                  scope := some "async".toList }

def exCallable : Callable :=
  { klass := .function, tag := "method", name := "frob".toList,
    retval := { ty := .list (some "GList*".toList) none (some sList)
                        (.map none none tyUtf8 (.plain (some "FooBar*".toList) none (.giname "Foo.Bar".toList))),
                transfer := some "container".toList, nullable := true, notNullable := false, skip := false, docs := {} },
    params := [exParamArr, exParamN, exParamCb, exParamData, exParamNotify],
    instanceParam := some { exParamN with argname := some "self".toList,
                                          ty := .plain (some "FooObj*".toList) none (.giname "Foo.Obj".toList) },
    throws := true, version := some "1.2".toList, skip := true, introspectable := true,
    deprecated := some "1.4".toList, stability := some "Unstable".toList, docs := exDocs,
    finishFunc := some "frob_finish".toList, syncFunc := none, asyncFunc := none,
    symbol := some "foo_obj_frob".toList, shadowedBy := none, shadows := some "frob_full".toList, movedTo := none,
    setProperty := none, getProperty := some "frobbed".toList, invoker := none, ctype := none }

def exSignal : Callable :=
  { exCallable with klass := .signal, tag := "glib:signal", name := "row-added".toList, instanceParam := none, throws := false,
                    finishFunc := none, symbol := none, shadows := none, getProperty := none,
                    when := some "last".toList, detailed := true, noHooks := true, emitter := some "frob".toList }

def isOk {α : Type} : Except Err α → Bool
  | .ok _ => true
  | .error _ => false

-- the hypotheses of the round-trip theorems hold on a callable with an array length index, a
-- closure and destroy index, docs with special characters, a nested list/map type, nullable + not_nullable
example : wfCallable nsFoo exCallable = true ∧ isOk (writeCallable nsFoo exCallable) = true := by decide
-- it is not canonical (skip, not_nullable, complete_ctype, direction None are folded) …
example : canonCallable exCallable ≠ exCallable := by decide
-- … but its canonical form is, so the exact theorem applies to it as well
example : canonCallable (canonCallable exCallable) = canonCallable exCallable ∧
    wfCallable nsFoo (canonCallable exCallable) = true := by decide
example : (match writeCallable nsFoo exCallable with
    | .ok x => (match parseCallable nsFoo .function x with
      | .ok c' => c' == canonCallable exCallable && isOk (writeCallable nsFoo c')
      | .error _ => false)
    | .error _ => false) = true := by decide
-- a signal with an array length, closure and destroy indices, when / detailed / no-hooks / emitter
example : wfCallable nsFoo exSignal = true ∧ (match writeCallable nsFoo exSignal with
    | .ok x => (match parseCallable nsFoo .signal x with
      | .ok c' => c' == canonCallable exSignal && isOk (writeCallable nsFoo c')
      | .error _ => false)
    | .error _ => false) = true := by decide
example : wfTy nsFoo exParamArr.ty = true ∧ canonTy exParamArr.ty ≠ exParamArr.ty := by decide
example : getIndex (paramNames exCallable.params) "notify".toList = .ok 4 := by rfl
example : parseInt (showInt (-1203)) = .ok (-1203) := by rfl
example : DocKids [Xml.elem "doc" [] [] none, Xml.elem "attribute" [] [] none] := by
  intro x hx
  simp only [List.mem_cons, List.not_mem_nil, or_false] at hx
  rcases hx with rfl | rfl <;> decide

/-! ### members of a record / union (`_write_field`, `_parse_fields`, `_parse_field`, the length loop of `_parse_compound`) -/

/-- `parse (write ms) = canon ms` for the members of a record / union — typed fields with every attribute,
    doc children and the `length` index resolved back to the FIELD name, fields holding a callback, anonymous
    struct / union members — between any other children (`pre`: the compound's own doc children, `post`: its
    methods and functions). -/
theorem C07_members_roundtrip (ns : Str) (ms : List Member) (xs pre post : List Xml)
    (hwf : ms.all (wfMember ns) = true) (hw : writeMembers ns ms = .ok xs)
    (hpre : NoMemberTags pre) (hpost : NoMemberTags post) :
    parseMembers ns (pre ++ xs ++ post) = .ok (ms.map canonMember) := by
  have hF := mapMExcept_forall2 _ _ _ hw
  have hall : ∀ m ∈ ms, wfMember ns m = true := by rw [List.all_eq_true] at hwf; exact hwf
  have hxm : ∀ x ∈ xs, memberTags.contains x.tag = true :=
    forall2_right _ _ _ _ hF (fun a y ha hr => (parse_write_member ns _ a y hr (hall a ha)).1)
  have h1 : memberNodes (pre ++ xs ++ post) = xs := filter_append3 _ pre xs post hpre hxm hpost
  have hp0 : mapMExcept (parseMember ns) xs = .ok (ms.map canonMember0) :=
    mapMExcept_of_forall2 _ _ _ _ _ hF (fun a y ha hr => (parse_write_member ns _ a y hr (hall a ha)).2.2.1)
  unfold parseMembers
  rw [h1, hp0]
  simp only [memberNames_canon0]
  exact lengthPass_written ns _ ms xs hF hall

/-- … and written again they give the same elements (the member-level write fixed point) -/
theorem C07_members_canon_same_output (ns : Str) (ms : List Member) :
    writeMembers ns (ms.map canonMember) = writeMembers ns ms :=
  write_canonMembers ns ms

def fieldOf (n : String) (t : Ty) : Member :=
  { name := some n.toList, body := .typed t, readable := true, writable := true, bits := none, isPrivate := false,
    version := none, skip := false, introspectable := true, deprecated := none, stability := none, docs := {} }

def tyGuint8 : Ty := .plain (some "guint8".toList) none (.fundamental "guint8".toList)
def tyGuint : Ty := .plain (some "guint".toList) none (.fundamental "guint".toList)
/-- `union { … } u;` -/
def mAnonU : Member := { fieldOf "u" .unknown with body := .anon "union", writable := false }
/-- `guint8 *data;` with `(array length=len)` -/
def mData : Member := fieldOf "data" (.array (some "guint8*".toList) none none false none (some "len".toList) tyGuint8)
def mLen : Member := fieldOf "len" tyGuint
def mPlain : Member := fieldOf "x" tyGuint

def membersCycle (parse : Str → List Xml → Except Err (List Member)) (ms : List Member) : Except Err (List Member) :=
  match writeMembers nsFoo ms with
  | .ok xs => parse nsFoo xs
  | .error e => .error e

def isOkMembers (r : Except Err (List Member)) (ms : List Member) : Bool :=
  match r with
  | .ok ms' => ms' == ms
  | .error _ => false

-- `struct { union {…} u; guint8 *data; guint len; }` with `@data: (array length=len)`, and the same with one more
-- plain field after the anonymous member: both were misread before 26f8b24 (AttributeError / length silently lost;
-- harness corpus `finding-compound-array-length.json` is the regression on the real code)
example : [mAnonU, mData, mLen].all (wfMember nsFoo) = true ∧
    isOkMembers (membersCycle parseMembers [mAnonU, mData, mLen]) ([mAnonU, mData, mLen].map canonMember) = true ∧
    isOkMembers (membersCycle parseMembers [mAnonU, mPlain, mData, mLen])
      ([mAnonU, mPlain, mData, mLen].map canonMember) = true ∧
    memberDropLen (canonMember mData) ≠ canonMember mData := by decide

-- non-vacuity: a field list with a length index, a member holding a callback and an anonymous union
def exCb : Callable :=
  { exCallable with klass := .callback, tag := "callback", instanceParam := none, symbol := none, shadows := none,
                    getProperty := none }
def mCb : Member := { fieldOf "cb" .unknown with body := .callback exCb, version := some "1.2".toList }
example : [mData, mAnonU, mLen, mCb].all (wfMember nsFoo) = true ∧
    isOk (writeMembers nsFoo [mData, mAnonU, mLen, mCb]) = true := by decide

/-! ### the reader object: reading a document does not depend on what the reader read before -/

open GIVerif.Gen.GirReaderState in
/-- pinned to the statements of `GIRParser.__init__` / `parse_tree` / `_parse_api` (table re-extracted on every run):
    every attribute that reading a document reads or changes is reassigned by `parse_tree` before `_parse_api`. -/
theorem C07_reader_state_pinned : perDocument.all (fun a => parseTreeResets.contains a) = true := by decide

open GIVerif.Gen.GirReaderState in
theorem hReset_table (s : HState) : hReset parseTreeResets s = hInit := by
  have h1 : parseTreeResets.contains "_includes" = true := by decide
  have h2 : parseTreeResets.contains "_pkgconfig_packages" = true := by decide
  have h3 : parseTreeResets.contains "_c_includes" = true := by decide
  have h4 : parseTreeResets.contains "_doc_format" = true := by decide
  simp only [hReset, h1, h2, h3, h4, ↓reduceIte, hInit]

open GIVerif.Gen.GirReaderState in
/-- state reset: what `parse` returns for a document depends on that document only, whatever state earlier
    documents left in the reader -/
theorem C07_reader_state_reset (s s' : HState) (doc : List HItem) :
    parseHeader parseTreeResets s doc = parseHeader parseTreeResets s' doc := by
  simp only [parseHeader, hReset_table]

open GIVerif.Gen.GirReaderState in
/-- a history of parses on ONE reader returns, for each document, what a FRESH reader returns for it -/
theorem C07_history_independent (s : HState) (docs : List (List HItem)) :
    runHistory parseTreeResets s docs = docs.map (parseHeader parseTreeResets hInit) := by
  induction docs generalizing s with
  | nil => rfl
  | cons d ds ih =>
    simp only [runHistory, List.map_cons, ih]
    rw [C07_reader_state_reset s hInit d]

-- non-vacuity: without the reset (`resets = []`) the second document inherits the first one's header
example : runHistory [] hInit [[.incl "GObject".toList "2.0".toList, .package "a-1.0".toList], []]
    ≠ [[.incl "GObject".toList "2.0".toList, .package "a-1.0".toList], []].map (parseHeader [] hInit) := by decide
example : (runHistory GIVerif.Gen.GirReaderState.parseTreeResets hInit
    [[.incl "GObject".toList "2.0".toList, .docFormat "gi-docgen".toList], [.cInclude "a.h".toList]]).map (·.docFormat)
    = ["gi-docgen".toList, sUnknown] := by decide

end GIVerif.GirCodec
