/-
  C18 — The dependency-GIR cache never serves stale or torn data.
  ONLY property theorems and non-vacuity examples live here; the invariants are in
  GIVerif/Lemmas/Cache.lean, the executable step model in GIVerif/Model/Cache.lean.

  All theorems quantify over EVERY history `evs : List Ev` from an initial state: any
  number of processes, any interleaving of their system calls, source modifications,
  clock ticks and a crash of any process before any of its system calls (`Ev.crash`).

  Hypotheses beyond the property's own wording:
  * `Init s0`: nobody is running yet, the entry name (if present) points to an inode (the
    initial entry may be anything: fresh, stale, or a torn pickle), AND `s0.xdev = false`: the
    temp files of `mkstemp` (TMPDIR) are on the same file system as the cache directory, so that
    `shutil.move` is one atomic `rename`.  Without it (`InitAny`, `xdev = true`: `rename` fails
    with EXDEV and `shutil.move` copies: open-truncate-in-place, chunked write, copystat BY PATH,
    unlink) two clauses are FALSE for the code as it is and are kept as `…_full` with witnesses:
    `C18_xdev_raise_counterexample` (a loader discards the half-copied entry, then copystat fails
    with ENOENT, which `store` re-raises) and `C18_xdev_stale_counterexample` (between the copy
    and copystat the entry is complete under its final name with the mtime of the COPY).
    Two concurrent cross-device publishes into the same entry (byte-level interleaving of two
    writers) are beyond the content abstraction of the model.
  * the source file always exists and its mtime is the time of its last modification.
  * `C18_fresh` (the statement's main clause) is FALSE for the code as it is:
    `C18_fresh_counterexample` (a parse read before a modification is stamped with the time
    of writing) and `C18_fresh_equal_mtime_counterexample` (a modification within the
    timestamp granule of the entry's last write; `≥` accepts equality).  The full statement is
    kept as `C18_fresh_full`; `C18_fresh_older_mtime_counterexample`: a source REPLACED by a file
    that carries an mtime older than the entry (`Ev.replace m`: installed with its build time
    preserved) leaves the entry "fresh".  `C18_fresh_partial` proves the clause under exactly the
    negation of the three witness classes: `histNoModDuringStore` ("the source is not modified
    between the read that produced a parse and the store of that parse") and `histFineClock`
    ("every modification is stamped with the time at which it happens and gets a timestamp later
    than everything written before it" = `histTicks` + no `Ev.replace`), and with `InitF` (the
    initial entry is not itself such a stale-but-fresh-looking parse).
  * `C18_version_purge`: "no process of another scanner version stores afterwards" is
    `onlyStoresOf V`; the loads concerned are those that start afterwards.
-/
import GIVerif.Lemmas.Cache

namespace GIVerif.Cache
open GIVerif.Gen.Cache

/-- The six functions of cachestore.py still have the text the step model was written for
    (re-extracted from /repo on every run), and the swallowed errors are the ones assumed. -/
theorem C18_code_shape :
    Gen.Cache.shapeCheckCacheVersion =
      ["def _check_cache_version(self):",
       "    if self._directory is None:",
       "        return",
       "    current_hash = _get_versionhash()",
       "    version = os.path.join(self._directory, _CACHE_VERSION_FILENAME)",
       "    try:",
       "        with open(version, 'r', encoding='utf-8') as version_file:",
       "            cache_hash = version_file.read()",
       "    except (IOError, OSError) as e:",
       "        if e.errno == errno.ENOENT:",
       "            cache_hash = 0",
       "        else:",
       "            raise",
       "    if current_hash == cache_hash:",
       "        return",
       "    self._clean()",
       "    tmp_fd, tmp_filename = tempfile.mkstemp(prefix='g-ir-scanner-cache-version-')",
       "    try:",
       "        with os.fdopen(tmp_fd, 'w', encoding='utf-8') as tmp_file:",
       "            tmp_file.write(current_hash)",
       "        shutil.move(tmp_filename, version)",
       "    except (IOError, OSError) as e:",
       "        if e.errno == errno.EACCES:",
       "            return",
       "        else:",
       "            raise"]
    ∧ Gen.Cache.shapeCacheIsValid =
      ["def _cache_is_valid(self, store_filename, filename):",
       "    try:",
       "        store_mtime = os.stat(store_filename).st_mtime",
       "    except FileNotFoundError:",
       "        return False",
       "    return store_mtime >= os.stat(filename).st_mtime"]
    ∧ Gen.Cache.shapeRemoveFilename =
      ["def _remove_filename(self, filename):",
       "    try:",
       "        os.unlink(filename)",
       "    except (IOError, OSError) as e:",
       "        if e.errno in (errno.EACCES, errno.ENOENT):",
       "            return",
       "        else:",
       "            raise"]
    ∧ Gen.Cache.shapeClean =
      ["def _clean(self):",
       "    for filename in os.listdir(self._directory):",
       "        if filename == _CACHE_VERSION_FILENAME:",
       "            continue",
       "        self._remove_filename(os.path.join(self._directory, filename))"]
    ∧ Gen.Cache.shapeStore =
      ["def store(self, filename, data):",
       "    store_filename = self._get_filename(filename)",
       "    if store_filename is None:",
       "        return",
       "    if self._cache_is_valid(store_filename, filename):",
       "        return None",
       "    tmp_fd, tmp_filename = tempfile.mkstemp(prefix='g-ir-scanner-cache-')",
       "    try:",
       "        with os.fdopen(tmp_fd, 'wb') as tmp_file:",
       "            pickle.dump(data, tmp_file)",
       "    except (IOError, OSError) as e:",
       "        if e.errno == errno.ENOSPC:",
       "            self._remove_filename(tmp_filename)",
       "            return",
       "        else:",
       "            raise",
       "    try:",
       "        shutil.move(tmp_filename, store_filename)",
       "    except (IOError, OSError) as e:",
       "        if e.errno == errno.EACCES:",
       "            self._remove_filename(tmp_filename)",
       "        else:",
       "            raise"]
    ∧ Gen.Cache.shapeLoad =
      ["def load(self, filename):",
       "    store_filename = self._get_filename(filename)",
       "    if store_filename is None:",
       "        return",
       "    try:",
       "        fd = open(store_filename, 'rb')",
       "    except (IOError, OSError) as e:",
       "        if e.errno == errno.ENOENT:",
       "            return None",
       "        else:",
       "            raise",
       "    with fd:",
       "        if os.fstat(fd.fileno()).st_mtime < os.stat(filename).st_mtime:",
       "            return None",
       "        try:",
       "            data = pickle.load(fd)",
       "        except Exception:",
       "            self._remove_filename(store_filename)",
       "            data = None",
       "        return data"]
    ∧ statEntryCatchesENOENT = true ∧ openCatchesENOENT = true ∧ unpickleCatchesAll = true
    ∧ brokenIsUnlinked = true ∧ unlinkCatchesENOENT = true ∧ stampCatchesENOENT = true
    ∧ loadByFd = true ∧ loadStatOrder = "entry-first" :=
  ⟨rfl, rfl, rfl, rfl, rfl, rfl, by decide⟩

/-- The two freshness comparisons: `store` skips writing iff entry mtime ≥ source mtime;
    `load` rejects iff the opened file's mtime < source mtime. -/
theorem C18_comparisons (a b : Nat) :
    (cacheIsValid a b = true ↔ b ≤ a) ∧ (loadStale a b = true ↔ a < b) := by
  simp [cacheIsValid, loadStale]

/-- No system call of store / load / version check fails with an error the code does not
    handle: no process ever raises, on any history. -/
theorem C18_no_raise (s0 : State) (h0 : Init s0) (evs : List Ev) (p : Nat) :
    ((run s0 evs).procs p).pc ≠ .raised := by
  intro h
  have := (run_inv s0 evs h0.inv).pcs p
  rw [h] at this
  exact this

/-- A load returns nothing or the content of a pickle that was completely on disk. -/
theorem C18_complete_or_none (s0 : State) (h0 : Init s0) (evs : List Ev) (p : Nat) (r : Ret)
    (h : ((run s0 evs).procs p).pc = .done (some r)) : r.len = full := by
  have := (run_inv s0 evs h0.inv).pcs p
  rw [h] at this
  exact this.1

/-- What a load returns is what one single store wrote: the returning step copies data and
    writer version of a complete inode (no mixture of two writers). -/
theorem C18_returns_inode (s : State) (p i v0 m sm : Nat) (r : Ret)
    (hpc : (s.procs p).pc = .lRead i v0 m sm)
    (h : ((step s (.step p)).procs p).pc = .done (some r)) :
    (s.inodes i).len = full ∧ r.data = (s.inodes i).data ∧ r.sver = (s.inodes i).sver := by
  simp only [step, stepProc, hpc, unpickleCatchesAll, brokenIsUnlinked, if_true] at h
  split at h
  · rename_i hc
    simp [State.setPc] at h
    subst h
    exact ⟨by simpa [Inode.complete] using hc, rfl, rfl⟩
  · simp [State.setPc] at h

/-- An entry older than its source is never used: the inode that was unpickled has an mtime
    ≥ the source mtime read in the same load (the inode's mtime at the time of the read, not
    a remembered value). -/
theorem C18_not_older (s0 : State) (h0 : Init s0) (evs : List Ev) (p : Nat) (r : Ret)
    (h : ((run s0 evs).procs p).pc = .done (some r)) : r.srcSeen ≤ r.entryM := by
  have := (run_inv s0 evs h0.inv).pcs p
  rw [h] at this
  exact this.2.1

/-- The returned parse is never of a version from after the load. -/
theorem C18_not_from_future (s0 : State) (h0 : Init s0) (evs : List Ev) (p : Nat) (r : Ret)
    (h : ((run s0 evs).procs p).pc = .done (some r)) : r.data ≤ r.vEnd ∧ r.vStart ≤ r.vEnd := by
  have := (run_inv s0 evs h0.inv).pcs p
  rw [h] at this
  exact ⟨this.2.2.2, this.2.2.1⟩

/-- THE MAIN CLAUSE at full strength: the returned parse is the parse of a source version
    that was current at some instant of the load (versions `vStart..vEnd`). -/
def C18_fresh_full : Prop :=
  ∀ s0, InitF s0 → ∀ (evs : List Ev) (p : Nat) (r : Ret),
    ((run s0 evs).procs p).pc = .done (some r) → r.vStart ≤ r.data ∧ r.data ≤ r.vEnd

/-- first witness: process 0 parses v1, the source becomes v2, process 0 stores parse(v1)
    (stamped with the time of writing), process 1 loads it -/
def witnessStale : List Ev :=
  [.spawn 0 .store 7, .modify true, .step 0, .step 0, .step 0, .step 0, .step 0, .step 0,
   .spawn 1 .load 7, .step 1, .step 1, .step 1, .step 1]

/-- second witness: store completes, then the source is modified within the same timestamp
    granule; no modification between parse and store -/
def witnessEqual : List Ev :=
  [.spawn 0 .store 7, .step 0, .step 0, .step 0, .step 0, .step 0, .step 0, .modify false,
   .spawn 1 .load 7, .step 1, .step 1, .step 1, .step 1]

def witnessInit : State := mkInit 10 1 5 none none

/-- It does NOT hold: the load of process 1 starts and ends while v2 is current and returns
    the parse of v1. -/
theorem C18_fresh_counterexample : ¬ C18_fresh_full := by
  intro h
  have hi : InitF witnessInit :=
    mkInit_initF 10 1 5 none none (by simp) (by decide) (by simp)
  have hr : ((run witnessInit witnessStale).procs 1).pc = .done (some ⟨1, 7, 2, 11, 11, 2, 2⟩) := by
    decide
  have := (h witnessInit hi witnessStale 1 _ hr).1
  exact absurd this (by decide)

/-- The full clause restricted to histories without a modification between parse and store. -/
def C18_fresh_nomod_full : Prop :=
  ∀ s0, InitF s0 → ∀ (evs : List Ev), histNoModDuringStore s0 evs = true → ∀ (p : Nat) (r : Ret),
    ((run s0 evs).procs p).pc = .done (some r) → r.vStart ≤ r.data ∧ r.data ≤ r.vEnd

/-- It still does not hold: entry and new source version carry the same mtime and `≥` accepts. -/
theorem C18_fresh_equal_mtime_counterexample : ¬ C18_fresh_nomod_full := by
  intro h
  have hi : InitF witnessInit :=
    mkInit_initF 10 1 5 none none (by simp) (by decide) (by simp)
  have hok : histNoModDuringStore witnessInit witnessEqual = true := by decide
  have hr : ((run witnessInit witnessEqual).procs 1).pc = .done (some ⟨1, 7, 2, 10, 10, 2, 2⟩) := by
    decide
  have := (h witnessInit hi witnessEqual hok 1 _ hr).1
  exact absurd this (by decide)

/-- The full clause restricted to histories without a modification between parse and store and in
    which every modification stamped with the current time gets a LATER timestamp than everything
    written before — but a version may be installed with a preserved mtime (`Ev.replace`). -/
def C18_fresh_ticks_full : Prop :=
  ∀ s0, InitF s0 → ∀ (evs : List Ev), histNoModDuringStore s0 evs = true → histTicks evs = true →
    ∀ (p : Nat) (r : Ret),
    ((run s0 evs).procs p).pc = .done (some r) → r.vStart ≤ r.data ∧ r.data ≤ r.vEnd

/-- third witness: the store completes (entry stamped 10), time passes, the source is replaced by a
    file that carries mtime 3 (built before the scan, installed with its time preserved), a load
    starts afterwards -/
def witnessOlder : List Ev :=
  [.spawn 0 .store 7, .step 0, .step 0, .step 0, .step 0, .step 0, .step 0, .tick, .replace 3,
   .spawn 1 .load 7, .step 1, .step 1, .step 1, .step 1]

/-- It does not hold either: "the entry is newer than the source" does not mean "the entry was made
    from this source". -/
theorem C18_fresh_older_mtime_counterexample : ¬ C18_fresh_ticks_full := by
  intro h
  have hi : InitF witnessInit :=
    mkInit_initF 10 1 5 none none (by simp) (by decide) (by simp)
  have hr : ((run witnessInit witnessOlder).procs 1).pc = .done (some ⟨1, 7, 2, 10, 3, 2, 2⟩) := by
    decide
  have := (h witnessInit hi witnessOlder (by decide) (by decide) 1 _ hr).1
  exact absurd this (by decide)

/-- `histFineClock` is `histTicks` plus "no version is installed with a preserved mtime". -/
theorem C18_fineClock_ticks (evs : List Ev) (h : histFineClock evs = true) : histTicks evs = true := by
  induction evs with
  | nil => rfl
  | cons e es ih =>
    cases e with
    | modify t =>
      simp only [histFineClock, Bool.and_eq_true] at h
      simp [histTicks, h.1, ih h.2]
    | replace m => simp [histFineClock] at h
    | spawn p op sv => simp only [histFineClock] at h; simp [histTicks, ih h]
    | step p => simp only [histFineClock] at h; simp [histTicks, ih h]
    | crash p => simp only [histFineClock] at h; simp [histTicks, ih h]
    | tick => simp only [histFineClock] at h; simp [histTicks, ih h]

/-- The main clause under the two explicit hypotheses on the history. -/
theorem C18_fresh_partial (s0 : State) (h0 : InitF s0) (evs : List Ev)
    (hnomod : histNoModDuringStore s0 evs = true) (hclock : histFineClock evs = true)
    (p : Nat) (r : Ret) (h : ((run s0 evs).procs p).pc = .done (some r)) :
    r.vStart ≤ r.data ∧ r.data ≤ r.vEnd :=
  ⟨(run_invF s0 evs h0.toInit.inv h0.invF (histOK_of s0 evs hnomod hclock)).rets p r h,
   (C18_not_from_future s0 h0.toInit evs p r h).1⟩

/-! ### cross-device publish (TMPDIR and cache directory on different file systems) -/

/-- "no exception escapes", on any device layout -/
def C18_no_raise_full : Prop :=
  ∀ s0, InitAny s0 → ∀ (evs : List Ev) (p : Nat), ((run s0 evs).procs p).pc ≠ .raised

/-- process 0 stores across devices; while the entry is half copied process 1 loads it, finds it
    torn and unlinks it; process 0 finishes the copy and its copystat (by path) fails -/
def witnessXdevRaise : List Ev :=
  [.spawn 0 .store 7, .step 0, .step 0, .step 0, .step 0, .step 0, .step 0, .step 0, .step 0,
   .spawn 1 .load 7, .step 1, .step 1, .step 1, .step 1, .step 1,
   .step 0, .step 0, .step 0]

theorem C18_xdev_raise_counterexample : ¬ C18_no_raise_full := by
  intro h
  have hi : InitAny (mkInit 10 1 5 none none true) := mkInit_initAny 10 1 5 none none true (by simp)
  exact h _ hi witnessXdevRaise 0 (by decide)

/-- the main clause under the two history hypotheses, on any device layout -/
def C18_fresh_anydevice_full : Prop :=
  ∀ s0, InitAny s0 → FreshStart s0 → ∀ (evs : List Ev), histNoModDuringStore s0 evs = true →
    histFineClock evs = true → ∀ (p : Nat) (r : Ret),
    ((run s0 evs).procs p).pc = .done (some r) → r.vStart ≤ r.data ∧ r.data ≤ r.vEnd

/-- process 0 parses v1 and writes its temp file; the source becomes v2; process 0 publishes
    across devices; before its copystat process 1 loads the copy (mtime of the copy ≥ source) -/
def witnessXdevStale : List Ev :=
  [.spawn 0 .store 7, .step 0, .step 0, .step 0, .step 0, .step 0, .modify true,
   .step 0, .step 0, .step 0, .step 0,
   .spawn 1 .load 7, .step 1, .step 1, .step 1, .step 1]

theorem C18_xdev_stale_counterexample : ¬ C18_fresh_anydevice_full := by
  intro h
  have hi : InitAny (mkInit 10 1 5 none none true) := mkInit_initAny 10 1 5 none none true (by simp)
  have hf : FreshStart (mkInit 10 1 5 none none true) := mkInit_freshStart_empty 10 1 5 none true (by decide)
  have hr : ((run (mkInit 10 1 5 none none true) witnessXdevStale).procs 1).pc
      = .done (some ⟨1, 7, 2, 11, 11, 2, 2⟩) := by decide
  have := (h _ hi hf witnessXdevStale (by decide) (by decide) 1 _ hr).1
  exact absurd this (by decide)

/-- On one device the publish step never takes the copy path: no process is ever inside the
    cross-device fall-back. -/
theorem C18_same_device_never_copies (s0 : State) (h0 : Init s0) (evs : List Ev) (p i : Nat) :
    ((run s0 evs).procs p).pc ≠ .xOpen i ∧ ((run s0 evs).procs p).pc ≠ .xCopystat i := by
  have := (run_inv s0 evs h0.inv).pcs p
  constructor <;> intro hpc <;> rw [hpc] at this <;> exact this

/-- A crash changes nothing in the file system: it only stops the process. -/
theorem C18_crash_only_kills (s : State) (p : Nat) :
    (step s (.crash p)).entry = s.entry ∧ (step s (.crash p)).inodes = s.inodes ∧
    (step s (.crash p)).stamp = s.stamp ∧ (step s (.crash p)).tmps = s.tmps := by
  simp only [step]; split <;> simp [State.setPc]

/-- Wherever a process is killed (`evs1 ++ crash p :: evs2`, any `p`, any point): the entry
    name still points to a complete pickle (the torn ones are temp files in TMPDIR), nobody
    raises, and every later load returns nothing or a complete entry not older than its
    source. -/
theorem C18_crash (s0 : State) (h0 : Init s0) (hc : ∀ i, s0.entry = some i → (s0.inodes i).len = full)
    (evs1 evs2 : List Ev) (p : Nat) :
    let s := run s0 (evs1 ++ .crash p :: evs2)
    (∀ i, s.entry = some i → (s.inodes i).len = full) ∧
    (∀ q, (s.procs q).pc ≠ .raised) ∧
    (∀ q r, (s.procs q).pc = .done (some r) → r.len = full ∧ r.srcSeen ≤ r.entryM ∧ r.data ≤ r.vEnd) := by
  intro s
  refine ⟨run_invC s0 _ h0.inv hc, fun q => C18_no_raise s0 h0 _ q, fun q r hq => ?_⟩
  exact ⟨C18_complete_or_none s0 h0 _ q r hq, C18_not_older s0 h0 _ q r hq,
    (C18_not_from_future s0 h0 _ q r hq).1⟩

/-- An unreadable / truncated entry is discarded instead of raising: a load that reads a
    torn pickle goes on to unlink the entry name and returns nothing. -/
theorem C18_torn_discarded (s : State) (p i v0 m sm : Nat) (hpc : (s.procs p).pc = .lRead i v0 m sm)
    (ht : (s.inodes i).len ≠ full) :
    ((step s (.step p)).procs p).pc = .lUnlink ∧
    (run s [.step p, .step p]).entry = none ∧ ((run s [.step p, .step p]).procs p).pc = .done none := by
  have hc : (s.inodes i).complete = false := by simp [Inode.complete, ht]
  have h1 : step s (.step p) = s.setPc p .lUnlink := by
    simp [step, stepProc, hpc, hc, unpickleCatchesAll, brokenIsUnlinked]
  refine ⟨by rw [h1]; simp [State.setPc], ?_⟩
  simp only [run, List.foldl_cons, List.foldl_nil, h1]
  simp only [step, stepProc, State.setPc, upd_same, unlinkCatchesENOENT, if_true]
  cases s.entry <;> simp

/-- The purge step of a version check removes the entry. -/
theorem C18_purge_unlinks (s : State) (p : Nat) (hpc : (s.procs p).pc = .cUnlink) :
    (step s (.step p)).entry = none := by
  simp only [step, stepProc, hpc, unlinkCatchesENOENT, if_true]
  cases h : s.entry <;> simp [State.setPc, h]

/-- A change of scanner version discards the entry and restamps: a version check by a process
    of version `V` run to completion on a cache stamped otherwise. -/
theorem C18_version_change_discards (s : State) (p V : Nat) (hidle : (s.procs p).pc = .idle)
    (hst : s.stamp ≠ some V) :
    let s' := run s [.spawn p .check V, .step p, .step p, .step p, .step p, .step p, .step p, .step p]
    s'.entry = none ∧ s'.stamp = some V ∧ (s'.procs p).pc = .done none := by
  simp only [run, List.foldl_cons, List.foldl_nil]
  cases he : s.entry <;> cases hs : s.stamp <;>
    simp_all [step, stepProc, State.setPc, firstPc, stampCatchesENOENT]

/-- After the entry has been purged (or whenever it is absent or written by version `V`), as
    long as only processes of version `V` store, every load that STARTS afterwards returns
    nothing or an entry written by version `V`, and the entry name stays so. -/
theorem C18_version_purge (s0 : State) (h0 : Init s0) (evs0 : List Ev) (V : Nat)
    (hentry : ∀ i, (run s0 evs0).entry = some i → ((run s0 evs0).inodes i).sver = V)
    (evs : List Ev) (hstores : onlyStoresOf V (run s0 evs0) evs = true) :
    let s := run (run s0 evs0) evs
    (∀ i, s.entry = some i → (s.inodes i).sver = V) ∧
    (∀ q r, ((run s0 evs0).procs q).pc = .idle → (s.procs q).pc = .done (some r) → r.sver = V) := by
  intro s
  have hP : InvP V (fun q => ((run s0 evs0).procs q).pc = .idle) (run s0 evs0) :=
    ⟨hentry, fun q hq => by rw [hq]; trivial⟩
  have := run_invP V _ (run s0 evs0) evs (run_inv s0 evs0 h0.inv) hP hstores
  refine ⟨this.entryV, fun q r hq hr => ?_⟩
  have h := this.held q hq
  rw [hr] at h
  exact h

/-! ### non-vacuity: concrete histories meeting the hypotheses and the conclusions -/

/-- store then load, sequentially: the load returns the parse of the current version -/
example :
    ((run (mkInit 10 1 5 none none)
      [.spawn 0 .store 7, .step 0, .step 0, .step 0, .step 0, .step 0, .step 0,
       .spawn 1 .load 7, .step 1, .step 1, .step 1, .step 1]).procs 1).pc
      = .done (some ⟨1, 7, 2, 10, 5, 1, 1⟩) := by decide

/-- the hypotheses of `C18_fresh_partial` hold on a history with a concurrent store, a
    modification and a load that returns something -/
example :
    let evs := [.spawn 0 .store 7, .step 0, .step 0, .spawn 1 .load 7, .step 0, .step 0, .step 0, .step 0,
                .step 1, .modify true, .step 1, .spawn 2 .load 7, .step 2, .step 2, .step 2, .step 2]
    histNoModDuringStore (mkInit 10 1 5 (some (1, 7, 2, 6)) none) evs = true ∧ histFineClock evs = true ∧
    ((run (mkInit 10 1 5 (some (1, 7, 2, 6)) none) evs).procs 2).pc = .done none := by decide

/-- a replacement that carries an mtime NEWER than the entry is noticed: the load returns nothing -/
example :
    ((run (mkInit 10 1 5 (some (1, 7, 2, 8)) none)
      [.replace 9, .spawn 1 .load 7, .step 1, .step 1, .step 1]).procs 1).pc = .done none := by decide

/-- the hypotheses of `C18_fresh_ticks_full` are satisfiable with a replacement in the history -/
example : histNoModDuringStore witnessInit witnessOlder = true ∧ histTicks witnessOlder = true ∧
    histFineClock witnessOlder = false := by decide

example : InitF (mkInit 10 1 5 (some (1, 7, 2, 6)) none) :=
  mkInit_initF 10 1 5 _ none (by intro d sv l m h; cases h; decide) (by decide)
    (by intro d sv l m h; cases h; decide)

/-- a stale initial entry (parse of v0, older than the source) is rejected -/
example :
    ((run (mkInit 10 1 5 (some (0, 7, 2, 3)) none)
      [.spawn 1 .load 7, .step 1, .step 1, .step 1]).procs 1).pc = .done none := by decide

/-- a torn initial entry with a fresh mtime is unlinked, nothing is returned, nobody raises -/
example :
    let s := run (mkInit 10 1 5 (some (1, 7, 1, 9)) none)
      [.spawn 1 .load 7, .step 1, .step 1, .step 1, .step 1, .step 1]
    (s.procs 1).pc = .done none ∧ s.entry = none := by decide

/-- a crash in the middle of a store leaves the old entry in place and a torn temp file -/
example :
    let s := run (mkInit 10 1 5 (some (0, 7, 2, 3)) none)
      [.spawn 0 .store 7, .step 0, .step 0, .step 0, .step 0, .crash 0]
    s.entry = some 0 ∧ (s.inodes 1).len = 1 ∧ s.tmps = [1] ∧ (s.procs 0).pc = .crashed := by decide

/-- version check of scanner 8 on a cache stamped 7 with an entry: purge, restamp; a W-store
    that slips in afterwards is what `onlyStoresOf` excludes -/
example :
    let s := run (mkInit 10 1 5 (some (1, 7, 2, 6)) (some 7))
      [.spawn 0 .check 8, .step 0, .step 0, .step 0, .step 0, .step 0, .step 0, .step 0]
    s.entry = none ∧ s.stamp = some 8 := by decide

example :
    onlyStoresOf 8 (mkInit 10 1 5 none (some 8))
      [.spawn 0 .store 8, .step 0, .step 0, .step 0, .step 0, .step 0, .step 0,
       .spawn 1 .load 8, .step 1, .step 1, .step 1, .step 1] = true := by decide

end GIVerif.Cache
