/-
  C18 — The dependency-GIR cache never serves stale or torn data.
  ONLY property theorems and non-vacuity examples live here; the invariants are in
  GIVerif/Lemmas/Cache.lean, the executable step model in GIVerif/Model/Cache.lean.

  All theorems quantify over EVERY history `evs : List Ev` from an initial state: any
  number of processes, any interleaving of their system calls, source modifications (stamped with
  the current time, with or without a clock tick) and replacements (by a file that carries a given
  mtime), clock ticks and a crash of any process before any of its system calls (`Ev.crash`).
  There is no hypothesis on the device layout: the temporary file of a store is made in the cache
  directory and published by one rename.

  Hypotheses beyond the property's own wording:
  * `Init s0`: nobody is running yet, the entry name (if present) points to an inode (the
    initial entry may be anything: fresh, stale, or a torn pickle), no temporary file is lying
    in the cache directory.
  * the source file always exists.
  * `C18_fresh` (the statement's main clause) is FALSE at full strength for the code as it is,
    and for every scheme that recognises the source by its mtime: `C18_fresh_counterexample`
    (the source gets a new version that carries the SAME mtime as the version a store has just
    stat'ed and read; the entry made from the old version then carries "the mtime the source has
    now").  The full statement is kept as `C18_fresh_full`; `C18_fresh_partial` proves it under
    the single hypothesis `histDistinctMtimes` ("every version of the source that becomes current
    during the history carries an mtime that no earlier version carried"; the version the initial
    entry was made from counts as an earlier version), with `InitF` (the initial entry carries
    the mtime of the version it was made from, and is not a stale parse stamped as current).
  * several source paths (`C18_key_projection`, `C18_key_frame`, `C18_fresh_keyed`): a `Path` is an
    absolute normalised path (what `os.path.abspath` returns in the working directory of the
    calling process; symlinks are not resolved, a file reached through two different abspaths is two
    `Path`s with two sources in the model) and the entry-name function is injective on these (`hinj`;
    for the code: sha1 of `os.path.abspath(filename)`, text pinned by `C18_entry_name_shape`,
    behaviour checked by the harness as correspondence c18.entry-name, plus collision-freeness of
    sha1); `C18_key_frame_needs_injective` shows the frame
    property failing without it.  Events of a family are addressed to one path; the version check
    (an operation on the whole directory) is not an event of a family.
  * `C18_version_purge`: "no process of another scanner version stores afterwards" is
    `onlyStoresOf V`; the loads concerned are those that start afterwards.
-/
import GIVerif.Lemmas.Cache

namespace GIVerif.Cache
open GIVerif.Gen.Cache

/-- The six functions of cachestore.py still have the text the step model was written for
    (re-extracted from /repo on every run), the swallowed errors are the ones assumed, the temporary
    file is made in the cache directory and published by a rename after it was given the source's
    mtime, and the call site observes that mtime before it reads the source. -/
theorem C18_code_shape :
    Gen.Cache.shapeCheckCacheVersion =
      ["def _check_cache_version(self):",
       "    if self._directory is None:",
       "        return",
       "    current_hash = _get_versionhash()",
       "    version = os.path.join(self._directory, _CACHE_VERSION_FILENAME)",
       "    try:",
       "        with open(version, 'r', encoding='utf-8') as version_file:",
       "            cache_hash = version_file.read()",
       "    except (IOError, OSError) as e:",
       "        if e.errno == errno.ENOENT:",
       "            cache_hash = 0",
       "        else:",
       "            raise",
       "    if current_hash == cache_hash:",
       "        return",
       "    self._clean()",
       "    tmp_fd, tmp_filename = tempfile.mkstemp(prefix='g-ir-scanner-cache-version-')",
       "    try:",
       "        with os.fdopen(tmp_fd, 'w', encoding='utf-8') as tmp_file:",
       "            tmp_file.write(current_hash)",
       "        shutil.move(tmp_filename, version)",
       "    except (IOError, OSError) as e:",
       "        if e.errno == errno.EACCES:",
       "            return",
       "        else:",
       "            raise"]
    ∧ Gen.Cache.shapeCacheIsValid =
      ["def _cache_is_valid(self, store_filename, filename):",
       "    try:",
       "        store_mtime = os.stat(store_filename).st_mtime_ns",
       "    except FileNotFoundError:",
       "        return False",
       "    return store_mtime == os.stat(filename).st_mtime_ns"]
    ∧ Gen.Cache.shapeRemoveFilename =
      ["def _remove_filename(self, filename):",
       "    try:",
       "        os.unlink(filename)",
       "    except (IOError, OSError) as e:",
       "        if e.errno in (errno.EACCES, errno.ENOENT):",
       "            return",
       "        else:",
       "            raise"]
    ∧ Gen.Cache.shapeClean =
      ["def _clean(self):",
       "    for filename in os.listdir(self._directory):",
       "        if filename == _CACHE_VERSION_FILENAME:",
       "            continue",
       "        self._remove_filename(os.path.join(self._directory, filename))"]
    ∧ Gen.Cache.shapeStore =
      ["def store(self, filename, data, source_mtime_ns):",
       "    \"\"\"Store data, the result of parsing filename. source_mtime_ns is",
       "        the st_mtime_ns filename had BEFORE it was read.\"\"\"",
       "    store_filename = self._get_filename(filename)",
       "    if store_filename is None:",
       "        return",
       "    if self._cache_is_valid(store_filename, filename):",
       "        return None",
       "    try:",
       "        tmp_fd, tmp_filename = tempfile.mkstemp(prefix='g-ir-scanner-cache-', dir=self._directory)",
       "    except (IOError, OSError) as e:",
       "        if e.errno == errno.EACCES:",
       "            return",
       "        else:",
       "            raise",
       "    try:",
       "        with os.fdopen(tmp_fd, 'wb') as tmp_file:",
       "            pickle.dump(data, tmp_file)",
       "    except (IOError, OSError) as e:",
       "        if e.errno == errno.ENOSPC:",
       "            self._remove_filename(tmp_filename)",
       "            return",
       "        else:",
       "            raise",
       "    try:",
       "        os.utime(tmp_filename, ns=(source_mtime_ns, source_mtime_ns))",
       "        os.replace(tmp_filename, store_filename)",
       "    except (IOError, OSError) as e:",
       "        if e.errno in (errno.EACCES, errno.ENOENT):",
       "            self._remove_filename(tmp_filename)",
       "        else:",
       "            raise"]
    ∧ Gen.Cache.shapeLoad =
      ["def load(self, filename):",
       "    store_filename = self._get_filename(filename)",
       "    if store_filename is None:",
       "        return",
       "    try:",
       "        fd = open(store_filename, 'rb')",
       "    except (IOError, OSError) as e:",
       "        if e.errno == errno.ENOENT:",
       "            return None",
       "        else:",
       "            raise",
       "    with fd:",
       "        if os.fstat(fd.fileno()).st_mtime_ns != os.stat(filename).st_mtime_ns:",
       "            return None",
       "        try:",
       "            data = pickle.load(fd)",
       "        except Exception:",
       "            self._remove_filename(store_filename)",
       "            data = None",
       "        return data"]
    ∧ statEntryCatchesENOENT = true ∧ openCatchesENOENT = true ∧ unpickleCatchesAll = true
    ∧ brokenIsUnlinked = true ∧ unlinkCatchesENOENT = true ∧ stampCatchesENOENT = true
    ∧ moveCatchesENOENT = true ∧ utimeCatchesENOENT = true ∧ mkstempCatchesEACCES = true
    ∧ tmpInCacheDir = true ∧ publishIsRename = true ∧ stampIsSourceMtime = true
    ∧ callerStatsBeforeParse = true
    ∧ loadByFd = true ∧ loadStatOrder = "entry-first" :=
  ⟨rfl, rfl, rfl, rfl, rfl, rfl, by decide⟩

/-- The two freshness tests are the same equality: `store` skips writing iff the entry carries
    the source's current mtime; `load` rejects iff the opened file does not. -/
theorem C18_comparisons (a b : Nat) :
    (cacheIsValid a b = true ↔ a = b) ∧ (loadStale a b = true ↔ a ≠ b) := by
  simp [cacheIsValid, loadStale]

/-- No system call of store / load / version check fails with an error the code does not
    handle: no process ever raises, on any history, on any device layout (a temporary file that
    a purge has removed under a running store is a swallowed ENOENT). -/
theorem C18_no_raise (s0 : State) (h0 : Init s0) (evs : List Ev) (p : Nat) :
    ((run s0 evs).procs p).pc ≠ .raised := by
  intro h
  have := (run_inv s0 evs h0.inv).pcs p
  rw [h] at this
  exact this

/-- A load returns nothing or the content of a pickle that was completely on disk. -/
theorem C18_complete_or_none (s0 : State) (h0 : Init s0) (evs : List Ev) (p : Nat) (r : Ret)
    (h : ((run s0 evs).procs p).pc = .done (some r)) : r.len = full := by
  have := (run_inv s0 evs h0.inv).pcs p
  rw [h] at this
  exact this.1

/-- What a load returns is what one single store wrote: the returning step copies data and
    writer version of a complete inode (no mixture of two writers). -/
theorem C18_returns_inode (s : State) (p i v0 m sm : Nat) (r : Ret)
    (hpc : (s.procs p).pc = .lRead i v0 m sm)
    (h : ((step s (.step p)).procs p).pc = .done (some r)) :
    (s.inodes i).len = full ∧ r.data = (s.inodes i).data ∧ r.sver = (s.inodes i).sver := by
  simp only [step, stepProc, hpc, unpickleCatchesAll, brokenIsUnlinked, if_true] at h
  split at h
  · rename_i hc
    simp [State.setPc] at h
    subst h
    exact ⟨by simpa [Inode.complete] using hc, rfl, rfl⟩
  · simp [State.setPc] at h

/-- An entry older (or newer) than its source is never used: the inode that was unpickled carries
    EXACTLY the mtime the source had when this load looked at it (the inode's mtime at the time of
    the read, not a remembered value). -/
theorem C18_not_older (s0 : State) (h0 : Init s0) (evs : List Ev) (p : Nat) (r : Ret)
    (h : ((run s0 evs).procs p).pc = .done (some r)) : r.srcSeen = r.entryM := by
  have := (run_inv s0 evs h0.inv).pcs p
  rw [h] at this
  exact this.2.1

/-- The returned parse is never of a version from after the load. -/
theorem C18_not_from_future (s0 : State) (h0 : Init s0) (evs : List Ev) (p : Nat) (r : Ret)
    (h : ((run s0 evs).procs p).pc = .done (some r)) : r.data ≤ r.vEnd ∧ r.vStart ≤ r.vEnd := by
  have := (run_inv s0 evs h0.inv).pcs p
  rw [h] at this
  exact ⟨this.2.2.2, this.2.2.1⟩

/-- What becomes visible under the entry name is never torn and never half stamped: a system call
    leaves the entry name alone, removes it, or makes it point to a COMPLETE pickle that already
    carries the source mtime its writer observed before reading the source. -/
theorem C18_publish_atomic (s0 : State) (h0 : Init s0) (evs : List Ev) (p : Nat) :
    let s := run s0 evs
    (step s (.step p)).entry = s.entry ∨ (step s (.step p)).entry = none ∨
      ∃ i, (step s (.step p)).entry = some i ∧ (s.inodes i).len = full ∧ (s.inodes i).mtime = (s.procs p).m0 ∧
        (s.inodes i).data = (s.procs p).data := by
  intro s
  have hi := run_inv s0 evs h0.inv
  rcases stepProc_entry_cases s p hi with a | a | ⟨i, a, _, c⟩
  · exact Or.inl a
  · exact Or.inr (Or.inl a)
  · have hp := hi.pcs p
    rw [a] at hp
    exact Or.inr (Or.inr ⟨i, c, hp.2.1, hp.2.2, hp.1.2.2.2.1⟩)

/-- THE MAIN CLAUSE at full strength: the returned parse is the parse of a source version
    that was current at some instant of the load (versions `vStart..vEnd`). -/
def C18_fresh_full : Prop :=
  ∀ s0, InitF s0 → ∀ (evs : List Ev) (p : Nat) (r : Ret),
    ((run s0 evs).procs p).pc = .done (some r) → r.vStart ≤ r.data ∧ r.data ≤ r.vEnd

/-- the witness: the source becomes v2 (mtime 11); process 0 stats it (11) and reads v2; the source
    becomes v3 within the same timestamp granule (mtime 11 again); process 0 stores parse(v2) with
    mtime 11; process 1 loads: the entry carries exactly the mtime the source has now -/
def witnessSameMtime : List Ev :=
  [.modify true, .spawn 0 .store 7, .step 0, .modify false,
   .step 0, .step 0, .step 0, .step 0, .step 0, .step 0, .step 0,
   .spawn 1 .load 7, .step 1, .step 1, .step 1, .step 1]

def witnessInit : State := mkInit 10 1 5 none none

theorem C18_witnessInit_initF : InitF witnessInit :=
  mkInit_initF 10 1 5 none none (by simp) (by simp)

/-- It does NOT hold: the load of process 1 starts and ends while v3 is current and returns
    the parse of v2.  (No test of the file's mtime can tell v2 from v3.) -/
theorem C18_fresh_counterexample : ¬ C18_fresh_full := by
  intro h
  have hr : ((run witnessInit witnessSameMtime).procs 1).pc = .done (some ⟨2, 7, 2, 11, 11, 3, 3⟩) := by
    decide
  have := (h witnessInit C18_witnessInit_initF witnessSameMtime 1 _ hr).1
  exact absurd this (by decide)

/-- the witness violates exactly the hypothesis of `C18_fresh_partial` -/
theorem C18_fresh_counterexample_hypothesis : histDistinctMtimes witnessInit witnessSameMtime = false := by
  decide

/-- The main clause under the single hypothesis that every version of the source that becomes
    current carries an mtime no earlier version carried. -/
theorem C18_fresh_partial (s0 : State) (h0 : InitF s0) (evs : List Ev)
    (hdist : histDistinctMtimes s0 evs = true)
    (p : Nat) (r : Ret) (h : ((run s0 evs).procs p).pc = .done (some r)) :
    r.vStart ≤ r.data ∧ r.data ≤ r.vEnd :=
  ⟨(run_invF s0 evs h0.toInit.inv h0.invF hdist).rets p r h,
   (C18_not_from_future s0 h0.toInit evs p r h).1⟩

/-! ### several source paths: what `load(k)` returns depends only on the events addressed to `k`

  Hypothesis beyond the wording, stated explicitly: the entry-name function is injective on paths
  (`hinj`), where a path is an ABSOLUTE NORMALISED path: `_get_filename` hashes
  `os.path.abspath(filename)` (`C18_entry_name_shape`), so two spellings with one abspath are one
  `Path` (they name one file: sharing the entry is right) and the same relative spelling used from two
  working directories is two `Path`s (before 382125e the spelling itself was hashed: the name
  function was not injective on files, see `C18_key_frame_needs_injective`).  Checked on every run by
  the harness (correspondence c18.entry-name: a store of spelling p from working directory d leaves
  exactly one entry, named sha1(abspath of p in d)); collision-freeness of sha1 is assumed.
  Independently of this model, the harness judges the statement on the real CacheStore with several
  files under look-alike spellings and several working directories. -/

/-- The entry-name function still has the text the key-indexed family assumes: the name is a hash
    of the ABSOLUTE path (re-extracted from /repo on every run). -/
theorem C18_entry_name_shape :
    Gen.Cache.shapeGetFilename =
      ["def _get_filename(self, filename):",
       "    if self._directory is None:",
       "        return",
       "    filename = os.path.abspath(filename)",
       "    hexdigest = hashlib.sha1(filename.encode('utf-8')).hexdigest()",
       "    return os.path.join(self._directory, hexdigest)"] := by
  decide

/-- With an injective entry-name function the family restricted to path `k` IS the single-key model
    run on the events addressed to `k`. -/
theorem C18_key_projection {Path : Type} [DecidableEq Path] (name : Path → Nat)
    (hinj : ∀ a b, name a = name b → a = b) (K : Family) (evs : List (Path × Ev)) (k : Path) :
    krun name K evs (name k) = run (K (name k)) (eventsOf k evs) := by
  induction evs generalizing K with
  | nil => rfl
  | cons e es ih =>
    have hstep : krun name K (e :: es) = krun name (kstep name K e) es := rfl
    rw [hstep, ih]
    by_cases h : e.1 = k
    · have : eventsOf k (e :: es) = e.2 :: eventsOf k es := by simp [eventsOf, h]
      rw [this]
      simp [kstep, upd, h, run, List.foldl]
    · have hn : name k ≠ name e.1 := fun hh => h (hinj _ _ hh).symm
      have : eventsOf k (e :: es) = eventsOf k es := by simp [eventsOf, h]
      rw [this]
      simp [kstep, upd, hn]

/-- Frame: operations and source modifications addressed to other paths never change anything
    about `k'` (its entry, what a load of it returns). -/
theorem C18_key_frame {Path : Type} [DecidableEq Path] (name : Path → Nat)
    (hinj : ∀ a b, name a = name b → a = b) (K : Family) (evs : List (Path × Ev)) (k' : Path)
    (hother : ∀ e ∈ evs, e.1 ≠ k') :
    krun name K evs (name k') = K (name k') := by
  rw [C18_key_projection name hinj K evs k']
  have : eventsOf k' evs = [] := by
    simp only [eventsOf, List.map_eq_nil_iff, List.filter_eq_nil_iff]
    intro e he
    simpa using hother e he
  rw [this]; rfl

/-- The main clause for several paths: a load of `k` returns the parse of a version of `k`'s own
    source that was current during the load, whatever is done to the other paths (under the
    hypothesis of `C18_fresh_partial` on the history of `k` alone). -/
theorem C18_fresh_keyed {Path : Type} [DecidableEq Path] (name : Path → Nat)
    (hinj : ∀ a b, name a = name b → a = b) (K : Family) (evs : List (Path × Ev)) (k : Path)
    (h0 : InitF (K (name k))) (hdist : histDistinctMtimes (K (name k)) (eventsOf k evs) = true)
    (p : Nat) (r : Ret) (h : ((krun name K evs (name k)).procs p).pc = .done (some r)) :
    r.vStart ≤ r.data ∧ r.data ≤ r.vEnd := by
  rw [C18_key_projection name hinj K evs k] at h
  exact C18_fresh_partial _ h0 _ hdist p r h

/-- Injectivity is needed: when two paths share an entry name, a store addressed to path 0 makes a
    load addressed to path 1 return a value although nothing was ever stored for path 1 (the frame
    property fails; with an injective name the same history leaves path 1 untouched). -/
theorem C18_key_frame_needs_injective :
    ((krun (fun _ : Nat => 0) (fun _ => witnessInit)
        ([(0, Ev.spawn 0 .store 7)] ++ List.replicate 9 (0, Ev.step 0) ++
         [(1, Ev.spawn 1 .load 7)] ++ List.replicate 4 (1, Ev.step 1)) 0).procs 1).pc
      = .done (some ⟨1, 7, 2, 5, 5, 1, 1⟩)
    ∧ ((krun (fun k : Nat => k) (fun _ => witnessInit)
        ([(0, Ev.spawn 0 .store 7)] ++ List.replicate 9 (0, Ev.step 0) ++
         [(1, Ev.spawn 1 .load 7)] ++ List.replicate 4 (1, Ev.step 1)) 1).procs 1).pc
      = .done none := by
  decide

example : ∀ a b : Nat, (fun k : Nat => k) a = (fun k : Nat => k) b → a = b := fun _ _ h => h

example :
    eventsOf (1 : Nat) [(0, Ev.spawn 0 .store 7), (1, Ev.tick), (0, Ev.step 0), (1, Ev.modify true)]
      = [.tick, .modify true] := by decide

/-- A crash changes nothing in the file system: it only stops the process. -/
theorem C18_crash_only_kills (s : State) (p : Nat) :
    (step s (.crash p)).entry = s.entry ∧ (step s (.crash p)).inodes = s.inodes ∧
    (step s (.crash p)).stamp = s.stamp ∧ (step s (.crash p)).tmps = s.tmps := by
  simp only [step]; split <;> simp [State.setPc]

/-- Wherever a process is killed (`evs1 ++ crash p :: evs2`, any `p`, any point): the entry
    name still points to a complete pickle; what the crash can leave behind are temporary files in
    the cache directory (possibly torn): they are inodes that were never published and the entry
    name never points to one of them; nobody raises, and every later load returns nothing or a
    complete entry carrying exactly the mtime of its source. -/
theorem C18_crash (s0 : State) (h0 : Init s0) (hc : ∀ i, s0.entry = some i → (s0.inodes i).len = full)
    (evs1 evs2 : List Ev) (p : Nat) :
    let s := run s0 (evs1 ++ .crash p :: evs2)
    (∀ i, s.entry = some i → (s.inodes i).len = full) ∧
    (∀ i, i ∈ s.tmps → (s.inodes i).pub = false ∧ s.entry ≠ some i) ∧
    (∀ q, (s.procs q).pc ≠ .raised) ∧
    (∀ q r, (s.procs q).pc = .done (some r) → r.len = full ∧ r.srcSeen = r.entryM ∧ r.data ≤ r.vEnd) := by
  intro s
  have hi : Inv s := run_inv s0 _ h0.inv
  refine ⟨run_invC s0 _ h0.inv hc, ?_, fun q => C18_no_raise s0 h0 _ q, fun q r hq => ?_⟩
  · intro i hmem
    have h1 := (hi.tmps i hmem).2
    refine ⟨h1, ?_⟩
    intro he
    have h2 := (hi.entry i he).2
    rw [h1] at h2; cases h2
  · exact ⟨C18_complete_or_none s0 h0 _ q r hq, C18_not_older s0 h0 _ q r hq,
      (C18_not_from_future s0 h0 _ q r hq).1⟩

/-- A store whose temporary file was removed under it (by the purge of a scanner of another
    version) drops its parse silently: `os.utime` / `os.replace` fail with ENOENT, which is
    swallowed, nothing is published. -/
theorem C18_purged_temp_dropped (s : State) (p i : Nat) (hgone : s.tmps.contains i = false)
    (hpc : (s.procs p).pc = .sUtime i ∨ (s.procs p).pc = .sRename i) :
    let s' := run s [.step p, .step p]
    (s'.procs p).pc = .done none ∧ s'.entry = s.entry ∧ s'.tmps = s.tmps := by
  have h1 : step s (.step p) = s.setPc p (.sUnlinkTmp i) := by
    rcases hpc with hpc | hpc <;>
      simp only [step, stepProc, hpc, hgone, utimeCatchesENOENT, moveCatchesENOENT, if_true, Bool.false_eq_true,
        if_false]
  simp only [run, List.foldl_cons, List.foldl_nil, h1]
  have h2 : ((s.setPc p (.sUnlinkTmp i)).procs p).pc = .sUnlinkTmp i := by simp [State.setPc]
  have h3 : (s.setPc p (.sUnlinkTmp i)).tmps.contains i = false := hgone
  simp only [step, stepProc, h2, h3, unlinkCatchesENOENT, if_true, Bool.false_eq_true, if_false]
  simp [State.setPc]

/-- An unreadable / truncated entry is discarded instead of raising: a load that reads a
    torn pickle goes on to unlink the entry name and returns nothing. -/
theorem C18_torn_discarded (s : State) (p i v0 m sm : Nat) (hpc : (s.procs p).pc = .lRead i v0 m sm)
    (ht : (s.inodes i).len ≠ full) :
    ((step s (.step p)).procs p).pc = .lUnlink ∧
    (run s [.step p, .step p]).entry = none ∧ ((run s [.step p, .step p]).procs p).pc = .done none := by
  have hc : (s.inodes i).complete = false := by simp [Inode.complete, ht]
  have h1 : step s (.step p) = s.setPc p .lUnlink := by
    simp [step, stepProc, hpc, hc, unpickleCatchesAll, brokenIsUnlinked]
  refine ⟨by rw [h1]; simp [State.setPc], ?_⟩
  simp only [run, List.foldl_cons, List.foldl_nil, h1]
  simp only [step, stepProc, State.setPc, upd_same, unlinkCatchesENOENT, if_true]
  cases s.entry <;> simp

/-- `os.listdir` of a purge reports the entry and EVERY temporary file lying in the cache
    directory (those a crashed store left behind included). -/
theorem C18_purge_lists_everything (s : State) (p : Nat) (hpc : (s.procs p).pc = .cListdir) :
    let todo : List Name := (if s.entry.isSome then [none] else []) ++ s.tmps.map some
    ((step s (.step p)).procs p).pc = (if todo.isEmpty then .cMkstemp else .cUnlink todo) := by
  intro todo
  simp only [step, stepProc, hpc]
  cases h : (if s.entry.isSome then [none] else []) ++ s.tmps.map some with
  | nil => simp [todo, h, State.setPc]
  | cons n rest => simp [todo, h, State.setPc]

/-- An unlink step of a purge removes the listed name (entry or temporary file). -/
theorem C18_purge_unlinks (s : State) (p : Nat) (n : Name) (rest : List Name)
    (hpc : (s.procs p).pc = .cUnlink (n :: rest)) :
    nameExists (step s (.step p)) n = false := by
  simp only [step, stepProc, hpc, unlinkCatchesENOENT, if_true]
  split
  · cases n <;> simp [nameExists, unlinkName, State.setPc]
  · rename_i hne
    cases n <;> simpa [nameExists, State.setPc] using hne

/-- A change of scanner version discards the entry and whatever temporary file lies in the cache
    directory, and restamps: a version check by a process of version `V` run to completion on a
    cache stamped otherwise (here: at most one leftover temporary file). -/
theorem C18_version_change_discards (s : State) (p V : Nat) (hidle : (s.procs p).pc = .idle)
    (hst : s.stamp ≠ some V) (htmps : s.tmps = [] ∨ ∃ t, s.tmps = [t]) :
    ∃ n, let s' := run s (.spawn p .check V :: List.replicate n (.step p))
      s'.entry = none ∧ s'.tmps = [] ∧ s'.stamp = some V ∧ (s'.procs p).pc = .done none := by
  rcases htmps with ht | ⟨t, ht⟩
  · cases he : s.entry with
    | none =>
      refine ⟨6, ?_⟩
      cases hs : s.stamp <;>
        simp_all [run, List.replicate, step, stepProc, State.setPc, firstPc, stampCatchesENOENT]
    | some e =>
      refine ⟨7, ?_⟩
      cases hs : s.stamp <;>
        simp_all [run, List.replicate, step, stepProc, State.setPc, firstPc, stampCatchesENOENT, nameExists,
          unlinkName]
  · cases he : s.entry with
    | none =>
      refine ⟨7, ?_⟩
      cases hs : s.stamp <;>
        simp_all [run, List.replicate, step, stepProc, State.setPc, firstPc, stampCatchesENOENT, nameExists,
          unlinkName]
    | some e =>
      refine ⟨8, ?_⟩
      cases hs : s.stamp <;>
        simp_all [run, List.replicate, step, stepProc, State.setPc, firstPc, stampCatchesENOENT, nameExists,
          unlinkName]

/-- After the entry has been purged (or whenever it is absent or written by version `V`), as
    long as only processes of version `V` store, every load that STARTS afterwards returns
    nothing or an entry written by version `V`, and the entry name stays so. -/
theorem C18_version_purge (s0 : State) (h0 : Init s0) (evs0 : List Ev) (V : Nat)
    (hentry : ∀ i, (run s0 evs0).entry = some i → ((run s0 evs0).inodes i).sver = V)
    (evs : List Ev) (hstores : onlyStoresOf V (run s0 evs0) evs = true) :
    let s := run (run s0 evs0) evs
    (∀ i, s.entry = some i → (s.inodes i).sver = V) ∧
    (∀ q r, ((run s0 evs0).procs q).pc = .idle → (s.procs q).pc = .done (some r) → r.sver = V) := by
  intro s
  have hP : InvP V (fun q => ((run s0 evs0).procs q).pc = .idle) (run s0 evs0) :=
    ⟨hentry, fun q hq => by rw [hq]; trivial⟩
  have := run_invP V _ (run s0 evs0) evs (run_inv s0 evs0 h0.inv) hP hstores
  refine ⟨this.entryV, fun q r hq hr => ?_⟩
  have h := this.held q hq
  rw [hr] at h
  exact h

/-! ### non-vacuity: concrete histories meeting the hypotheses and the conclusions -/

/-- store then load, sequentially: the entry carries the source's mtime (5, not the time of
    writing 10) and the load returns the parse of the current version -/
example :
    ((run (mkInit 10 1 5 none none)
      [.spawn 0 .store 7, .step 0, .step 0, .step 0, .step 0, .step 0, .step 0, .step 0, .step 0,
       .spawn 1 .load 7, .step 1, .step 1, .step 1, .step 1]).procs 1).pc
      = .done (some ⟨1, 7, 2, 5, 5, 1, 1⟩) := by decide

/-- the hypothesis of `C18_fresh_partial` holds on a history with a concurrent store, a
    modification, a replacement by an older-dated file, and loads that return something -/
example :
    let evs := [.spawn 0 .store 7, .step 0, .step 0, .spawn 1 .load 7, .step 0, .step 0, .step 0, .step 0,
                .step 1, .step 1, .step 1, .step 1, .modify true, .step 0, .step 0, .step 0,
                .replace 3, .spawn 2 .load 7, .step 2, .step 2, .step 2, .step 2]
    histDistinctMtimes (mkInit 10 1 5 (some (1, 7, 2, 5)) none) evs = true ∧
    ((run (mkInit 10 1 5 (some (1, 7, 2, 5)) none) evs).procs 1).pc = .done (some ⟨1, 7, 2, 5, 5, 1, 1⟩) ∧
    ((run (mkInit 10 1 5 (some (1, 7, 2, 5)) none) evs).procs 2).pc = .done none := by decide

example : InitF (mkInit 10 1 5 (some (1, 7, 2, 5)) none) :=
  mkInit_initF 10 1 5 _ none (by intro d sv l m h; cases h; decide)
    (by intro d sv l m h; cases h; decide)

/-- the parse of the replaced file is not served after the source was replaced by a file carrying
    an OLDER mtime than the time the entry was written (the former finding) -/
example :
    ((run (mkInit 10 1 5 none none)
      [.spawn 0 .store 7, .step 0, .step 0, .step 0, .step 0, .step 0, .step 0, .step 0, .step 0,
       .tick, .replace 3, .spawn 1 .load 7, .step 1, .step 1, .step 1]).procs 1).pc = .done none := by decide

/-- a parse read before a modification is stored with the OLD mtime and never served -/
example :
    ((run (mkInit 10 1 5 none none)
      [.spawn 0 .store 7, .step 0, .modify true, .step 0, .step 0, .step 0, .step 0, .step 0, .step 0, .step 0,
       .spawn 1 .load 7, .step 1, .step 1, .step 1]).procs 1).pc = .done none := by decide

/-- a stale initial entry (parse of v0, made from a version with mtime 3) is rejected -/
example :
    ((run (mkInit 10 1 5 (some (0, 7, 2, 3)) none)
      [.spawn 1 .load 7, .step 1, .step 1, .step 1]).procs 1).pc = .done none := by decide

example : InitF (mkInit 10 1 5 (some (0, 7, 2, 3)) none) :=
  mkInit_initF 10 1 5 _ none (by intro d sv l m h; cases h; decide)
    (by intro d sv l m h; cases h; decide)

/-- a torn initial entry carrying the source's mtime is unlinked, nothing is returned, nobody raises -/
example :
    let s := run (mkInit 10 1 5 (some (1, 7, 1, 5)) none)
      [.spawn 1 .load 7, .step 1, .step 1, .step 1, .step 1, .step 1]
    (s.procs 1).pc = .done none ∧ s.entry = none := by decide

/-- a crash in the middle of a store leaves the old entry in place and a torn temporary file in the
    cache directory; the purge of the next scanner version removes both -/
example :
    let s := run (mkInit 10 1 5 (some (0, 7, 2, 3)) (some 7))
      [.spawn 0 .store 7, .step 0, .step 0, .step 0, .step 0, .step 0, .crash 0]
    s.entry = some 0 ∧ (s.inodes 1).len = 1 ∧ s.tmps = [1] ∧ (s.procs 0).pc = .crashed ∧
    (let s' := run s [.spawn 1 .check 8, .step 1, .step 1, .step 1, .step 1, .step 1, .step 1, .step 1, .step 1]
     s'.entry = none ∧ s'.tmps = [] ∧ s'.stamp = some 8 ∧ (s'.procs 1).pc = .done none) := by decide

/-- a purge removes the temporary file of a running store: the store ends without raising and
    without publishing -/
example :
    let s := run (mkInit 10 1 5 none (some 7))
      [.spawn 0 .store 7, .step 0, .step 0, .step 0, .step 0, .step 0, .step 0,
       .spawn 1 .check 8, .step 1, .step 1, .step 1, .step 0, .step 0, .step 0]
    (s.procs 0).pc = .done none ∧ s.entry = none ∧ s.tmps = [] := by decide

example :
    onlyStoresOf 8 (mkInit 10 1 5 none (some 8))
      [.spawn 0 .store 8, .step 0, .step 0, .step 0, .step 0, .step 0, .step 0, .step 0, .step 0,
       .spawn 1 .load 8, .step 1, .step 1, .step 1, .step 1] = true := by decide

end GIVerif.Cache
