/-
  C04 — Each public C symbol is described once, under the right name and owner.
  ONLY property theorems and non-vacuity examples live here; helper lemmas are in
  GIVerif/Lemmas/Naming.lean, the executable model in GIVerif/Model/Naming.lean.

  Theorems
    C04_pattern_shape                 the regexes / substitution steps / literals of the source still have
                                      the shape the model was written for (regenerated table, `decide`)
    C04_strip_symbol_current          current-namespace symbol prefix ⇒ name = symbol minus FIRST matching
    C04_strip_identifier_current      prefix (and its `_` separator); independent of all includes
    C04_strip_symbol_foreign          only an included namespace matches ⇒ foreign error, left out
    C04_strip_identifier_foreign
    C04_strip_underscore_excluded     leading `_` ⇒ no function / constant
    C04_strip_hidden_readded          hidden `_` of identifiers is put back
    C04_longest_type(_none)           `_split_uscored_by_type` = longest `_`-boundary prefix, exact remainder
    C04_symbol_prefix_of_get_type     symbol prefix of a registered type = get-type symbol minus namespace prefix
                                      minus exactly the final `_get_type` / `_get_gtype`
    C04_method_sound                  `_is_method` ⇒ first parameter is a class/interface/record/union/boxed of
    C04_method_prefix_is_type_prefix  THIS namespace ∧ (annotated ∨ symbol starts with the type's prefix)
    C04_method_not_of_foreign_type    first parameter of a type of an INCLUDED namespace ⇒ never a method (whatever the
                                      name carries: the include type's `c:symbol-prefix` or its underscored name)
    C04_method_owner                  `_setup_method` hangs the function on the type of its first parameter only
    C04_method_ctor_sound             `_is_constructor` ⇒ origin is of this namespace, registered under the
                                      longest type prefix (or annotated), return type = origin or an ancestor
    C04_method_name_partial           the `symbol.find` cut that names un-annotated methods (and annotated
                                      constructors without type-prefix match) yields the remainder
    C04_ctor_name_annotated           … an annotated constructor without type-prefix match is cut only when its
                                      stripped symbol LEADS with the return type's prefix, else keeps its name
    C04_once, C04_once_operations     uniqueness invariant of the namespace container along the pipeline model
    C04_only_public_symbols           every function / constant element the pipeline model describes has a C name
                                      without leading `_` that the current namespace claims
    C04_static_sound, C04_ctor_name   static functions / constructors hang on the longest type prefix and are
                                      named by the remainder
    C04_to_underscores(_acronym)      CamelCase words → joined by `_`; the acronym rule; C04_classes
  Witness of the one confirmed defect of the unchanged code (replayed on the real code by
  harness/c04.py, see PENDING_FINDINGS there):
    C04_method_name_counterexample, C04_pipeline_witness

  Hypotheses beyond the property's own wording:
  * `C04_strip_*`: the symbol is not empty after removing a leading underscore (the real code
    raises IndexError on `name[0]` there: `SplitErr.emptyName`); identifiers are ASCII where
    `str.isupper/upper/lower` are involved (model definitions `firstIsUpper`, `upper`, `lower`).
  * `C04_method_ctor_sound`: none (full statement since /repo 5ba500c, 11d283b).  The model keeps
    `Walk.noParentAttr` → `CtorVerdict.crash` for a class whose resolved parent is a record / union /
    boxed node (the real walk then raises AttributeError); a GType dump cannot contain such a class.
  * `C04_method_name_partial`: hypothesis `hfind` excludes exactly the input class of the remaining
    confirmed defect: the stripped symbol occurs earlier in the symbol than at its own position
    (`str.find` returns the leftmost occurrence).  Full statement: `C04_method_name_full`.
    Still affected in /repo HEAD: the name of every UN-annotated method (`_setup_method`, both the
    moved method and the moved-to compatibility copy) and of an annotated constructor whose stripped
    symbol no type prefix splits but which leads with the return type's prefix
    (`_get_constructor_name`, see `C04_ctor_name_annotated`).  NOT affected: annotated methods
    (`C04_method_owner`), constructors and static functions named through `_split_uscored_by_type`
    (`C04_ctor_name`, `C04_static_sound`), top-level functions.
  * `C04_symbol_prefix_of_get_type`: the stripped get-type symbol is not one of the two names the code
    refuses (`get_type`, `_get_gtype`: the type would have no name) and ends in one of the suffixes
    (`_initparse_function` only collects such functions).
  * `C04_only_public_symbols`, `C04_static_sound`, `C04_ctor_name`, `C04_ctor_name_annotated`, `C04_method_owner`: none.
  * `C04_once`: none (the model's own `dupCid` guard turns "two declarations share a C identifier",
    which C forbids, into an error outcome instead of a hypothesis).
  * `C04_to_underscores*`: words are `[A-Z][a-z0-9]+` (at least one lower-case/digit character
    after the capital — a single capital is an acronym letter, see `C04_to_underscores_acronym`).
-/
import GIVerif.Lemmas.Naming

namespace GIVerif.Naming
open GIVerif.Py

/-- The three regular expressions, the substitution steps of `to_underscores*`, the
    constructor-name guesses, the root of the ancestor walk and the get-type suffixes still
    have the shape the model was written for (re-extracted from /repo on every run). -/
theorem C04_pattern_shape :
    Gen.upperstrShapes =
      ["_upperstr_pat1[flags=0]: group(in(^,65-90)) group(in(65-90))",
       "_upperstr_pat2[flags=0]: group(in(65-90)+in(65-90)) group(in(65-90)+in(48-57,97-122))",
       "_upperstr_pat3[flags=0]: bol group(in(65-90)) group(in(65-90))"]
    ∧ Gen.toUnderscoresSteps =
      ["name=_upperstr_pat1.sub(\\1_\\2,name,all)", "name=_upperstr_pat2.sub(\\1_\\2,name,all)",
       "name=_upperstr_pat3.sub(\\1_\\2,name,1)", "return name"]
    ∧ Gen.toUnderscoresNoprefixSteps =
      ["name=_upperstr_pat1.sub(\\1_\\2,name,all)", "name=_upperstr_pat2.sub(\\1_\\2,name,all)",
       "return name"]
    ∧ Gen.guessConstructorTests = ["endswith(_new)", "in(_new_)", "endswith(_newv)"]
    ∧ Gen.ctorWalkRoots = []
    ∧ Gen.typeMetaTests = ["endswith(_get_type)", "endswith(_get_gtype)"]
    ∧ Gen.splitTypeAndSymbolPrefixSteps =
      ["get_type = xmlnode.attrib['get-type']", "ns, name = self._transformer.split_csymbol(get_type)",
       "assert ns is self._namespace", "if name in ('get_type', '_get_gtype'): fatal",
       "if name.endswith('_get_type'): type_suffix = '_get_type' else: type_suffix = '_get_gtype'",
       "return (get_type, name[:-len(type_suffix)])"]
    ∧ Gen.reUpper = [(65, 90)] ∧ Gen.reLowerDigit = [(48, 57), (97, 122)] := by
  decide

/-! ### C04_strip -/

/-- A symbol that carries a symbol prefix of the CURRENT namespace (completed with the `_`
    separator; upper-cased spelling for symbols starting upper-case) is named by what follows
    the FIRST such prefix in list order — whatever the included namespaces' prefixes are and
    however long they are. -/
theorem C04_strip_symbol_current (cfg : Cfg) (ident : Str) (p : Str)
    (hne : ident ≠ []) (hpub : dropHidden ident = (false, ident))
    (hp : p ∈ prefixesFor false ident cfg.cur) (hpre : completeSym p <+: ident) :
    ∃ pre q post rest, prefixesFor false ident cfg.cur = pre ++ q :: post ∧
      (∀ x ∈ pre, ¬ completeSym x <+: ident) ∧ ident = completeSym q ++ rest ∧
      stripSymbol cfg ident = .ok rest := by
  have hsome := firstMatch_isSome_of_mem (isIdent := false) hp (by simpa [effPrefix] using hpre)
  cases hf : firstMatch false (prefixesFor false ident cfg.cur) ident with
  | none => rw [hf] at hsome; cases hsome
  | some rn =>
    obtain ⟨rest, n⟩ := rn
    obtain ⟨pre, q, post, hps, hn, _, hno⟩ := firstMatch_some hf
    refine ⟨pre, q, post, rest, hps, by simpa [effPrefix] using hno, by simpa [effPrefix] using hn, ?_⟩
    have hemp : (!false && ident.isEmpty) = false := by
      cases ident with
      | nil => exact absurd rfl hne
      | cons _ _ => rfl
    unfold stripSymbol
    rw [hpub]
    simp only [split_of_cur_match hemp hf, lastOf_append_singleton, addHidden]
    rfl

/-- The same for C identifiers (types, enumerations, aliases, callbacks in CamelCase). -/
theorem C04_strip_identifier_current (cfg : Cfg) (ident : Str) (p : Str)
    (hpub : dropHidden ident = (false, ident))
    (hp : p ∈ cfg.cur.idPrefixes) (hpre : p <+: ident) :
    ∃ pre q post rest, cfg.cur.idPrefixes = pre ++ q :: post ∧
      (∀ x ∈ pre, ¬ x <+: ident) ∧ ident = q ++ rest ∧
      stripIdentifier cfg ident = .ok rest := by
  have hp' : p ∈ prefixesFor true ident cfg.cur := by simpa [prefixesFor] using hp
  have hsome := firstMatch_isSome_of_mem (isIdent := true) hp' (by simpa [effPrefix] using hpre)
  cases hf : firstMatch true (prefixesFor true ident cfg.cur) ident with
  | none => rw [hf] at hsome; cases hsome
  | some rn =>
    obtain ⟨rest, n⟩ := rn
    obtain ⟨pre, q, post, hps, hn, _, hno⟩ := firstMatch_some hf
    refine ⟨pre, q, post, rest, by simpa [prefixesFor] using hps, by simpa [effPrefix] using hno,
      by simpa [effPrefix] using hn, ?_⟩
    unfold stripIdentifier
    rw [hpub]
    simp only [split_of_cur_match (by rfl) hf]
    rw [find_cur_append (fun m hm => incPart_ne_cur hm)]
    rfl

/-- If no prefix of the current namespace matches and some included namespace claims the
    name, the symbol is foreign: no name is produced (the declaration is left out). -/
theorem C04_strip_symbol_foreign (cfg : Cfg) (ident : Str)
    (hne : ident ≠ []) (hpub : dropHidden ident = (false, ident))
    (hcur : ∀ p ∈ prefixesFor false ident cfg.cur, ¬ completeSym p <+: ident)
    (hinc : incMatches false ident cfg.incs 0 ≠ []) :
    (∃ j, stripSymbol cfg ident = .error (.foreign (.inc j))) ∧ publicSymbolName cfg ident = none := by
  have hf : firstMatch false (prefixesFor false ident cfg.cur) ident = none :=
    firstMatch_none.mpr (by simpa [effPrefix] using hcur)
  have hemp : (!false && ident.isEmpty) = false := by
    cases ident with
    | nil => exact absurd rfl hne
    | cons _ _ => rfl
  obtain ⟨hs, hnn⟩ := split_of_inc_only hemp hf hinc
  obtain ⟨x, hx, hl⟩ := lastOf_mem hnn
  obtain ⟨j, hj⟩ := incPart_ns hx
  have hstrip : stripSymbol cfg ident = .error (.foreign (.inc j)) := by
    unfold stripSymbol
    rw [hpub]
    simp only [hs, hl]
    obtain ⟨a, b⟩ := x
    simp only at hj
    subst hj
    rfl
  refine ⟨⟨j, hstrip⟩, ?_⟩
  unfold publicSymbolName
  rw [hstrip]
  split <;> rfl

theorem C04_strip_identifier_foreign (cfg : Cfg) (ident : Str)
    (hpub : dropHidden ident = (false, ident))
    (hcur : ∀ p ∈ cfg.cur.idPrefixes, ¬ p <+: ident)
    (hinc : incMatches true ident cfg.incs 0 ≠ []) :
    ∃ j, stripIdentifier cfg ident = .error (.foreign (.inc j)) := by
  have hf : firstMatch true (prefixesFor true ident cfg.cur) ident = none :=
    firstMatch_none.mpr (by simpa [effPrefix, prefixesFor] using hcur)
  obtain ⟨hs, hnn⟩ := split_of_inc_only (by rfl) hf hinc
  obtain ⟨x, hx, hl⟩ := lastOf_mem hnn
  obtain ⟨j, hj⟩ := incPart_ns hx
  refine ⟨j, ?_⟩
  unfold stripIdentifier
  rw [hpub]
  simp only [hs]
  rw [find_cur_none (fun m hm => incPart_ne_cur hm), hl]
  obtain ⟨a, b⟩ := x
  simp only at hj
  subst hj
  rfl

/-- A leading underscore keeps a function / constant / function macro out of the namespace,
    whatever follows it. -/
theorem C04_strip_underscore_excluded (cfg : Cfg) (rest : Str) :
    publicSymbolName cfg ('_' :: rest) = none := by
  simp [publicSymbolName, startsWith]

/-- The hidden underscore of `_FooBar` (struct tags) is put back in front of the stripped
    name: such names never collide with public ones and stay recognisably private. -/
theorem C04_strip_hidden_readded (cfg : Cfg) (rest r : Str)
    (h : stripIdentifier cfg ('_' :: rest) = .ok r) : ∃ r', r = '_' :: r' := by
  unfold stripIdentifier at h
  simp only [dropHidden] at h
  split at h
  · cases h
  · split at h
    · simp only [addHidden, ↓reduceIte, Except.ok.injEq] at h
      exact ⟨_, h.symm⟩
    · split at h <;> cases h

end GIVerif.Naming

namespace GIVerif.Naming
open GIVerif.Py

/-! ### C04_longest_type -/

/-- `_split_uscored_by_type` returns the type registered under the LONGEST prefix of the
    symbol that ends at an underscore boundary (or is the whole symbol) — `text_buffer` wins
    over `text` — together with exactly the remainder after that prefix. -/
theorem C04_longest_type {α : Type} (m : Str → Option α) (s : Str) (t : α) (rest : Str)
    (h : splitUscoredByType m s = some (t, rest)) :
    ∃ pre, m pre = some t ∧ IsBoundaryPrefix pre s rest ∧
      ∀ pre' rest', IsBoundaryPrefix pre' s rest' → pre.length < pre'.length → m pre' = none := by
  unfold splitUscoredByType at h
  rw [List.findSome?_eq_some_iff] at h
  obtain ⟨l₁, a, l₂, hl, ha, hbefore⟩ := h
  obtain ⟨pre, post⟩ := a
  cases hm : m pre with
  | none => simp [hm] at ha
  | some t' =>
    simp only [hm, Option.map_some, Option.some.injEq, Prod.mk.injEq] at ha
    obtain ⟨rfl, rfl⟩ := ha
    have hmem : (pre, post) ∈ rsplitCandidates s := by rw [hl]; simp
    refine ⟨pre, hm, mem_rsplitCandidates.mp hmem, ?_⟩
    intro pre' rest' hb hlt
    have hmem' : (pre', rest') ∈ rsplitCandidates s := mem_rsplitCandidates.mpr hb
    have hpw := rsplitCandidates_pairwise s
    rw [hl, List.pairwise_append] at hpw
    obtain ⟨_, hpw2, _⟩ := hpw
    rw [List.pairwise_cons] at hpw2
    rw [hl, List.mem_append, List.mem_cons] at hmem'
    rcases hmem' with h1 | h2 | h3
    · have := hbefore _ h1
      cases hm' : m pre' with
      | none => rfl
      | some x => simp [hm'] at this
    · simp only [Prod.mk.injEq] at h2
      rw [h2.1] at hlt
      omega
    · have := hpw2.1 _ h3
      simp only at this
      omega

/-- … and it answers `None` exactly when no boundary prefix names a type. -/
theorem C04_longest_type_none {α : Type} (m : Str → Option α) (s : Str) :
    splitUscoredByType m s = none ↔ ∀ pre rest, IsBoundaryPrefix pre s rest → m pre = none := by
  unfold splitUscoredByType
  rw [List.findSome?_eq_none_iff]
  constructor
  · intro h pre rest hb
    have := h (pre, rest) (mem_rsplitCandidates.mpr hb)
    cases hm : m pre with
    | none => rfl
    | some x => simp [hm] at this
  · intro h p hp
    obtain ⟨pre, rest⟩ := p
    simp [h pre rest (mem_rsplitCandidates.mp hp)]

end GIVerif.Naming

namespace GIVerif.Naming
open GIVerif.Py

/-! ### the symbol prefix of a GType-registered type -/

/-- `GDumpParser._split_type_and_symbol_prefix` (pinned by `C04_pattern_shape`): the symbol prefix
    of a registered class / interface / boxed type / enumeration is its get-type symbol minus the
    namespace prefix and minus EXACTLY the final `_get_type` / `_get_gtype` — whatever the body
    is, in particular when the type's own name contains `_get_` or `_get_type`
    (`http_get_request`, `widget_get_type_helper`). -/
theorem C04_symbol_prefix_of_get_type (cfg : Cfg) (gt sub body : Str) (ms : List (NsRef × Str))
    (hs : splitForNamespaces cfg false gt = .ok ms) (hl : lastOf ms = some (NsRef.cur, sub))
    (hnf : sub ≠ "get_type".toList ∧ sub ≠ "_get_gtype".toList)
    (hsuf : sub = body ++ "_get_type".toList ∨ sub = body ++ "_get_gtype".toList) :
    symbolPrefixOfGetType cfg gt = .ok body := by
  unfold symbolPrefixOfGetType
  rw [hs]
  simp only [hl]
  have h1 : ¬ (sub == "get_type".toList || sub == "_get_gtype".toList) = true := by
    have := hnf
    simp only [Bool.or_eq_true, beq_iff_eq]
    tauto
  rw [if_neg h1]
  rcases hsuf with h | h
  · rw [if_pos (by rw [h]; exact endsWith_append _ _)]
    rw [h]; simp
  · rw [if_neg (by rw [h, endsWith_gtype_not_type]; simp)]
    rw [h]; simp

example : symbolPrefixOfGetType ⟨⟨"Foo".toList, ["Foo".toList], ["foo".toList], []⟩, [], false⟩
    "foo_http_get_request_get_type".toList = .ok "http_get_request".toList ∧
  symbolPrefixOfGetType ⟨⟨"Foo".toList, ["Foo".toList], ["foo".toList], []⟩, [], false⟩
    "foo_widget_get_type_helper_get_gtype".toList = .ok "widget_get_type_helper".toList := by decide

/-! ### C04_once -/

/-- Whatever the declarations, the prefix configuration, the includes and the dump: when the
    pipeline model produces a namespace, its GIR names are unique, every element is filed
    under its own name, and no two elements that are not moved-to copies — top-level or hung
    on a type as method / constructor / function — carry the same C identifier. -/
theorem C04_once (inp : Input) (st : NsState) (h : describe inp = .ok st) :
    (st.names.map (·.1)).Nodup ∧ (∀ p ∈ st.names, p.1 = p.2.name) ∧ st.canonCids.Nodup :=
  let i := Inv_describe h
  ⟨i.keys, i.named, i.cids⟩

/-- The same invariant for ANY sequence of the container operations the pipeline uses
    (`Namespace.append`, `append(replace=True)`, `remove`, `float` + re-parenting, the static
    method clone and the moved-to compatibility copy), starting from any state satisfying it. -/
theorem C04_once_operations (st : NsState) (h : st.Inv) :
    (∀ n st', st.append n = .ok st' → st'.Inv) ∧
    (∀ n st', st.appendReplace n = .ok st' → st'.Inv) ∧
    (∀ name, (st.remove name).Inv) ∧ (∀ name, (st.float name).Inv) ∧
    (∀ fname owner role newName, (st.pairMove fname owner role newName id).Inv) ∧
    (∀ fname owner newName, (st.pairClone fname owner newName).Inv) ∧
    (∀ fname owner newName, (st.pairCompat fname owner newName).Inv) :=
  ⟨fun _ _ ha => Inv_append h ha, fun _ _ ha => Inv_appendReplace h ha, fun n => Inv_remove h n,
   fun n => Inv_remove h n, fun a b c d => Inv_pairMove h a b c d id (by intro n; simp),
   fun a b c => Inv_pairClone h a b c, fun a b c => Inv_pairCompat h a b c⟩

/-- Whatever the declarations, the prefix configuration, the includes and the dump: every
    function and constant element of the described namespace — top level or hung on a type,
    moved-to copies included — carries a C name that does not start with an underscore and
    that the splitter attributes to the CURRENT namespace (so by `C04_strip_symbol_foreign`
    no symbol that only an included namespace claims is ever described). -/
theorem C04_only_public_symbols (inp : Input) (st : NsState) (h : describe inp = .ok st) (n : Node)
    (hn : (∃ p ∈ st.names, p.2 = n) ∨ (∃ o ∈ st.owned, o.fn = n))
    (hk : n.kind = Kind.function ∨ n.kind = Kind.constant) :
    (∃ name, publicSymbolName inp.env.cfg n.cid = some name) ∧ ∀ rest, n.cid ≠ '_' :: rest := by
  have hp : PublicSym inp.env.cfg n := by
    rcases hn with ⟨p, hp, rfl⟩ | ⟨o, ho, rfl⟩
    · exact (Pub_describe h).top p hp
    · exact (Pub_describe h).own o ho
  have hs := hp hk
  refine ⟨Option.isSome_iff_exists.mp hs, ?_⟩
  intro rest hr
  rw [hr, C04_strip_underscore_excluded] at hs
  cases hs

/-! ### C04_method_ctor_sound -/

/-- A function becomes a method only if it has a first parameter whose type is a class,
    interface, record, union or boxed type OF THIS NAMESPACE (passed by at most one pointer
    level), and — unless it is annotated `(method)` — its stripped symbol starts with that
    type's symbol prefix. -/
theorem C04_method_sound (env : Env) (st : NsState) (f : Node) (sub : Str)
    (h : isMethod env st f sub = true) :
    ∃ first rest target, f.params = first :: rest ∧ lookupCT env st first = some target ∧
      isMethodTargetKind target.kind = true ∧ target.ns = NsRef.cur ∧ first.stars ≤ 1 ∧
      (f.isMethod = true ∨ startsWith sub (getUscoredPrefix target sub) = true) := by
  unfold isMethod at h
  split at h
  · cases h
  · rename_i first rest hparams
    split at h
    · cases h
    · rename_i target htarget
      by_cases hk : isMethodTargetKind target.kind = true
      · by_cases hns : target.ns = NsRef.cur
        · by_cases hst : first.stars > 1
          · simp [hk, hns, hst] at h
          · refine ⟨first, rest, target, hparams, htarget, hk, hns, by omega, ?_⟩
            cases hm : f.isMethod with
            | true => left; rfl
            | false =>
              right
              simpa [hk, hns, hst, hm] using h
        · simp [hk, hns] at h
      · simp [hk] at h

/-- A function whose first parameter is a type of ANOTHER (included) namespace is never a method,
    whatever its name and annotation: `gtk_object_frob (GObject *)` stays a function of Gtk even though
    `object_frob` carries the symbol prefix of `GObject.Object`. -/
theorem C04_method_not_of_foreign_type (env : Env) (st : NsState) (f : Node) (sub : Str)
    (first : CT) (rest : List CT) (target : Target) (hp : f.params = first :: rest)
    (ht : lookupCT env st first = some target) (hns : target.ns ≠ NsRef.cur) :
    isMethod env st f sub = false := by
  cases h : isMethod env st f sub with
  | false => rfl
  | true =>
    obtain ⟨first', rest', target', hp', ht', _, hns', _⟩ := C04_method_sound env st f sub h
    rw [hp] at hp'
    cases hp'
    rw [ht] at ht'
    cases ht'
    exact absurd hns' hns

/-- … and the prefix in question is the type's registered symbol prefix or its underscored
    GIR name, nothing else. -/
theorem C04_method_prefix_is_type_prefix (target : Target) (sub : Str) :
    getUscoredPrefix target sub = lower (toUnderscoresNoprefix target.name) ∨
      target.cSymbolPrefix = some (getUscoredPrefix target sub) := by
  unfold getUscoredPrefix
  split
  · split
    · right; assumption
    · left; rfl
  · left; rfl

/-- `_setup_method` hangs the function on the type of its FIRST parameter and on nothing else:
    either moved there as a method (annotated: under its namespace-stripped name; otherwise under
    the cut name), or — when the symbol continues the type prefix without `_` (`g_resources_register`)
    — left at top level with a moved-to compatibility method copy on that type. -/
theorem C04_method_owner (env : Env) (st : NsState) (f : Node) (sub : Str) (first : CT) (rest : List CT)
    (target : Target) (hp : f.params = first :: rest) (ht : lookupCT env st first = some target) :
    (∃ newName mark, setupMethod env st f sub = st.pairMove f.name target.name .method newName mark ∧
        (f.isMethod = true → newName = f.name)) ∨
    (f.isMethod = false ∧ startsWith sub (getUscoredPrefix target sub ++ ['_']) = false ∧
      ∃ newName, setupMethod env st f sub = st.pairCompat f.name target.name newName) := by
  unfold setupMethod
  rw [hp]
  simp only [ht]
  by_cases hc : (!f.isMethod && !startsWith sub (getUscoredPrefix target sub ++ ['_'])) = true
  · right
    rw [if_pos hc]
    simp only [Bool.and_eq_true, Bool.not_eq_true'] at hc
    exact ⟨hc.1, hc.2, _, rfl⟩
  · left
    rw [if_neg hc]
    refine ⟨_, _, rfl, ?_⟩
    intro hm
    simp [hm]

/-- what the property demands of a constructor's return type: the constructed type itself or,
    when both are classes, one of its ancestors (GI names met along the `parent_type` links) -/
def CtorReturnOk (env : Env) (st : NsState) (target origin : Target) : Prop :=
  (origin.ns = target.ns ∧ origin.name = target.name) ∨
  (target.kind = Kind.cls ∧ origin.kind = Kind.cls ∧
    giName env target ∈ ancestorChain env st (walkFuel env st) (some origin))

/-- A function becomes a constructor only of a type of this namespace that is registered under
    the longest type prefix of its stripped symbol (or, when annotated `(constructor)` and no
    type prefix matches, of its return type), and its return type is that type or — for
    classes — one of its ancestors.  (Full statement since /repo 5ba500c + 11d283b: the walk
    goes up to the root and only starts at a class.) -/
theorem C04_method_ctor_sound (env : Env) (st : NsState) (f : Node) (sub : Str)
    (h : isConstructor env st f sub = true) :
    ∃ target origin, lookupCT env st f.ret = some target ∧
      getConstructorClass env st f sub = some origin ∧ origin.ns = NsRef.cur ∧
      ctorCapable target = true ∧ ctorCapable origin = true ∧
      ((∃ owner rest, splitUscoredByType (typeMap st) sub = some (owner, rest) ∧
          (st.get owner).map targetOfNode = some origin) ∨ f.isCtor = true) ∧
      CtorReturnOk env st target origin := by
  have hv : ctorVerdict env st f sub = .yes := by simpa [isConstructor] using h
  unfold ctorVerdict at hv
  by_cases h0 : (!f.isCtor && !guessConstructorByName f.cid) = true
  · rw [if_pos h0] at hv; cases hv
  · rw [if_neg h0] at hv
    cases ht : lookupCT env st f.ret with
    | none => rw [ht] at hv; cases hv
    | some target =>
      rw [ht] at hv
      simp only at hv
      by_cases h1 : (!ctorCapable target) = true
      · rw [if_pos h1] at hv; cases hv
      · rw [if_neg h1] at hv
        cases ho : getConstructorClass env st f sub with
        | none => rw [ho] at hv; cases hv
        | some origin =>
          rw [ho] at hv
          simp only at hv
          by_cases h2 : (!ctorCapable origin) = true
          · rw [if_pos h2] at hv; cases hv
          · rw [if_neg h2] at hv
            by_cases h3 : (origin.ns != NsRef.cur) = true
            · rw [if_pos h3] at hv; cases hv
            · rw [if_neg h3] at hv
              by_cases h4 : (!f.isCtor && firstArgIs env st f origin) = true
              · rw [if_pos h4] at hv; cases hv
              · rw [if_neg h4] at hv
                refine ⟨target, origin, rfl, rfl, by simpa using h3, by simpa using h1, by simpa using h2,
                  getConstructorClass_some ho, ?_⟩
                unfold returnVerdict at hv
                unfold CtorReturnOk
                by_cases hc : (target.kind == Kind.cls && origin.kind == Kind.cls) = true
                · rw [if_pos hc] at hv
                  simp only [Bool.and_eq_true, beq_iff_eq] at hc
                  right
                  refine ⟨hc.1, hc.2, ?_⟩
                  cases hw : ancestorWalk env st target (walkFuel env st) origin with
                  | found => exact walk_found _ _ hw
                  | broken => rw [hw] at hv; cases hv
                  | noParentAttr => rw [hw] at hv; cases hv
                  | exhausted => rw [hw] at hv; cases hv
                · rw [if_neg hc] at hv
                  left
                  by_cases hsame : (origin.ns == target.ns && origin.name == target.name) = true
                  · simpa using hsame
                  · rw [if_neg hsame] at hv; cases hv

/-! ### static functions and the constructor name -/

/-- A function is hung on a type as a static function only under the LONGEST type prefix of
    its stripped symbol (see `C04_longest_type`), named by the non-empty remainder after that
    prefix: moved there for classes, cloned (the original keeps a `moved-to`) for interfaces,
    records, unions, boxed types and enumerations; nothing else ever owns a static function. -/
theorem C04_static_sound (st st' : NsState) (f : Node) (sub : Str)
    (h : pairStaticMethod st f sub = some st') :
    ∃ owner rest node, splitUscoredByType (typeMap st) sub = some (owner, rest) ∧ rest ≠ [] ∧
      st.get owner = some node ∧
      ((node.kind = Kind.cls ∧ st' = st.pairMove f.name owner .static rest id) ∨
       (node.kind ≠ Kind.cls ∧ isCloneOwnerKind node.kind = true ∧ st' = st.pairClone f.name owner rest)) := by
  unfold pairStaticMethod at h
  split at h
  · cases h
  · rename_i owner rest hs
    by_cases he : rest.isEmpty = true
    · rw [if_pos he] at h; cases h
    · rw [if_neg he] at h
      split at h
      · cases h
      · rename_i node hg
        refine ⟨owner, rest, node, hs, ?_, hg, ?_⟩
        · intro hr; subst hr; exact he rfl
        · by_cases hc : node.kind = Kind.cls
          · left
            rw [if_pos (by simp [hc])] at h
            exact ⟨hc, (Option.some.inj h).symm⟩
          · right
            rw [if_neg (by simp [hc])] at h
            by_cases hk : isCloneOwnerKind node.kind = true
            · refine ⟨hc, hk, ?_⟩
              unfold isCloneOwnerKind at hk
              rw [if_pos hk] at h
              exact (Option.some.inj h).symm
            · unfold isCloneOwnerKind at hk
              rw [if_neg hk] at h
              cases h

/-- When a type prefix matches, a constructor is named by exactly the remainder after the
    longest type prefix and filed under the type registered for it — the `str.find` cut of
    `C04_method_name_partial` is only taken by annotated constructors without type prefix. -/
theorem C04_ctor_name (env : Env) (st : NsState) (f : Node) (sub owner rest : Str)
    (h : splitUscoredByType (typeMap st) sub = some (owner, rest)) :
    getConstructorName env st f sub = rest ∧
      getConstructorClass env st f sub = (st.get owner).map targetOfNode := by
  unfold getConstructorName getConstructorClass
  rw [h]
  exact ⟨rfl, rfl⟩

/-- When NO type prefix splits the stripped symbol, only an annotated `(constructor)` gets here
    (it is then filed under its return type): it is cut after the return type's prefix only when
    the stripped symbol LEADS with that prefix and `_` (since /repo 54063d6; the cut itself is
    still the `symbol.find` cut of `C04_method_name_partial`), otherwise it keeps its
    namespace-stripped name. -/
theorem C04_ctor_name_annotated (env : Env) (st : NsState) (f : Node) (sub : Str) (t : Target)
    (h : splitUscoredByType (typeMap st) sub = none) (ht : lookupCT env st f.ret = some t) :
    getConstructorClass env st f sub = (if f.isCtor then some t else none) ∧
    getConstructorName env st f sub =
      if f.isCtor && startsWith sub (getUscoredPrefix t sub ++ ['_']) then
        (nameAfterPrefix f.cid sub (getUscoredPrefix t sub)).getD f.name
      else f.name := by
  unfold getConstructorName getConstructorClass
  rw [h]
  simp only [ht]
  cases f.isCtor <;> simp

end GIVerif.Naming

namespace GIVerif.Naming
open GIVerif.Py

/-! ### the method / constructor NAME -/

/-- the cut `func.symbol[(symbol.find(subsymbol) + len(prefix) + 1):]` at full strength: for a
    symbol `nsprefix ++ typeprefix ++ "_" ++ rest` it yields `rest`
    (FALSE for the unchanged code, see `C04_method_name_counterexample`) -/
def C04_method_name_full : Prop :=
  ∀ (p pfx rest : Str), nameAfterPrefix (p ++ (pfx ++ '_' :: rest)) (pfx ++ '_' :: rest) pfx = some rest

/-- … it does so whenever the stripped symbol does not occur EARLIER in the symbol than at its
    own position (i.e. `str.find` finds the suffix itself). -/
theorem C04_method_name_partial (p pfx rest : Str)
    (hfind : findSub (p ++ (pfx ++ '_' :: rest)) (pfx ++ '_' :: rest) = some p.length) :
    nameAfterPrefix (p ++ (pfx ++ '_' :: rest)) (pfx ++ '_' :: rest) pfx = some rest := by
  unfold nameAfterPrefix
  rw [hfind]
  simp only [Option.map_some, Option.some.injEq]
  have e : p ++ (pfx ++ '_' :: rest) = (p ++ pfx ++ ['_']) ++ rest := by simp
  have l : p.length + pfx.length + 1 = (p ++ pfx ++ ['_']).length := by
    simp only [List.length_append, List.length_cons, List.length_nil]
  rw [e, l, List.drop_left]

theorem C04_method_name_counterexample :
    nameAfterPrefix ("foo_".toList ++ ("foo".toList ++ '_' :: "foo".toList)) ("foo".toList ++ '_' :: "foo".toList)
      "foo".toList = some "foo_foo".toList ∧ ¬ C04_method_name_full := by
  refine ⟨by decide, ?_⟩
  intro h
  have := h "foo_".toList "foo".toList "foo".toList
  revert this
  decide

/-! ### C04_to_underscores -/

/-- CamelCase built from words `[A-Z][a-z0-9]+` becomes the words joined by `_`
    (callers lower-case the result). -/
theorem C04_to_underscores (ws : List (Char × Str)) (hws : ∀ w ∈ ws, ProperWord w) :
    toUnderscoresNoprefix (camel ws) = joined ws ∧ toUnderscores (camel ws) = joined ws := by
  refine ⟨toUnderscoresNoprefix_camel ws hws, ?_⟩
  have h := toUnderscoresNoprefix_camel ws hws
  unfold toUnderscoresNoprefix at h
  unfold toUnderscores
  rw [h, sub3_joined ws hws]

/-- The acronym rule, exactly: a run of TWO OR MORE capitals in front of a word is kept
    together and separated from the word by one `_` (`HTMLView` → `HTML_View`); a SINGLE
    capital in front of a word is glued to it by `to_underscores_noprefix` (`DBus` stays
    `DBus`) and split off by `to_underscores` (`D_Bus`). -/
theorem C04_to_underscores_acronym (acr : Str) (a b : Char) (ws : List (Char × Str))
    (hacr : ∀ x ∈ acr, isUp x = true) (ha : isUp a = true) (hb : isUp b = true)
    (hws : ∀ w ∈ ws, ProperWord w) (hne : ws ≠ []) :
    toUnderscoresNoprefix (acr ++ a :: b :: camel ws) = acr ++ a :: b :: '_' :: joined ws ∧
    toUnderscoresNoprefix (a :: camel ws) = a :: joined ws ∧
    toUnderscores (a :: camel ws) = a :: '_' :: joined ws :=
  ⟨toUnderscoresNoprefix_acronym acr a b ws hacr ha hb hws hne,
   toUnderscoresNoprefix_single a ws ha hws hne, toUnderscores_single a ws ha hws hne⟩

/-- the classes of the regular expressions are the ASCII letters / digits the theorems speak of -/
theorem C04_classes (c : Char) :
    (isUp c = true ↔ isAsciiUpper c = true) ∧
    (isLowDig c = true ↔ (isAsciiLower c = true ∨ isAsciiDigit c = true)) := by
  simp only [isUp, isLowDig, inRanges, Gen.reUpper, Gen.reLowerDigit, isAsciiUpper, isAsciiLower, isAsciiDigit,
    List.any_cons, List.any_nil, Bool.or_false, Bool.or_eq_true, Bool.and_eq_true, decide_eq_true_eq,
    Char.le_iff_toNat]
  have e1 : ('A' : Char).toNat = 65 := rfl
  have e2 : ('Z' : Char).toNat = 90 := rfl
  have e3 : ('a' : Char).toNat = 97 := rfl
  have e4 : ('z' : Char).toNat = 122 := rfl
  have e5 : ('0' : Char).toNat = 48 := rfl
  have e6 : ('9' : Char).toNat = 57 := rfl
  rw [e1, e2, e3, e4, e5, e6]
  omega

/-! ### witnesses of the confirmed defects, and non-vacuity -/

def wCfg : Cfg :=
  { cur := ⟨"Gtk".toList, ["Gtk".toList], ["gtk".toList], []⟩,
    incs := [⟨"GObject".toList, ["G".toList], ["g".toList], ["Object".toList]⟩],
    acceptUnprefixed := false }

def wEnv : Env :=
  { cfg := wCfg,
    incNodes := [[⟨"Object".toList, "GObject".toList, .cls, some "GObject".toList, none, some "object".toList⟩]] }

def wClass (uid : Nat) (name usc : String) (parent : NsRef × Str) : Node :=
  { uid := uid, kind := .cls, name := name.toList, cid := ("Gtk" ++ name).toList,
    gtypeName := some ("Gtk" ++ name).toList, getType := some ("gtk_" ++ usc ++ "_get_type").toList,
    cSymbolPrefix := some usc.toList, parent := some parent }

def wFn : Node :=
  { uid := 3, kind := .function, name := "button_new_label".toList, cid := "gtk_button_new_label".toList,
    ret := ⟨"GtkLabel".toList, 1, false⟩ }

/-- `GtkWidget` ← `GtkButton`, `GtkLabel`; `GtkLabel *gtk_button_new_label (void);` -/
def wSt : NsState :=
  ⟨[("Widget".toList, wClass 0 "Widget" "widget" (.inc 0, "Object".toList)),
    ("Button".toList, wClass 1 "Button" "button" (.cur, "Widget".toList)),
    ("Label".toList, wClass 2 "Label" "label" (.cur, "Widget".toList)),
    (wFn.name, wFn)], []⟩

/-- regression of the defect repaired by /repo 5ba500c: a `*_new` function of `Gtk.Button` returning
    the unrelated class `Gtk.Label` is NOT a constructor of Button (`Gtk.Label` is not among
    Button's ancestors); it is hung on Button as the static function `new_label` -/
example :
    isConstructor wEnv wSt wFn "button_new_label".toList = false ∧
    (lookupCT wEnv wSt wFn.ret).map (giName wEnv) = some "Gtk.Label".toList ∧
    (getConstructorClass wEnv wSt wFn "button_new_label".toList).map
        (fun o => ancestorChain wEnv wSt (walkFuel wEnv wSt) (some o)) =
      some ["Gtk.Button".toList, "Gtk.Widget".toList, "GObject.Object".toList] ∧
    ((pairFunction wEnv wSt wFn).toOption.map (fun st => st.owned.map (fun o => (o.owner, o.role, o.fn.name)))) =
      some [("Button".toList, Role.static, "new_label".toList)] := by
  decide +kernel

/-- `GObject *gtk_button_new_object (void)`: the root class itself is still an accepted ancestor -/
example :
    isConstructor wEnv wSt { wFn with name := "button_new_object".toList, cid := "gtk_button_new_object".toList,
                                       ret := ⟨"GObject".toList, 1, false⟩ } "button_new_object".toList = true := by
  decide +kernel

/-- `C04_method_ctor_sound` is not vacuous: `GtkWidget *gtk_button_new (void)` is a constructor of Button returning an ancestor -/
example :
    isConstructor wEnv wSt { wFn with name := "button_new".toList, cid := "gtk_button_new".toList,
                                       ret := ⟨"GtkWidget".toList, 1, false⟩ } "button_new".toList = true := by
  decide +kernel

/-- non-vacuity of `C04_ctor_name_annotated`, and regression of the defect repaired by /repo 54063d6:
    the annotated `GtkButton *gtk_make_button (void)` keeps its namespace-stripped name -/
example :
    splitUscoredByType (typeMap wSt) "make_button".toList = none ∧
    getConstructorName wEnv wSt { wFn with name := "make_button".toList, cid := "gtk_make_button".toList,
                                           isCtor := true, ret := ⟨"GtkButton".toList, 1, false⟩ }
      "make_button".toList = "make_button".toList := by
  decide +kernel

/-! non-vacuity of the naming theorems -/

example : stripSymbol wCfg "gtk_widget_show".toList = .ok "widget_show".toList := by decide
example : stripSymbol wCfg "g_object_new".toList = .error (.foreign (.inc 0)) := by decide
example : stripIdentifier wCfg "GtkWidget".toList = .ok "Widget".toList := by decide
example : stripIdentifier wCfg "GObject".toList = .error (.foreign (.inc 0)) := by decide
example : stripIdentifier wCfg "_GtkWidget".toList = .ok "_Widget".toList := by decide
example : publicSymbolName wCfg "_gtk_private".toList = none := by decide
example : publicSymbolName wCfg "GTK_MAJOR".toList = some "MAJOR".toList := by decide
/-- the current namespace wins although the include's prefix match is the longer one -/
example :
    stripIdentifier { wCfg with incs := [⟨"Long".toList, ["GtkWid".toList], ["gtk_wid".toList], []⟩] }
      "GtkWidget".toList = .ok "Widget".toList := by decide
example :
    splitUscoredByType (fun k => if k = "text".toList ∨ k = "text_buffer".toList then some k else none)
      "text_buffer_new".toList = some ("text_buffer".toList, "new".toList) := by decide
example : IsBoundaryPrefix "text_buffer".toList "text_buffer_new".toList "new".toList := Or.inr rfl
example : toUnderscoresNoprefix "TextBuffer".toList = "Text_Buffer".toList := by decide
example : toUnderscoresNoprefix "GtkHTMLView".toList = "Gtk_HTML_View".toList := by decide
example : toUnderscoresNoprefix "DBusFoo".toList = "DBus_Foo".toList ∧
    toUnderscores "DBusFoo".toList = "D_Bus_Foo".toList := by decide
example : ProperWord ('T', "ext".toList) ∧ ProperWord ('B', "uffer2".toList) := by
  refine ⟨⟨by decide, by decide, by decide⟩, ⟨by decide, by decide, by decide⟩⟩
example : camel [('T', "ext".toList), ('B', "uffer".toList)] = "TextBuffer".toList := by decide
def wShow : Node :=
  { uid := 4, kind := .function, name := "widget_show".toList, cid := "gtk_widget_show".toList,
    ret := ⟨"void".toList, 0, true⟩, params := [⟨"GtkWidget".toList, 1, false⟩] }
example : isMethod wEnv wSt wShow "widget_show".toList = true := by decide +kernel
/-- non-vacuity of `C04_method_not_of_foreign_type`: `gtk_object_frob (GObject *)` resolves to `GObject.Object`
    (included namespace 0, symbol prefix `object`, which `object_frob` carries) and is not a method -/
def wObjectFrob : Node :=
  { wShow with uid := 5, name := "object_frob".toList, cid := "gtk_object_frob".toList,
               params := [⟨"GObject".toList, 1, false⟩] }
example : (lookupCT wEnv wSt ⟨"GObject".toList, 1, false⟩).map (fun t => (t.ns, t.name, t.cSymbolPrefix)) =
    some (NsRef.inc 0, "Object".toList, some "object".toList) := by decide +kernel
example : isMethod wEnv wSt wObjectFrob "object_frob".toList = false ∧
    startsWith "object_frob".toList "object".toList = true := by decide +kernel
/-- non-vacuity of `C04_method_owner`: `gtk_widget_show` hangs on Widget, the type of its first parameter -/
example : (lookupCT wEnv wSt ⟨"GtkWidget".toList, 1, false⟩).map (·.name) = some "Widget".toList := by
  decide +kernel

def wInput : Input :=
  { env := { cfg := { wCfg with cur := ⟨"Foo".toList, ["Foo".toList], ["foo".toList], []⟩, incs := [] },
             incNodes := [] },
    decls := [.typedefCompound "FooFoo".toList (some "_FooFoo".toList) false,
              .tagCompound "_FooFoo".toList false,
              .function "foo_foo_foo".toList ⟨"int".toList, 0, true⟩ [⟨"FooFoo".toList, 1, false⟩] false false,
              .function "foo_foo_static".toList ⟨"int".toList, 0, true⟩ [] false false,
              .function "foo_foos_register".toList ⟨"int".toList, 0, true⟩ [⟨"FooFoo".toList, 1, false⟩] false false,
              .function "_foo_hidden".toList ⟨"int".toList, 0, true⟩ [] false false,
              .function "g_other".toList ⟨"int".toList, 0, true⟩ [] false false],
    dump := none }

/-- the pipeline model on a concrete header: one record, a method, a static function with its
    moved-to original, a moved-to compatibility method; hidden and foreign symbols left out.
    CONFIRMED DEFECT visible here: the method `foo_foo_foo` of `Foo.Foo` is named `foo_foo`
    instead of `foo` (`str.find` meets the stripped symbol already at position 0). -/
def wSummary : Option (List (Str × Str × Option Str) × List (Str × Str × Str × Option Str)) :=
  (describe wInput).toOption.map (fun st =>
    (st.names.map (fun p => (p.1, p.2.cid, p.2.movedTo)),
     st.owned.map (fun o => (o.owner, o.fn.name, o.fn.cid, o.fn.movedTo))))

/-- non-vacuity of `C04_once` / `C04_only_public_symbols`: the pipeline model does describe `wInput` -/
example : (describe wInput).toOption.isSome = true := by decide +kernel
/-- non-vacuity of `C04_static_sound` / `C04_ctor_name` -/
example : (pairStaticMethod wSt { wFn with name := "button_get_default".toList, cid := "gtk_button_get_default".toList }
    "button_get_default".toList).isSome = true := by decide +kernel
example : splitUscoredByType (typeMap wSt) "button_new_label".toList = some ("Button".toList, "new_label".toList) := by
  decide +kernel

theorem C04_pipeline_witness :
    (wSummary ==
      some ([("Foo".toList, "FooFoo".toList, none),
             ("foo_static".toList, "foo_foo_static".toList, some "Foo.static".toList),
             ("foos_register".toList, "foo_foos_register".toList, none)],
            [("Foo".toList, "foo_foo".toList, "foo_foo_foo".toList, none),
             ("Foo".toList, "static".toList, "foo_foo_static".toList, none),
             ("Foo".toList, "_register".toList, "foo_foos_register".toList, some "foos_register".toList)])) = true := by
  decide +kernel

end GIVerif.Naming
