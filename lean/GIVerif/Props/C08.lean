/-
  C08 — Record and union layout stored in typelibs equals the platform C ABI.
  ONLY property theorems and non-vacuity examples live here; helper lemmas are in
  GIVerif/Lemmas/Offsets.lean, the executable model (giroffsets.c, the ffi table of girffi.c,
  the blob writes of girnode.c) in GIVerif/Model/Offsets.lean, the declarative System V rule
  in GIVerif/Spec/CLayout.lean.

  What is proved, for ALL member lists: the model's GI_ALIGN is "least multiple of the
  alignment not below n"; the struct / union loops compute exactly the declarative rule
  (Spec.IsStructLayout / IsUnionLayout, which has a unique solution); the result is sane and is
  again a member of known size (so the theorems apply at every level of an acyclic definition
  tree); an unknown-size member forces size = alignment = -1 and the unknown offset marker from
  that member on; the enum storage chosen can represent every member.

  Hypotheses beyond the property's wording (each is also an `assumption` in the evidence):
   * KnownMember: member alignments are powers of two (≤ 2^30) — true of every ffi type in
     Gen.ffiTagTable (C08_platform) and preserved by struct/union/array (C08_closed_*).
   * no C `int` overflow: padded size + alignment ≤ 2^31 (giroffsets.c computes in `int`).
   * C08_stored: size < 2^32 and alignment < 64 (the widths of StructBlob.size / .alignment; sizes are
     C ints and alignments at most 8 here).  Field offsets need NO hypothesis since fix 260587f:
     C08_stored_offset — exact below 65535, the unknown marker otherwise.  Classes, interfaces and
     boxed types use the record loop (C08_object_fields, C08_dispatch_shape), so every theorem
     about `structLayout` / `storeLayout` is about their fields as well.
   * C08_enum / C08_enum_range are full since fix 1fcf299 (negative member with a member above
     G_MAXINT: gint64); former witnesses stay in corpus/C08/finding_witnesses.json as regressions.
   * enumeration members outside [-2^31, 2^32) are outside the typelib format (32-bit ValueBlob).
  NOT provable, validated on every run against gcc: "Spec.cStructLayout / cUnionLayout is what
  the C compiler does on this platform"; leaf sizes are the measured table Gen.ffiTagTable.
-/
import GIVerif.Lemmas.Offsets

namespace GIVerif.Offsets
open GIVerif.Spec GIVerif.Py

/-! ### the source still has the shape the model was written for (re-extracted every run) -/

/-- `#define GI_ALIGN(n, align) (((n) + (align) - 1) & ~((align) - 1))` -/
theorem C08_align_shape :
    Gen.giAlignShape = "(n, align) (((n) + (align) - 1) & ~((align) - 1))" := by decide

/-- the member loops and tails of compute_struct_field_offsets / compute_union_field_offsets -/
theorem C08_loop_shapes :
    Gen.structInitShape = "int size = 0; int alignment = 1; GList *l; gboolean have_error = FALSE; *alignment_out = -2;"
    ∧ Gen.structMemberShape = ["size = GI_ALIGN (size, member_alignment)", "alignment = MAX (alignment, member_alignment)", "field->offset = size", "size += member_size"]
    ∧ Gen.structCallbackShape = ["size = GI_ALIGN (size, ffi_type_pointer.alignment)", "alignment = MAX (alignment, ffi_type_pointer.alignment)", "size += ffi_type_pointer.size"]
    ∧ Gen.structTailShape = "size = GI_ALIGN (size, alignment); if (!have_error) { *size_out = size; *alignment_out = alignment; } else { *size_out = -1; *alignment_out = -1; } return !have_error;"
    ∧ Gen.unionInitShape = "int size = 0; int alignment = 1; GList *l; gboolean have_error = FALSE; *alignment_out = -2;"
    ∧ Gen.unionMemberShape = ["size = MAX (size, member_size)", "alignment = MAX (alignment, member_alignment)"]
    ∧ Gen.unionTailShape = "size = GI_ALIGN (size, alignment); if (!have_error) { *size_out = size; *alignment_out = alignment; } else { *size_out = -1; *alignment_out = -1; } return !have_error;"
    ∧ Gen.structLoopShape = "for (l = members; l; l = l->next) { GIrNode *member = (GIrNode *)l->data; if (member->type == G_IR_NODE_FIELD) { GIrNodeField *field = (GIrNodeField *)member; if (!have_error) { int member_size; int member_alignment; if (get_field_size_alignment (build, field, node, &member_size, &member_alignment)) { size = GI_ALIGN (size, member_alignment); alignment = MAX (alignment, member_alignment); field->offset = size; size += member_size; } else have_error = TRUE; } if (have_error) field->offset = -1; } else if (member->type == G_IR_NODE_CALLBACK) { size = GI_ALIGN (size, ffi_type_pointer.alignment); alignment = MAX (alignment, ffi_type_pointer.alignment); size += ffi_type_pointer.size; } }"
    ∧ Gen.unionLoopShape = "for (l = members; l; l = l->next) { GIrNode *member = (GIrNode *)l->data; if (member->type == G_IR_NODE_FIELD) { GIrNodeField *field = (GIrNodeField *)member; if (!have_error) { int member_size; int member_alignment; if (get_field_size_alignment (build,field, node, &member_size, &member_alignment)) { size = MAX (size, member_size); alignment = MAX (alignment, member_alignment); } else have_error = TRUE; } } }" := by
  exact ⟨rfl, rfl, rfl, rfl, rfl, rfl, rfl, rfl, rfl⟩

/-- compute_enum_storage_type: the min/max fold and the decision chain -/
theorem C08_enum_shape :
    Gen.enumFoldShape = "for (l = enum_node->values; l; l = l->next) { GIrNodeValue *value = l->data; if (value->value > max_value) max_value = value->value; if (value->value < min_value) min_value = value->value; }"
    ∧ Gen.enumDecisionShape = "if (min_value < 0) { signed_type = TRUE; if (min_value > -128 && max_value <= 127) width = sizeof(Enum7); else if (min_value >= G_MINSHORT && max_value <= G_MAXSHORT) width = sizeof(Enum8); else if (max_value <= G_MAXINT) width = sizeof(Enum9); else width = sizeof(gint64); } else { if (max_value <= 127) { width = sizeof (Enum1); signed_type = (gint64)(Enum1)(-1) < 0; } else if (max_value <= 255) { width = sizeof (Enum2); signed_type = (gint64)(Enum2)(-1) < 0; } else if (max_value <= G_MAXSHORT) { width = sizeof (Enum3); signed_type = (gint64)(Enum3)(-1) < 0; } else if (max_value <= G_MAXUSHORT) { width = sizeof (Enum4); signed_type = (gint64)(Enum4)(-1) < 0; } else if (max_value <= G_MAXINT) { width = sizeof (Enum5); signed_type = (gint64)(Enum5)(-1) < 0; } else { width = sizeof (Enum6); signed_type = (gint64)(Enum6)(-1) < 0; } } if (width == 1) enum_node->storage_type = signed_type ? GI_TYPE_TAG_INT8 : GI_TYPE_TAG_UINT8; else if (width == 2) enum_node->storage_type = signed_type ? GI_TYPE_TAG_INT16 : GI_TYPE_TAG_UINT16; else if (width == 4) enum_node->storage_type = signed_type ? GI_TYPE_TAG_INT32 : GI_TYPE_TAG_UINT32; else if (width == 8) enum_node->storage_type = signed_type ? GI_TYPE_TAG_INT64 : GI_TYPE_TAG_UINT64; else g_error (\"...\", width);" := by
  exact ⟨rfl, rfl⟩

/-- get_enum_size_alignment, get_field_size_alignment, get_type_size_alignment,
    get_interface_size_alignment -/
theorem C08_size_helper_shapes :
    Gen.enumSizeShape = "ffi_type *type_ffi; compute_enum_storage_type (enum_node); switch (enum_node->storage_type) { case GI_TYPE_TAG_INT8: case GI_TYPE_TAG_UINT8: type_ffi = &ffi_type_uint8; break; case GI_TYPE_TAG_INT16: case GI_TYPE_TAG_UINT16: type_ffi = &ffi_type_uint16; break; case GI_TYPE_TAG_INT32: case GI_TYPE_TAG_UINT32: type_ffi = &ffi_type_uint32; break; case GI_TYPE_TAG_INT64: case GI_TYPE_TAG_UINT64: type_ffi = &ffi_type_uint64; break; default: g_error (\"...\", g_type_tag_to_string (enum_node->storage_type)); } *size = type_ffi->size; *alignment = type_ffi->alignment; return TRUE;"
    ∧ Gen.fieldSizeShape = "GIrModule *module = build->module; gchar *who; gboolean success; who = g_strdup_printf (\"...\", module->name, parent_node->name, ((GIrNode *)field)->name); if (field->callback) { *size = ffi_type_pointer.size; *alignment = ffi_type_pointer.alignment; success = TRUE; } else success = get_type_size_alignment (build, field->type, size, alignment, who); g_free (who); return success;"
    ∧ Gen.typeSizeShape = "ffi_type *type_ffi; if (type->is_pointer) { type_ffi = &ffi_type_pointer; } else if (type->tag == GI_TYPE_TAG_ARRAY) { gint elt_size, elt_alignment; if (!type->has_size || !get_type_size_alignment(build, type->parameter_type1, &elt_size, &elt_alignment, who)) { *size = -1; *alignment = -1; return FALSE; } *size = type->size * elt_size; *alignment = elt_alignment; return TRUE; } else { if (type->tag == GI_TYPE_TAG_INTERFACE) { return get_interface_size_alignment (build, type, size, alignment, who); } else { type_ffi = gi_type_tag_get_ffi_type (type->tag, type->is_pointer); if (type_ffi == &ffi_type_void) { g_warning (\"...\", who); *size = -1; *alignment = -1; return FALSE; } else if (type_ffi == &ffi_type_pointer) { g_warning (\"...\", who, g_type_tag_to_string (type->tag)); *size = -1; *alignment = -1; return FALSE; } } } g_assert (type_ffi); *size = type_ffi->size; *alignment = type_ffi->alignment; return TRUE;"
    ∧ Gen.ifaceSizeShape = "GIrNode *iface; iface = _g_ir_find_node (build, ((GIrNode*)type)->module, type->giinterface); if (!iface) { _g_ir_module_fatal (build, 0, \"...\", type->giinterface, who); *size = -1; *alignment = -1; return FALSE; } _g_ir_node_compute_offsets (build, iface); switch (iface->type) { case G_IR_NODE_BOXED: { GIrNodeBoxed *boxed = (GIrNodeBoxed *)iface; *size = boxed->size; *alignment = boxed->alignment; break; } case G_IR_NODE_STRUCT: { GIrNodeStruct *struct_ = (GIrNodeStruct *)iface; *size = struct_->size; *alignment = struct_->alignment; break; } case G_IR_NODE_OBJECT: case G_IR_NODE_INTERFACE: { GIrNodeInterface *interface = (GIrNodeInterface *)iface; *size = interface->size; *alignment = interface->alignment; break; } case G_IR_NODE_UNION: { GIrNodeUnion *union_ = (GIrNodeUnion *)iface; *size = union_->size; *alignment = union_->alignment; break; } case G_IR_NODE_ENUM: case G_IR_NODE_FLAGS: { return get_enum_size_alignment ((GIrNodeEnum *)iface, size, alignment); } case G_IR_NODE_CALLBACK: { *size = ffi_type_pointer.size; *alignment = ffi_type_pointer.alignment; break; } default: { g_warning (\"...\", who, _g_ir_node_type_to_string (iface->type)); *size = -1; *alignment = -1; break; } } return *alignment > 0;" := by
  exact ⟨rfl, rfl, rfl, rfl⟩

/-- _g_ir_node_compute_offsets: boxed, record, class and interface entries all go through
    compute_struct_field_offsets, unions through compute_union_field_offsets; girnode.c copies a
    `field->offset` in [0, 0xFFFF) into the 16-bit `FieldBlob.struct_offset` and writes the unknown
    marker 0xFFFF for every other one (model: `computeNode`, `blobOffset`). -/
theorem C08_dispatch_shape :
    Gen.computeDispatchShape = ["BOXED:compute_struct_field_offsets", "STRUCT:compute_struct_field_offsets", "OBJECT,INTERFACE:compute_struct_field_offsets", "UNION:compute_union_field_offsets", "ENUM,FLAGS:compute_enum_storage_type"]
    ∧ Gen.fieldOffsetStoreShape = "if (field->offset >= 0 && field->offset < 0xFFFF) blob->struct_offset = field->offset; else blob->struct_offset = 0xFFFF;"
    ∧ Gen.fieldOffsetDeclShape = "guint16 struct_offset;" := by
  exact ⟨rfl, rfl, rfl⟩

/-- girparser.c, the two decisions that fix what giroffsets.c sees for a field: start_function (a
    `<callback>` inside a `<field>`: embedded for record / class fields, the field becomes a gpointer in
    a union, boxed or interface; model `inlineCallbackField`) and start_type (when a C array typed
    field is not a pointer; model `arrayFieldIsPointer`). -/
theorem C08_parser_shapes :
    Gen.inlineCallbackShape = "case STATE_CLASS_FIELD: case STATE_STRUCT_FIELD: found = (found || strcmp (element_name, \"callback\") == 0); in_embedded_state = ctx->state; break; case STATE_UNION_FIELD: case STATE_BOXED_FIELD: case STATE_INTERFACE_FIELD: if (strcmp (element_name, \"callback\") == 0 && ctx->current_typed && ctx->current_typed->type == G_IR_NODE_FIELD && ((GIrNodeField *)ctx->current_typed)->type == NULL) { ((GIrNodeField *)ctx->current_typed)->type = parse_type (ctx, \"gpointer\"); ctx->current_typed = NULL; state_switch (ctx, STATE_PASSTHROUGH); return TRUE; } break;"
    ∧ Gen.arrayFieldPointerShape = "if (typenode->has_size && ctx->current_typed->type == G_IR_NODE_FIELD) typenode->is_pointer = FALSE; else if (!typenode->has_length && ctx->current_typed->type == G_IR_NODE_FIELD) { const char *actype = find_attribute (\"c:type\", attribute_names, attribute_values); if (actype == NULL || !g_str_has_suffix (actype, \"*\")) typenode->is_pointer = FALSE; }" := by
  exact ⟨rfl, rfl⟩

/-- The platform facts the other theorems lean on, decided over the measured tables: every value
    type returned by `gi_type_tag_get_ffi_type` has size = alignment = a power of two ≤ 8 (so every
    leaf is a `KnownMember`), pointers are 8/8, all nine probe enums are 4 bytes, the unsigned-capable
    ones unsigned and the negative ones signed; gint64 is 8 bytes. -/
theorem C08_platform :
    (∀ e ∈ Gen.ffiTagTable, e.2.2.1 = 0 → e.2.2.2.1 = e.2.2.2.2 ∧ e.2.2.2.2 ∈ [1, 2, 4, 8])
    ∧ Gen.ffiPointerSize = 8 ∧ Gen.ffiPointerAlign = 8
    ∧ Gen.ffiUIntTable = [(1, 1, 1), (2, 2, 2), (4, 4, 4), (8, 8, 8)]
    ∧ Gen.probeEnums.map (·.2.1) = [4, 4, 4, 4, 4, 4, 4, 4, 4]
    ∧ Gen.probeEnums.map (·.2.2) = [false, false, false, false, false, false, true, true, true]
    ∧ Gen.sizeofInt = 4 ∧ Gen.sizeofGint64 = 8 := by
  refine ⟨by decide, by decide, by decide, by decide, by decide, by decide, by decide, by decide⟩

/-! ### GI_ALIGN -/

/-- For a power-of-two alignment, non-negative n and no `int` overflow, the bit trick
    `(n + a - 1) & ~(a - 1)` evaluated in 32-bit two's complement is the least multiple of `a`
    that is ≥ n. -/
theorem C08_align (k : Nat) (n : Int) (hk : k ≤ 30) (hn : 0 ≤ n) (hov : n + 2 ^ k ≤ 2 ^ 31) :
    giAlign n (2 ^ k) = (Spec.alignUp n.toNat (2 ^ k) : Nat) ∧
    Spec.IsLeastMultipleGE (Spec.alignUp n.toNat (2 ^ k)) (2 ^ k) n.toNat := by
  refine ⟨?_, alignUp_isLeast _ _ (Nat.two_pow_pos k)⟩
  obtain ⟨m, rfl⟩ := Int.eq_ofNat_of_zero_le hn
  have h : m + 2 ^ k ≤ 2 ^ 31 := by
    have : ((m + 2 ^ k : Nat) : Int) ≤ ((2 ^ 31 : Nat) : Int) := by
      simpa [Int.natCast_add, Int.natCast_pow] using hov
    exact Int.ofNat_le.mp this
  have := giAlign_nat m k hk h
  simpa [Int.natCast_pow, alignUp] using this

example : giAlign 5 4 = 8 ∧ giAlign 8 4 = 8 ∧ giAlign 0 8 = 0 ∧ giAlign 2147483640 8 = 2147483640 := by decide
example : (3 : Nat) ≤ 30 ∧ (0 : Int) ≤ 13 ∧ (13 : Int) + 2 ^ 3 ≤ 2 ^ 31 := by decide
/-- without the power-of-two hypothesis the macro is wrong: GI_ALIGN (4, 3) = 4 -/
example : giAlign 4 3 = 4 := by decide

/-! ### the declarative rule: satisfied by the executable form, and by nothing else -/

theorem C08_spec_struct (ms : List Spec.Member) (hpos : ∀ m ∈ ms, 0 < m.2) :
    IsStructLayout ms (cStructLayout ms).offsets (cStructLayout ms).size (cStructLayout ms).align :=
  spec_struct ms hpos

theorem C08_spec_struct_unique (ms : List Spec.Member) (o₁ o₂ : List Nat) (s₁ s₂ a₁ a₂ : Nat)
    (h₁ : IsStructLayout ms o₁ s₁ a₁) (h₂ : IsStructLayout ms o₂ s₂ a₂) : o₁ = o₂ ∧ s₁ = s₂ ∧ a₁ = a₂ :=
  spec_struct_unique ms o₁ o₂ s₁ s₂ a₁ a₂ h₁ h₂

theorem C08_spec_union (ms : List Spec.Member) :
    IsUnionLayout ms (cUnionLayout ms).offsets (cUnionLayout ms).size (cUnionLayout ms).align :=
  spec_union ms

theorem C08_spec_union_unique (ms : List Spec.Member) (o₁ o₂ : List Nat) (s₁ s₂ a₁ a₂ : Nat)
    (h₁ : IsUnionLayout ms o₁ s₁ a₁) (h₂ : IsUnionLayout ms o₂ s₂ a₂) : o₁ = o₂ ∧ s₁ = s₂ ∧ a₁ = a₂ :=
  spec_union_unique ms o₁ o₂ s₁ s₂ a₁ a₂ h₁ h₂

example : cStructLayout [(1, 1), (8, 8), (2, 2)] = ⟨24, 8, [0, 8, 16]⟩ := by decide
example : cUnionLayout [(1, 1), (10, 2), (4, 4)] = ⟨12, 4, [0, 0, 0]⟩ := by decide
example : IsStructLayout [(1, 1), (8, 8), (2, 2)] [0, 8, 16] 24 8 :=
  C08_spec_struct [(1, 1), (8, 8), (2, 2)] (by decide)

/-! ### struct and union layout computed by the model = the declarative rule -/

/-- compute_struct_field_offsets on members of known size yields exactly the System V layout:
    same offsets, same size, same alignment — for every member list. -/
theorem C08_struct (ptr : SA) (ms : List Spec.Member) (hk : ∀ m ∈ ms, KnownMember m)
    (hov : (cStructLayout ms).size + (cStructLayout ms).align ≤ 2 ^ 31) :
    structLayout ptr (ms.map toField) =
      ⟨(cStructLayout ms).size, (cStructLayout ms).align, (cStructLayout ms).offsets.map Int.ofNat⟩ :=
  struct_known ptr ms hk hov

/-- compute_union_field_offsets likewise. -/
theorem C08_union (ms : List Spec.Member) (hk : ∀ m ∈ ms, KnownMember m)
    (hov : (cUnionLayout ms).size + (cUnionLayout ms).align ≤ 2 ^ 31) :
    unionLayout (ms.map toField) =
      ⟨(cUnionLayout ms).size, (cUnionLayout ms).align, (cUnionLayout ms).offsets.map Int.ofNat⟩ :=
  union_known ms hk hov

example : KnownMember (8, 8) := ⟨3, by omega, rfl⟩
example : ∀ m ∈ [((1 : Nat), (1 : Nat)), (8, 8), (2, 2)], KnownMember m := by
  intro m hm
  simp only [List.mem_cons, List.not_mem_nil, or_false] at hm
  rcases hm with rfl | rfl | rfl
  · exact ⟨0, by omega, rfl⟩
  · exact ⟨3, by omega, rfl⟩
  · exact ⟨1, by omega, rfl⟩
example : (cStructLayout [(1, 1), (8, 8), (2, 2)]).size + (cStructLayout [(1, 1), (8, 8), (2, 2)]).align ≤ 2 ^ 31 := by
  decide
example : structLayout ptrSA ([(1, 1), (8, 8), (2, 2)].map toField) = ⟨24, 8, [0, 8, 16]⟩ := by decide
example : unionLayout ([(1, 1), (10, 2), (4, 4)].map toField) = ⟨12, 4, [0, 0, 0]⟩ := by decide

/-- a bare callback member of a struct is laid out like a pointer field (it only gets no
    FieldBlob, hence no offset) -/
theorem C08_struct_callback (ptr : SA) (size al : Int) (ms : List MemberSA) (hptr : ptr.ok = true) :
    (structLoop ptr size al false (.callback :: ms)).2 = (structLoop ptr size al false (.field ptr :: ms)).2 := by
  simp [structLoop, hptr]

example : structLayout ptrSA [.field ⟨1, 1, true⟩, .callback, .field ⟨1, 1, true⟩] = ⟨24, 8, [0, 16]⟩ := by decide

/-- the union / boxed / interface twin: an inline callback member (`union { void (*cb) (void); ... }`,
    `<field><callback/></field>`) is a member of pointer size and alignment in EVERY container, and
    computing it emits no warning — in a record or class through `field->callback`, elsewhere because
    the parser made it a gpointer field (fix b00e44e; before, the compiler died on it). -/
theorem C08_union_callback (iface : Str → SA × Bool) (parent : NodeKind) (name : Str) :
    membersSA iface [inlineCallbackField parent name] = [(.field ptrSA, false)] := by
  cases parent <;> simp [inlineCallbackField, membersSA, fieldSA, typeSA]

/-- union { gint16 a; void (*cb) (void); }: 8 / 8, both members at 0; the same members as a record: 16 / 8 -/
example : (computeNode [] ⟨"U".toList, .union,
    [.field "a".toList false (.basic Gen.tagInt16 false), inlineCallbackField .union "cb".toList], []⟩).layout
    = ⟨8, 8, [0, 0]⟩ := by decide
example : (computeNode [] ⟨"B".toList, .boxed,
    [.field "a".toList false (.basic Gen.tagInt16 false), inlineCallbackField .boxed "cb".toList], []⟩).layout
    = ⟨16, 8, [0, 8]⟩ := by decide
example : (computeNode [] ⟨"S".toList, .struct,
    [.field "a".toList false (.basic Gen.tagInt16 false), inlineCallbackField .struct "cb".toList], []⟩).layout
    = ⟨16, 8, [0, 8]⟩ := by decide

/-! ### sanity -/

/-- offsets are aligned, never go backwards, members do not overlap and end inside the size;
    the size is a multiple of the alignment, which is a multiple of every member alignment. -/
theorem C08_sane (ptr : SA) (ms : List Spec.Member) (hk : ∀ m ∈ ms, KnownMember m)
    (hov : (cStructLayout ms).size + (cStructLayout ms).align ≤ 2 ^ 31) :
    Sane 0 ms (structLayout ptr (ms.map toField)).offsets (structLayout ptr (ms.map toField)).size ∧
    (structLayout ptr (ms.map toField)).align ∣ (structLayout ptr (ms.map toField)).size ∧
    (∀ m ∈ ms, (m.2 : Int) ∣ (structLayout ptr (ms.map toField)).align) := by
  rw [C08_struct ptr ms hk hov]
  have hpos : ∀ m ∈ ms, 0 < m.2 := fun m hm => pow2_pos (hk m hm)
  have hapos := maxAlign_pos ms
  refine ⟨?_, ?_, ?_⟩
  · have := sane_place ms hpos 0 (cStructLayout ms).size (alignUp_ge _ _ hapos)
    simpa [cStructLayout] using this
  · exact Int.natCast_dvd_natCast.mpr (alignUp_dvd _ _)
  · intro m hm
    exact Int.natCast_dvd_natCast.mpr (maxAlign_dvd ms hk m hm)

theorem C08_sane_union (ms : List Spec.Member) (hk : ∀ m ∈ ms, KnownMember m)
    (hov : (cUnionLayout ms).size + (cUnionLayout ms).align ≤ 2 ^ 31) :
    (∀ m ∈ ms, (m.1 : Int) ≤ (unionLayout (ms.map toField)).size) ∧
    (unionLayout (ms.map toField)).offsets = ms.map (fun _ => 0) ∧
    (unionLayout (ms.map toField)).align ∣ (unionLayout (ms.map toField)).size ∧
    (∀ m ∈ ms, (m.2 : Int) ∣ (unionLayout (ms.map toField)).align) := by
  rw [C08_union ms hk hov]
  have hapos := maxAlign_pos ms
  refine ⟨?_, ?_, ?_, ?_⟩
  · intro m hm
    have h1 := maxSize_ge ms m hm
    have h2 := alignUp_ge (maxSize ms) (maxAlign ms) hapos
    simp only [cUnionLayout]
    omega
  · simp [cUnionLayout, Function.comp_def]
  · exact Int.natCast_dvd_natCast.mpr (alignUp_dvd _ _)
  · intro m hm
    exact Int.natCast_dvd_natCast.mpr (maxAlign_dvd ms hk m hm)

example : Sane 0 [(1, 1), (8, 8), (2, 2)] [0, 8, 16] 24 := by
  simp only [Sane]; decide

/-! ### closure: results are members of known size again (nesting, arrays) -/

theorem C08_closed_struct (ms : List Spec.Member) (hk : ∀ m ∈ ms, KnownMember m) :
    KnownMember ((cStructLayout ms).size, (cStructLayout ms).align) ∧
    (cStructLayout ms).align ∣ (cStructLayout ms).size :=
  ⟨maxAlign_pow2 ms hk, alignUp_dvd _ _⟩

theorem C08_closed_union (ms : List Spec.Member) (hk : ∀ m ∈ ms, KnownMember m) :
    KnownMember ((cUnionLayout ms).size, (cUnionLayout ms).align) ∧
    (cUnionLayout ms).align ∣ (cUnionLayout ms).size :=
  ⟨maxAlign_pow2 ms hk, alignUp_dvd _ _⟩

/-- a fixed-size array member: n times the element size, the element's alignment -/
theorem C08_array (iface : Str → SA × Bool) (n : Nat) (elem : Ty) (e : Spec.Member)
    (he : typeSA iface elem = (⟨e.1, e.2, true⟩, false)) (hov : n * e.1 < 2 ^ 31) :
    typeSA iface (.array false true n elem) = (⟨(cArray n e).1, (cArray n e).2, true⟩, false) := by
  have h31 : (2:Nat) ^ 31 = 2147483648 := by decide
  rw [h31] at hov
  simp only [typeSA, Bool.false_eq_true, ↓reduceIte, Bool.not_true, he, cArray]
  rw [show ((n : Nat) : Int) * ((e.1 : Nat) : Int) = ((n * e.1 : Nat) : Int) by simp [Int.natCast_mul]]
  rw [wrap32_id _ (by omega) (by omega)]

example : typeSA (fun _ => (SA.fail, true)) (.array false true 3 (.basic Gen.tagInt16 false)) = (⟨6, 2, true⟩, false) := by
  decide
/-- nesting, computed: struct { gint8; struct { gint8; gdouble; gint8 } [2]; gint16 } -/
example : cStructLayout [(1, 1), cArray 2 ((cStructLayout [(1, 1), (8, 8), (1, 1)]).size,
    (cStructLayout [(1, 1), (8, 8), (1, 1)]).align), (2, 2)] = ⟨64, 8, [0, 8, 56]⟩ := by decide

/-! ### members of unknown size -/

/-- Any member of unknown size makes the whole struct / union unknown: size = alignment = -1,
    never a positive value. -/
theorem C08_unknown (ptr : SA) (ms : List MemberSA) (h : ∃ sa, MemberSA.field sa ∈ ms ∧ sa.ok = false) :
    (structLayout ptr ms).size = -1 ∧ (structLayout ptr ms).align = -1 ∧
    (unionLayout ms).size = -1 ∧ (unionLayout ms).align = -1 := by
  have h1 := structLoop_bad ptr ms h 0 1 false
  have h2 := unionLoop_bad ms h 0 1 false
  simp [structLayout, unionLayout, finishLayout, h1, h2]

/-- ... and the unknown member and every later field carry the unknown-offset marker, while the
    fields before it keep the offsets they have in the known prefix. -/
theorem C08_unknown_offsets (ptr : SA) (pre post : List MemberSA) (sa : SA) (hbad : sa.ok = false)
    (hpre : ∀ s, MemberSA.field s ∈ pre → s.ok = true) :
    (structLayout ptr (pre ++ .field sa :: post)).offsets =
      (structLayout ptr pre).offsets ++ List.replicate (fieldCount post + 1) (-1) := by
  have := structLoop_prefix ptr pre post sa hbad hpre 0 1
  have hf : ∀ (offs : List Int) (s a : Int) (e : Bool), (finishLayout offs s a e).offsets = offs := by
    intro offs s a e; unfold finishLayout; split <;> rfl
  simp only [structLayout, hf]
  exact this

/-- A flexible array member (`T data[];`: a field array with no fixed size, no length and no pointer
    c:type) is not a pointer and has no known size — silently, so a typelib is still written — hence
    (C08_unknown) the structure holding it is recorded with unknown size and alignment (fix 30f920b;
    before, it was laid out as a pointer).  With a fixed size it is an inline array, with a length or
    a pointer c:type a pointer. -/
theorem C08_flexible_array (iface : Str → SA × Bool) (elem : Ty) (n : Int) :
    typeSA iface (fieldArrayTy false n false false elem) = (SA.fail, false) ∧
    typeSA iface (fieldArrayTy false n true false elem) = (ptrSA, false) ∧
    typeSA iface (fieldArrayTy false n false true elem) = (ptrSA, false) ∧
    typeSA iface (fieldArrayTy false n true true elem) = (ptrSA, false) ∧
    (∀ hl cp, fieldArrayTy true n hl cp elem = .array false true n elem) := by
  refine ⟨by simp [fieldArrayTy, arrayFieldIsPointer, typeSA], by simp [fieldArrayTy, arrayFieldIsPointer, typeSA],
    by simp [fieldArrayTy, arrayFieldIsPointer, typeSA], by simp [fieldArrayTy, arrayFieldIsPointer, typeSA], ?_⟩
  intro hl cp
  simp [fieldArrayTy, arrayFieldIsPointer]

/-- struct { gint n; gchar data[]; }: unknown, n keeps offset 0, data gets the unknown marker -/
example :
    let r := computeNode [] ⟨"S".toList, .struct,
      [.field "n".toList false (.basic Gen.tagInt32 false),
       .field "data".toList false (fieldArrayTy false (-1) false false (.basic Gen.tagInt8 false))], []⟩
    r.layout = ⟨-1, -1, [0, -1]⟩ ∧ r.warn = false ∧ storeLayout r.layout = ⟨4294967295, 63, [0, 65535]⟩ := by decide

/-- what the markers become in the blobs: 0xFFFF, 0xFFFFFFFF and 63 (all bits of the 6-bit field) -/
theorem C08_unknown_stored :
    blobOffset (-1) = 65535 ∧ blobSize (-1) = 4294967295 ∧ blobAlign (-1) = 63 := by decide

example : structLayout ptrSA [.field ⟨1, 1, true⟩, .field SA.fail, .field ⟨4, 4, true⟩] = ⟨-1, -1, [0, -1, -1]⟩ := by
  decide
example : unionLayout [.field ⟨1, 1, true⟩, .field SA.fail] = ⟨-1, -1, [0, 0]⟩ := by decide
example : storeLayout ⟨-1, -1, [0, -1, -1]⟩ = ⟨4294967295, 63, [0, 65535, 65535]⟩ := by decide
/-- an unsized array that is not a pointer, a void member, an unresolvable by-value type: unknown -/
example : (typeSA (fun _ => (SA.fail, true)) (.array false false (-1) (.basic Gen.tagInt16 false))).1 = SA.fail := by
  decide
example : (typeSA (fun _ => (SA.fail, true)) (.basic Gen.tagVoid false)).1 = SA.fail := by decide
/-- by-value recursion: the -2 "in progress" mark makes the inner lookup fail, so the struct is unknown -/
example : (computeNode [⟨"S".toList, .struct, [.field "me".toList false (.iface "S".toList false)], []⟩]
    ⟨"S".toList, .struct, [.field "me".toList false (.iface "S".toList false)], []⟩).layout = ⟨-1, -1, [-1]⟩ := by
  decide

/-! ### classes, interfaces and boxed types: the same loop as a record -/

/-- The fields of a `<class>`, `<interface>` or `<glib:boxed>` entry are laid out by the very
    computation used for a `<record>` with the same members (so C08_struct, C08_sane, C08_unknown and
    C08_stored speak about them too), both as a top-level entry and when embedded by value. -/
theorem C08_object_fields (env : List Node) (name : Str) (ms : List Member) (vs : List Int) :
    computeNode env ⟨name, .object, ms, vs⟩ = computeNode env ⟨name, .struct, ms, vs⟩ ∧
    computeNode env ⟨name, .iface, ms, vs⟩ = computeNode env ⟨name, .struct, ms, vs⟩ ∧
    computeNode env ⟨name, .boxed, ms, vs⟩ = computeNode env ⟨name, .struct, ms, vs⟩ ∧
    (computeNode env ⟨name, .object, ms, vs⟩).layout =
      structLayout ptrSA ((membersSA (nodeSA env (env.length + 1) [name]) ms).map (·.1)) :=
  ⟨rfl, rfl, rfl, rfl⟩

/-- class { gint8 a; gdouble d; gint8 c; }: offsets 0, 8, 16 -/
example : (computeNode [] ⟨"O".toList, .object,
    [.field "a".toList false (.basic Gen.tagInt8 false), .field "d".toList false (.basic 11 false),
     .field "c".toList false (.basic Gen.tagInt8 false)], []⟩).layout = ⟨24, 8, [0, 8, 16]⟩ := by decide
/-- a class embedded by value in a record contributes its struct size and alignment -/
example : (computeNode [⟨"O".toList, .object, [.field "p".toList false (.basic 0 true),
      .field "c".toList false (.basic Gen.tagInt8 false)], []⟩]
    ⟨"S".toList, .struct, [.field "a".toList false (.basic Gen.tagInt8 false),
      .field "o".toList false (.iface "O".toList false), .field "b".toList false (.basic Gen.tagInt8 false)], []⟩).layout
    = ⟨32, 8, [0, 8, 24]⟩ := by decide

/-! ### what reaches the typelib -/

/-- What reaches FieldBlob.struct_offset, for EVERY offset the layout computation can produce: an
    offset in [0, 65535) is stored exactly (and is not the unknown marker); every other one — negative
    (= unknown size) or too large for the 16-bit member — is stored as the unknown marker 0xFFFF.
    Never a wrong positive value. -/
theorem C08_stored_offset (off : Int) :
    (0 ≤ off ∧ off < 65535 → blobOffset off = off.toNat ∧ blobOffset off ≠ 65535) ∧
    (off < 0 ∨ 65535 ≤ off → blobOffset off = 65535) ∧
    (blobOffset off = off.toNat ∨ blobOffset off = 65535) := by
  refine ⟨fun h => blobOffset_small off h.1 h.2, blobOffset_unknown off, ?_⟩
  by_cases h : 0 ≤ off ∧ off < 65535
  · exact Or.inl (blobOffset_small off h.1 h.2).1
  · exact Or.inr (blobOffset_unknown off (by omega))

/-- A whole layout: size and alignment are stored exactly (inside the blob field widths: 32 and 6
    bits), every field offset exactly or as "unknown" — the latter precisely when it does not fit. -/
theorem C08_stored (l : Layout) (hs : 0 ≤ l.size ∧ l.size < 2 ^ 32) (ha : 0 ≤ l.align ∧ l.align < 64) :
    (storeLayout l).size = l.size.toNat ∧ (storeLayout l).align = l.align.toNat ∧
    (storeLayout l).offsets = l.offsets.map blobOffset ∧
    (∀ o ∈ l.offsets, (0 ≤ o ∧ o < 65535 ∧ blobOffset o = o.toNat) ∨ ((o < 0 ∨ 65535 ≤ o) ∧ blobOffset o = 65535)) := by
  have h32 : (2:Int) ^ 32 = 4294967296 := by decide
  rw [h32] at hs
  refine ⟨?_, ?_, rfl, ?_⟩
  · simp only [storeLayout, blobSize]; rw [Int.emod_eq_of_lt hs.1 hs.2]
  · simp only [storeLayout, blobAlign]; rw [Int.emod_eq_of_lt ha.1 ha.2]
  · intro o _
    by_cases h : 0 ≤ o ∧ o < 65535
    · exact Or.inl ⟨h.1, h.2, (blobOffset_small o h.1 h.2).1⟩
    · have h' : o < 0 ∨ 65535 ≤ o := by omega
      exact Or.inr ⟨h', blobOffset_unknown o h'⟩

example : storeLayout ⟨24, 8, [0, 8, 16]⟩ = ⟨24, 8, [0, 8, 16]⟩ := by decide
example : (0 : Int) ≤ 24 ∧ (24 : Int) < 2 ^ 32 ∧ (0 : Int) ≤ 8 ∧ (8 : Int) < 64 := by decide
/-- `struct { gint8 a; guint8 buf[70000]; gint32 x; }`: x is at 70004, which does not fit: unknown
    (before fix 260587f the typelib said 4468); 65534 is the last offset that is stored -/
example : storeLayout ⟨70008, 4, [0, 1, 70004]⟩ = ⟨70008, 4, [0, 1, 65535]⟩ := by decide
example : blobOffset 65534 = 65534 ∧ blobOffset 65535 = 65535 ∧ blobOffset 65536 = 65535 ∧
    blobOffset 131072 = 65535 ∧ blobOffset (-1) = 65535 := by decide

/-- the same as a class: `class { gint8 a; guint8 buf[70000]; gint32 x; }` — the model of
    giroffsets.c puts x at 70004 (as gcc does), the FieldBlob says "unknown" (ObjectBlob has no size) -/
example : (computeNode [] ⟨"O".toList, .object,
      [.field "a".toList false (.basic Gen.tagInt8 false),
       .field "buf".toList false (.array false true 70000 (.basic Gen.tagUInt8 false)),
       .field "x".toList false (.basic Gen.tagInt32 false)], []⟩).layout = ⟨70008, 4, [0, 1, 70004]⟩ ∧
    (storeLayout ⟨70008, 4, [0, 1, 70004]⟩).offsets = [0, 1, 65535] := by decide

/-! ### enumerations -/

/-- the fold of compute_enum_storage_type brackets every member (and 0) -/
theorem C08_enum_minmax (vs : List Int) :
    (∀ v ∈ vs, (enumMinMax vs).1 ≤ v ∧ v ≤ (enumMinMax vs).2) ∧ (enumMinMax vs).1 ≤ 0 ∧ 0 ≤ (enumMinMax vs).2 ∧
    ((enumMinMax vs).1 = 0 ∨ (enumMinMax vs).1 ∈ vs) ∧ ((enumMinMax vs).2 = 0 ∨ (enumMinMax vs).2 ∈ vs) := by
  have := enumMinMax_spec vs 0 0 (by omega) (by omega)
  simpa [enumMinMax] using this

/-- With the platform's probe enums (all 4 bytes) and an 8-byte gint64: for EVERY value range that
    fits the 32-bit ValueBlob the storage type represents min and max; it is guint32 iff no member is
    negative, gint32 iff some member is negative and none exceeds G_MAXINT, gint64 iff a negative member
    comes with a member above G_MAXINT (the C compiler's choice for each of the three cases is compared
    on every run). -/
theorem C08_enum_range (minV maxV : Int) (hmin : minV ≤ 0) (hmax : 0 ≤ maxV) (hlo : -2 ^ 31 ≤ minV)
    (hhi : maxV < 2 ^ 32) :
    ∃ tag lo hi, enumStorage minV maxV = some tag ∧ storageRange tag = some (lo, hi) ∧ lo ≤ minV ∧ maxV ≤ hi ∧
      (tag = Gen.tagUInt32 ↔ minV = 0) ∧ (tag = Gen.tagInt32 ↔ minV < 0 ∧ maxV ≤ 2 ^ 31 - 1) ∧
      (tag = Gen.tagInt64 ↔ minV < 0 ∧ 2 ^ 31 - 1 < maxV) := by
  have h31 : (2:Int) ^ 31 = 2147483648 := by decide
  have h32 : (2:Int) ^ 32 = 4294967296 := by decide
  rw [h31] at hlo ⊢
  rw [h32] at hhi
  by_cases hneg : minV < 0
  · by_cases hbig : maxV ≤ 2147483647
    · refine ⟨Gen.tagInt32, -2147483648, 2147483647, enumStorage_neg minV maxV hneg hbig, by decide, hlo, hbig, ?_, ?_, ?_⟩
      · exact ⟨fun h => absurd h (by decide), fun h => by omega⟩
      · exact ⟨fun _ => ⟨hneg, by omega⟩, fun _ => rfl⟩
      · exact ⟨fun h => absurd h (by decide), fun h => by omega⟩
    · refine ⟨Gen.tagInt64, -9223372036854775808, 9223372036854775807,
        enumStorage_neg_big minV maxV hneg (by omega), by decide, by omega, by omega, ?_, ?_, ?_⟩
      · exact ⟨fun h => absurd h (by decide), fun h => by omega⟩
      · exact ⟨fun h => absurd h (by decide), fun h => by omega⟩
      · exact ⟨fun _ => ⟨hneg, by omega⟩, fun _ => rfl⟩
  · have h0 : minV = 0 := by omega
    subst h0
    refine ⟨Gen.tagUInt32, 0, 4294967295, enumStorage_nonneg maxV, by decide, by omega, by omega, ?_, ?_, ?_⟩
    · exact ⟨fun _ => rfl, fun _ => rfl⟩
    · exact ⟨fun h => absurd h (by decide), fun h => by omega⟩
    · exact ⟨fun h => absurd h (by decide), fun h => by omega⟩

/-- FULL statement: for ALL member lists inside the ValueBlob range, compute_enum_storage_type picks
    a storage type that can represent every member. -/
theorem C08_enum (vs : List Int) (hv : ∀ v ∈ vs, -2 ^ 31 ≤ v ∧ v < 2 ^ 32) :
    ∃ tag lo hi, enumStorageOfValues vs = some tag ∧ storageRange tag = some (lo, hi) ∧
      ∀ v ∈ vs, lo ≤ v ∧ v ≤ hi := by
  obtain ⟨hb, hmin, hmax, hminmem, hmaxmem⟩ := C08_enum_minmax vs
  have hlo : -2 ^ 31 ≤ (enumMinMax vs).1 := by
    rcases hminmem with h | h
    · rw [h]; decide
    · exact (hv _ h).1
  have hhi : (enumMinMax vs).2 < 2 ^ 32 := by
    rcases hmaxmem with h | h
    · rw [h]; decide
    · exact (hv _ h).2
  obtain ⟨tag, lo, hi, h1, h2, h3, h4, _⟩ := C08_enum_range _ _ hmin hmax hlo hhi
  refine ⟨tag, lo, hi, h1, h2, ?_⟩
  intro v hm
  have := hb v hm
  omega

/-- the former witness: `enum { A = -1, B = 0x80000000 }` now gets gint64, as gcc makes it 8 bytes -/
example : enumStorageOfValues [-1, 2147483648] = some Gen.tagInt64 := by decide
example : enumStorageOfValues [-2147483648, 4294967295] = some Gen.tagInt64 := by decide
example : enumStorageOfValues [-2147483648, 2147483647] = some Gen.tagInt32 := by decide
example : ∀ v ∈ [(-1 : Int), 2147483648], -2 ^ 31 ≤ v ∧ v < 2 ^ 32 := by decide
example : enumStorageOfValues [1, 2, 3] = some Gen.tagUInt32 := by decide
example : enumStorageOfValues [-1, 5] = some Gen.tagInt32 := by decide
example : enumStorageOfValues [4294967295] = some Gen.tagUInt32 := by decide
example : (-2 : Int) ≤ 0 ∧ (0 : Int) ≤ 70000 ∧ -2 ^ 31 ≤ (-2 : Int) ∧ (70000 : Int) < 2 ^ 32 := by decide

end GIVerif.Offsets
