/-
  C16 — Scanner output is deterministic and independent of irrelevant order.
  ONLY property theorems and non-vacuity examples live here; helper lemmas are in
  GIVerif/Lemmas/Order.lean, the executable model in GIVerif/Model/Order.lean.

  What is a theorem here (all inputs) and what is not:
    * every order the writer imposes (`sorted(...)`, `nscmp`) and `get_main_position` are
      functions of the SET / the multiset of siblings: invariant under every permutation;
    * typedef-before-struct and struct-before-typedef build the same record;
    * the block dictionary is independent of block / file order;
    * the order of `_parsed_includes` (which namespace resolves a C type) is independent of the
      iteration order of every `includes` set;
    * the loop of `IntrospectablePass.validate` (which aliases and callables end up
      introspectable="0") reaches the greatest stable state, the same for every order in which
      the namespace is walked, i.e. for every order of the declarations;
    * `decide` theorems pin the list of sort sites, of unsorted list emissions and of set
      iterations of the sources (regenerated from /repo on every run) to the lists the model
      was written for.
  Determinism across interpreter processes, hash seeds and cache histories is a RUNTIME fact:
  it is validated metamorphically on the real pipeline by harness/c16.py, not proved.

  Hypotheses beyond the property's own wording:
    * C16_sort_perm and its instances: the sort keys of the siblings are pairwise distinct
      (names unique inside one container — C04_once; for `namespace.includes`, packages and
      c:includes this is free: they are Python sets).  Without it a stable sort keeps the
      input order of equal keys; the harness checks the hypothesis on every real output.
    * C16_tag_order: the two declarations are the only ones of that tag (C allows one
      definition per tag); the typedef is of the struct itself, not of a pointer to it.
    * C16_tag_order_two_typedefs: both typedef names are in the namespace (`strip` succeeds).
      Swapping the two TYPEDEFS is not symmetric in the code (the first one becomes the
      primary record: see C16_two_typedefs_swap_counterexample); the property only speaks
      about typedef/struct order.
    * C16_blocks_perm: identifiers pairwise distinct.  With duplicates the code's "last block
      wins" is order dependent (C16_blocks_dup_counterexample) but never silent
      (C16_blocks_dup_warned: a "multiple comment blocks" warning is emitted iff there are
      duplicates); such inputs are counted outside by the harness.
    * C16_parsed_includes_perm: none beyond "`includes` is a set" (its elements are pairwise
      distinct).  C16_resolve_perm_unique is a separate robustness fact about
      `_resolve_type_from_ctype` (any order of `_parsed_includes` gives the same answer when all
      namespaces that can resolve a C type agree); the determinism no longer rests on it.
    * C16_fixpoint_reached / C16_fixpoint_walk_order (which nodes end up introspectable="0"):
      every walk visits every node (the visiting orders are permutations of the namespace).  The
      model keeps the nodes at fixed indices and renders "the declarations were written in
      another order" as "the walks visit them in another order"; that a shuffled namespace IS the
      same nodes under another visiting order (references are by name) is not proved: the harness
      compares the model with the real pass on shuffled declaration orders (c16.fixpoint).
      Only the `while True:` loop of `validate` is modelled here (the flags it starts from are
      taken as given; the whole pass in namespace order is C05's model).
-/
import GIVerif.Lemmas.Order
import GIVerif.Gen.Order

namespace GIVerif.Order
open GIVerif.Py

/-! ### the source still has the shape the model was written for -/

/-- Every `sorted(...)` of girwriter.py, every `for` of girwriter.py that is NOT sorted
    (declaration-order emission: parameters, members, fields, attributes, source roots) and the
    key functions are the ones modelled (`decide` over tables regenerated from /repo). -/
theorem C16_tables :
    Gen.Order.sortSites =
      [("GIRWriter._write_repository", "namespace.includes", ""),
       ("GIRWriter._write_repository", "set(namespace.exported_packages)", ""),
       ("GIRWriter._write_repository", "set(namespace.c_includes)", ""),
       ("GIRWriter._write_namespace", "namespace.values()", "nscmp"),
       ("GIRWriter._write_enum", "enum.static_methods", ""),
       ("GIRWriter._write_bitfield", "bitfield.static_methods", ""),
       ("GIRWriter._write_class", "node.interfaces", ""),
       ("GIRWriter._write_class", "node.prerequisites", ""),
       ("GIRWriter._write_class", "node.constructors", ""),
       ("GIRWriter._write_class", "node.static_methods", ""),
       ("GIRWriter._write_class", "node.virtual_methods", ""),
       ("GIRWriter._write_class", "node.methods", ""),
       ("GIRWriter._write_class", "node.properties", ""),
       ("GIRWriter._write_class", "node.signals", ""),
       ("GIRWriter._write_boxed", "boxed.constructors", ""),
       ("GIRWriter._write_boxed", "boxed.methods", ""),
       ("GIRWriter._write_boxed", "boxed.static_methods", ""),
       ("GIRWriter._write_record", "record.constructors", ""),
       ("GIRWriter._write_record", "record.methods", ""),
       ("GIRWriter._write_record", "record.static_methods", ""),
       ("GIRWriter._write_union", "union.constructors", ""),
       ("GIRWriter._write_union", "union.methods", ""),
       ("GIRWriter._write_union", "union.static_methods", "")]
    ∧ Gen.Order.listSites =
      [("GIRWriter._get_relative_path", "self.sources_roots"),
       ("GIRWriter._write_generic", "node.attributes.items()"),
       ("GIRWriter._write_parameters", "callable.parameters"),
       ("GIRWriter._write_untyped_parameters", "macro.parameters"),
       ("GIRWriter._write_enum", "enum.members"),
       ("GIRWriter._write_bitfield", "bitfield.members"),
       ("GIRWriter._write_class", "node.fields"),
       ("GIRWriter._write_record", "record.fields"),
       ("GIRWriter._write_union", "union.fields")]
    ∧ Gen.Order.nscmpShape =
      ["if isinstance(val, ast.Alias):", "    return (0, val)", "else:", "    return (1, val)"]
    ∧ Gen.Order.nodeCompareShape =
      ["return op((self.namespace, self.name), (other.namespace, other.name))"]
    ∧ Gen.Order.includeCompareShape =
      ["return op((self.name, self.version), (other.name, other.version))"]
    ∧ Gen.Order.typeCompareShape =
      ["if self.target_fundamental:", "    return op(self.target_fundamental, other.target_fundamental)",
       "elif self.target_giname:", "    return op(self.target_giname, other.target_giname)",
       "elif self.target_foreign:", "    return op(self.target_foreign, other.target_foreign)",
       "else:", "    return op(self.ctype, other.ctype)"]
    ∧ Gen.Order.sortMatchesShape =
      ["if val[0] == self._namespace:", "    return (1, val[2])", "else:", "    return (0, val[2])"] := by
  decide

/-- `Node.get_main_position`, `Position.__eq__/__hash__`, `Transformer._parse_include` and the
    hand-mirrored functions of the tag namespace / block dictionary / type resolution are the
    versions the model mirrors. -/
theorem C16_mirrored_functions :
    Gen.Order.mainPositionShape =
      ["if not self.file_positions:", "    return None", "def sort_key(position):",
       "    return (position.filename or '', position.line or 0, position.column or 0)",
       "non_typedef = [p for p in self.file_positions if not p.is_typedef]", "if non_typedef:",
       "    return min(non_typedef, key=sort_key)", "return min(self.file_positions, key=sort_key)"]
    ∧ Gen.Order.positionEqShape =
      ["return op((self.filename, self.line, self.column), (other.filename, other.line, other.column))",
       "return hash((self.filename, self.line, self.column))"]
    ∧ Gen.Order.parseIncludeShape =
      ["parser = None", "if self._cachestore is not None:", "    parser = self._cachestore.load(filename)",
       "if parser is None:", "    if self._cachestore is not None:",
       "        source_mtime_ns = os.stat(filename).st_mtime_ns",
       "    parser = GIRParser(types_only=not self._passthrough_mode)",
       "    parser.parse(filename)", "    if self._cachestore is not None:",
       "        self._cachestore.store(filename, parser, source_mtime_ns)",
       "for include in sorted(parser.get_namespace().includes):",
       "    if include.name not in self._parsed_includes:",
       "        dep_filename = self._find_include(include)", "        self._parse_include(dep_filename)",
       "if not uninstalled:", "    for pkg in parser.get_namespace().exported_packages:",
       "        self._pkg_config_packages.add(pkg)", "namespace = parser.get_namespace()",
       "self._parsed_includes[namespace.name] = namespace", "return parser"]
    ∧ Gen.Order.parseDigest = "78f6ca147eb17137"
    ∧ Gen.Order.typedefCompoundDigest = "a26f7e5f81a6bfca"
    ∧ Gen.Order.tagNsCompoundDigest = "1cbbe343fe8239ea"
    ∧ Gen.Order.appendNewNodeDigest = "a61f51d62a7a471a"
    ∧ Gen.Order.blockDictDigest = "059329ac784e736e"
    ∧ Gen.Order.resolveCtypeDigest = "9fcb4183aaab8a28"
    ∧ Gen.Order.splitMatchesDigest = "63f4c4273558e099" := by
  decide

/-- The loop of `IntrospectablePass.validate`, the two walks it repeats, `Namespace.walk` and
    `_type_is_introspectable` are the versions `loopI` / `aliasStepI` / `callStepI` / `condI`
    mirror (the count is taken BEFORE the alias walk and compared after the callable walk). -/
theorem C16_fixpoint_source :
    Gen.Order.validateShape =
      ["self._namespace.walk(self._introspectable_alias_analysis)",
       "self._namespace.walk(self._propagate_callable_skips)", "self._namespace.walk(self._analyze_node)",
       "while True:", "    before = self._count_introspectable()",
       "    self._namespace.walk(self._introspectable_alias_analysis)",
       "    self._namespace.walk(self._introspectable_callable_analysis)",
       "    if self._count_introspectable() == before:", "        break",
       "self._namespace.walk(self._introspectable_property_analysis)",
       "self._namespace.walk(self._introspectable_pass3)",
       "self._namespace.walk(self._remove_non_reachable_backcompat_copies)",
       "self._namespace.walk(self._introspectable_symbol_collisions)"]
    ∧ Gen.Order.aliasAnalysisShape =
      ["if isinstance(obj, ast.Alias):", "    if not self._type_is_introspectable(obj.target):",
       "        obj.introspectable = False", "return True"]
    ∧ Gen.Order.namespaceWalkShape = ["for node in self.values():", "    node.walk(callback, [])"]
    ∧ Gen.Order.callableAnalysisDigest = "ad7dfb80ecac83c6"
    ∧ Gen.Order.typeIsIntrospectableDigest = "b8f35ebf15a48137"
    ∧ Gen.Order.countIntrospectableDigest = "1ab1ddf3c6339196" := by
  decide

/-- the set iterations that are NOT wrapped in `sorted(...)`, each justified:
    * `get_main_position` (comprehension + `min`): order independent by `C16_main_position`;
    * `_parse_include` over `exported_packages`: adds to another set (pkg-config arguments of
      the preprocessor run, not part of the GIR);
    * `_apply_annotations_params` over `unknown`: only the order of warnings.
    (`_parse_include` over `includes` is sorted since 5d8d03e: `C16_parsed_includes_perm`.) -/
def allowedUnsortedSetIters : List (String × String × String × String) :=
  [("giscanner/ast.py", "Node.get_main_position", "self.file_positions", "comp"),
   ("giscanner/ast.py", "Node.get_main_position", "self.file_positions", "min"),
   ("giscanner/transformer.py", "Transformer._parse_include", "parser.get_namespace().exported_packages", "for"),
   ("giscanner/maintransformer.py", "MainTransformer._apply_annotations_params", "unknown", "for")]

/-- Every iteration over a `set` in the scanner sources is over `sorted(...)`, except the
    explicit list above; in particular every set the WRITER iterates is sorted. -/
theorem C16_sets_sorted :
    (Gen.Order.setIters.filter (fun s => !s.2.2.2.2)).map (fun s => (s.1, s.2.1, s.2.2.1, s.2.2.2.1))
      = allowedUnsortedSetIters
    ∧ (Gen.Order.setIters.filter (fun s => s.1 == "giscanner/girwriter.py")).all (fun s => s.2.2.2.2) = true
    ∧ Gen.Order.setAttrs =
      ["_c_includes", "_includes", "_pkg_config_packages", "_pkgconfig_packages", "c_includes",
       "exported_packages", "file_positions", "includes"] := by
  decide

/-! ### sorted emission -/

/-- `sorted(...)` of a permuted container is the same list, when the keys are pairwise
    distinct — for EVERY total order and key function (proved once, from "sorted +
    permutation ⇒ equal"). -/
theorem C16_sort_perm {le : κ → κ → Bool} (h : TotalOrderB le) (key : α → κ) (l l' : List α)
    (hk : (l.map key).Nodup) (hp : l'.Perm l) : sortBy le key l' = sortBy le key l :=
  sortBy_perm h key l l' hk hp

/-- The order of siblings is a fixed function of their keys: ANY arrangement of the siblings
    that is ordered by the key is the one the model (and any correct sort) produces. -/
theorem C16_sort_unique {le : κ → κ → Bool} (h : TotalOrderB le) (key : α → κ) (l r : List α)
    (hk : (l.map key).Nodup) (hp : r.Perm l)
    (hs : r.Pairwise (fun a b => le (key a) (key b) = true)) : r = sortBy le key l :=
  sorted_perm_unique h key l r hk hp hs

/-- the keys really are total orders (Python `str` / `int` / tuple comparison) -/
theorem C16_orders : TotalOrderB strLe ∧ TotalOrderB (pairLe strLe strLe) ∧ TotalOrderB nscmpLe
    ∧ TotalOrderB posKeyLe :=
  ⟨strLe_order, includeLe_order, nscmpLe_order, posKeyLe_order⟩

/-- `<include>`: `namespace.includes` is a set of (name, version) — its elements are pairwise
    distinct because it is a set — so whatever order Python iterates it in, the emitted
    sequence is the same. -/
theorem C16_includes_perm (s iter : List (Str × Str)) (hset : s.Nodup) (hp : iter.Perm s) :
    sortedIncludes iter = sortedIncludes s :=
  sortBy_perm includeLe_order id s iter (by simpa using hset) hp

/-- `<package>` / `<c:include>`: `sorted(set(l))` depends only on which strings occur in `l`,
    not on their order or multiplicity, nor on the iteration order of the set. -/
theorem C16_packages_perm (l l' iter iter' : List Str) (hmem : ∀ a, a ∈ l' ↔ a ∈ l)
    (hi : iter.Perm (setOf l)) (hi' : iter'.Perm (setOf l')) :
    sortedStrs iter' = sortedStrs iter := by
  have hn : ((setOf l).map id).Nodup := by simpa using nodup_setOf l
  unfold sortedStrs
  rw [sortBy_perm strLe_order id (setOf l) iter hn hi]
  exact sortBy_perm strLe_order id (setOf l) iter' hn (hi'.trans (setOf_perm_of_mem_iff hmem))

/-- Top-level elements: aliases first, then by name, whatever the insertion order of
    `Namespace.names` (declaration order, dump order, promotion order). -/
theorem C16_namespace_perm (nodes nodes' : List Node) (hk : (nodes.map (·.name)).Nodup)
    (hp : nodes'.Perm nodes) : writeNamespace nodes' = writeNamespace nodes := by
  unfold writeNamespace
  have hk' : (nodes.map nscmpKey).Nodup := by
    apply List.Nodup.of_map Prod.snd
    simpa [List.map_map, Function.comp_def, nscmpKey] using hk
  rw [sortBy_perm nscmpLe_order nscmpKey nodes nodes' hk' hp]

/-- two descriptions of one node that differ only in the ORDER of the sorted containers and of
    the position set -/
structure SameUpToOrder (a b : Node) : Prop where
  kind : a.kind = b.kind
  name : a.name = b.name
  fields : a.fields = b.fields
  members : a.members = b.members
  interfaces : a.interfaces.Perm b.interfaces
  constructors : a.constructors.Perm b.constructors
  staticMethods : a.staticMethods.Perm b.staticMethods
  vfuncs : a.vfuncs.Perm b.vfuncs
  methods : a.methods.Perm b.methods
  properties : a.properties.Perm b.properties
  signals : a.signals.Perm b.signals
  positions : a.positions.Perm b.positions

/-- pairwise distinct names inside every sorted container of a node -/
structure UniqueNames (n : Node) : Prop where
  interfaces : n.interfaces.Nodup
  constructors : n.constructors.Nodup
  staticMethods : n.staticMethods.Nodup
  vfuncs : n.vfuncs.Nodup
  methods : n.methods.Nodup
  properties : n.properties.Nodup
  signals : n.signals.Nodup

theorem isEmpty_perm {l l' : List α} (hp : l'.Perm l) : l'.isEmpty = l.isEmpty := by
  cases l with
  | nil => rw [List.perm_nil.mp hp]
  | cons a as =>
    cases l' with
    | nil => exact absurd (List.nil_perm.mp hp) (by simp)
    | cons b bs => rfl

theorem mainPositionKey_perm {ps ps' : List Pos} (hp : ps'.Perm ps) :
    mainPositionKey ps' = mainPositionKey ps := by
  unfold mainPositionKey getMainPosition
  have hf : (ps'.filter (fun p => !p.isTypedef)).Perm (ps.filter (fun p => !p.isTypedef)) := hp.filter _
  have e1 : ps'.isEmpty = ps.isEmpty := by
    cases ps with
    | nil => rw [List.perm_nil.mp hp]
    | cons a as =>
      cases ps' with
      | nil => exact absurd (List.nil_perm.mp hp) (by simp)
      | cons b bs => rfl
  have e2 : (ps'.filter (fun p => !p.isTypedef)).isEmpty = (ps.filter (fun p => !p.isTypedef)).isEmpty := by
    generalize ps.filter (fun p => !p.isTypedef) = q at hf
    generalize ps'.filter (fun p => !p.isTypedef) = q' at hf
    cases q with
    | nil => rw [List.perm_nil.mp hf]
    | cons a as =>
      cases q' with
      | nil => exact absurd (List.nil_perm.mp hf) (by simp)
      | cons b bs => rfl
  rw [e1]
  split
  · rfl
  · simp only [e2]
    split
    · exact minBy_key_perm posKeyLe_order Pos.key hf
    · exact minBy_key_perm posKeyLe_order Pos.key hp

/-- Children of a class / interface / record / union / boxed / enum: the emitted
    (element, name) sequence and the `<source-position>` depend only on the sets of names,
    not on the order in which methods, properties, signals, ... were attached. -/
theorem C16_children_perm (n n' : Node) (h : SameUpToOrder n' n) (hu : UniqueNames n) :
    writeNode n' = writeNode n := by
  have e := fun (a b : List Str) (hp : a.Perm b) (hn : b.Nodup) =>
    sortBy_perm strLe_order id b a (by simpa using hn) hp
  unfold writeNode writeChildren
  rw [h.kind, h.name, h.fields, h.members, mainPositionKey_perm h.positions,
    e _ _ h.interfaces hu.interfaces, e _ _ h.constructors hu.constructors,
    e _ _ h.staticMethods hu.staticMethods, e _ _ h.vfuncs hu.vfuncs, e _ _ h.methods hu.methods,
    e _ _ h.properties hu.properties, e _ _ h.signals hu.signals]

/-! ### `<source-position>` -/

/-- What the fix d6b0d4f bought: the position written to `<source-position>` is the same for
    EVERY iteration order of `file_positions` — for any list at all, no hypothesis. -/
theorem C16_main_position (ps ps' : List Pos) (hp : ps'.Perm ps) :
    mainPositionKey ps' = mainPositionKey ps :=
  mainPositionKey_perm hp

/-- For a genuine set (pairwise distinct (file, line, column), which is `Position.__eq__`) even
    the `Position` object returned by `get_main_position` is the same. -/
theorem C16_main_position_set (ps ps' : List Pos) (hset : (ps.map Pos.key).Nodup) (hp : ps'.Perm ps) :
    getMainPosition ps' = getMainPosition ps := by
  have hkey := mainPositionKey_perm hp
  unfold mainPositionKey at hkey
  cases h1 : getMainPosition ps' with
  | none =>
    rw [h1] at hkey
    cases h2 : getMainPosition ps with
    | none => rfl
    | some m => rw [h2] at hkey; simp at hkey
  | some m' =>
    cases h2 : getMainPosition ps with
    | none => rw [h1, h2] at hkey; simp at hkey
    | some m =>
      rw [h1, h2] at hkey
      simp only [Option.map_some, Option.some.injEq] at hkey
      have mem : ∀ {l : List Pos} {m : Pos}, getMainPosition l = some m → m ∈ l := by
        intro l m hm
        unfold getMainPosition at hm
        split at hm
        · cases hm
        · dsimp only at hm
          split at hm
          · exact (List.mem_filter.mp (minBy_spec posKeyLe_order Pos.key hm).1).1
          · exact (minBy_spec posKeyLe_order Pos.key hm).1
      rw [key_inj_of_nodup hset (hp.subset (mem h1)) (mem h2) hkey]

/-- Regression witness: the definition before d6b0d4f returned the first non-typedef position in
    iteration order — two iteration orders of one set give two different `<source-position>`s. -/
theorem C16_main_position_old_counterexample :
    ∃ ps ps' : List Pos, ps'.Perm ps ∧ (ps.map Pos.key).Nodup ∧
      (getMainPositionOld ps').map Pos.key ≠ (getMainPositionOld ps).map Pos.key :=
  ⟨[⟨"a.h".toList, 3, 0, true⟩, ⟨"b.h".toList, 7, 0, false⟩, ⟨"d.h".toList, 11, 0, false⟩],
   [⟨"a.h".toList, 3, 0, true⟩, ⟨"d.h".toList, 11, 0, false⟩, ⟨"b.h".toList, 7, 0, false⟩],
   (List.Perm.swap _ _ _).cons _, by decide, by decide⟩

/-! ### typedef / struct declaration order -/

/-- `typedef struct _T T; struct _T { fs };` and the swapped order produce the same output
    record (name, c:type, kind, fields, opaque, disguised, pointer, source position), for any
    fields, any identifiers, any positions (same line included), any `strip_identifier`
    (also when it rejects the typedef name and the struct is promoted under its tag). -/
theorem C16_tag_order (strip : Str → Option Str) (kind : CKind) (ident tag : Str) (fields : List Str)
    (f1 : Str) (l1 : Nat) (f2 : Str) (l2 : Nat) :
    parseEmit strip [.typedef kind ident (some tag) [] f1 l1, .struct kind tag fields f2 l2]
    = parseEmit strip [.struct kind tag fields f2 l2, .typedef kind ident (some tag) [] f1 l1] := by
  cases hs : strip ident with
  | none =>
    simp [parseEmit, parse, parseFrom, steps, step, register, dictGet, dictHas, hs]
  | some name =>
    by_cases hk : f1 = f2 ∧ l1 = l2
    · obtain ⟨rfl, rfl⟩ := hk
      simp [parseEmit, parse, parseFrom, steps, step, register, appendNew, dictGet, dictHas, modifyAt,
        hs, addPos, Pos.key, promote, emitted, recOf, sortBy, isort, insertBy, mainPositionKey,
        getMainPosition, minBy]
    · have hk' : ¬ (f2 = f1 ∧ l2 = l1) := fun h => hk ⟨h.1.symm, h.2.symm⟩
      simp [parseEmit, parse, parseFrom, steps, step, register, appendNew, dictGet, dictHas, modifyAt,
        hs, addPos, Pos.key, hk, hk', promote, emitted, recOf, sortBy, isort, insertBy,
        mainPositionKey, getMainPosition, minBy]

/-- Two typedefs of one tag (`typedef struct _G G; typedef struct _G GI;`): wherever the struct
    definition stands relative to them (after both, between, before both) the two records are
    the same. -/
theorem C16_tag_order_two_typedefs (strip : Str → Option Str) (kind : CKind) (i1 i2 tag n1 n2 : Str)
    (fields : List Str) (f1 : Str) (l1 : Nat) (f2 : Str) (l2 : Nat) (f3 : Str) (l3 : Nat)
    (h1 : strip i1 = some n1) (h2 : strip i2 = some n2) :
    parseEmit strip [.typedef kind i1 (some tag) [] f1 l1, .typedef kind i2 (some tag) [] f2 l2,
                     .struct kind tag fields f3 l3]
    = parseEmit strip [.typedef kind i1 (some tag) [] f1 l1, .struct kind tag fields f3 l3,
                       .typedef kind i2 (some tag) [] f2 l2]
    ∧ parseEmit strip [.typedef kind i1 (some tag) [] f1 l1, .struct kind tag fields f3 l3,
                       .typedef kind i2 (some tag) [] f2 l2]
    = parseEmit strip [.struct kind tag fields f3 l3, .typedef kind i1 (some tag) [] f1 l1,
                       .typedef kind i2 (some tag) [] f2 l2] := by
  by_cases hn : n1 = n2
  · subst hn
    simp [parseEmit, parse, parseFrom, steps, step, register, appendNew, dictGet, dictHas, modifyAt,
      addPos, Pos.key, h1, h2]
  · by_cases hk : f1 = f3 ∧ l1 = l3
    · obtain ⟨rfl, rfl⟩ := hk
      simp only [parseEmit, parse, parseFrom, steps, step, register, appendNew, dictGet, dictHas,
        modifyAt, addPos, Pos.key, h1, h2]
      simp [hn, promote]
      refine emitted_congr _ _ ?_ ?_
      · rfl
      intro e he
      simp at he
      rcases he with rfl | rfl <;> simp [recOf, mainPositionKey, getMainPosition, minBy, Pos.key]
    · have hk' : ¬ (f3 = f1 ∧ l3 = l1) := fun h => hk ⟨h.1.symm, h.2.symm⟩
      simp only [parseEmit, parse, parseFrom, steps, step, register, appendNew, dictGet, dictHas,
        modifyAt, addPos, Pos.key, h1, h2]
      simp [hn, hk, hk', promote]
      refine emitted_congr _ _ ?_ ?_
      · rfl
      intro e he
      simp at he
      rcases he with rfl | rfl <;> simp [recOf, mainPositionKey, getMainPosition, minBy, Pos.key]

def stripFoo (s : Str) : Option Str := if startsWith s "Foo".toList then some (s.drop 3) else none

/-- NOT symmetric, by design of the code ("the first typedef for a struct clobbers its name"):
    swapping the two TYPEDEFS moves the struct's source position (and, for a field-less tag, the
    `opaque` flag) to the other record.  Outside the property's quantifier; recorded so that
    the limit of C16_tag_order_two_typedefs is explicit. -/
theorem C16_two_typedefs_swap_counterexample :
    parseEmit stripFoo [.typedef .record "FooT".toList (some "_FooT".toList) [] "a.h".toList 3,
                        .typedef .record "FooU".toList (some "_FooT".toList) [] "a.h".toList 4,
                        .struct .record "_FooT".toList ["x".toList] "b.h".toList 7]
    ≠ parseEmit stripFoo [.typedef .record "FooU".toList (some "_FooT".toList) [] "a.h".toList 4,
                          .typedef .record "FooT".toList (some "_FooT".toList) [] "a.h".toList 3,
                          .struct .record "_FooT".toList ["x".toList] "b.h".toList 7] := by
  decide

/-! ### comment blocks -/

/-- With pairwise distinct identifiers the block dictionary is independent of the order in
    which blocks (hence source files) are supplied: same lookups, same items, no warning. -/
theorem C16_blocks_perm [DecidableEq κ] (l l' : List (κ × β)) (hk : (l.map (·.1)).Nodup)
    (hp : l'.Perm l) :
    (∀ k, dictGet (blockDict l').1 k = dictGet (blockDict l).1 k)
    ∧ (blockDict l').1.Perm (blockDict l).1
    ∧ (blockDict l').2 = 0 ∧ (blockDict l).2 = 0 := by
  have hk' : (l'.map (·.1)).Nodup := (hp.map _).nodup_iff.mpr hk
  rw [blockDict_of_nodup l hk, blockDict_of_nodup l' hk']
  exact ⟨fun k => dictGet_perm hk hp k, hp, rfl, rfl⟩

/-- In general the LAST block of an identifier wins. -/
theorem C16_blocks_last_wins [DecidableEq κ] (l : List (κ × β)) (k : κ) :
    dictGet (blockDict l).1 k = dictGet l.reverse k :=
  blockDict_get l k

/-- Duplicated identifiers are never silent: "multiple comment blocks documenting ..." is
    warned at least once iff the identifiers are not pairwise distinct. -/
theorem C16_blocks_dup_warned [DecidableEq κ] (l : List (κ × β)) :
    0 < (blockDict l).2 ↔ ¬ (l.map (·.1)).Nodup := by
  rw [← blockDict_warnings]
  omega

/-- With a duplicated identifier the order matters (why the hypothesis of C16_blocks_perm is
    needed): such inputs are flagged by the warning above and counted outside. -/
theorem C16_blocks_dup_counterexample :
    ∃ l l' : List (Str × Str), l'.Perm l ∧
      dictGet (blockDict l').1 "foo_f".toList ≠ dictGet (blockDict l).1 "foo_f".toList :=
  ⟨[("foo_f".toList, "first".toList), ("foo_f".toList, "second".toList)],
   [("foo_f".toList, "second".toList), ("foo_f".toList, "first".toList)],
   List.Perm.swap _ _ _, by decide⟩

/-! ### transitive includes -/

/-- The order of `_parsed_includes` — which decides the namespace a C type known to several
    included namespaces resolves to — does not depend on the order in which Python iterates the
    `includes` SET of any dependency (hash seed, unpickled from the cache or parsed afresh):
    what commit 5d8d03e bought.  Full statement, no hypothesis beyond "a set". -/
theorem C16_parsed_includes_perm (iter iter' : Str → List (Str × Str))
    (hset : ∀ n, (iter n).Nodup) (hp : ∀ n, (iter' n).Perm (iter n))
    (fuel : Nat) (parsed : List Str) (root : Str) :
    parseInclude iter' fuel parsed root = parseInclude iter fuel parsed root := by
  have e : (fun n => sortedIncludes (iter' n)) = (fun n => sortedIncludes (iter n)) :=
    funext fun n => C16_includes_perm (iter n) (iter' n) (hset n) (hp n)
  unfold parseInclude
  rw [e]

/-- ... hence neither does the type a C identifier resolves to. -/
theorem C16_resolve_includes_perm (iter iter' : Str → List (Str × Str))
    (hset : ∀ n, (iter n).Nodup) (hp : ∀ n, (iter' n).Perm (iter n))
    (depOf : Str → Option DepNs) (fuel : Nat) (root ident : Str) :
    resolveCtype ((parseInclude iter' fuel [] root).filterMap depOf) ident
      = resolveCtype ((parseInclude iter fuel [] root).filterMap depOf) ident := by
  rw [C16_parsed_includes_perm iter iter' hset hp]

/-- all dependency namespaces that can resolve `ident` agree on the GI name -/
def UniqueProvider (deps : List DepNs) (ident : Str) : Prop :=
  (∀ a ∈ deps, ∀ b ∈ deps, ∀ ma mb x y, matchOf ident a = some ma → matchOf ident b = some mb →
    giNameOf ident ma = some x → giNameOf ident mb = some y → x = y)
  ∧ (∀ a ∈ deps, ∀ b ∈ deps, ∀ x y, fallbackOf ident a = some x → fallbackOf ident b = some y → x = y)

/-- Robustness of `_resolve_type_from_ctype`: ANY order of `_parsed_includes` gives the same
    answer when at most one result is possible. -/
theorem C16_resolve_perm_unique (deps deps' : List DepNs) (ident : Str) (hp : deps'.Perm deps)
    (hu : UniqueProvider deps ident) : resolveCtype deps' ident = resolveCtype deps ident := by
  unfold resolveCtype
  have hms : (sortBy natLe (fun m : DepNs × Str × Nat => m.2.2) (deps'.filterMap (matchOf ident))).Perm
      (sortBy natLe (fun m : DepNs × Str × Nat => m.2.2) (deps.filterMap (matchOf ident))) :=
    (sortBy_perm_self _ _).trans ((hp.filterMap _).trans (sortBy_perm_self _ _).symm)
  have hemp : (sortBy natLe (fun m : DepNs × Str × Nat => m.2.2) (deps'.filterMap (matchOf ident))).isEmpty
      = (sortBy natLe (fun m : DepNs × Str × Nat => m.2.2) (deps.filterMap (matchOf ident))).isEmpty := by
    exact isEmpty_perm hms
  simp only [hemp]
  split
  · exact findSome?_perm hp (fun a ha b hb x y hx hy => hu.2 a ha b hb x y hx hy)
  · refine findSome?_perm hms ?_
    intro ma hma mb hmb x y hx hy
    obtain ⟨a, ha, hma'⟩ := List.mem_filterMap.mp ((sortBy_perm_self _ _).subset hma)
    obtain ⟨b, hb, hmb'⟩ := List.mem_filterMap.mp ((sortBy_perm_self _ _).subset hmb)
    exact hu.1 a ha b hb ma mb x y hma' hmb' hx hy

def depA : DepNs := ⟨"DepA".toList, ["D".toList], ["Thing".toList], [("DThing".toList, "Thing".toList)]⟩
def depB : DepNs := ⟨"DepB".toList, ["D".toList], ["Thing".toList], [("DThing".toList, "Thing".toList)]⟩
def depOfName (n : Str) : Option DepNs :=
  if n = "DepA".toList then some depA else if n = "DepB".toList then some depB else none

def topIter1 : Str → List (Str × Str) := fun n =>
  if n = "Top".toList then [("DepA".toList, "1.0".toList), ("DepB".toList, "1.0".toList)] else []
def topIter2 : Str → List (Str × Str) := fun n =>
  if n = "Top".toList then [("DepB".toList, "1.0".toList), ("DepA".toList, "1.0".toList)] else []

/-- Regression witness (the finding 5d8d03e repaired).  `Top` includes `DepA` and `DepB`; both can
    resolve `DThing`.  With the loop over the set as iterated, the two iteration orders of Top's
    `includes` gave two `_parsed_includes` orders and two different types in the GIR; with the
    sorted loop both give `DepA.Thing`. -/
theorem C16_include_order_old_counterexample :
    (topIter2 "Top".toList).Perm (topIter1 "Top".toList)
    ∧ resolveCtype ((parseIncludeOld topIter1 3 [] "Top".toList).filterMap depOfName) "DThing".toList
        = some "DepA.Thing".toList
    ∧ resolveCtype ((parseIncludeOld topIter2 3 [] "Top".toList).filterMap depOfName) "DThing".toList
        = some "DepB.Thing".toList
    ∧ resolveCtype ((parseInclude topIter1 3 [] "Top".toList).filterMap depOfName) "DThing".toList
        = some "DepA.Thing".toList
    ∧ resolveCtype ((parseInclude topIter2 3 [] "Top".toList).filterMap depOfName) "DThing".toList
        = some "DepA.Thing".toList := by
  refine ⟨List.Perm.swap _ _ _, by decide, by decide, by decide, by decide⟩

/-! ### which nodes are introspectable="0" does not depend on the order of the declarations -/

/-- `cntI tf + 1` rounds always suffice, and the loop of `IntrospectablePass.validate` ends in a
    state that no visit of either walk changes, having only cleared flags. -/
theorem C16_fixpoint_reached (nodes : List INode) (ord : List Nat) (tf : List Bool)
    (hord : ∀ i, i < nodes.length → i ∈ ord) :
    StableI nodes (loopI nodes ord (cntI tf + 1) tf) ∧ FLe (loopI nodes ord (cntI tf + 1) tf) tf :=
  ⟨stable_of_round_fixed hord (loopI_fixed nodes ord _ tf (Nat.lt_succ_self _)), loopI_le nodes ord _ tf⟩

/-- ... and that state is the GREATEST stable state below the start: nothing is marked
    introspectable="0" that the rules do not force, whatever the visiting order. -/
theorem C16_fixpoint_greatest (nodes : List INode) (ord : List Nat) (tf q : List Bool)
    (hq : StableI nodes q) (hle : FLe q tf) : FLe q (loopI nodes ord (cntI tf + 1) tf) :=
  stable_le_loop hq ord _ tf hle

/-- Hence the flags after the loop are the same for EVERY order in which `Namespace.walk` visits
    the nodes (every declaration order), aliases before or after their targets included. -/
theorem C16_fixpoint_walk_order (nodes : List INode) (ord ord' : List Nat) (tf : List Bool)
    (hord : ∀ i, i < nodes.length → i ∈ ord) (hord' : ∀ i, i < nodes.length → i ∈ ord') :
    loopI nodes ord' (cntI tf + 1) tf = loopI nodes ord (cntI tf + 1) tf := by
  obtain ⟨s, l⟩ := C16_fixpoint_reached nodes ord tf hord
  obtain ⟨s', l'⟩ := C16_fixpoint_reached nodes ord' tf hord'
  exact (C16_fixpoint_greatest nodes ord tf _ s' l').antisymm (C16_fixpoint_greatest nodes ord' tf _ s l)

/-- the same, for visiting orders given as permutations of the namespace -/
theorem C16_fixpoint_perm (nodes : List INode) (ord ord' : List Nat) (tf : List Bool)
    (hp : ord.Perm (List.range nodes.length)) (hp' : ord'.Perm ord) :
    loopI nodes ord' (cntI tf + 1) tf = loopI nodes ord (cntI tf + 1) tf :=
  C16_fixpoint_walk_order nodes ord ord' tf
    (fun _ hi => hp.symm.subset (List.mem_range.mpr hi))
    (fun _ hi => (hp'.trans hp).symm.subset (List.mem_range.mpr hi))

/-- a callback that cannot be bound (`ok := false`), an alias of it, an alias of that alias, an
    alias of that one, and a function taking the last alias -/
def chainNodes : List INode :=
  [⟨.callable, false, false, []⟩, ⟨.alias, false, true, [0]⟩, ⟨.alias, false, true, [1]⟩,
   ⟨.alias, false, true, [2]⟩, ⟨.callable, false, true, [3]⟩]

/-- Why the loop is needed (the pass order before commit 51936cf ran each walk a fixed number of
    times): ONE round is order dependent.  Start: the callback has been found unbindable by
    `_analyze_node`.  Aliases visited after their targets are all cleared in one round, visited
    before them only the first one is (and the function keeps its flag). -/
theorem C16_single_round_order_counterexample :
    roundI chainNodes [0, 1, 2, 3, 4] [false, true, true, true, true] = [false, false, false, false, false]
    ∧ roundI chainNodes [4, 3, 2, 1, 0] [false, true, true, true, true] = [false, false, true, true, true]
    ∧ [4, 3, 2, 1, 0].Perm [0, 1, 2, 3, 4] := by
  refine ⟨by decide, by decide, by decide⟩

/-! ### non-vacuity: concrete instances of the hypotheses and conclusions -/

example : loopI chainNodes [4, 3, 2, 1, 0] (cntI [false, true, true, true, true] + 1) [false, true, true, true, true]
    = [false, false, false, false, false] := by decide
example : ∀ i, i < chainNodes.length → i ∈ [4, 3, 2, 1, 0] := by decide
example : [4, 3, 2, 1, 0].Perm (List.range chainNodes.length) := by decide
example : StableI chainNodes [false, false, false, false, false] := (stableI_iff _ _).mp (by decide)
example : FLe ([false, true, true, true, true].set 1 false) [false, true, true, true, true] := fle_set_false _ _
example : sortedStrs ["glib-2.0".toList, "gio-2.0".toList, "Zlib".toList]
    = ["Zlib".toList, "gio-2.0".toList, "glib-2.0".toList] := by decide
example : (["b".toList, "a".toList, "c".toList].map id).Nodup := by decide
example : sortedIncludes [("GObject".toList, "2.0".toList), ("GLib".toList, "2.0".toList), ("GLib".toList, "1.0".toList)]
    = [("GLib".toList, "1.0".toList), ("GLib".toList, "2.0".toList), ("GObject".toList, "2.0".toList)] := by decide
def exClass : Node :=
  { kind := .klass, name := "A".toList, methods := ["z".toList, "a".toList], fields := ["q".toList, "p".toList] }
def exNodes : List Node :=
  [({ kind := .function, name := "b".toList } : Node), exClass, ({ kind := .alias, name := "Z".toList } : Node)]
example : (writeNamespace exNodes).map (fun e => (e.name, e.children.map (·.2)))
    = [("Z".toList, []), ("A".toList, ["a".toList, "z".toList, "q".toList, "p".toList]), ("b".toList, [])] := by
  decide
example : UniqueNames exClass :=
  ⟨by decide, by decide, by decide, by decide, by decide, by decide, by decide⟩
example : (exNodes.map (·.name)).Nodup := by decide
example : mainPositionKey [⟨"a.h".toList, 3, 0, true⟩, ⟨"d.h".toList, 11, 0, false⟩, ⟨"b.h".toList, 7, 0, false⟩]
    = some ("b.h".toList, 7, 0) := by decide
example : mainPositionKey [⟨"z.h".toList, 3, 0, true⟩, ⟨"a.h".toList, 9, 0, true⟩] = some ("a.h".toList, 9, 0) := by
  decide
example : parseEmit stripFoo [.typedef .record "FooT".toList (some "_FooT".toList) [] "a.h".toList 3,
      .struct .record "_FooT".toList ["x".toList] "b.h".toList 7]
    = .ok [⟨.record, "T".toList, "FooT".toList, ["x".toList], false, false, false, some ("b.h".toList, 7, 0)⟩] := by
  decide
example : parseEmit stripFoo [.typedef .record "FooT".toList (some "_FooT".toList) [] "a.h".toList 3]
    = .ok [⟨.record, "T".toList, "FooT".toList, [], true, true, false, some ("a.h".toList, 3, 0)⟩] := by
  decide
example : parseEmit stripFoo [.struct .record "_BarT".toList [] "b.h".toList 7,
      .typedef .record "BarT".toList (some "_BarT".toList) [] "a.h".toList 3] = .ok [] := by decide
example : blockDict [("a".toList, 1), ("b".toList, 2), ("a".toList, 3)] = ([("a".toList, 3), ("b".toList, 2)], 1) := by
  decide
example : ∀ n, (topIter1 n).Nodup := by
  intro n; unfold topIter1; split <;> decide
example : ∀ n, (topIter2 n).Perm (topIter1 n) := by
  intro n; unfold topIter1 topIter2; split
  · exact List.Perm.swap _ _ _
  · exact List.Perm.refl _
example : parseInclude topIter2 3 [] "Top".toList = ["DepA".toList, "DepB".toList, "Top".toList] := by decide
def depOther : DepNs := ⟨"Other".toList, ["O".toList], [], []⟩
example : UniqueProvider [depA, depOther] "DThing".toList := by
  have hno : matchOf "DThing".toList depOther = none := by decide
  have hno' : fallbackOf "DThing".toList depOther = none := by decide
  refine ⟨?_, ?_⟩
  · intro a ha b hb ma mb x y h1 h2 h3 h4
    simp only [List.mem_cons, List.not_mem_nil, or_false] at ha hb
    rcases ha with rfl | rfl <;> rcases hb with rfl | rfl
    · have := h1.symm.trans h2
      cases this
      exact Option.some.inj (h3.symm.trans h4)
    · rw [hno] at h2; cases h2
    · rw [hno] at h1; cases h1
    · rw [hno] at h1; cases h1
  · intro a ha b hb x y h1 h2
    simp only [List.mem_cons, List.not_mem_nil, or_false] at ha hb
    rcases ha with rfl | rfl <;> rcases hb with rfl | rfl
    · exact Option.some.inj (h1.symm.trans h2)
    · rw [hno'] at h2; cases h2
    · rw [hno'] at h1; cases h1
    · rw [hno'] at h1; cases h1
example : resolveCtype [depOther, depA] "DThing".toList = some "DepA.Thing".toList := by decide

end GIVerif.Order
