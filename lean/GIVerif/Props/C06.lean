/-
  C06 — A compiled typelib encodes exactly the API of the GIR it came from.
  ONLY property theorems and non-vacuity examples live here; helper lemmas are in
  GIVerif/Lemmas/Typelib*.lean, the executable model in GIVerif/Model/Typelib*.lean.

  What is a theorem (all inputs) and what is not:
  * PROVED: the generated blob layouts (measured on /repo's header by a C probe on every run)
    are well-formed, equal the published format, and have the documented sizes
    (`C06_layouts_wf`, `C06_format_pinned`, `C06_documented_sizes`); the generic bit-field codec is
    inverse and frame-preserving for EVERY well-formed layout and every fitting value list
    (`C06_codec`, `C06_codec_member`), hence for every generated layout (`C06_codec_generated`);
    ALIGN_VALUE (·, 4) is the least multiple of 4 above its argument (`C06_align`); the mirrored
    size arithmetic keeps every offset 4-aligned and inside its reservation (`C06_offsets`);
    the decoder reads the file only through the bounds-checked reader, so it is total, cannot be
    influenced by anything beyond the end of the file, and each successful read primitive stayed
    inside the file (`C06_decode_safe`, `C06_decode_total`, `C06_reads_inside`).
  * VALIDATED, NOT PROVED: the GIR → node → blob mapping of girparser.c / girnode.c / girmodule.c
    (which attribute sets which member).  It is decided per run by translation validation in
    harness/c06.py with `decode` below as the independent decoder.  `C06_full` states the whole
    property over an abstract compiler; nothing here proves it for the real one.

  Hypotheses beyond the property's wording:
  * `C06_codec`: the value list fits the member widths (`fits`), the struct lies inside the byte
    list, bytes are < 256.  These are the format's own limits ("up to the format's 16-bit limits"):
    `C06_limits` shows the signed 8-bit / 32-bit members round-trip exactly on their ranges and
    collide just outside, and that the directory index size (32-bit variable) is never truncated
    for namespaces within the 16-bit entry count.
  * `C06_offsets`: type/string sharing is ignored (sharing only lowers consumption), attributes
    are not part of the reservation inequality (they are reserved and consumed byte for byte).
-/
import GIVerif.Lemmas.TypelibSafe
import GIVerif.Lemmas.TypelibWf
import GIVerif.Lemmas.TypelibFrozen

namespace GIVerif.Typelib

/-! ### the layouts -/

/-- The regenerated tables are the published format: every struct size, every member position
    and width, nested members, arrays and the enumerator numbering equal the frozen copy.
    A moved, resized, renamed, added or removed member of gitypelib-internal.h breaks this. -/
theorem C06_format_pinned :
    Gen.blobSizes = Frozen.sizes ∧ Gen.blobFields = Frozen.fields ∧ Gen.blobNested = Frozen.nested ∧
    Gen.blobArrays = Frozen.arrays ∧ Gen.typelibEnums = Frozen.enums := by
  decide +kernel

/-- In every blob struct the members (bit-fields, scalars, nested structs, sized arrays) lie
    inside the struct, do not overlap and leave no hole; union members start at bit 0 and fit;
    flexible arrays start at `sizeof`; the members, nested members and enumerators the decoder
    uses exist; the type tag sits at the same bits in all out-of-line type blobs. -/
theorem C06_layouts_wf :
    allStructsOk = true ∧ allScalarLayoutsOk = true ∧ flexArraysOk = true ∧ usedMembersOk = true ∧
    usedNestedOk = true ∧ tagPositionsOk = true ∧ usedEnumsOk = true := by
  decide +kernel

/-- The sizes the format documents (CHECK_SIZE table of g_typelib_check_sanity, and the numbers
    written here) are the measured ones; what girmodule.c stores in `header->*_blob_size` is
    `sizeof` of a known struct in a 16-bit header member, and it is what validate_header compares;
    the magic is 16 bytes "GOBJ\nMETADATA\r\n\x1a", the version written is the one accepted. -/
theorem C06_documented_sizes :
    checkSizesOk = true ∧ headerWrittenOk = true ∧ headerCheckedOk = true ∧
    sizeOf' "Header" = 112 ∧ sizeOf' "DirEntry" = 12 ∧ sizeOf' "SimpleTypeBlob" = 4 ∧ sizeOf' "ArgBlob" = 16 ∧
    sizeOf' "SignatureBlob" = 8 ∧ sizeOf' "CommonBlob" = 8 ∧ sizeOf' "FunctionBlob" = 20 ∧
    sizeOf' "CallbackBlob" = 12 ∧ sizeOf' "InterfaceTypeBlob" = 4 ∧ sizeOf' "ArrayTypeBlob" = 8 ∧
    sizeOf' "ParamTypeBlob" = 4 ∧ sizeOf' "ErrorTypeBlob" = 4 ∧ sizeOf' "ValueBlob" = 12 ∧
    sizeOf' "FieldBlob" = 16 ∧ sizeOf' "RegisteredTypeBlob" = 16 ∧ sizeOf' "StructBlob" = 32 ∧
    sizeOf' "EnumBlob" = 24 ∧ sizeOf' "PropertyBlob" = 16 ∧ sizeOf' "SignalBlob" = 16 ∧ sizeOf' "VFuncBlob" = 20 ∧
    sizeOf' "ObjectBlob" = 60 ∧ sizeOf' "InterfaceBlob" = 40 ∧ sizeOf' "ConstantBlob" = 24 ∧
    sizeOf' "AttributeBlob" = 12 ∧ sizeOf' "UnionBlob" = 40 ∧ sizeOf' "Section" = 8 ∧
    Gen.headerBlobSizeWritten =
      [("entry_blob_size", "DirEntry", 0), ("function_blob_size", "FunctionBlob", 0),
       ("callback_blob_size", "CallbackBlob", 0), ("signal_blob_size", "SignalBlob", 0),
       ("vfunc_blob_size", "VFuncBlob", 0), ("arg_blob_size", "ArgBlob", 0), ("property_blob_size", "PropertyBlob", 0),
       ("field_blob_size", "FieldBlob", 0), ("value_blob_size", "ValueBlob", 0),
       ("constant_blob_size", "ConstantBlob", 0), ("error_domain_blob_size", "", 16),
       ("attribute_blob_size", "AttributeBlob", 0), ("signature_blob_size", "SignatureBlob", 0),
       ("enum_blob_size", "EnumBlob", 0), ("struct_blob_size", "StructBlob", 0), ("object_blob_size", "ObjectBlob", 0),
       ("interface_blob_size", "InterfaceBlob", 0), ("union_blob_size", "UnionBlob", 0)] ∧
    Gen.irMagic = [71, 79, 66, 74, 10, 77, 69, 84, 65, 68, 65, 84, 65, 13, 10, 26] ∧
    Gen.majorVersionWritten = 4 ∧ Gen.majorVersionAccepted = 4 ∧ Gen.numSections = 2 ∧
    Gen.accessorSentinel = 1023 ∧ Gen.asyncSentinel = 1023 := by
  decide +kernel

/-! ### the codec (generic: any layout, any values) -/

/-- THE CODEC THEOREM.  For every layout `L` that is well-formed for a struct of `size` bytes,
    every value list that fits the member widths, and every byte list with room for the struct at
    `base`: writing all members and reading them back through the checked reader returns exactly
    the values; the result is a byte list of the same length; and no byte outside the struct
    changes. -/
theorem C06_codec (L : List Field) (size base : Nat) (l vals : List Nat)
    (hwf : wfStruct size L = true) (hfit : fits L vals = true) (hroom : base + size ≤ l.length)
    (hbytes : ∀ x ∈ l, x < 256) :
    decodeStruct? (Image.ofList (encodeStruct l base L vals)).getByte? base L = some vals ∧
    (encodeStruct l base L vals).length = l.length ∧
    (∀ x ∈ encodeStruct l base L vals, x < 256) ∧
    (∀ i, i < base ∨ base + size ≤ i → (encodeStruct l base L vals).getD i 0 = l.getD i 0) := by
  refine ⟨?_, length_encodeStruct _ _ _ _, encodeStruct_bytes _ _ _ _ hbytes, ?_⟩
  · rw [getByte?_ofList]
    exact decodeStruct_encodeStruct L size base l vals hwf hfit hroom
  · intro i hi
    have hin : fieldsInside size L = true := by
      simp only [wfStruct, Bool.and_eq_true] at hwf; exact hwf.1
    exact byteFn_encodeStruct_outside L size base l vals i hin hi

/-- Encoding ONE member: it reads back as written (when the value fits), and every member
    disjoint from it reads as before. -/
theorem C06_codec_member (l : List Nat) (base : Nat) (f g : Field) (v : Nat)
    (hin : 8 * base + f.first + f.width ≤ 8 * l.length) :
    (v < 2 ^ f.width → decodeField? (Image.ofList (encodeField l base f v)).getByte? base f = some v) ∧
    (f.disjoint g = true →
      decodeField? (Image.ofList (encodeField l base f v)).getByte? base g =
      decodeField? (Image.ofList l).getByte? base g) := by
  simp only [getByte?_ofList]
  exact ⟨fun hv => decodeField_encodeField_same l base f v hin hv,
         fun hd => decodeField_encodeField_other l base f g v hin hd⟩

/-- A value that does not fit is truncated to the member's width (so `fits` is necessary). -/
theorem C06_codec_truncates (l : List Nat) (first w v : Nat) (h : first + w ≤ 8 * l.length) :
    decodeBits? (listReader (encodeBits l first w v)) first w = some (v % 2 ^ w) := by
  rw [decodeBits?_list _ _ _ (by rw [length_encodeBits]; exact h)]
  rw [decodeBits_of_bits _ first w v (fun j hj => by
    rw [bit_encodeBits l first w v (first + j) h]
    have : first ≤ first + j ∧ first + j < first + w := by omega
    simp [this])]

/-- The codec theorem applies to every struct of the generated table. -/
theorem C06_codec_generated (s kind : String) (size base : Nat) (l vals : List Nat)
    (hs : (s, kind, size) ∈ Gen.blobSizes) (hk : kind = "struct")
    (hfit : fits (fieldsOf s) vals = true) (hroom : base + size ≤ l.length) (hbytes : ∀ x ∈ l, x < 256) :
    decodeStruct? (Image.ofList (encodeStruct l base (fieldsOf s) vals)).getByte? base (fieldsOf s) = some vals := by
  have hall : allScalarLayoutsOk = true := C06_layouts_wf.2.1
  unfold allScalarLayoutsOk at hall
  rw [List.all_eq_true] at hall
  have := hall (s, kind, size) hs
  subst hk
  simp only [bne_self_eq_false, Bool.false_or] at this
  exact (C06_codec (fieldsOf s) size base l vals this hfit hroom hbytes).1

/-- The format's limits.  The signed members round-trip exactly on their ranges — the limits
    stated as hypotheses — and collide just outside them.  The size of the directory index section
    is kept in a variable of at least 32 bits (the width `_gi_typelib_hash_builder_get_buffer_size`
    returns; read from girmodule.c on every run): every 32-bit size survives `ALIGN_VALUE` and the
    assignment unchanged, so for every namespace within the 16-bit entry count of the format (and
    any hash function below 2 GiB) the `g_assert (len >= builder->packed_size)` of
    `_gi_typelib_hash_builder_pack` holds and the section ends 4-aligned; a 16-bit variable would
    already fail at 32766 entries. -/
theorem C06_limits :
    (∀ c : Int, -128 ≤ c → c < 128 → asInt8 (c % 256).toNat = c) ∧
    (∀ v : Int, -2147483648 ≤ v → v < 2147483648 → asInt32 (v % 4294967296).toNat = v) ∧
    asInt8 ((128 : Int) % 256).toNat = -128 ∧ asInt32 ((2147483648 : Int) % 4294967296).toNat = -2147483648 ∧
    32 ≤ Gen.dirIndexSizeBits ∧
    (∀ packed, packed + 3 < 2 ^ 32 →
      dirIndexRequired Gen.dirIndexSizeBits packed = align4 packed ∧
      dirIndexPackOk Gen.dirIndexSizeBits packed = true) ∧
    (∀ cmph n off, n ≤ 65536 → cmph < 2 ^ 31 → off % 4 = 0 →
      dirIndexPackOk Gen.dirIndexSizeBits (hashPackedSize (dirmapOffset cmph) n) = true ∧
      dirIndexEnd Gen.dirIndexSizeBits off (hashPackedSize (dirmapOffset cmph) n) % 4 = 0) ∧
    dirIndexPackOk 16 (hashPackedSize (dirmapOffset 0) 32766) = false := by
  have hb : 32 ≤ Gen.dirIndexSizeBits := by decide
  refine ⟨?_, ?_, by decide, by decide, hb, ?_, ?_, by decide⟩
  · intro c h1 h2
    unfold asInt8
    split <;> omega
  · intro v h1 h2
    unfold asInt32
    split <;> omega
  · intro packed hp
    exact ⟨dirIndexRequired_eq _ _ hb hp, dirIndexPackOk_of_wide _ _ hb hp⟩
  · intro cmph n off hn hc ho
    have hd := align4_lt (4 + cmph)
    have hp : hashPackedSize (dirmapOffset cmph) n + 3 < 2 ^ 32 := by
      unfold hashPackedSize dirmapOffset; omega
    refine ⟨dirIndexPackOk_of_wide _ _ hb hp, ?_⟩
    unfold dirIndexEnd
    rw [dirIndexRequired_eq _ _ hb hp]
    have := align4_mod (hashPackedSize (dirmapOffset cmph) n)
    omega

/-! ### alignment and offsets -/

/-- `ALIGN_VALUE (n, 4)` is the least multiple of 4 that is ≥ n; the macro in the source still has
    the shape `(this + (b-1)) & ~(b-1)` and every call site of the writer uses boundary 4. -/
theorem C06_align :
    (∀ n, n ≤ align4 n ∧ align4 n % 4 = 0 ∧ (∀ m, m % 4 = 0 → n ≤ m → align4 n ≤ m)) ∧
    Gen.alignBoundaries = [4] ∧
    Gen.alignMacro = ["(( ((unsigned long)(this)) + (((unsigned long)(boundary)) -1)) & (~(((unsigned long)(boundary))-1)))"] := by
  refine ⟨fun n => ⟨align4_ge n, align4_mod n, fun m hm h => align4_least n m hm h⟩, by decide, by decide⟩

/-- Size arithmetic of the writer, as far as it is mirrored:
    strings get room for their NUL and stay aligned; the padded index arrays are the aligned size
    of `n` 16-bit entries; a type and a signature never consume more than was reserved for them
    (the "exceeding space reservation" check of girnode.c cannot fire on them) and consume
    multiples of 4; the extents of directory-entry blobs and the offsets of the section index,
    the directory and the first blob are 4-aligned and ordered. -/
theorem C06_offsets :
    (∀ len, len + 1 ≤ strAlloc len ∧ strAlloc len % 4 = 0 ∧ strAlloc len ≤ len + 4) ∧
    (∀ n, indexListBytes n = align4 (2 * n) ∧ indexListBytes n % 4 = 0) ∧
    (∀ t : Ty, t.used ≤ t.reserved ∧ t.used % 4 = 0 ∧ t.reserved % 4 = 0) ∧
    (∀ (ret : Ty) (ps : List Param), sigUsed ret ps ≤ sigReserved ret ps) ∧
    (∀ a b c, fixedSizeStruct a b c % 4 = 0) ∧ (∀ a b, fixedSizeUnion a b % 4 = 0) ∧
    (∀ a b, fixedSizeEnum a b % 4 = 0) ∧ (∀ a b c d e f g h, fixedSizeObject a b c d e f g h % 4 = 0) ∧
    (∀ a b c d e f, fixedSizeInterface a b c d e f % 4 = 0) ∧
    (∀ lens n passes, let a := headerArea lens n passes
      a.sections % 4 = 0 ∧ a.directory % 4 = 0 ∧ a.firstBlob % 4 = 0 ∧ 112 ≤ a.sections ∧
      a.directory = a.sections + 16 ∧ a.firstBlob = a.directory + 12 * n) := by
  obtain ⟨h1, h2, h3, h4, h5, h6, h7, h8, h9, h10, h11, h12, h13, h14, h15⟩ := sz_values
  have hS : sizeOf' "StructBlob" = 32 ∧ sizeOf' "UnionBlob" = 40 ∧ sizeOf' "EnumBlob" = 24 ∧
      sizeOf' "ObjectBlob" = 60 ∧ sizeOf' "InterfaceBlob" = 40 ∧ sizeOf' "Header" = 112 ∧
      sizeOf' "Section" = 8 ∧ sizeOf' "DirEntry" = 12 ∧ Gen.numSections = 2 := by decide +kernel
  obtain ⟨s1, s2, s3, s4, s5, s6, s7, s8, s9⟩ := hS
  refine ⟨strAlloc_room, fun n => ⟨indexListBytes_eq n, by rw [indexListBytes_eq]; exact align4_mod _⟩, ?_, ?_,
    ?_, ?_, ?_, ?_, ?_, ?_⟩
  · intro t
    have := Ty.pool_le t
    unfold Ty.used
    rw [h1] at *
    omega
  · intro ret ps
    have hp := sum_paramPool_le ps
    have hr := (Ty.pool_le ret).1
    unfold sigUsed sigReserved
    rw [h1, h6] at *
    rw [h7]
    omega
  · intro a b c; unfold fixedSizeStruct; rw [s1, h8, h9, h10]; omega
  · intro a b; unfold fixedSizeUnion; rw [s2, h8, h10]; omega
  · intro a b; unfold fixedSizeEnum; rw [s3, h15, h10]; omega
  · intro a b c d e f g h
    unfold fixedSizeObject
    have := align4_mod (2 * a)
    rw [s4, h8, h9, h10, h11, h12, h13, h14, indexListBytes_eq]
    omega
  · intro a b c d e f
    unfold fixedSizeInterface
    have := align4_mod (2 * a)
    rw [s5, h10, h11, h12, h13, h14, indexListBytes_eq]
    omega
  · intro lens n passes
    have h112 : align4 112 = 112 := by decide
    simp only [headerArea, s6, s7, s8, s9, h112]
    have ha := align4_mod (112 + passes * (lens.map strAlloc).sum)
    have hg := align4_ge (112 + passes * (lens.map strAlloc).sum)
    refine ⟨ha, by omega, by omega, by omega, by first | trivial | omega, by omega⟩

/-! ### decoder safety -/

/-- The decoder is total: on ANY byte string it returns a description or a structured error. -/
theorem C06_decode_total (m : Image) : (∃ a, decode m = .ok a) ∨ (∃ e, decode m = .error e) := by
  cases h : decode m with
  | ok a => exact Or.inl ⟨a, rfl⟩
  | error e => exact Or.inr ⟨e, rfl⟩

/-- The decoder never reads out of bounds: its result is a function of the bounds-checked reader
    alone, so two files of the same size that agree on every byte below the size decode alike —
    whatever lies beyond the end cannot be observed.  Decoding a byte list is decoding through
    `l[i]?`. -/
theorem C06_decode_safe :
    (∀ m m' : Image, m.size = m'.size → (∀ i, i < m.size → m.byte i = m'.byte i) → decode m = decode m') ∧
    (∀ l : List Nat, decode (Image.ofList l) = decodeWith l.length (listReader l)) := by
  constructor
  · intro m m' hs hb
    unfold decode
    rw [getByte?_congr m m' hs hb, hs]
  · intro l
    unfold decode
    rw [getByte?_ofList]
    rfl

/-- Every read primitive of the decoder that succeeds has stayed inside the file:
    a member read touches only bytes below `size`, a byte-range read ends at or before `size`,
    a string read found its NUL before `size`. -/
theorem C06_reads_inside (m : Image) :
    (∀ L base name v, getF m.getByte? L base name = .ok v →
        ∃ f, L.field? name = some f ∧ (f.width = 0 ∨ (8 * base + f.first + f.width - 1) / 8 < m.size)) ∧
    (∀ off n bs, readBytes m.getByte? off n = .ok bs → bs.length = n ∧ (n = 0 ∨ off + n ≤ m.size)) ∧
    (∀ off s, readCStr m.getByte? m.size off = .ok s → off + s.length < m.size) ∧
    (∀ i b, m.getByte? i = some b → i < m.size) := by
  refine ⟨fun L base name v h => getF_inside m L base name v h, ?_, fun off s h => readCStr_inside m off s h,
    fun i b h => getByte?_isSome m i b h⟩
  intro off n bs h
  obtain ⟨h1, h2⟩ := readBytes_inside m off n bs h
  refine ⟨h1, ?_⟩
  by_cases hn : n = 0
  · exact Or.inl hn
  · simp only [hn, if_false, Nat.add_zero] at h2; exact Or.inr h2

/-! ### the full property (NOT proved here: validated by the harness on the real compiler) -/

/-- The property at full strength for an abstract compiler `compile` and an abstract "API the GIR
    stands for" `apiOf`: whenever the compiler accepts a GIR, the bytes decode to that API. -/
def C06_full (Gir : Type) (compile : Gir → Option (List Nat)) (apiOf : Gir → Api → Prop) : Prop :=
  ∀ g bytes, compile g = some bytes → ∃ a, decode (Image.ofList bytes) = .ok a ∧ apiOf g a

/-! ### non-vacuity -/

-- a concrete well-formed layout with bit-fields crossing a byte boundary, values that fit
example : wfStruct 4 [⟨"a", 0, 3⟩, ⟨"b", 3, 10⟩, ⟨"c", 13, 3⟩, ⟨"d", 16, 16⟩] = true := by decide
example : fits [⟨"a", 0, 3⟩, ⟨"b", 3, 10⟩, ⟨"c", 13, 3⟩, ⟨"d", 16, 16⟩] [5, 1023, 0, 65535] = true := by decide
example :
    decodeStruct? (listReader (encodeStruct [255, 0, 0, 0, 0, 0, 255] 2 [⟨"a", 0, 3⟩, ⟨"b", 3, 10⟩, ⟨"c", 13, 3⟩, ⟨"d", 16, 16⟩]
      [5, 1023, 0, 65535])) 2 [⟨"a", 0, 3⟩, ⟨"b", 3, 10⟩, ⟨"c", 13, 3⟩, ⟨"d", 16, 16⟩] = some [5, 1023, 0, 65535] := by
  decide
example : encodeStruct [255, 0, 0, 0, 0, 0, 255] 2 [⟨"a", 0, 3⟩, ⟨"b", 3, 10⟩, ⟨"c", 13, 3⟩, ⟨"d", 16, 16⟩] [5, 1023, 0, 65535]
    = [255, 0, 253, 31, 255, 255, 255] := by decide
-- the generated ArgBlob layout is one of the layouts the theorem covers
example : ("ArgBlob", "struct", 16) ∈ Gen.blobSizes := by decide
example : wfStruct 16 (fieldsOf "ArgBlob") = true := by decide +kernel
example : (fieldsOf "ArgBlob").length = 15 := by decide +kernel
-- overlapping members are rejected
example : wfStruct 4 [⟨"a", 0, 9⟩, ⟨"b", 8, 8⟩] = false := by decide
-- alignment
example : align4 0 = 0 ∧ align4 1 = 4 ∧ align4 4 = 4 ∧ align4 113 = 116 := by decide
example : indexListBytes 3 = 8 ∧ indexListBytes 4 = 8 := by decide
example : (Ty.hash Ty.basic (Ty.list Ty.iface)).used = 28 ∧ (Ty.hash Ty.basic (Ty.list Ty.iface)).reserved = 32 := by
  decide
-- the directory index section: 30000 entries with a 20 KiB hash function need 80484 bytes; a 32-bit
-- variable keeps that, a 16-bit one holds 14948 and the assertion of the packer fails
example : hashPackedSize (dirmapOffset 20477) 30000 = 80484 ∧ dirIndexRequired 32 80484 = 80484 ∧
    dirIndexPackOk 32 80484 = true ∧ dirIndexRequired 16 80484 = 14948 ∧ dirIndexPackOk 16 80484 = false ∧
    dirIndexEnd 32 1000000 80484 = 1080484 := by decide
-- the decoder answers with a structured error on a file that is too short, and on a wrong magic
example : (match decode (Image.ofList []) with | .error e => e == .oob "bytes" 0 | .ok _ => false) = true := by
  decide +kernel
example : (match decode (Image.ofList (List.replicate 200 0)) with | .error e => e == .badMagic | .ok _ => false)
    = true := by decide +kernel
-- two images that differ only beyond their size
example : decode ⟨3, fun _ => 7⟩ = decode ⟨3, fun i => if i < 3 then 7 else 9⟩ :=
  C06_decode_safe.1 _ _ rfl (fun i h => by simp [h])

end GIVerif.Typelib
