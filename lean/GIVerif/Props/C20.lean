/-
  C20 — The XML writer always produces well-formed, lossless XML.
  ONLY property theorems and non-vacuity examples live here; helper lemmas and the statement
  vocabulary (`present`, `AttrsOk`, `SoftWs`, `XmlChars`, `NoCR`, `NamesDistinct`, `OpOk`,
  `opItems`, `runItems`, `Structured`, `opsList`) are in GIVerif/Lemmas/XmlWriter.lean, the executable
  model in GIVerif/Model/XmlWriter.lean, the XML reader used as specification in
  GIVerif/Spec/Xml.lean.

  "Parses back" means: the reader of Spec/Xml.lean (written from the XML 1.0 recommendation:
  references, attribute-value normalisation, line-end normalisation, required white space
  between attributes, unique attribute names, `--` forbidden in comments, Char/Name productions)
  returns exactly what was handed to the writer.

  Hypotheses beyond the property's own wording, each stated explicitly in the theorems:
   * `XmlChars s`        every character is an XML 1.0 Char (the statement's "representable in XML 1.0");
   * `NoCR s`            no carriage return in ELEMENT TEXT (the statement's own exception), and — beyond
                         the statement — none in comment text or free-standing `write_line` text;
   * `isXmlName n`       element and attribute names are XML Names (no white space, `=`, `/`, `>`, quotes …);
   * `NamesDistinct`     the attributes that have a value have distinct names;
   * `SoftWs ic`         the indent string consists of blanks / newlines / tabs (it is `" "` or `""` in XMLWriter);
   * comments            the text contains no `--` (`NoDashDash`);
   * `write_line`        is called with `do_escape=True` (raw markup is the caller's business);
   * `Structured`        for the exception theorem: the writing code opens elements with `tagcontext` only
                         (no bare `push_tag` / `pop_tag`), as GIRWriter does.
-/
import GIVerif.Lemmas.XmlWriter

namespace GIVerif.XmlWriter
open GIVerif.Py
open GIVerif.Xml hiding Str

/-- The sources still have the shape the model was written for (re-extracted from /repo and the
    running CPython on every run; the wrap column, its comparison operator, the indent unit, the
    white-space characters and the declaration line are data of the model, not part of the shape). -/
theorem C20_source_shape :
    Gen.escapeTable = [('&', "&amp;".toList), ('>', "&gt;".toList), ('<', "&lt;".toList)]
    ∧ Gen.quoteattrEntities = [('\n', "&#10;".toList), ('\r', "&#13;".toList), ('\t', "&#9;".toList)]
    ∧ Gen.quotReplacement = [('"', "&quot;".toList)]
    ∧ Gen.quoteattrShape =
      ["s:\n", "s:&#10;", "s:\r", "s:&#13;", "s:\t", "s:&#9;", "cmp:In", "s:\"", "cmp:In", "s:'", "bin:Mod",
       "s:\"%s\"", "s:\"", "s:&quot;", "bin:Mod", "s:'%s'", "bin:Mod", "s:\"%s\""]
    ∧ Gen.xmlwriterShape =
      ["def:_calc_attrs_length", "cmp:Eq", "un:USub", "i:1", "un:USub", "i:1", "i:0", "cmp:Is", "aug:Add",
       "bin:Add", "bin:Add", "i:2", "bin:Add", "bin:Add",
       "def:collect_attributes", "un:USub", "i:1", "un:Not", "s:", "cmp:WRAP", "i:WRAP", "bin:Add", "bin:Add",
       "i:1", "i:0", "s:", "cmp:Is", "bool:And", "un:Not", "aug:Add", "bin:Mod", "s:\n%s", "bin:Mult",
       "aug:Add", "bin:Mod", "s: %s=%s",
       "def:build_xml_tag", "i:0", "s: ", "cmp:Is", "bin:Mod", "s:<%s", "cmp:IsNot", "s:UTF-8", "bin:Mod",
       "s:>%s</%s>", "s:/>", "bin:Add", "bin:Add", "bin:Add",
       "def:_open_tag", "cmp:Is", "bin:Add", "i:2", "bin:Mod", "s:<%s%s>",
       "def:_close_tag", "bin:Mod", "s:</%s>",
       "def:write_line", "s:", "s:utf-8", "bin:Mod", "s:%s%s%s", "bin:Mult", "bin:Mod", "s:%s%s",
       "def:write_comment", "bin:Mod", "s:<!-- %s -->",
       "def:write_tag", "def:push_tag", "cmp:Is", "aug:Add", "def:pop_tag", "aug:Sub",
       "def:tagcontext", "try:finally=1,handlers=0"] := by
  decide +kernel

/-- `escape` is the per-character map (the three sequential `str.replace` do not interfere:
    `&` is replaced first, so the `&` of `&gt;` / `&lt;` is never re-escaped). -/
theorem C20_escape_pointwise (s : Str) : escape s = s.flatMap escChar := escape_eq s

/-- Element text: what `escape` writes reads back as exactly the text. -/
theorem C20_text (s : Str) (hx : XmlChars s) (hcr : NoCR s) :
    readText (escape s) = some (s, []) := by
  simpa using readText_escape s [] (Or.inl rfl) hx hcr

/-- Attribute values: what `quoteattr` writes reads back as exactly the value, for EVERY string of
    XML Chars — newline, tab and carriage return included (they are written as references, so
    attribute-value normalisation does not touch them), with either or both kinds of quote. -/
theorem C20_attr (s rest : Str) (hx : XmlChars s) :
    readAttrValue (quoteattr s ++ rest) = some (s, rest) :=
  readAttrValue_quoteattr s rest hx

/-- Attribute lists: whatever `collect_attributes` returns reads back as the attributes that have a
    value, in order — for every indent argument, i.e. whether or not the list is wrapped. -/
theorem C20_attrs (tag : Str) (attrs : List Attr) (selfIndent indent : Int) (ic rest : Str)
    (hic : SoftWs ic) (hok : AttrsOk attrs) (hrest : ∃ c r, rest = c :: r ∧ isWs c = false) :
    readAttrsF ((collectAttributes tag attrs selfIndent ic indent ++ rest).length + 1)
      (collectAttributes tag attrs selfIndent ic indent ++ rest) = some (present attrs, rest) := by
  obtain ⟨L, hL⟩ := collectAttributes_eq tag attrs selfIndent ic indent
  rw [hL]
  apply readAttrsF_chunks L ic hic rest hrest attrs true hok
  have := present_length_le L ic attrs true
  simp only [List.length_append]
  omega

/-- Elements: `build_xml_tag` output reads back as (name, valued attributes, data). -/
theorem C20_tag (name : Str) (attrs : List Attr) (data : Option Str) (selfIndent : Int) (ic rest : Str)
    (hn : isXmlName name = true) (hic : SoftWs ic) (hok : AttrsOk attrs) (hdist : NamesDistinct attrs)
    (hdata : ∀ d, data = some d → XmlChars d ∧ NoCR d) :
    readTag (buildXmlTag name attrs data selfIndent ic ++ rest) = some (name, present attrs, data, rest) :=
  readTag_build name attrs data selfIndent ic rest hn hic hok hdist hdata

/-- Line-wrapping never changes content: the element read back is the same at every indentation
    and with every indent string. -/
theorem C20_wrap_independent (name : Str) (attrs : List Attr) (data : Option Str) (i₁ i₂ : Int)
    (ic₁ ic₂ : Str) (hn : isXmlName name = true) (h₁ : SoftWs ic₁) (h₂ : SoftWs ic₂) (hok : AttrsOk attrs)
    (hdist : NamesDistinct attrs) (hdata : ∀ d, data = some d → XmlChars d ∧ NoCR d) :
    readTag (buildXmlTag name attrs data i₁ ic₁) = readTag (buildXmlTag name attrs data i₂ ic₂) := by
  have a := C20_tag name attrs data i₁ ic₁ [] hn h₁ hok hdist hdata
  have b := C20_tag name attrs data i₂ ic₂ [] hn h₂ hok hdist hdata
  simp only [List.append_nil] at a b
  rw [a, b]

/-! ### the writer as a state machine -/

/-- Stack discipline, for EVERY sequence of calls from EVERY state (no hypothesis at all): the
    items the operations put into the document are properly nested over the stack of open
    elements — each end tag `pop_tag` writes names the innermost element still open (LIFO) — and
    what is left open at the end is exactly `_tag_stack`.  (`pop_tag` on an empty stack writes
    nothing and raises.) -/
theorem C20_stack (s : State) (ops : List Op) :
    balance s.tagStack (runItems s ops) = some (run s ops).tagStack :=
  balance_run ops s

/-- Documents: for every sequence of calls whose arguments are inside the quantifier, the text
    returned by `get_xml()` reads back — declaration, then item by item — as exactly what the
    calls wrote: start tags with the valued attributes, element text, end tags, comments, and
    the indentation / newlines the writer adds as character data. -/
theorem C20_doc (ops : List Op) (hok : ∀ op ∈ ops, OpOk op) :
    readDoc (getXml (run init ops)) = some (Item.ch '\n' :: runItems init ops) := by
  obtain ⟨x, hx, hr⟩ := reads_run ops init Inv.init hok
  have h0 : Reads ['\n'] [Item.ch '\n'] := by
    simpa [chars] using Reads.soft ['\n'] (by intro c hc; simp at hc; simp [hc])
  have := (Reads.append h0 hr).toReadItems
  unfold readDoc getXml
  rw [hx, show init.data = Gen.prolog from rfl, readProlog_gen]
  simpa using this

/-- … and that item sequence is properly nested, with `_tag_stack` as the elements still open:
    a caller that pops what it pushed gets a document in which every element is closed in order. -/
theorem C20_doc_nested (ops : List Op) :
    balance [] (Item.ch '\n' :: runItems init ops) = some (run init ops).tagStack := by
  have := C20_stack init ops
  rw [show init.tagStack = [] from rfl] at this
  simpa [balance] using this

/-- Exceptions: writing code that opens elements with `tagcontext` leaves the element stack, the
    indentation and the error count exactly as it found them — however deeply the blocks are
    nested and wherever the code raises (`(execList s ps).2` is the propagating exception). -/
theorem C20_exceptions (s : State) (ps : List Prog) (h : structuredList ps = true) :
    (execList s ps).1.tagStack = s.tagStack ∧ (execList s ps).1.indent = s.indent ∧
      (execList s ps).1.errors = s.errors := by
  obtain ⟨e, f1, f2, f3⟩ := execList_structured s ps h
  rw [e]
  exact ⟨f1, f2, f3⟩

/-- Exceptions, document level: whatever such code wrote before it raised (or finished) reads
    back exactly, and every element it opened is closed in LIFO order — nothing is left open. -/
theorem C20_doc_exceptions (ps : List Prog) (h : structuredList ps = true) (hok : ProgsOk ps) :
    let s := (execList init ps).1
    readDoc (getXml s) = some (Item.ch '\n' :: runItems init (opsList ps).1) ∧
      balance [] (Item.ch '\n' :: runItems init (opsList ps).1) = some [] ∧ s.tagStack = [] := by
  obtain ⟨e, f1, _, _⟩ := execList_structured init ps h
  simp only [e]
  refine ⟨C20_doc _ (opsList_ok ps hok), ?_, f1⟩
  rw [C20_doc_nested, f1]
  rfl

/-- `get_encoded_xml()` is the UTF-8 encoding of `get_xml()` and decodes back to it. -/
theorem C20_utf8 (s : State) :
    String.fromUTF8? (getEncodedXml s) = some (String.ofList (getXml s)) := by
  have key : ∀ t : String, String.fromUTF8? t.toUTF8 = some t := by
    intro t; simp [String.fromUTF8?, t.isValidUTF8, String.fromUTF8]
  exact key _

/-! ### non-vacuity -/

example : XmlChars "a\"b'c\n\t\r<&>😀".toList := by
  intro c hc; revert c; decide
example : readAttrValue (quoteattr "a\"b'c\n\t\r<&>".toList ++ "/>".toList) = some ("a\"b'c\n\t\r<&>".toList, "/>".toList) := by
  decide +kernel
example : readText (escape "x<y & \"z\" >\n".toList) = some ("x<y & \"z\" >\n".toList, []) := by decide +kernel
example : readText "a\rb".toList = some ("a\nb".toList, []) := by decide   -- why `NoCR` is needed
example :
    readTag (buildXmlTag "type".toList
      [("name".toList, some "GLib.SList".toList), ("skip".toList, none), ("c:type".toList, some "const \"GSList\"*".toList)]
      (some "a<b".toList) 70 [' '])
    = some ("type".toList, [("name".toList, "GLib.SList".toList), ("c:type".toList, "const \"GSList\"*".toList)],
            some "a<b".toList, []) := by decide +kernel
example : AttrsOk [("name".toList, some "x\n".toList), ("?bad name".toList, none)] := by
  intro a ha v hv
  simp only [List.mem_cons, List.not_mem_nil, or_false] at ha
  rcases ha with rfl | rfl
  · cases hv; exact ⟨by decide, by intro c hc; revert c; decide⟩
  · cases hv
example : NamesDistinct [("a".toList, some []), ("a".toList, none), ("b".toList, some [])] := by
  unfold NamesDistinct; decide


/-- a nested document whose innermost block raises: still read back, still closed -/
def exampleProg : List Prog :=
  [.ctx "repository".toList [("version".toList, some "1.2".toList)]
    [.prim (.tag "c:include".toList [("name".toList, some "a\"b'<&>\n".toList), ("x".toList, none)] none),
     .ctx "namespace".toList []
       [.prim (.comment "note - ok".toList),
        .prim (.tag "doc".toList [] (some "x < y".toList)),
        .raise,
        .prim (.tag "never".toList [] none)],
     .prim (.tag "never".toList [] none)]]

example : structuredList exampleProg = true := by decide +kernel
example : (execList init exampleProg).2 = true := by decide +kernel
example : (readDoc (getXml (execList init exampleProg).1)).map wellFormedDoc = some true := by decide +kernel
example : (execList init exampleProg).1.tagStack = [] := by decide +kernel
example : OpOk (.tag "doc".toList [("a".toList, some "v\r\n".toList)] (some "x < y".toList)) := by
  refine ⟨by decide, ?_, by unfold NamesDistinct; decide, ?_⟩
  · intro a ha v hv
    simp only [List.mem_cons, List.not_mem_nil, or_false] at ha
    subst ha; cases hv
    exact ⟨by decide, by intro c hc; revert c; decide⟩
  · intro t ht; cases ht
    exact ⟨by intro c hc; revert c; decide, by unfold NoCR; decide⟩
example : OpOk (.comment "a - b-".toList) :=
  ⟨by unfold NoDashDash; decide, by intro c hc; revert c; decide, by unfold NoCR; decide⟩
-- why quoteattr's numeric references matter: a literal newline in an attribute value is normalised away
example : readAttrValue "\"a\nb\"".toList = some ("a b".toList, []) := by decide +kernel
-- why `--` is excluded from comment text
example : readDoc (getXml (run init [.comment "a--b".toList])) = none := by decide +kernel
-- the stack theorem on an unbalanced sequence: the end tag names the innermost open element
example : (run init [.push "a".toList [], .push "b".toList [], .pop]).tagStack = ["a".toList] := by decide +kernel

end GIVerif.XmlWriter
