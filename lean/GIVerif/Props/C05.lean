/-
  C05 — Everything left introspectable is bindable and every reference resolves.
  ONLY property theorems and non-vacuity examples live here; helper lemmas are in
  GIVerif/Lemmas/Introspectable.lean, the executable model of IntrospectablePass and of the
  writer's index computations in GIVerif/Model/Introspectable.lean, the executable statement of
  the property on an emitted GIR tree (`girWellFormed`) in GIVerif/Spec/GirWF.lean.

  Scope of the theorems: ALL namespaces of the model (any declaration order, any chain depth,
  any initial flags).  Hypotheses beyond the property's wording:
    * none for termination, closure, fields/properties and index range;
    * "not marked introspectable=0" is read as the writer reads it (`node.skip or not
      node.introspectable`), and a nested callable is only claimed when its parent is not
      skipped (the pass does not visit the children of a skipped node; girparser.c drops the
      whole subtree of an element marked introspectable="0");
    * C05_bindable: the clauses that `_introspectable_param_analysis` decides (missing transfer /
      scope / element type, callback return values) are proved for parameters and return values
      that are NOT marked (skip): the pass returns early on a skipped value and the property's
      oracle exempts skip="1" values from the three "states ..." clauses as well.  The type
      clauses (unresolved, varargs, va_list, long long, long double) hold for EVERY value,
      skipped or not, at any depth: C05_exotic (full statement; since commit 1110ea5
      `_type_is_introspectable` refuses varargs, before that `@...: (skip)` kept a varargs
      function introspectable).
    * C05_fields_props claims typed fields, properties and fields holding an anonymous callback
      (since commit efccda4 such a field follows the callback's `introspectable` AND `skip`).
      Hypothesis for the last conjunct of the third clause only: the anonymous callback is not an
      ast.Signal (`isSignal = false`; it is an ast.Callback by construction of the AST) — pass 3
      re-analyses signals after it looked at the fields.
    * C05_accessors (setter / getter and set-property / get-property stay consistent through the
      property analysis): the property names of a class are distinct; a property that is already
      non-introspectable when the pass starts carries no accessor; the agreement holds when the
      pass starts (it is established by MainTransformer._pair_property_accessors, which is not
      modelled: on the real output the clause is judged by `girWellFormed`).
      C05_accessors_cleared needs no hypothesis.
      (Two findings against that entry condition and against the invoker clause, both in
      MainTransformer, were repaired in /repo — 9e81059, 9b727dd; their output shapes are kept as
      `girWellFormed` regression examples.)
    * Other AST invariants assumed from the earlier passes: none in the theorems (the model takes the
      looked-up target kind of a reference into an included namespace as data: `Ty.ext`).
-/
import GIVerif.Lemmas.Introspectable
import GIVerif.Spec.GirWF

namespace GIVerif.Introspectable
open GIVerif.Py

/-- The literals of the model are the ones in the source (tables regenerated from
    giscanner/ast.py on every run). -/
theorem C05_tables :
    Gen.typeConsts.lookup "TYPE_VALIST" = some "va_list"
    ∧ Gen.typeConsts.lookup "TYPE_LONG_LONG" = some "long long"
    ∧ Gen.typeConsts.lookup "TYPE_LONG_ULONG" = some "unsigned long long"
    ∧ Gen.typeConsts.lookup "TYPE_LONG_DOUBLE" = some "long double"
    ∧ Gen.typeConsts.lookup "TYPE_ANY" = some "gpointer"
    ∧ vaList = "va_list".toList
    ∧ bigTypes = ["long long".toList, "unsigned long long".toList, "long double".toList] := by
  decide

/-! ### termination of the fixed-point loop -/

/-- The real termination argument of commit 51936cf: a round only clears flags (`StLe`), so the
    number of set flags cannot grow, and if it did not shrink nothing changed at all; hence the
    `while True:` loop started in ANY state `s` exits after at most `count s + 1` rounds, in a
    state that one more round would leave unchanged. -/
theorem C05_fixpoint_terminates (ns : NS) (s : St) :
    StLe (round ns s) s
    ∧ count (round ns s) ≤ count s
    ∧ (count (round ns s) = count s → round ns s = s)
    ∧ ∃ r k, loop ns (count s + 1) s = some (r, k) ∧ k ≤ count s + 1 ∧ round ns r = r ∧ StLe r s := by
  refine ⟨round_le ns s, count_le_of_stLe (round_le ns s), round_eq_of_count_eq ns s, ?_⟩
  have h := loop_isSome ns (count s + 1) s (Nat.lt_succ_self _)
  cases hl : loop ns (count s + 1) s with
  | none => rw [hl] at h; cases h
  | some rk =>
    refine ⟨rk.1, rk.2, rfl, ?_, loop_fixed ns _ s rk.1 rk.2 hl, loop_le ns _ s rk.1 rk.2 hl⟩
    have := loop_rounds ns _ s rk.1 rk.2 hl
    omega

/-- `validate()` as a whole never runs out of fuel. -/
theorem C05_validate_total (ns : NS) : ∃ out, validate ns = some out := by
  unfold validate
  simp only
  obtain ⟨_, _, _, r, k, hl, _⟩ :=
    C05_fixpoint_terminates (propagateSkips ns) (analyzeWalk (propagateSkips ns) (aliasWalk ns (initSt ns)))
  rw [hl]
  exact ⟨_, rfl⟩

/-! ### reference closure -/

/-- C05, reference-closure clause, for ANY declaration order and ANY chain depth: after
    `validate`, an alias that is still introspectable, and a callable (top-level, or nested in a
    node that is not skipped) that is not skipped and still introspectable, only refers to:
    foreign types, fundamentals other than va_list / long long / unsigned long long /
    long double, nodes of this namespace that exist and are STILL introspectable and not
    skipped, and nodes of included namespaces that are introspectable and not skipped
    (`LeafOK` w.r.t. the FINAL flags).  This is what the fixed point buys: it is derived from
    "one more round would change nothing". -/
theorem C05_closure {ns ns1 : NS} {s : St} {k : Nat} (h : validate ns = some (ns1, s, k)) :
    (∀ i t tgt, ns1.tops[i]? = some t → t.body = .alias tgt → s.tf.getD i false = true →
        ∀ l ∈ leaves tgt, LeafOK ns1 s.tf l)
    ∧ (∀ i t sig, ns1.tops[i]? = some t → t.body = .callable sig → t.skip = false →
        s.tf.getD i false = true → SigClosed ns1 s.tf sig)
    ∧ (∀ i t j sub, ns1.tops[i]? = some t → t.skip = false → t.subs[j]? = some sub → sub.skip = false →
        (s.sf.getD i []).getD j false = true → SigClosed ns1 s.tf sub.sig) := by
  obtain ⟨_, s2, hl, rfl⟩ := validate_some h
  have hfix := loop_fixed ns1 _ _ s2 k hl
  have htf : (pass3Walk ns1 (propWalk ns1 s2)).tf = s2.tf := by rw [pass3Walk_tf, propWalk_tf]
  have hle : StLe (pass3Walk ns1 (propWalk ns1 s2)) s2 := (pass3Walk_le ns1 _).trans (propWalk_le ns1 s2)
  rw [htf]
  have hlt : ∀ {i t}, ns1.tops[i]? = some t → i < ns1.tops.length := by
    intro i t ht
    rcases Nat.lt_or_ge i ns1.tops.length with h | h
    · exact h
    · rw [List.getElem?_eq_none h] at ht; cases ht
  refine ⟨?_, ?_, ?_⟩
  · intro i t tgt ht hb hf
    have := (round_fixed_steps ns1 s2 hfix i (hlt ht)).1
    exact leavesOK_of_tyIntro (aliasStep_fixed this ht hb hf)
  · intro i t sig ht hb hs hf
    have := (round_fixed_steps ns1 s2 hfix i (hlt ht)).2
    exact sigClosed_of_callBad (callStep_fixed_top this ht hs hb hf)
  · intro i t j sub ht hs hsub hskip hf
    have hstep := (round_fixed_steps ns1 s2 hfix i (hlt ht)).2
    have hf2 : (s2.sf.getD i []).getD j false = true := (hle.2.1.2 i).2 j hf
    cases hb : t.body with
    | compound b fs ps subs =>
      have hsub' : subs[j]? = some sub := by simpa [Top.subs, hb] using hsub
      exact sigClosed_of_callBad (callStep_fixed_sub hstep ht hs hb hsub' hskip hf2)
    | alias _ => simp [Top.subs, hb] at hsub
    | callable _ => simp [Top.subs, hb] at hsub
    | other => simp [Top.subs, hb] at hsub

/-- Fields and properties are decided after the fixed point, so the same holds for them: a typed
    field / a property of a node that is not skipped, still introspectable after `validate`, only
    refers to acceptable leaves w.r.t. the FINAL flags.  A field that holds an anonymous callback
    and is still introspectable: the callback is not skipped (so it is not written
    introspectable="0" because of `_propagate_callable_skips`), its signature only refers to
    acceptable leaves, and it is itself still introspectable. -/
theorem C05_fields_props {ns ns1 : NS} {s : St} {k : Nat} (h : validate ns = some (ns1, s, k)) :
    (∀ i t n f ty, ns1.tops[i]? = some t → t.skip = false → t.fields[n]? = some f →
        f.anon = none → f.ty = some ty → (s.ff.getD i []).getD n false = true →
        ∀ l ∈ leaves ty, LeafOK ns1 s.tf l)
    ∧ (∀ i t n p, ns1.tops[i]? = some t → t.skip = false → t.props[n]? = some p →
        (s.pf.getD i []).getD n false = true → ∀ l ∈ leaves p.ty, LeafOK ns1 s.tf l)
    ∧ (∀ i t n f j sub, ns1.tops[i]? = some t → t.skip = false → t.fields[n]? = some f →
        f.anon = some j → t.subs[j]? = some sub → (s.ff.getD i []).getD n false = true →
        sub.skip = false ∧ SigClosed ns1 s.tf sub.sig
        ∧ (sub.sig.isSignal = false → (s.sf.getD i []).getD j false = true)) := by
  obtain ⟨_, s2, hl, rfl⟩ := validate_some h
  have hfix := loop_fixed ns1 _ _ s2 k hl
  have htf : (pass3Walk ns1 (propWalk ns1 s2)).tf = s2.tf := by rw [pass3Walk_tf, propWalk_tf]
  rw [htf]
  refine ⟨?_, ?_, ?_⟩
  · intro i t n f ty ht hs hf hanon hty hflag
    cases hb : t.body with
    | compound b fs ps subs =>
      have hf' : fs[n]? = some f := by simpa [Top.fields, hb] using hf
      have := pass3Walk_field (propWalk ns1 s2) ht hs hb hf' hanon hty hflag
      rw [propWalk_tf] at this
      exact leavesOK_of_tyIntro this
    | alias _ => simp [Top.fields, hb] at hf
    | callable _ => simp [Top.fields, hb] at hf
    | other => simp [Top.fields, hb] at hf
  · intro i t n p ht hs hp hflag
    rw [pass3Walk_pf] at hflag
    exact leavesOK_of_tyIntro (propWalk_prop s2 ht hs hp hflag)
  · intro i t n f j sub ht hs hf hanon hsub hflag
    have hlt : i < ns1.tops.length := by
      rcases Nat.lt_or_ge i ns1.tops.length with h | h
      · exact h
      · rw [List.getElem?_eq_none h] at ht; cases ht
    cases hb : t.body with
    | compound b fs ps subs =>
      have hf' : fs[n]? = some f := by simpa [Top.fields, hb] using hf
      have hsub' : subs[j]? = some sub := by simpa [Top.subs, hb] using hsub
      obtain ⟨hrow, hsk⟩ := pass3Walk_anon (propWalk ns1 s2) ht hs hb hf' hanon hflag
      have hskip : sub.skip = false := by simpa [subSkipped, hsub'] using hsk
      have hrow2 : (s2.sf.getD i []).getD j false = true := ((propWalk_le ns1 s2).2.1.2 i).2 j hrow
      have hstep := (round_fixed_steps ns1 s2 hfix i hlt).2
      exact ⟨hskip, sigClosed_of_callBad (callStep_fixed_sub hstep ht hs hb hsub' hskip hrow2),
        fun hsig => pass3Walk_sf_keep (propWalk ns1 s2) ht hb hsub' hsig hrow⟩
    | alias _ => simp [Top.fields, hb] at hf
    | callable _ => simp [Top.fields, hb] at hf
    | other => simp [Top.fields, hb] at hf

/-! ### exotic and unbindable values -/

/-- "bindable": in a callable that is still introspectable after `validate`, every parameter and
    the return value that is not marked (skip) has a resolved, non-varargs type; lists and arrays
    state an element type; a parameter whose type is (an alias of) a callback other than
    GLib.DestroyNotify / Gio.AsyncReadyCallback states a scope; callbacks are not returned; and
    the transfer is stated (except for a non-boxed structure returned with transfer none, which
    the pass accepts as it stands: then `transferNone` holds, i.e. it is stated as well). -/
theorem C05_bindable {ns ns1 : NS} {s : St} {k : Nat} (h : validate ns = some (ns1, s, k))
    {sig : Sig}
    (hsig : (∃ i t, ns1.tops[i]? = some t ∧ t.body = .callable sig ∧ t.skip = false ∧ s.tf.getD i false = true)
      ∨ (∃ i t j sub, ns1.tops[i]? = some t ∧ t.skip = false ∧ t.subs[j]? = some sub ∧ sub.skip = false ∧
          (s.sf.getD i []).getD j false = true ∧ sub.sig = sig)) :
    (∀ p ∈ sig.params, p.skip = false →
        p.ty ≠ .unresolved ∧ p.ty ≠ .varargs ∧ missingElementType p.ty = false
        ∧ (targetKind ns1 p.ty = .callback false → p.hasScope = true) ∧ p.hasTransfer = true)
    ∧ (sig.ret.skip = false →
        sig.ret.ty ≠ .unresolved ∧ sig.ret.ty ≠ .varargs ∧ missingElementType sig.ret.ty = false
        ∧ (∀ e, targetKind ns1 sig.ret.ty ≠ .callback e)
        ∧ (targetKind ns1 sig.ret.ty ≠ .bareCompound → sig.ret.hasTransfer = true)) := by
  have hb : sigBad ns1 sig = false := by
    rcases hsig with ⟨i, t, ht, hb, hs, hf⟩ | ⟨i, t, j, sub, ht, hs, hsub, hskip, hf, rfl⟩
    · exact (validate_sigBad h).1 i t sig ht hb hs hf
    · exact (validate_sigBad h).2 i t j sub ht hs hsub hskip hf
  simp only [sigBad, Bool.or_eq_false_iff, List.any_eq_false] at hb
  refine ⟨fun p hp hskip => ?_, fun hskip => ?_⟩
  · have := hb.1 p hp
    obtain ⟨a, b, c, d, _, f⟩ := paramBad_false (by simpa using this) hskip
    exact ⟨a, b, c, d rfl, f (fun h => by cases h)⟩
  · obtain ⟨a, b, c, _, e, f⟩ := paramBad_false hb.2 hskip
    exact ⟨a, b, c, e rfl, fun hn => f (fun _ => hn)⟩

/-- The full statement for exotic values: in a callable (top-level, or nested in a node that is
    not skipped) that is still introspectable after `validate`, NO parameter or return type —
    marked (skip) or not — is unresolved, varargs, va_list, long long, unsigned long long or long
    double, at any depth of arrays / lists / maps. -/
theorem C05_exotic {ns ns1 : NS} {s : St} {k : Nat} (h : validate ns = some (ns1, s, k))
    {sig : Sig}
    (hsig : (∃ i t, ns1.tops[i]? = some t ∧ t.body = .callable sig ∧ t.skip = false ∧ s.tf.getD i false = true)
      ∨ (∃ i t j sub, ns1.tops[i]? = some t ∧ t.skip = false ∧ t.subs[j]? = some sub ∧ sub.skip = false ∧
          (s.sf.getD i []).getD j false = true ∧ sub.sig = sig)) :
    ∀ p, p ∈ sig.params ∨ p = sig.ret → ∀ l ∈ leaves p.ty,
      l ≠ .unresolved ∧ l ≠ .varargs ∧ l ≠ .fund vaList ∧ ∀ n ∈ bigTypes, l ≠ .fund n := by
  have hcl : SigClosed ns1 s.tf sig := by
    rcases hsig with ⟨i, t, ht, hb, hs, hf⟩ | ⟨i, t, j, sub, ht, hs, hsub, hskip, hf, rfl⟩
    · exact (C05_closure h).2.1 i t sig ht hb hs hf
    · exact (C05_closure h).2.2 i t j sub ht hs hsub hskip hf
  intro p hp l hl
  have hok := hcl p hp l hl
  refine ⟨?_, ?_, ?_, ?_⟩
  · rintro rfl; exact hok
  · rintro rfl; exact hok
  · rintro rfl; exact hok.1 rfl
  · rintro n hn rfl; exact hok.2 hn

/-- `void foo_v (int x, ...)` documented with `@...: (skip)` -/
def varargsSkipWitness : NS :=
  { name := "Foo".toList
    tops := [{ name := "v".toList, skip := false, intro := true,
               body := .callable { params := [{ ty := .fund "gint".toList },
                                              { ty := .varargs, skip := true }],
                                   ret := { ty := .fund "none".toList } } }] }

/-- Regression witness of commit 1110ea5: `_introspectable_param_analysis` returns early on the
    skipped `...`, but `_type_is_introspectable` now refuses it in the callable analysis — the
    function is demoted (before the fix it stayed introspectable and was written with
    `<varargs/>`). -/
theorem C05_varargs_skip_witness :
    (validate varargsSkipWitness).map (fun r => (r.2.1.tf, closedB r.1 r.2.1)) = some ([false], true)
    ∧ sigBad varargsSkipWitness { params := [{ ty := .fund "gint".toList }, { ty := .varargs, skip := true }],
                                  ret := { ty := .fund "none".toList } } = false := by
  decide

/-- `typedef void (*FooCs)(int); /* (skip) */  struct FooR { void (*f)(FooCs cb); };` -/
def skipFieldWitness : NS :=
  { name := "Foo".toList
    tops := [
      { name := "Cs".toList, skip := true, intro := true,
        body := .callable { params := [{ ty := .fund "gint".toList }], ret := { ty := .fund "none".toList },
                            isCallback := true } },
      { name := "R".toList, skip := false, intro := true,
        body := .compound true
          [{ name := "f".toList, intro := true, ty := none, anon := some 0 }] []
          [{ name := "f".toList, skip := false, intro := true,
             sig := { params := [{ ty := .ref "Cs".toList }], ret := { ty := .fund "none".toList },
                      isCallback := true } }] }] }

/-- Regression witness of commit efccda4: `_propagate_callable_skips` marks the field's anonymous
    callback as skipped (written introspectable="0"); its `introspectable` flag stays set because
    a skipped node is never analysed; `_introspectable_pass3` now looks at `skip` as well and
    demotes the field (before the fix the field stayed introspectable). -/
theorem C05_anon_field_witness :
    (validate skipFieldWitness).map (fun r =>
      (r.1.tops.map (fun t => t.subs.map (·.skip)), r.2.1.sf, r.2.1.ff, closedB r.1 r.2.1)) =
      some ([[], [true]], [[], [true]], [[], [false]], true) := by
  decide

/-! ### the regression witness of commit 51936cf -/

/-- `typedef void (*FooCb)(Unknown*); typedef FooCb FooAl; void foo_g (FooAl x /* scope call */);` -/
def aliasWitness : NS :=
  { name := "Foo".toList
    tops := [
      { name := "Cb".toList, skip := false, intro := true,
        body := .callable { params := [{ ty := .unresolved }], ret := { ty := .fund "none".toList },
                            isCallback := true } },
      { name := "Al".toList, skip := false, intro := true, body := .alias (.ref "Cb".toList) },
      { name := "g".toList, skip := false, intro := true,
        body := .callable { params := [{ ty := .ref "Al".toList, hasScope := true }],
                            ret := { ty := .fund "none".toList } } }] }

/-- The OLD pass order (alias analysis once, callable analysis exactly twice) demotes only the
    callback and leaves the alias and the function introspectable — the reference-closure
    clause fails; the current order demotes all three and the clause holds. -/
theorem C05_old_order_witness :
    (validateOld aliasWitness).2.tf = [false, true, true]
    ∧ closedB (validateOld aliasWitness).1 (validateOld aliasWitness).2 = false
    ∧ (validate aliasWitness).map (fun r => r.2.1.tf) = some [false, false, false]
    ∧ (validate aliasWitness).map (fun r => closedB r.1 r.2.1) = some true
    ∧ (validate aliasWitness).map (fun r => r.2.2) = some 2 := by
  decide

/-! ### the same witness through the writer and the executable statement of the property -/

open GIVerif.GirWF in
def el (t : String) (a : List (String × String)) (k : List GirWF.Elem) : GirWF.Elem :=
  .mk t.toList (a.map fun kv => (kv.1.toList, kv.2.toList)) k

def mark (b : Bool) : List (String × String) := if b then [] else [("introspectable", "0")]

def voidRet : GirWF.Elem :=
  el "return-value" [("transfer-ownership", "none")] [el "type" [("name", "none")] []]

/-- the GIR the writer emits for `aliasWitness`, given the flags of its three nodes (Cb, Al, g) -/
def emitAliasWitness (tf : List Bool) : GirWF.Env :=
  { main := el "repository" [("version", "1.2")] [
      el "namespace" [("name", "Foo"), ("version", "1.0")] [
        el "alias" ([("name", "Al"), ("c:type", "FooAl")] ++ mark (tf.getD 1 false))
          [el "type" [("name", "Cb"), ("c:type", "FooCb")] []],
        el "callback" ([("name", "Cb"), ("c:type", "FooCb")] ++ mark (tf.getD 0 false)) [
          voidRet,
          el "parameters" [] [el "parameter" [("name", "u"), ("transfer-ownership", "none")]
            [el "type" [("c:type", "Unknown*")] []]]],
        el "function" ([("name", "g"), ("c:identifier", "foo_g")] ++ mark (tf.getD 2 false)) [
          voidRet,
          el "parameters" [] [el "parameter" [("name", "x"), ("transfer-ownership", "none"), ("scope", "call")]
            [el "type" [("name", "Al"), ("c:type", "FooAl")] []]]]]]
    others := [] }

/-- `girWellFormed` (the executable statement of C05) rejects what the old pass order emitted for
    the witness and accepts what the current order emits. -/
theorem C05_old_order_witness_gir :
    GirWF.girWellFormed (emitAliasWitness (validateOld aliasWitness).2.tf) = false
    ∧ (validate aliasWitness).map (fun r => GirWF.girWellFormed (emitAliasWitness r.2.1.tf)) = some true := by
  decide +kernel

/-! ### cross-reference clauses decided in MainTransformer: regression shapes of repaired findings -/

def boolRet : GirWF.Elem :=
  el "return-value" [("transfer-ownership", "none")] [el "type" [("name", "gboolean")] []]

def selfParam : GirWF.Elem :=
  el "parameters" [] [el "instance-parameter" [("name", "self"), ("transfer-ownership", "none")]
    [el "type" [("name", "O")] []]]

/-- the class the scanner emits for read-only boolean properties `is-active`, `active` (dump order)
    with methods `get_active` and `is_active`; `isActiveClaims` is the glib:get-property written on
    `is_active` -/
def emitTwoActive (isActiveClaims : String) : GirWF.Env :=
  { main := el "repository" [("version", "1.2")] [
      el "namespace" [("name", "Foo"), ("version", "1.0")] [
        el "class" [("name", "O")] [
          el "method" [("name", "get_active"), ("glib:get-property", "active")] [boolRet, selfParam],
          el "method" [("name", "is_active"), ("glib:get-property", isActiveClaims)] [boolRet, selfParam],
          el "property" [("name", "active"), ("transfer-ownership", "none"), ("getter", "get_active")]
            [el "type" [("name", "gboolean")] []],
          el "property" [("name", "is-active"), ("transfer-ownership", "none"), ("getter", "is_active")]
            [el "type" [("name", "gboolean")] []]]]]
    others := [] }

/-- Regression shape of the finding repaired by /repo commit 9e81059 (corpus
    `property-is-active-before-active`): `_pair_property_accessors` used to leave `is_active`
    with glib:get-property="active" although it is the getter of `is-active`; `girWellFormed`
    rejects that output and accepts what the scanner emits now (`is_active` claims `is-active`).
    This agreement is the entry condition `AccAgree` of `C05_accessors`. -/
example :
    GirWF.girWellFormed (emitTwoActive "is-active") = true
    ∧ GirWF.girWellFormed (emitTwoActive "active") = false := by
  decide +kernel

/-- the class emitted for `foo_o_new: (virtual v0)`; `tag` is the element `new` is written as -/
def emitInvoker (tag : String) : GirWF.Env :=
  { main := el "repository" [("version", "1.2")] [
      el "namespace" [("name", "Foo"), ("version", "1.0")] [
        el "class" [("name", "O")] [
          el tag [("name", "new"), ("c:identifier", "foo_o_new")] [voidRet],
          el "virtual-method" [("name", "v0"), ("invoker", "new")] [voidRet, selfParam]]]]
    others := [] }

/-- Regression shape of the finding repaired by /repo commit 9b727dd (corpus
    `virtual-annotation-on-constructor-and-static-function`): a (virtual) annotation on a
    constructor or static function no longer makes it an invoker; "a virtual method's invoker is
    a method of the same type" holds for an invoker written as `<method>` and is rejected for a
    `<constructor>` / `<function>`. -/
example :
    GirWF.girWellFormed (emitInvoker "method") = true
    ∧ GirWF.girWellFormed (emitInvoker "constructor") = false
    ∧ GirWF.girWellFormed (emitInvoker "function") = false := by
  decide +kernel

/-! ### accessor names (`_introspectable_property_analysis`) -/

/-- "an inferred property setter or getter and the method's set-property or get-property agree":
    the property analysis of the pass keeps that agreement.  If it holds when the pass starts
    (established by `MainTransformer._pair_property_accessors`; judged on the real output by
    `girWellFormed`), it holds afterwards: a property whose type turns out not to be
    introspectable loses both accessors AND every method naming it loses its set-property or get-property.
    Hypotheses (AST invariants): the property names of a class are distinct (GObject guarantees
    it), and a property that is already non-introspectable carries no accessor (the accessor
    pairing skips such properties). -/
theorem C05_accessors (ns : NS) (tf : List Bool) (t : Top)
    (huniq : ∀ p ∈ t.props, ∀ q ∈ t.props, p.name = q.name → p = q)
    (hdead : ∀ p ∈ t.props, p.intro = false → p.setter = none ∧ p.getter = none)
    (h : AccAgree t.props t.subs) :
    AccAgree (accessorsAfter ns tf t).1 (accessorsAfter ns tf t).2 :=
  accessorsAfter_agree ns tf t huniq hdead h

/-- Without any hypothesis: after the property analysis of a node that is not skipped, a property
    whose type is not introspectable is marked and has neither setter nor getter, and no method's
    set-property / get-property names a property that is marked. -/
theorem C05_accessors_cleared (ns : NS) (tf : List Bool) (t : Top) (hs : t.skip = false) :
    (∀ p ∈ t.props, tyIntro ns tf p.ty = false →
        ∃ p' ∈ (accessorsAfter ns tf t).1, p'.name = p.name ∧ p'.intro = false ∧ p'.setter = none ∧ p'.getter = none)
    ∧ (∀ f ∈ (accessorsAfter ns tf t).2, f.isMethod = true → ∀ pn, f.setProp = some pn ∨ f.getProp = some pn →
        ∀ p' ∈ (accessorsAfter ns tf t).1, p'.name = pn → p'.intro = true) := by
  unfold accessorsAfter
  simp only [hs, Bool.false_eq_true, if_false]
  refine ⟨fun p hp hty => ⟨propAfter ns tf p, List.mem_map.mpr ⟨p, hp, rfl⟩, ?_⟩, ?_⟩
  · simp [propAfter, hty]
  · intro f' hf' hm' pn hpn p' hp' hn
    obtain ⟨f, hf, rfl⟩ := List.mem_map.mp hf'
    have hfm : f.isMethod = true := by
      unfold methodAfter at hm'; split at hm'
      · assumption
      · exact hm'
    simp only [methodAfter, hfm, if_true] at hpn
    rcases hpn with h | h
    · exact (clearAcc_some h).2 p' hp' hn
    · exact (clearAcc_some h).2 p' hp' hn

/-- class with properties `title` (string, set_title / get_title) and `hid` (a type that is not
    introspectable, set_hid / get_hid) -/
def accessorWitness : Top :=
  { name := "O".toList, skip := false, intro := true,
    body := .compound false []
      [{ name := "title".toList, intro := true, ty := .fund "utf8".toList,
         setter := some "set_title".toList, getter := some "get_title".toList },
       { name := "hid".toList, intro := true, ty := .ext false false .other,
         setter := some "set_hid".toList, getter := some "get_hid".toList }]
      [{ name := "set_title".toList, skip := false, intro := true, isMethod := true, setProp := some "title".toList,
         sig := { params := [{ ty := .fund "utf8".toList }], ret := { ty := .fund "none".toList } } },
       { name := "get_title".toList, skip := false, intro := true, isMethod := true, getProp := some "title".toList,
         sig := { params := [], ret := { ty := .fund "utf8".toList } } },
       { name := "set_hid".toList, skip := false, intro := true, isMethod := true, setProp := some "hid".toList,
         sig := { params := [{ ty := .ext false false .other }], ret := { ty := .fund "none".toList } } },
       { name := "get_hid".toList, skip := false, intro := true, isMethod := true, getProp := some "hid".toList,
         sig := { params := [], ret := { ty := .ext false false .other } } }] }

/-- the hypotheses of `C05_accessors` are met by `accessorWitness` -/
example : (∀ p ∈ accessorWitness.props, ∀ q ∈ accessorWitness.props, p.name = q.name → p = q)
    ∧ (∀ p ∈ accessorWitness.props, p.intro = false → p.setter = none ∧ p.getter = none)
    ∧ AccAgree accessorWitness.props accessorWitness.subs :=
  ⟨by decide, by decide, accAgree_of_accAgreeB (by decide)⟩
/-- non-vacuity of `C05_accessors` / `C05_accessors_cleared`: `hid` loses its accessors and the
    two methods their set-property or get-property, `title` and its methods keep theirs -/
example :
    let r := accessorsAfter { name := "Foo".toList, tops := [accessorWitness] } [true] accessorWitness
    r.1.map (fun p => (p.intro, p.setter.isSome, p.getter.isSome)) = [(true, true, true), (false, false, false)]
    ∧ r.2.map (fun m => (m.setProp.isSome, m.getProp.isSome)) = [(true, false), (false, true), (false, false), (false, false)] := by
  decide

/-! ### the writer's indices -/

/-- The writer model emits only in-range closure / destroy / length indices, or raises: every
    index written for a parameter is smaller than the number of `<parameter>` elements (the
    instance parameter is not counted) and names the parameter that was asked for; a field's
    length index is smaller than the number of fields; an absent name is a ValueError and a
    parent that is neither a callable nor a record/union an AssertionError — never a wrong
    number. -/
theorem C05_index_range (paramNames : List (Option Str)) (p : WParam) :
    (∀ c d l, writeParam paramNames p = .ok (c, d, l) →
      (∀ i, c = some i → i < paramNames.length ∧ ∃ n, p.closureName = some n ∧ paramNames[i]? = some (some n))
      ∧ (∀ i, d = some i → i < paramNames.length ∧ ∃ n, p.destroyName = some n ∧ paramNames[i]? = some (some n))
      ∧ (∀ i, l = some i → i < paramNames.length ∧ ∃ n, p.lengthName = some n ∧ paramNames[i]? = some (some n)))
    ∧ (∀ (fieldNames : List (Option Str)) (ln : Option Str) i,
        writeLength (.compound fieldNames) ln = .ok (some i) →
          i < fieldNames.length ∧ ∃ n, ln = some n ∧ fieldNames[i]? = some (some n))
    ∧ (∀ n, writeLength .otherNode (some n) = .error .assertion) := by
  refine ⟨?_, fun fieldNames ln i h => optIndex_ok h, fun n => rfl⟩
  intro c d l h
  unfold writeParam at h
  cases hc : optIndex paramNames p.closureName with
  | error e => rw [hc] at h; cases h
  | ok c' =>
    cases hd : optIndex paramNames p.destroyName with
    | error e => rw [hc, hd] at h; cases h
    | ok d' =>
      cases hl : writeLength (.callable paramNames) p.lengthName with
      | error e => rw [hc, hd, hl] at h; cases h
      | ok l' =>
        rw [hc, hd, hl] at h
        simp only [Except.ok.injEq, Prod.mk.injEq] at h
        obtain ⟨rfl, rfl, rfl⟩ := h
        refine ⟨?_, ?_, ?_⟩
        · rintro i rfl; exact optIndex_ok hc
        · rintro i rfl; exact optIndex_ok hd
        · rintro i rfl; exact optIndex_ok hl

/-! ### non-vacuity -/

/-- a chain of depth 4 through aliases, a record field and a method, declared in the adverse
    order (users before the callback they depend on) -/
def chainNS : NS :=
  { name := "Foo".toList
    tops := [
      { name := "use".toList, skip := false, intro := true,
        body := .callable { params := [{ ty := .ref "A2".toList, hasScope := true }],
                            ret := { ty := .fund "none".toList } } },
      { name := "Rec".toList, skip := false, intro := true,
        body := .compound true
          [{ name := "cb".toList, intro := true, ty := some (.ref "A2".toList), anon := none }]
          [{ name := "p".toList, intro := true, ty := .ref "A1".toList }]
          [{ name := "m".toList, skip := false, intro := true,
             sig := { params := [{ ty := .array (.ref "A2".toList), hasScope := true }],
                      ret := { ty := .fund "none".toList } } }] },
      { name := "A2".toList, skip := false, intro := true, body := .alias (.ref "A1".toList) },
      { name := "A1".toList, skip := false, intro := true, body := .alias (.ref "Cb".toList) },
      { name := "Cb".toList, skip := false, intro := true,
        body := .callable { params := [{ ty := .fund "long long".toList }],
                            ret := { ty := .fund "none".toList }, isCallback := true } },
      { name := "ok".toList, skip := false, intro := true,
        body := .callable { params := [{ ty := .list (.fund "utf8".toList) }],
                            ret := { ty := .ext true false .other } } }] }

/-- the hypotheses of the theorems are met by a non-trivial namespace: `validate` succeeds, needs
    several rounds, demotes the whole chain (function, method, both aliases, callback; the field
    and the property follow) and keeps the unrelated function -/
example : (validate chainNS).map (fun r =>
      (r.2.1.tf, r.2.1.sf.getD 1 [], r.2.1.ff.getD 1 [], r.2.1.pf.getD 1 [], decide (2 ≤ r.2.2), closedB r.1 r.2.1))
    = some ([false, true, false, false, false, true], [false], [false], [false], true, true) := by
  decide

/-- on the same namespace the old pass order stops after the callback -/
example : (validateOld chainNS).2.tf = [true, true, true, true, false, true]
    ∧ closedB (validateOld chainNS).1 (validateOld chainNS).2 = false := by decide

/-- `C05_closure` is not vacuous: an introspectable survivor with a reference leaf exists -/
example : (validate
    { name := "Foo".toList
      tops := [{ name := "Al".toList, skip := false, intro := true, body := .alias (.ref "R".toList) },
               { name := "R".toList, skip := false, intro := true, body := .compound false [] [] [] }] }).map
      (fun r => r.2.1.tf) = some [true, true] := by
  decide

/-- the third clause of `C05_fields_props` is not vacuous: a record whose function-pointer field
    keeps its anonymous callback (not skipped, not a signal, bindable signature) -/
example : (validate
    { name := "Foo".toList
      tops := [{ name := "R".toList, skip := false, intro := true,
                 body := .compound true
                   [{ name := "f".toList, intro := true, ty := none, anon := some 0 }] []
                   [{ name := "f".toList, skip := false, intro := true,
                      sig := { params := [{ ty := .fund "gint".toList }], ret := { ty := .fund "none".toList },
                               isCallback := true } }] }] }).map
      (fun r => (r.2.1.sf, r.2.1.ff)) = some ([[true]], [[true]]) := by
  decide

/-- `C05_exotic` is not vacuous for nested callables either: the method of `chainNS.Rec` is
    demoted, a method over a list of strings survives -/
example : (validate
    { name := "Foo".toList
      tops := [{ name := "R".toList, skip := false, intro := true,
                 body := .compound true [] []
                   [{ name := "m".toList, skip := false, intro := true,
                      sig := { params := [{ ty := .list (.fund "utf8".toList) }],
                               ret := { ty := .map (.fund "utf8".toList) (.ext true false .other) } } },
                    { name := "v".toList, skip := false, intro := true,
                      sig := { params := [{ ty := .varargs, skip := true }],
                               ret := { ty := .fund "none".toList } } }] }] }).map
      (fun r => r.2.1.sf) = some [[true, false]] := by
  decide

example : writeParam [some "cb".toList, some "data".toList, none, some "n".toList]
    { closureName := some "data".toList, destroyName := none, lengthName := some "n".toList }
    = .ok (some 1, none, some 3) := by rfl

example : writeParam [some "cb".toList] { closureName := some "self".toList, destroyName := none, lengthName := none }
    = .error .valueError := by rfl

end GIVerif.Introspectable
