/-
  C14 — Every typelib entry can be found by name, GType name and error domain.
  ONLY property theorems and non-vacuity examples live here; helper lemmas are in
  GIVerif/Lemmas/Lookup.lean, the executable model in GIVerif/Model/Lookup.lean.

  The perfect hash of cmph is the parameter `h` of the model.  Hypotheses beyond the
  property's own wording:
  * C14_sound, C14_linear, C14_gtype_domain, C14_repository: NONE on `h` or on the table
    (any function, any table contents).  `d.nLocal ≤ d.entries.length` (the header's
    n_local_entries ≤ n_entries) where "reported absent" is claimed, because otherwise
    the C loop reads past the directory (`.oob` in the model).
  * C14_complete / C14_paths_agree / C14_never_outside: the names of the local entries are
    distinct (the property's quantifier), `h` is injective on them and maps them below their
    number (what a minimal perfect hash is; re-checked on the actual cmph values of every
    typelib compiled in a run), the table is the one `pack` builds, 1 ≤ n ≤ 65536 entries
    (values are stored in 16-bit slots; the header field n_local_entries has 16 bits).
  * C14_gtype_found_partial: no local entry of a blob type outside BLOB_IS_REGISTERED_TYPE
    carries a GType name.  The full statement is FALSE on the unchanged tree
    (C14_gtype_boxed_counterexample: a <glib:boxed> entry, BLOB_TYPE_BOXED).
  * C14_size: sizes below 2^32 (a typelib is addressed with 32-bit offsets).
  * C14_prefix_sorted: the non-empty C prefixes are listed in non-decreasing length; without it
    the code's shared split buffer hands out wrong prefixes (C14_prefix_quirk).  The prefix
    test is only a first-pass filter: C14_repository does not depend on it.
-/
import GIVerif.Lemmas.Lookup
import GIVerif.Gen.TypelibLayout

namespace GIVerif.Lookup
open GIVerif.Py

/-- The literals of the C sources the model was written for (re-read from /repo on every run). -/
theorem C14_tables :
    Gen.registeredInline = Gen.registeredMacro
    ∧ Gen.registeredBlobTypes = Gen.registeredInline.map (·.2)
    ∧ (∀ p ∈ Gen.blobTypeEnum, ("GTypelibBlobType", p.1, p.2) ∈ Gen.typelibEnums)
    ∧ ("Header", "n_local_entries", 176, 16) ∈ Gen.blobFields
    ∧ Gen.errorDomainBlobType = ("BLOB_TYPE_ENUM", 5)
    ∧ Gen.cprefixSeparator = "," ∧ Gen.cprefixFollower = "g_ascii_isupper"
    ∧ Gen.byNameStrcmpTests = 2 ∧ Gen.byNameBoundField = "n_local_entries"
    ∧ Gen.hashCounterBytes = 4 ∧ Gen.hashTableAlign = 4 ∧ Gen.hashSlotBytes = 2
    ∧ Gen.hashSearchSlotBits = 16 ∧ Gen.hashValueBits = 16
    ∧ Gen.hashClampCond = "offset >= n_entries" ∧ Gen.hashClampTo = 0
    ∧ Gen.sectionAlign = 4 := by
  decide

/-- Soundness, for ANY hash function, ANY table contents, with or without an index: an answer is
    an entry of the directory carrying exactly the probed name.  An absent name is never answered
    with another entry.  On the linear path the answer is moreover a local entry. -/
theorem C14_sound (h : Str → Nat) (index : Option (List Nat)) (d : Dir) (name : Str) (i : Nat) (e : Entry)
    (hf : byName h index d name = .entry i e) :
    e.name = name ∧ d.entries[i]? = some e ∧ e ∈ d.entries ∧ (index = none → d.locals[i]? = some e) := by
  cases index with
  | none =>
    simp only [byName, linearByName] at hf
    obtain ⟨hget, hp, _⟩ := (scan_locals_entry_iff _ d i e).mp hf
    have hget' := ((getElem?_take_some _ _ _ _).mp hget).2
    exact ⟨by simpa using hp, hget', List.mem_of_getElem? hget', fun _ => hget⟩
  | some table =>
    simp only [byName, indexByName] at hf
    split at hf
    · cases hf
    · rename_i idx _
      split at hf
      · cases hf
      · rename_i e' hget
        split at hf
        · rename_i hname
          cases hf
          exact ⟨hname, hget, List.mem_of_getElem? hget, fun hc => by cases hc⟩
        · cases hf

/-- A minimal perfect hash on the names never trips the assertion of the packing loop. -/
theorem C14_pack_total (h : Str → Nat) (names : List Str) (hr : ∀ a ∈ names, h a < names.length) :
    ∃ t, pack h names = some t ∧ t.length = names.length := by
  obtain ⟨t, hp, hl, _⟩ := pack_spec h names hr
  exact ⟨t, hp, hl⟩

/-- Completeness of the index path: with distinct names, a hash injective on them, and the table
    the builder packs, every local entry is found under its own name, at its own position. -/
theorem C14_complete (h : Str → Nat) (d : Dir) (table : List Nat)
    (hwf : d.nLocal ≤ d.entries.length) (h16 : d.nLocal ≤ 65536)
    (hnd : (d.locals.map (·.name)).Nodup)
    (hinj : ∀ a ∈ d.locals.map (·.name), ∀ b ∈ d.locals.map (·.name), h a = h b → a = b)
    (hpack : pack h (d.locals.map (·.name)) = some table) :
    ∀ i e, d.locals[i]? = some e → byName h (some table) d e.name = .entry i e := by
  intro i e hget
  have hr := pack_some_range h _ table hpack
  obtain ⟨t, hp, hlen, hstore, _⟩ := pack_spec h _ hr
  rw [hpack] at hp
  cases hp
  have hnl : (d.locals.map (·.name)).length = d.nLocal := by
    simp [Dir.locals, Nat.min_eq_left hwf]
  have hmem : e.name ∈ d.locals.map (·.name) := List.mem_map.mpr ⟨e, List.mem_of_getElem? hget, rfl⟩
  have hlt : h e.name < d.nLocal := hnl ▸ hr _ hmem
  obtain ⟨hi, hget'⟩ := (getElem?_take_some _ _ _ _).mp hget
  have hmod : i % slotMod = i := Nat.mod_eq_of_lt (by
    have : slotMod = 65536 := by decide
    omega)
  have hst := hstore hnd hinj i e.name (by simp [hget])
  rw [hmod] at hst
  simp only [byName, indexByName, hashSearch]
  have : ¬ (h e.name ≥ d.nLocal) := by omega
  simp only [this, if_false, hst, hget', if_true]

/-- With the packed table the index path never reads outside the table or the directory, for
    member and non-member probes alike, and for ANY hash function that satisfied the assertion of
    the packing loop (no injectivity needed). -/
theorem C14_never_outside (h : Str → Nat) (d : Dir) (table : List Nat)
    (hwf : d.nLocal ≤ d.entries.length) (hpos : 0 < d.nLocal)
    (hpack : pack h (d.locals.map (·.name)) = some table) (probe : Str) :
    byName h (some table) d probe ≠ .oob := by
  have hr := pack_some_range h _ table hpack
  obtain ⟨t, hp, hlen, _, hvals⟩ := pack_spec h _ hr
  rw [hpack] at hp
  cases hp
  have hnl : (d.locals.map (·.name)).length = d.nLocal := by
    simp [Dir.locals, Nat.min_eq_left hwf]
  rw [hnl] at hlen
  simp only [byName, indexByName, hashSearch]
  have hoff : (if h probe ≥ d.nLocal then 0 else h probe) < table.length := by
    split <;> omega
  obtain ⟨v, hv⟩ : ∃ v, table[if h probe ≥ d.nLocal then 0 else h probe]? = some v :=
    ⟨_, List.getElem?_eq_getElem hoff⟩
  have hvlt : v < d.entries.length := by
    rcases hvals _ v hv with rfl | ⟨i, hi, rfl⟩
    · omega
    · have := Nat.mod_le i slotMod
      omega
  simp only [hv, List.getElem?_eq_getElem hvlt]
  split <;> simp

/-- The linear fallback returns the FIRST local entry carrying the name; it reports absence iff no
    local entry carries it; it never reads past a well-formed directory. -/
theorem C14_linear (h : Str → Nat) (d : Dir) (name : Str) :
    (∀ i e, byName h none d name = .entry i e ↔
        d.locals[i]? = some e ∧ e.name = name ∧ ∀ j e', j < i → d.locals[j]? = some e' → e'.name ≠ name)
    ∧ (d.nLocal ≤ d.entries.length →
        (byName h none d name = .null ↔ ∀ e ∈ d.locals, e.name ≠ name) ∧ byName h none d name ≠ .oob) := by
  constructor
  · intro i e
    simp only [byName, linearByName]
    rw [scan_locals_entry_iff]
    simp
  · intro hwf
    simp only [byName, linearByName]
    refine ⟨?_, scan_locals_ne_oob _ d hwf⟩
    rw [scan_locals_null_iff _ d hwf]
    simp

/-- With distinct names the index path and the linear path give the same answer to EVERY probe,
    present or absent. -/
theorem C14_paths_agree (h : Str → Nat) (d : Dir) (table : List Nat)
    (hwf : d.nLocal ≤ d.entries.length) (hpos : 0 < d.nLocal) (h16 : d.nLocal ≤ 65536)
    (hnd : (d.locals.map (·.name)).Nodup)
    (hinj : ∀ a ∈ d.locals.map (·.name), ∀ b ∈ d.locals.map (·.name), h a = h b → a = b)
    (hpack : pack h (d.locals.map (·.name)) = some table) (probe : Str) :
    byName h (some table) d probe = byName h none d probe := by
  have hlin := C14_linear h d probe
  by_cases hex : ∃ e ∈ d.locals, e.name = probe
  · obtain ⟨e, he, rfl⟩ := hex
    obtain ⟨i, hi⟩ := List.getElem?_of_mem he
    rw [C14_complete h d table hwf h16 hnd hinj hpack i e hi]
    symm
    rw [hlin.1 i e]
    refine ⟨hi, rfl, ?_⟩
    intro j e' hj hje' hname
    -- two positions with the same name contradict distinctness
    have h1 : (d.locals.map (·.name))[j]? = some e.name := by simp [hje', hname]
    have h2 : (d.locals.map (·.name))[i]? = some e.name := by simp [hi]
    have hjl : j < (d.locals.map (·.name)).length := by
      rcases Nat.lt_or_ge j (d.locals.map (·.name)).length with h | h
      · exact h
      · rw [List.getElem?_eq_none h] at h1; cases h1
    have := (List.getElem?_inj hjl hnd).mp (h1.trans h2.symm)
    omega
  · have habs : ∀ e ∈ d.locals, e.name ≠ probe := fun e he hn => hex ⟨e, he, hn⟩
    rw [((hlin.2 hwf).1).mpr habs]
    cases hidx : byName h (some table) d probe with
    | null => rfl
    | oob => exact absurd hidx (C14_never_outside h d table hwf hpos hpack probe)
    | entry i e =>
      exfalso
      obtain ⟨hname, hget, _, _⟩ := C14_sound h (some table) d probe i e hidx
      -- the table only holds positions of local entries
      have hr := pack_some_range h _ table hpack
      obtain ⟨t, hp, hlen, _, hvals⟩ := pack_spec h _ hr
      rw [hpack] at hp
      cases hp
      have hnl : (d.locals.map (·.name)).length = d.nLocal := by
        simp [Dir.locals, Nat.min_eq_left hwf]
      simp only [byName, indexByName, hashSearch] at hidx
      split at hidx
      · cases hidx
      · rename_i idx hidx'
        have hidxlt : idx < d.nLocal := by
          rcases hvals _ idx hidx' with rfl | ⟨k, hk, rfl⟩
          · exact hpos
          · have := Nat.mod_le k slotMod
            omega
        split at hidx
        · cases hidx
        · rename_i e' hget'
          split at hidx
          · cases hidx
            exact habs e (List.mem_of_getElem? ((getElem?_take_some _ _ _ _).mpr ⟨hidxlt, hget'⟩)) hname
          · cases hidx

/-- The two other keys.  `g_typelib_get_dir_entry_by_gtype_name` returns the first local entry
    of a registered blob type with that GType name, `g_typelib_get_dir_entry_by_error_domain` the
    first local enumeration with that error domain; each reports absence iff there is none. -/
theorem C14_gtype_domain (d : Dir) (s : Str) :
    (∀ i e, byGTypeName d s = .entry i e ↔
        d.locals[i]? = some e ∧ (isRegisteredType e.blobType = true ∧ e.gtypeName = some s) ∧
          ∀ j e', j < i → d.locals[j]? = some e' →
            ¬ (isRegisteredType e'.blobType = true ∧ e'.gtypeName = some s))
    ∧ (∀ i e, byErrorDomain d s = .entry i e ↔
        d.locals[i]? = some e ∧ (e.blobType = 5 ∧ e.errorDomain = some s) ∧
          ∀ j e', j < i → d.locals[j]? = some e' → ¬ (e'.blobType = 5 ∧ e'.errorDomain = some s))
    ∧ (d.nLocal ≤ d.entries.length →
        (byGTypeName d s = .null ↔
          ∀ e ∈ d.locals, ¬ (isRegisteredType e.blobType = true ∧ e.gtypeName = some s))
        ∧ (byErrorDomain d s = .null ↔ ∀ e ∈ d.locals, ¬ (e.blobType = 5 ∧ e.errorDomain = some s))
        ∧ byGTypeName d s ≠ .oob ∧ byErrorDomain d s ≠ .oob) := by
  have hbt : Gen.errorDomainBlobType.2 = 5 := by decide
  refine ⟨?_, ?_, ?_⟩
  · intro i e
    simp only [byGTypeName]
    rw [scan_locals_entry_iff]
    simp
  · intro i e
    simp only [byErrorDomain, hbt]
    rw [scan_locals_entry_iff]
    simp
  · intro hwf
    refine ⟨?_, ?_, scan_locals_ne_oob _ d hwf, scan_locals_ne_oob _ d hwf⟩
    · simp only [byGTypeName]
      rw [scan_locals_null_iff _ d hwf]
      simp
    · simp only [byErrorDomain, hbt]
      rw [scan_locals_null_iff _ d hwf]
      simp

/-- The property as worded ("registered types are found by their GType name") for every local
    entry that carries a GType name, whatever its blob type. -/
def C14_gtype_found_full : Prop :=
  ∀ (d : Dir) (s : Str), d.nLocal ≤ d.entries.length → (∃ e ∈ d.locals, e.gtypeName = some s) →
    ∃ i e, byGTypeName d s = .entry i e ∧ e.gtypeName = some s

/-- It FAILS on the unchanged tree: a `<glib:boxed>` entry is written as BLOB_TYPE_BOXED (4) with
    a GType name, and BLOB_IS_REGISTERED_TYPE does not accept that blob type (replayed on the real
    code by the harness: finding `by_gtype_name:BLOB_TYPE_BOXED`). -/
theorem C14_gtype_boxed_counterexample : ¬ C14_gtype_found_full := by
  intro hfull
  have := hfull ⟨[⟨"Bx".toList, true, 4, some "TBx".toList, none⟩], 1⟩ "TBx".toList (by decide)
    ⟨⟨"Bx".toList, true, 4, some "TBx".toList, none⟩, by simp [Dir.locals], rfl⟩
  obtain ⟨i, e, hf, _⟩ := this
  have hnull : byGTypeName ⟨[⟨"Bx".toList, true, 4, some "TBx".toList, none⟩], 1⟩ "TBx".toList = .null := by
    decide
  rw [hnull] at hf
  cases hf

/-- What does hold: when GType names only occur on entries of the blob types
    BLOB_IS_REGISTERED_TYPE accepts (i.e. there is no `<glib:boxed>` entry), every entry carrying a
    GType name is found by it — the first such entry when several carry the same name. -/
theorem C14_gtype_found_partial (d : Dir) (s : Str) (hwf : d.nLocal ≤ d.entries.length)
    (hreg : ∀ e ∈ d.locals, e.gtypeName.isSome = true → isRegisteredType e.blobType = true)
    (hex : ∃ e ∈ d.locals, e.gtypeName = some s) :
    ∃ i e, byGTypeName d s = .entry i e ∧ e.gtypeName = some s := by
  obtain ⟨e0, he0, hg0⟩ := hex
  cases hres : byGTypeName d s with
  | entry i e =>
    exact ⟨i, e, rfl, (((C14_gtype_domain d s).1 i e).mp hres).2.1.2⟩
  | null =>
    exfalso
    have := (((C14_gtype_domain d s).2.2 hwf).1.mp hres) e0 he0
    exact this ⟨hreg e0 he0 (by simp [hg0]), hg0⟩
  | oob => exact absurd hres ((C14_gtype_domain d s).2.2 hwf).2.2.1

/-- Error enumerations are found by their domain (full strength: "error enumeration" = a local
    BLOB_TYPE_ENUM entry with an error domain). -/
theorem C14_domain_found (d : Dir) (s : Str) (hwf : d.nLocal ≤ d.entries.length)
    (hex : ∃ e ∈ d.locals, e.blobType = 5 ∧ e.errorDomain = some s) :
    ∃ i e, byErrorDomain d s = .entry i e ∧ e.blobType = 5 ∧ e.errorDomain = some s := by
  obtain ⟨e0, he0, hb0, hd0⟩ := hex
  cases hres : byErrorDomain d s with
  | entry i e =>
    exact ⟨i, e, rfl, (((C14_gtype_domain d s).2.1 i e).mp hres).2.1⟩
  | null =>
    exfalso
    exact (((C14_gtype_domain d s).2.2 hwf).2.1.mp hres) e0 he0 ⟨hb0, hd0⟩
  | oob => exact absurd hres ((C14_gtype_domain d s).2.2 hwf).2.2.2

/-- Repository level.  `g_irepository_find_by_gtype` (prefix-guided pass, then a pass over every
    loaded typelib) and `g_irepository_find_by_error_domain` answer with what the typelib-level
    lookup of some loaded typelib answers, and answer NULL exactly when every loaded typelib does —
    whatever the C-prefix test says. -/
theorem C14_repository (libs : List Lib) (s : Str) :
    (∀ k i e, findByGType libs s = .entry k i e →
        ∃ l, libs[k]? = some l ∧ byGTypeName l.dir s = .entry i e)
    ∧ (findByGType libs s = .null ↔ ∀ l ∈ libs, byGTypeName l.dir s = .null)
    ∧ (∀ k i e, findByErrorDomain s 0 libs = .entry k i e →
        ∃ l, libs[k]? = some l ∧ byErrorDomain l.dir s = .entry i e)
    ∧ (findByErrorDomain s 0 libs = .null ↔ ∀ l ∈ libs, byErrorDomain l.dir s = .null) := by
  refine ⟨?_, ?_, ?_, findByErrorDomain_null_iff s 0 libs⟩
  · intro k i e hf
    unfold findByGType at hf
    split at hf
    · obtain ⟨j, l, hk, hj, hb⟩ := findPass_entry s false 0 libs k i e hf
      exact ⟨l, by simpa [hk] using hj, hb⟩
    · obtain ⟨j, l, hk, hj, hb⟩ := findPass_entry s true 0 libs k i e hf
      exact ⟨l, by simpa [hk] using hj, hb⟩
  · unfold findByGType
    constructor
    · intro hf
      split at hf
      · exact (findPass_false_null_iff s 0 libs).mp hf
      · rename_i hne
        exact absurd hf hne
    · intro hall
      rw [findPass_null_of_all_null s true 0 libs hall]
      exact findPass_null_of_all_null s false 0 libs hall
  · intro k i e hf
    obtain ⟨j, l, hk, hj, hb⟩ := findByErrorDomain_entry s 0 libs k i e hf
    exact ⟨l, by simpa [hk] using hj, hb⟩

/-- The C-prefix test: true iff the GType name continues one of the strings handed out by the
    split iterator with an upper-case ASCII letter. -/
theorem C14_prefix_iff (cprefix g : Str) :
    matchesGTypePrefix cprefix g = true ↔
      cprefix ≠ [] ∧ ∃ p ∈ piecesSeen [] (splitChar ',' cprefix []),
        ∃ c rest, g = p ++ c :: rest ∧ isAsciiUpper c = true := by
  unfold matchesGTypePrefix
  cases cprefix with
  | nil => simp
  | cons a as =>
    simp only [List.isEmpty_cons, Bool.false_eq_true, if_false, List.any_eq_true, ne_eq,
      List.cons_ne_nil, not_false_eq_true, true_and]
    constructor
    · rintro ⟨p, hp, hm⟩
      exact ⟨p, hp, (prefixThenUpper_iff g p).mp hm⟩
    · rintro ⟨p, hp, hm⟩
      exact ⟨p, hp, (prefixThenUpper_iff g p).mpr hm⟩

/-- The pieces are exactly the comma-separated fields of the C-prefix string (empty fields kept). -/
theorem C14_prefix_list (cprefix : Str) :
    join [','] (splitChar ',' cprefix []) = cprefix ∧ ∀ p ∈ splitChar ',' cprefix [], ',' ∉ p :=
  ⟨by simpa using join_splitChar ',' cprefix [], splitChar_no_sep ',' cprefix [] (by simp)⟩

/-- When the non-empty prefixes are listed in non-decreasing length the iterator hands out the
    pieces of the list themselves. -/
theorem C14_prefix_sorted (ps : List Str)
    (hsorted : ps.Pairwise (fun a b => a ≠ [] → b ≠ [] → a.length ≤ b.length)) :
    piecesSeen [] ps = ps :=
  piecesSeen_eq [] ps (fun _ _ _ => Nat.zero_le _) hsorted

/-- Otherwise it does not (the buffer shared by the iterations is overwritten, never shortened):
    with the prefixes "Tst,T" the second prefix is seen as "Tst", and `THello` does not match. The
    real function agrees (harness).  Harmless for C14: see C14_repository. -/
theorem C14_prefix_quirk :
    piecesSeen [] (splitChar ',' "Tst,T".toList []) = ["Tst".toList, "Tst".toList]
    ∧ matchesGTypePrefix "Tst,T".toList "THello".toList = false
    ∧ matchesGTypePrefix "T,Tst".toList "THello".toList = true := by
  decide

/-- Size arithmetic of the index section.  The packed size is the (4-aligned) table offset plus
    two bytes per entry; the section is that rounded up to 4 and, with the 32-bit `required_size`
    the source declares now, large enough for the packing assertion.  The size exceeds 16 bits as
    soon as the packed size reaches 2^16 — always from 32766 entries on, and for 30000 entries as
    soon as the hash function itself takes 5532 bytes (measured: about 10.5 kB) — and a 16-bit
    `required_size` then trips the assertion (the defect fixed by 615129a). -/
theorem C14_size (mph n : Nat) :
    packedSize mph n = dirmapOffset mph + 2 * n
    ∧ dirmapOffset mph % 4 = 0 ∧ 4 + mph ≤ dirmapOffset mph ∧ dirmapOffset mph < 4 + mph + 4
    ∧ Gen.requiredSizeBits = 32
    ∧ (packedSize mph n + 3 < 2 ^ 32 →
        sectionSizeNow mph n = (packedSize mph n + 3) / 4 * 4
        ∧ packedSize mph n ≤ sectionSizeNow mph n ∧ sectionSizeNow mph n < packedSize mph n + 4
        ∧ sectionSizeNow mph n % 4 = 0
        ∧ packAssertOk Gen.requiredSizeBits mph n = true)
    ∧ (2 ^ 16 ≤ packedSize mph n → packedSize mph n < 2 ^ 32 → packAssertOk 16 mph n = false)
    ∧ (32766 ≤ n → 2 ^ 16 ≤ packedSize mph n)
    ∧ (5532 ≤ mph → 2 ^ 16 ≤ packedSize mph 30000) := by
  have e1 : Gen.hashCounterBytes = 4 := by decide
  have e2 : Gen.hashTableAlign = 4 := by decide
  have e3 : Gen.hashSlotBytes = 2 := by decide
  have e4 : Gen.sectionAlign = 4 := by decide
  have e5 : Gen.requiredSizeBits = 32 := by decide
  simp only [packedSize, dirmapOffset, sectionSizeNow, sectionSize, packAssertOk, alignUp, e1, e2, e3, e4, e5,
    decide_eq_true_eq, decide_eq_false_iff_not]
  refine ⟨by omega, by omega, by omega, by omega, trivial, ?_, ?_, by omega, by omega⟩
  · intro hlt
    have h1 : ((4 + mph + (4 - 1)) / 4 * 4 + n * 2) % 2 ^ 32 = (4 + mph + (4 - 1)) / 4 * 4 + n * 2 :=
      Nat.mod_eq_of_lt (by omega)
    rw [h1]
    have h2 : (((4 + mph + (4 - 1)) / 4 * 4 + n * 2 + (4 - 1)) / 4 * 4) % 2 ^ 32
        = ((4 + mph + (4 - 1)) / 4 * 4 + n * 2 + (4 - 1)) / 4 * 4 := Nat.mod_eq_of_lt (by omega)
    rw [h2]
    omega
  · intro hge hlt
    omega

/-! ### non-vacuity: concrete instances of the hypotheses and conclusions -/

section Examples

def exDir : Dir :=
  { entries := [⟨"K0".toList, true, 9, none, none⟩,
                ⟨"Rec".toList, true, 3, some "TRec".toList, none⟩,
                ⟨"Err".toList, true, 5, some "TErr".toList, some "t-err-quark".toList⟩,
                ⟨"Fl".toList, true, 6, none, some "t-fl-quark".toList⟩,
                ⟨"Base".toList, false, 0, none, none⟩],
    nLocal := 4 }

/-- a perfect hash on the four names (and an arbitrary large value elsewhere) -/
def exHash (s : Str) : Nat :=
  if s = "K0".toList then 2 else if s = "Rec".toList then 0 else if s = "Err".toList then 3
  else if s = "Fl".toList then 1 else 77

example : pack exHash (exDir.locals.map (·.name)) = some [1, 3, 0, 2] := by decide
example : (exDir.locals.map (·.name)).Nodup := by decide
example : ∀ a ∈ exDir.locals.map (·.name), ∀ b ∈ exDir.locals.map (·.name), exHash a = exHash b → a = b := by
  decide
example : byName exHash (some [1, 3, 0, 2]) exDir "Err".toList
    = .entry 2 ⟨"Err".toList, true, 5, some "TErr".toList, some "t-err-quark".toList⟩ := by decide
-- an absent name whose (clamped) hash lands on K0's slot is rejected by the final comparison
example : byName exHash (some [1, 3, 0, 2]) exDir "Erx".toList = .null := by decide
-- a non-local entry is not found by name although it is in the directory
example : byName exHash (some [1, 3, 0, 2]) exDir "Base".toList = .null
    ∧ byName exHash none exDir "Base".toList = .null := by decide
-- soundness needs no well-formed table: garbage tables give NULL or the right entry, or are detected
example : byName (fun _ => 1) (some [9, 4, 9]) exDir "Base".toList
    = .entry 4 ⟨"Base".toList, false, 0, none, none⟩ := by decide
example : byName (fun _ => 0) (some [9, 4, 9]) exDir "K0".toList = .oob := by decide
example : byName exHash none exDir "Fl".toList = .entry 3 ⟨"Fl".toList, true, 6, none, some "t-fl-quark".toList⟩ := by
  decide
example : byGTypeName exDir "TErr".toList
    = .entry 2 ⟨"Err".toList, true, 5, some "TErr".toList, some "t-err-quark".toList⟩ := by decide
example : byErrorDomain exDir "t-err-quark".toList
    = .entry 2 ⟨"Err".toList, true, 5, some "TErr".toList, some "t-err-quark".toList⟩ := by decide
-- a bitfield's error domain is not an error enumeration
example : byErrorDomain exDir "t-fl-quark".toList = .null := by decide
example : ∀ e ∈ exDir.locals, e.gtypeName.isSome = true → isRegisteredType e.blobType = true := by decide
example : findByGType [⟨exDir, "T".toList⟩] "TRec".toList
    = .entry 0 1 ⟨"Rec".toList, true, 3, some "TRec".toList, none⟩ := by decide
-- found by the second pass although the C prefix does not match
example : matchesGTypePrefix "Gdk".toList "TRec".toList = false
    ∧ findByGType [⟨exDir, "Gdk".toList⟩] "TRec".toList
      = .entry 0 1 ⟨"Rec".toList, true, 3, some "TRec".toList, none⟩ := by decide
example : matchesGTypePrefix "Gdk".toList "GdkX11Cursor".toList = true
    ∧ matchesGTypePrefix "G".toList "GdkX11Cursor".toList = false := by decide
example : splitChar ',' "T,,Tst,".toList [] = ["T".toList, [], "Tst".toList, []] := by decide
example : ["T".toList, [], "Tst".toList, []].Pairwise (fun a b => a ≠ [] → b ≠ [] → a.length ≤ b.length) := by
  decide
-- sizes: 30000 entries with the measured hash size need 17 bits; 16 bits trip the assertion
example : packedSize 10557 30000 = 70564 ∧ sectionSizeNow 10557 30000 = 70564
    ∧ packAssertOk 16 10557 30000 = false ∧ packAssertOk 32 10557 30000 = true := by decide
example : packedSize 29 5 = 46 ∧ sectionSizeNow 29 5 = 48 := by decide

end Examples

end GIVerif.Lookup
