/-
  C14 — Every typelib entry can be found by name, GType name and error domain.
  ONLY property theorems and non-vacuity examples live here; helper lemmas are in
  GIVerif/Lemmas/Lookup.lean, the executable model in GIVerif/Model/Lookup.lean.

  The perfect hash of cmph is the parameter `h` of the model.  Hypotheses beyond the
  property's own wording:
  * C14_sound, C14_linear, C14_gtype_domain, C14_repository: NONE on `h` or on the table
    (any function, any table contents).  `d.nLocal ≤ d.entries.length` (the header's
    n_local_entries ≤ n_entries) where "reported absent" is claimed, because otherwise
    the C loop reads past the directory (`.oob` in the model).
  * C14_complete / C14_paths_agree / C14_never_outside: the names of the local entries are
    distinct (the property's quantifier), `h` is injective on them and maps them below their
    number (what a minimal perfect hash is; re-checked on the actual cmph values of every
    typelib compiled in a run), the table is the one `pack` builds, 1 ≤ n ≤ 65536 entries
    (values are stored in 16-bit slots; the header field n_local_entries has 16 bits).
  * C14_gtype_found: NONE beyond well-formedness of the abstraction: `Entry.gtypeName` is read
    only for blob kinds whose struct has a `gtype_name` member (`hasGTypeNameField`, table read
    from girnode.c + the header: struct, boxed, enum, flags, object, interface, union).  Since
    969dad1 BLOB_IS_REGISTERED_TYPE accepts all of them (C14_registered_kinds).
  * C14_size: sizes below 2^32 (a typelib is addressed with 32-bit offsets).
  * C14_history / C14_step (repository-level lookups with their caches, ALL histories of
    find-by-gtype / find-by-error-domain / find-by-name / lazy and non-lazy loads / lazy → loaded
    transitions / hash-table reorderings): `Admissible` = a hash-table resize only permutes a
    table.  NOTHING is asked of the caller: typelibs are never unloaded, and since cf7a1a1 the
    lazy → loaded transition registers the typelib that is already in the lazy table (read from the
    current source: `transitionPromotes`; needed: C14_promotion_needed).  A GType is identified with its
    name and a GQuark with its string.  One version per namespace (versions are C17's subject);
    failed loads do not appear in a history; the dependencies of a non-lazy load are loads of their
    own placed before it.  Two loaded typelibs MAY describe the same GType name / error domain: the
    answer is then the typelib-level answer of one of them (whichever the table order and the
    cache history select); equality with the cache-free search is claimed when at most one loaded
    typelib has the key (needed: C14_unique_needed).
    The clearing of unknown_gtypes on both branches of register_internal is read from the current
    source (Gen.cacheSites, pinned by C14_cache_shape); needed: C14_unknown_clear_needed.
  * C14_gtype_name_agree: names find their own entries in every loaded typelib (`NameComplete`,
    the conclusion of C14_complete / C14_linear).
  * C14_prefix_sorted: the non-empty C prefixes are listed in non-decreasing length; without it
    the code's shared split buffer hands out wrong prefixes (C14_prefix_quirk).  The prefix
    test is only a first-pass filter: C14_repository does not depend on it.
-/
import GIVerif.Lemmas.Lookup
import GIVerif.Gen.TypelibLayout

namespace GIVerif.Lookup
open GIVerif.Py

/-- The literals of the C sources the model was written for (re-read from /repo on every run).
    The blob kinds BLOB_IS_REGISTERED_TYPE accepts are listed EXPLICITLY (the translator applies the
    compiled predicate to every enumerator, in both preprocessor variants), so dropping a kind
    (e.g. a range check that loses BLOB_TYPE_UNION = 11) or adding one shows up here. -/
theorem C14_tables :
    Gen.registeredInline = [("BLOB_TYPE_STRUCT", 3), ("BLOB_TYPE_BOXED", 4), ("BLOB_TYPE_ENUM", 5),
                            ("BLOB_TYPE_FLAGS", 6), ("BLOB_TYPE_OBJECT", 7), ("BLOB_TYPE_INTERFACE", 8),
                            ("BLOB_TYPE_UNION", 11)]
    ∧ Gen.registeredInline = Gen.registeredMacro
    ∧ Gen.registeredBlobTypes = Gen.registeredInline.map (·.2)
    ∧ (∀ p ∈ Gen.blobTypeEnum, ("GTypelibBlobType", p.1, p.2) ∈ Gen.typelibEnums)
    ∧ ("Header", "n_local_entries", 176, 16) ∈ Gen.blobFields
    ∧ Gen.errorDomainBlobType = ("BLOB_TYPE_ENUM", 5)
    ∧ Gen.cprefixSeparator = "," ∧ Gen.cprefixFollower = "g_ascii_isupper"
    ∧ Gen.byNameStrcmpTests = 2 ∧ Gen.byNameBoundField = "n_local_entries"
    ∧ Gen.hashCounterBytes = 4 ∧ Gen.hashTableAlign = 4 ∧ Gen.hashSlotBytes = 2
    ∧ Gen.hashSearchSlotBits = 16 ∧ Gen.hashValueBits = 16
    ∧ Gen.hashClampCond = "offset >= n_entries" ∧ Gen.hashClampTo = 0
    ∧ Gen.sectionAlign = 4 := by
  decide

/-- Soundness, for ANY hash function, ANY table contents, with or without an index: an answer is
    an entry of the directory carrying exactly the probed name.  An absent name is never answered
    with another entry.  On the linear path the answer is moreover a local entry. -/
theorem C14_sound (h : Str → Nat) (index : Option (List Nat)) (d : Dir) (name : Str) (i : Nat) (e : Entry)
    (hf : byName h index d name = .entry i e) :
    e.name = name ∧ d.entries[i]? = some e ∧ e ∈ d.entries ∧ (index = none → d.locals[i]? = some e) := by
  cases index with
  | none =>
    simp only [byName, linearByName] at hf
    obtain ⟨hget, hp, _⟩ := (scan_locals_entry_iff _ d i e).mp hf
    have hget' := ((getElem?_take_some _ _ _ _).mp hget).2
    exact ⟨by simpa using hp, hget', List.mem_of_getElem? hget', fun _ => hget⟩
  | some table =>
    simp only [byName, indexByName] at hf
    split at hf
    · cases hf
    · rename_i idx _
      split at hf
      · cases hf
      · rename_i e' hget
        split at hf
        · rename_i hname
          cases hf
          exact ⟨hname, hget, List.mem_of_getElem? hget, fun hc => by cases hc⟩
        · cases hf

/-- A minimal perfect hash on the names never trips the assertion of the packing loop. -/
theorem C14_pack_total (h : Str → Nat) (names : List Str) (hr : ∀ a ∈ names, h a < names.length) :
    ∃ t, pack h names = some t ∧ t.length = names.length := by
  obtain ⟨t, hp, hl, _⟩ := pack_spec h names hr
  exact ⟨t, hp, hl⟩

/-- Completeness of the index path: with distinct names, a hash injective on them, and the table
    the builder packs, every local entry is found under its own name, at its own position. -/
theorem C14_complete (h : Str → Nat) (d : Dir) (table : List Nat)
    (hwf : d.nLocal ≤ d.entries.length) (h16 : d.nLocal ≤ 65536)
    (hnd : (d.locals.map (·.name)).Nodup)
    (hinj : ∀ a ∈ d.locals.map (·.name), ∀ b ∈ d.locals.map (·.name), h a = h b → a = b)
    (hpack : pack h (d.locals.map (·.name)) = some table) :
    ∀ i e, d.locals[i]? = some e → byName h (some table) d e.name = .entry i e := by
  intro i e hget
  have hr := pack_some_range h _ table hpack
  obtain ⟨t, hp, hlen, hstore, _⟩ := pack_spec h _ hr
  rw [hpack] at hp
  cases hp
  have hnl : (d.locals.map (·.name)).length = d.nLocal := by
    simp [Dir.locals, Nat.min_eq_left hwf]
  have hmem : e.name ∈ d.locals.map (·.name) := List.mem_map.mpr ⟨e, List.mem_of_getElem? hget, rfl⟩
  have hlt : h e.name < d.nLocal := hnl ▸ hr _ hmem
  obtain ⟨hi, hget'⟩ := (getElem?_take_some _ _ _ _).mp hget
  have hmod : i % slotMod = i := Nat.mod_eq_of_lt (by
    have : slotMod = 65536 := by decide
    omega)
  have hst := hstore hnd hinj i e.name (by simp [hget])
  rw [hmod] at hst
  simp only [byName, indexByName, hashSearch]
  have : ¬ (h e.name ≥ d.nLocal) := by omega
  simp only [this, if_false, hst, hget', if_true]

/-- With the packed table the index path never reads outside the table or the directory, for
    member and non-member probes alike, and for ANY hash function that satisfied the assertion of
    the packing loop (no injectivity needed). -/
theorem C14_never_outside (h : Str → Nat) (d : Dir) (table : List Nat)
    (hwf : d.nLocal ≤ d.entries.length) (hpos : 0 < d.nLocal)
    (hpack : pack h (d.locals.map (·.name)) = some table) (probe : Str) :
    byName h (some table) d probe ≠ .oob := by
  have hr := pack_some_range h _ table hpack
  obtain ⟨t, hp, hlen, _, hvals⟩ := pack_spec h _ hr
  rw [hpack] at hp
  cases hp
  have hnl : (d.locals.map (·.name)).length = d.nLocal := by
    simp [Dir.locals, Nat.min_eq_left hwf]
  rw [hnl] at hlen
  simp only [byName, indexByName, hashSearch]
  have hoff : (if h probe ≥ d.nLocal then 0 else h probe) < table.length := by
    split <;> omega
  obtain ⟨v, hv⟩ : ∃ v, table[if h probe ≥ d.nLocal then 0 else h probe]? = some v :=
    ⟨_, List.getElem?_eq_getElem hoff⟩
  have hvlt : v < d.entries.length := by
    rcases hvals _ v hv with rfl | ⟨i, hi, rfl⟩
    · omega
    · have := Nat.mod_le i slotMod
      omega
  simp only [hv, List.getElem?_eq_getElem hvlt]
  split <;> simp

/-- The linear fallback returns the FIRST local entry carrying the name; it reports absence iff no
    local entry carries it; it never reads past a well-formed directory. -/
theorem C14_linear (h : Str → Nat) (d : Dir) (name : Str) :
    (∀ i e, byName h none d name = .entry i e ↔
        d.locals[i]? = some e ∧ e.name = name ∧ ∀ j e', j < i → d.locals[j]? = some e' → e'.name ≠ name)
    ∧ (d.nLocal ≤ d.entries.length →
        (byName h none d name = .null ↔ ∀ e ∈ d.locals, e.name ≠ name) ∧ byName h none d name ≠ .oob) := by
  constructor
  · intro i e
    simp only [byName, linearByName]
    rw [scan_locals_entry_iff]
    simp
  · intro hwf
    simp only [byName, linearByName]
    refine ⟨?_, scan_locals_ne_oob _ d hwf⟩
    rw [scan_locals_null_iff _ d hwf]
    simp

/-- With distinct names the index path and the linear path give the same answer to EVERY probe,
    present or absent. -/
theorem C14_paths_agree (h : Str → Nat) (d : Dir) (table : List Nat)
    (hwf : d.nLocal ≤ d.entries.length) (hpos : 0 < d.nLocal) (h16 : d.nLocal ≤ 65536)
    (hnd : (d.locals.map (·.name)).Nodup)
    (hinj : ∀ a ∈ d.locals.map (·.name), ∀ b ∈ d.locals.map (·.name), h a = h b → a = b)
    (hpack : pack h (d.locals.map (·.name)) = some table) (probe : Str) :
    byName h (some table) d probe = byName h none d probe := by
  have hlin := C14_linear h d probe
  by_cases hex : ∃ e ∈ d.locals, e.name = probe
  · obtain ⟨e, he, rfl⟩ := hex
    obtain ⟨i, hi⟩ := List.getElem?_of_mem he
    rw [C14_complete h d table hwf h16 hnd hinj hpack i e hi]
    symm
    rw [hlin.1 i e]
    refine ⟨hi, rfl, ?_⟩
    intro j e' hj hje' hname
    -- two positions with the same name contradict distinctness
    have h1 : (d.locals.map (·.name))[j]? = some e.name := by simp [hje', hname]
    have h2 : (d.locals.map (·.name))[i]? = some e.name := by simp [hi]
    have hjl : j < (d.locals.map (·.name)).length := by
      rcases Nat.lt_or_ge j (d.locals.map (·.name)).length with h | h
      · exact h
      · rw [List.getElem?_eq_none h] at h1; cases h1
    have := (List.getElem?_inj hjl hnd).mp (h1.trans h2.symm)
    omega
  · have habs : ∀ e ∈ d.locals, e.name ≠ probe := fun e he hn => hex ⟨e, he, hn⟩
    rw [((hlin.2 hwf).1).mpr habs]
    cases hidx : byName h (some table) d probe with
    | null => rfl
    | oob => exact absurd hidx (C14_never_outside h d table hwf hpos hpack probe)
    | entry i e =>
      exfalso
      obtain ⟨hname, hget, _, _⟩ := C14_sound h (some table) d probe i e hidx
      -- the table only holds positions of local entries
      have hr := pack_some_range h _ table hpack
      obtain ⟨t, hp, hlen, _, hvals⟩ := pack_spec h _ hr
      rw [hpack] at hp
      cases hp
      have hnl : (d.locals.map (·.name)).length = d.nLocal := by
        simp [Dir.locals, Nat.min_eq_left hwf]
      simp only [byName, indexByName, hashSearch] at hidx
      split at hidx
      · cases hidx
      · rename_i idx hidx'
        have hidxlt : idx < d.nLocal := by
          rcases hvals _ idx hidx' with rfl | ⟨k, hk, rfl⟩
          · exact hpos
          · have := Nat.mod_le k slotMod
            omega
        split at hidx
        · cases hidx
        · rename_i e' hget'
          split at hidx
          · cases hidx
            exact habs e (List.mem_of_getElem? ((getElem?_take_some _ _ _ _).mpr ⟨hidxlt, hget'⟩)) hname
          · cases hidx

/-- The two other keys.  `g_typelib_get_dir_entry_by_gtype_name` returns the first local entry
    of a registered blob type with that GType name, `g_typelib_get_dir_entry_by_error_domain` the
    first local enumeration with that error domain; each reports absence iff there is none. -/
theorem C14_gtype_domain (d : Dir) (s : Str) :
    (∀ i e, byGTypeName d s = .entry i e ↔
        d.locals[i]? = some e ∧ (isRegisteredType e.blobType = true ∧ e.gtypeName = some s) ∧
          ∀ j e', j < i → d.locals[j]? = some e' →
            ¬ (isRegisteredType e'.blobType = true ∧ e'.gtypeName = some s))
    ∧ (∀ i e, byErrorDomain d s = .entry i e ↔
        d.locals[i]? = some e ∧ (e.blobType = 5 ∧ e.errorDomain = some s) ∧
          ∀ j e', j < i → d.locals[j]? = some e' → ¬ (e'.blobType = 5 ∧ e'.errorDomain = some s))
    ∧ (d.nLocal ≤ d.entries.length →
        (byGTypeName d s = .null ↔
          ∀ e ∈ d.locals, ¬ (isRegisteredType e.blobType = true ∧ e.gtypeName = some s))
        ∧ (byErrorDomain d s = .null ↔ ∀ e ∈ d.locals, ¬ (e.blobType = 5 ∧ e.errorDomain = some s))
        ∧ byGTypeName d s ≠ .oob ∧ byErrorDomain d s ≠ .oob) := by
  have hbt : Gen.errorDomainBlobType.2 = 5 := by decide
  refine ⟨?_, ?_, ?_⟩
  · intro i e
    simp only [byGTypeName]
    rw [scan_locals_entry_iff]
    simp
  · intro i e
    simp only [byErrorDomain, hbt]
    rw [scan_locals_entry_iff]
    simp
  · intro hwf
    refine ⟨?_, ?_, scan_locals_ne_oob _ d hwf, scan_locals_ne_oob _ d hwf⟩
    · simp only [byGTypeName]
      rw [scan_locals_null_iff _ d hwf]
      simp
    · simp only [byErrorDomain, hbt]
      rw [scan_locals_null_iff _ d hwf]
      simp

/-- Every blob kind that CAN carry a GType name — its struct, as girnode.c writes it, has a
    `gtype_name` member — is accepted by BLOB_IS_REGISTERED_TYPE, and nothing else is: the seven
    kinds, explicitly. -/
theorem C14_registered_kinds :
    Gen.gtypeNameBlobTypes = [3, 4, 5, 6, 7, 8, 11]
    ∧ (∀ bt, hasGTypeNameField bt = isRegisteredType bt)
    ∧ (∀ p ∈ Gen.blobStructOf, (p.1, p.2.2) ∈ Gen.blobTypeEnum)
    ∧ (∀ p ∈ Gen.blobStructOf, p.2.2 ∈ Gen.gtypeNameBlobTypes ↔
        (p.2.1, "gtype_name", 64, 32) ∈ Gen.blobFields) := by
  refine ⟨by decide, ?_, by decide, by decide⟩
  intro bt
  have h1 : Gen.gtypeNameBlobTypes = [3, 4, 5, 6, 7, 8, 11] := by decide
  have h2 : Gen.registeredBlobTypes = [3, 4, 5, 6, 7, 8, 11] := by decide
  simp only [hasGTypeNameField, isRegisteredType, h1, h2]

/-- The property as worded ("registered types are found by their GType name"), full strength:
    every local entry that carries a GType name — whatever its kind: record, `<glib:boxed>`, union,
    enumeration, bitfield, class, interface — is found by it (the first such entry when several
    carry the same name). -/
theorem C14_gtype_found (d : Dir) (s : Str) (hwf : d.nLocal ≤ d.entries.length)
    (hex : ∃ e ∈ d.locals, hasGTypeNameField e.blobType = true ∧ e.gtypeName = some s) :
    ∃ i e, byGTypeName d s = .entry i e ∧ e.gtypeName = some s := by
  obtain ⟨e0, he0, hf0, hg0⟩ := hex
  cases hres : byGTypeName d s with
  | entry i e =>
    exact ⟨i, e, rfl, (((C14_gtype_domain d s).1 i e).mp hres).2.1.2⟩
  | null =>
    exfalso
    have := (((C14_gtype_domain d s).2.2 hwf).1.mp hres) e0 he0
    exact this ⟨by rw [← C14_registered_kinds.2.1]; exact hf0, hg0⟩
  | oob => exact absurd hres ((C14_gtype_domain d s).2.2 hwf).2.2.1

/-- Error enumerations are found by their domain (full strength: "error enumeration" = a local
    BLOB_TYPE_ENUM entry with an error domain). -/
theorem C14_domain_found (d : Dir) (s : Str) (hwf : d.nLocal ≤ d.entries.length)
    (hex : ∃ e ∈ d.locals, e.blobType = 5 ∧ e.errorDomain = some s) :
    ∃ i e, byErrorDomain d s = .entry i e ∧ e.blobType = 5 ∧ e.errorDomain = some s := by
  obtain ⟨e0, he0, hb0, hd0⟩ := hex
  cases hres : byErrorDomain d s with
  | entry i e =>
    exact ⟨i, e, rfl, (((C14_gtype_domain d s).2.1 i e).mp hres).2.1⟩
  | null =>
    exfalso
    exact (((C14_gtype_domain d s).2.2 hwf).2.1.mp hres) e0 he0 ⟨hb0, hd0⟩
  | oob => exact absurd hres ((C14_gtype_domain d s).2.2 hwf).2.2.2

/-- Repository level.  `g_irepository_find_by_gtype` (prefix-guided pass, then a pass over every
    loaded typelib) and `g_irepository_find_by_error_domain` answer with what the typelib-level
    lookup of some loaded typelib answers, and answer NULL exactly when every loaded typelib does —
    whatever the C-prefix test says. -/
theorem C14_repository (libs : List Lib) (s : Str) :
    (∀ k i e, findByGType libs s = .entry k i e →
        ∃ l, libs[k]? = some l ∧ byGTypeName l.dir s = .entry i e)
    ∧ (findByGType libs s = .null ↔ ∀ l ∈ libs, byGTypeName l.dir s = .null)
    ∧ (∀ k i e, findByErrorDomain s 0 libs = .entry k i e →
        ∃ l, libs[k]? = some l ∧ byErrorDomain l.dir s = .entry i e)
    ∧ (findByErrorDomain s 0 libs = .null ↔ ∀ l ∈ libs, byErrorDomain l.dir s = .null) := by
  refine ⟨?_, ?_, ?_, findByErrorDomain_null_iff s 0 libs⟩
  · intro k i e hf
    unfold findByGType at hf
    split at hf
    · obtain ⟨j, l, hk, hj, hb⟩ := findPass_entry s false 0 libs k i e hf
      exact ⟨l, by simpa [hk] using hj, hb⟩
    · obtain ⟨j, l, hk, hj, hb⟩ := findPass_entry s true 0 libs k i e hf
      exact ⟨l, by simpa [hk] using hj, hb⟩
  · unfold findByGType
    constructor
    · intro hf
      split at hf
      · exact (findPass_false_null_iff s 0 libs).mp hf
      · rename_i hne
        exact absurd hf hne
    · intro hall
      rw [findPass_null_of_all_null s true 0 libs hall]
      exact findPass_null_of_all_null s false 0 libs hall
  · intro k i e hf
    obtain ⟨j, l, hk, hj, hb⟩ := findByErrorDomain_entry s 0 libs k i e hf
    exact ⟨l, by simpa [hk] using hj, hb⟩

/-- The C-prefix test: true iff the GType name continues one of the strings handed out by the
    split iterator with an upper-case ASCII letter. -/
theorem C14_prefix_iff (cprefix g : Str) :
    matchesGTypePrefix cprefix g = true ↔
      cprefix ≠ [] ∧ ∃ p ∈ piecesSeen [] (splitChar ',' cprefix []),
        ∃ c rest, g = p ++ c :: rest ∧ isAsciiUpper c = true := by
  unfold matchesGTypePrefix
  cases cprefix with
  | nil => simp
  | cons a as =>
    simp only [List.isEmpty_cons, Bool.false_eq_true, if_false, List.any_eq_true, ne_eq,
      List.cons_ne_nil, not_false_eq_true, true_and]
    constructor
    · rintro ⟨p, hp, hm⟩
      exact ⟨p, hp, (prefixThenUpper_iff g p).mp hm⟩
    · rintro ⟨p, hp, hm⟩
      exact ⟨p, hp, (prefixThenUpper_iff g p).mpr hm⟩

/-- The pieces are exactly the comma-separated fields of the C-prefix string (empty fields kept). -/
theorem C14_prefix_list (cprefix : Str) :
    join [','] (splitChar ',' cprefix []) = cprefix ∧ ∀ p ∈ splitChar ',' cprefix [], ',' ∉ p :=
  ⟨by simpa using join_splitChar ',' cprefix [], splitChar_no_sep ',' cprefix [] (by simp)⟩

/-- When the non-empty prefixes are listed in non-decreasing length the iterator hands out the
    pieces of the list themselves. -/
theorem C14_prefix_sorted (ps : List Str)
    (hsorted : ps.Pairwise (fun a b => a ≠ [] → b ≠ [] → a.length ≤ b.length)) :
    piecesSeen [] ps = ps :=
  piecesSeen_eq [] ps (fun _ _ _ => Nat.zero_le _) hsorted

/-- Otherwise it does not (the buffer shared by the iterations is overwritten, never shortened):
    with the prefixes "Tst,T" the second prefix is seen as "Tst", and `THello` does not match. The
    real function agrees (harness).  Harmless for C14: see C14_repository. -/
theorem C14_prefix_quirk :
    piecesSeen [] (splitChar ',' "Tst,T".toList []) = ["Tst".toList, "Tst".toList]
    ∧ matchesGTypePrefix "Tst,T".toList "THello".toList = false
    ∧ matchesGTypePrefix "T,Tst".toList "THello".toList = true := by
  decide

/-- Size arithmetic of the index section.  The packed size is the (4-aligned) table offset plus
    two bytes per entry; the section is that rounded up to 4 and, with the 32-bit `required_size`
    the source declares now, large enough for the packing assertion.  The size exceeds 16 bits as
    soon as the packed size reaches 2^16 — always from 32766 entries on, and for 30000 entries as
    soon as the hash function itself takes 5532 bytes (measured: about 10.5 kB) — and a 16-bit
    `required_size` then trips the assertion (the defect fixed by 615129a). -/
theorem C14_size (mph n : Nat) :
    packedSize mph n = dirmapOffset mph + 2 * n
    ∧ dirmapOffset mph % 4 = 0 ∧ 4 + mph ≤ dirmapOffset mph ∧ dirmapOffset mph < 4 + mph + 4
    ∧ Gen.requiredSizeBits = 32
    ∧ (packedSize mph n + 3 < 2 ^ 32 →
        sectionSizeNow mph n = (packedSize mph n + 3) / 4 * 4
        ∧ packedSize mph n ≤ sectionSizeNow mph n ∧ sectionSizeNow mph n < packedSize mph n + 4
        ∧ sectionSizeNow mph n % 4 = 0
        ∧ packAssertOk Gen.requiredSizeBits mph n = true)
    ∧ (2 ^ 16 ≤ packedSize mph n → packedSize mph n < 2 ^ 32 → packAssertOk 16 mph n = false)
    ∧ (32766 ≤ n → 2 ^ 16 ≤ packedSize mph n)
    ∧ (5532 ≤ mph → 2 ^ 16 ≤ packedSize mph 30000) := by
  have e1 : Gen.hashCounterBytes = 4 := by decide
  have e2 : Gen.hashTableAlign = 4 := by decide
  have e3 : Gen.hashSlotBytes = 2 := by decide
  have e4 : Gen.sectionAlign = 4 := by decide
  have e5 : Gen.requiredSizeBits = 32 := by decide
  simp only [packedSize, dirmapOffset, sectionSizeNow, sectionSize, packAssertOk, alignUp, e1, e2, e3, e4, e5,
    decide_eq_true_eq, decide_eq_false_iff_not]
  refine ⟨by omega, by omega, by omega, by omega, trivial, ?_, ?_, by omega, by omega⟩
  · intro hlt
    have h1 : ((4 + mph + (4 - 1)) / 4 * 4 + n * 2) % 2 ^ 32 = (4 + mph + (4 - 1)) / 4 * 4 + n * 2 :=
      Nat.mod_eq_of_lt (by omega)
    rw [h1]
    have h2 : (((4 + mph + (4 - 1)) / 4 * 4 + n * 2 + (4 - 1)) / 4 * 4) % 2 ^ 32
        = ((4 + mph + (4 - 1)) / 4 * 4 + n * 2 + (4 - 1)) / 4 * 4 := Nat.mod_eq_of_lt (by omega)
    rw [h2]
    omega
  · intro hge hlt
    omega

/-! ### the repository-level lookups as a state machine with caches (all histories) -/

/-- The cache skeleton of girepository.c the state machine was written for (re-read from /repo on
    every run): where `unknown_gtypes`, `info_by_gtype` and `info_by_error_domain` are consulted,
    filled and cleared, under which conditions, and in which order the tables are searched.  Moving
    the clearing statement of `register_internal` into a branch changes this table. -/
theorem C14_cache_shape :
    Gen.cacheSites = [
      ("get_registered_status", [], "g_hash_table_lookup", "typelibs"),
      ("get_registered_status", ["if:typelib"], "return", ""),
      ("get_registered_status", [], "g_hash_table_lookup", "lazy_typelibs"),
      ("get_registered_status", ["if:!typelib"], "return", ""),
      ("get_registered_status", ["if:!allow_lazy"], "return", ""),
      ("get_registered_status", [], "return", ""),
      ("register_internal", ["if:lazy"], "g_hash_table_lookup", "lazy_typelibs"),
      ("register_internal", ["if:lazy"], "g_hash_table_insert", "lazy_typelibs"),
      ("register_internal", ["else:lazy", "if:!load_dependencies_recurse(repository,typelib,error)"], "return", ""),
      ("register_internal", ["else:lazy"], "cond:g_hash_table_lookup_extended", "lazy_typelibs"),
      ("register_internal", ["else:lazy", "if:g_hash_table_lookup_extended(repository->priv->lazy_typelibs,namespace,(gpointer)&key,&value)"], "g_hash_table_steal", "lazy_typelibs"),
      ("register_internal", ["else:lazy"], "g_hash_table_insert", "typelibs"),
      ("register_internal", [], "g_hash_table_remove_all", "unknown_gtypes"),
      ("register_internal", [], "return", ""),
      ("g_irepository_load_typelib", ["if:get_registered_status(repository,namespace,nsversion,allow_lazy,&is_lazy,&version_conflict)"], "return", ""),
      ("g_irepository_load_typelib", ["if:version_conflict!=NULL"], "return", ""),
      ("g_irepository_load_typelib", ["if:is_lazy"], "g_hash_table_lookup", "lazy_typelibs"),
      ("g_irepository_load_typelib", [], "return", ""),
      ("g_irepository_find_by_gtype", [], "g_hash_table_lookup", "info_by_gtype"),
      ("g_irepository_find_by_gtype", ["if:cached!=NULL"], "return", ""),
      ("g_irepository_find_by_gtype", [], "cond:g_hash_table_contains", "unknown_gtypes"),
      ("g_irepository_find_by_gtype", ["if:g_hash_table_contains(repository->priv->unknown_gtypes,(gpointer)gtype)"], "return", ""),
      ("g_irepository_find_by_gtype", [], "find_by_gtype(TRUE)", "typelibs"),
      ("g_irepository_find_by_gtype", ["if:entry==NULL"], "find_by_gtype(TRUE)", "lazy_typelibs"),
      ("g_irepository_find_by_gtype", ["if:entry==NULL"], "find_by_gtype(FALSE)", "typelibs"),
      ("g_irepository_find_by_gtype", ["if:entry==NULL"], "find_by_gtype(FALSE)", "lazy_typelibs"),
      ("g_irepository_find_by_gtype", ["if:entry!=NULL"], "g_hash_table_insert", "info_by_gtype"),
      ("g_irepository_find_by_gtype", ["if:entry!=NULL"], "return", ""),
      ("g_irepository_find_by_gtype", ["else:entry!=NULL"], "g_hash_table_add", "unknown_gtypes"),
      ("g_irepository_find_by_gtype", ["else:entry!=NULL"], "return", ""),
      ("g_irepository_find_by_error_domain", [], "g_hash_table_lookup", "info_by_error_domain"),
      ("g_irepository_find_by_error_domain", ["if:cached!=NULL"], "return", ""),
      ("g_irepository_find_by_error_domain", [], "g_hash_table_foreach", "typelibs"),
      ("g_irepository_find_by_error_domain", ["if:data.result==NULL"], "g_hash_table_foreach", "lazy_typelibs"),
      ("g_irepository_find_by_error_domain", ["if:data.result!=NULL"], "g_hash_table_insert", "info_by_error_domain"),
      ("g_irepository_find_by_error_domain", ["if:data.result!=NULL"], "return", ""),
      ("g_irepository_find_by_error_domain", [], "return", ""),
      ("require_internal", ["if:typelib"], "return", ""),
      ("require_internal", ["if:version_conflict!=NULL"], "return", ""),
      ("require_internal", ["if:is_lazy"], "g_hash_table_lookup", "lazy_typelibs"),
      ("require_internal", ["if:is_lazy", "if:!register_internal(repository,g_irepository_get_typelib_path(repository,namespace),FALSE,typelib,error)"], "return", ""),
      ("require_internal", ["if:is_lazy"], "return", ""),
      ("require_internal", ["if:mfile==NULL"], "goto", ""),
      ("require_internal", ["if:!typelib"], "goto", ""),
      ("require_internal", ["if:strcmp(typelib_namespace,namespace)!=0"], "goto", ""),
      ("require_internal", ["if:strcmp(typelib_version,tmp_version)!=0"], "goto", ""),
      ("require_internal", ["if:!register_internal(repository,path,allow_lazy,typelib,error)"], "goto", ""),
      ("require_internal", [], "return", "")]
    ∧ registerClearsUnknown true = true ∧ registerClearsUnknown false = true
    ∧ transitionPromotes = true :=
  ⟨rfl, by decide, by decide, by decide⟩

/-- One call.  From a state satisfying the cache invariant, a call that respects `OpOk` never
    aborts, re-establishes the invariant, and its answer satisfies the agreement clause on the
    typelibs loaded when it was made. -/
theorem C14_step (s : Repo) (op : Op) (hi : Inv s) (hok : OpOk s op) :
    ∃ s' a, step s op = some (s', a) ∧ Inv s' ∧ AnswerOK s op a := by
  cases op with
  | findByGType g =>
    obtain ⟨h1, _, h3⟩ := step_findByGType s g hi
    exact ⟨_, _, rfl, h1, h3⟩
  | findByErrorDomain d =>
    obtain ⟨h1, _, h3⟩ := step_findByErrorDomain s d hi
    exact ⟨_, _, rfl, h1, h3⟩
  | findByName ns name => exact ⟨s, _, rfl, hi, step_findByName s ns name hi⟩
  | load t lazy pos =>
    cases h : loadOp s t lazy pos with
    | none => exact absurd h (loadOp_ne_none s t lazy pos)
    | some s' =>
      refine ⟨s', .null, by simp [step, h], step_load s s' t lazy pos hi h, trivial⟩
  | rehash e l => exact ⟨_, .null, rfl, step_rehash s e l hi hok, trivial⟩

/-- ALL histories.  Start from any state satisfying the invariant (the empty repository does) and
    make any sequence of find-by-gtype / find-by-error-domain / find-by-name calls, lazy and
    non-lazy loads (including lazy → loaded transitions) and hash-table reorderings (`Admissible`
    only says that a reordering is a permutation; it asks nothing of the caller).  Then no
    call aborts, and EVERY answer of the history agrees with the typelib-level lookups of the
    typelibs loaded at that moment: an info is a typelib-level answer of a loaded typelib, NULL
    means every loaded typelib answers NULL, and when the key is in at most one loaded typelib the
    answer equals the cache-free search — whatever was asked, cached or loaded before. -/
theorem C14_history (s : Repo) (ops : List Op) (hi : Inv s) (hadm : Admissible s ops) :
    (trace s ops).length = ops.length
    ∧ ∀ x ∈ trace s ops, Inv x.1 ∧ AnswerOK x.1 x.2.1 x.2.2 := by
  induction ops generalizing s with
  | nil => simp [trace]
  | cons op ops ih =>
    obtain ⟨hok, hrest⟩ := hadm
    obtain ⟨s', a, hs, hi', ha⟩ := C14_step s op hi hok
    obtain ⟨hlen, hall⟩ := ih s' hi' (hrest s' a hs)
    simp only [trace, hs, List.length_cons, hlen, List.mem_cons, true_and]
    rintro x (rfl | hx)
    · exact ⟨hi, ha⟩
    · exact hall x hx

/-- the empty repository satisfies the invariant -/
theorem C14_history_init : Inv {} := by
  refine ⟨?_, ?_, ?_, ?_⟩ <;> simp [Repo.loaded]

/-- C14_history for a process that starts with nothing loaded (`g_irepository_get_default ()`). -/
theorem C14_history_from_empty (ops : List Op) (hadm : Admissible {} ops) :
    (trace {} ops).length = ops.length ∧ ∀ x ∈ trace {} ops, AnswerOK x.1 x.2.1 x.2.2 :=
  ⟨(C14_history {} ops C14_history_init hadm).1,
   fun x hx => ((C14_history {} ops C14_history_init hadm).2 x hx).2⟩

/-- The cache-free searches themselves agree with the typelib-level lookups of the typelibs they
    are run on (this is what "agree" means for the right-hand side of C14_history). -/
theorem C14_spec_agrees (libs : List TL) (k : Str) :
    (∀ hit, specFindByGType libs k = .info hit →
        ∃ t ∈ libs, t.ns = hit.ns ∧ byGTypeName t.lib.dir k = .entry hit.idx hit.entry)
    ∧ (specFindByGType libs k = .null ↔ ∀ t ∈ libs, byGTypeName t.lib.dir k = .null)
    ∧ (∀ hit, specFindByErrorDomain libs k = .info hit →
        ∃ t ∈ libs, t.ns = hit.ns ∧ byErrorDomain t.lib.dir k = .entry hit.idx hit.entry)
    ∧ (specFindByErrorDomain libs k = .null ↔ ∀ t ∈ libs, byErrorDomain t.lib.dir k = .null) :=
  ⟨(spec_gtype_agrees libs k).1, (spec_gtype_agrees libs k).2,
   (spec_domain_agrees libs k).1, (spec_domain_agrees libs k).2⟩

/-- find-by-gtype / find-by-error-domain and find-by-name agree: the info answered for a GType
    (error domain) is the info find-by-name answers for that namespace and that entry's name, as
    soon as names find their own entries in every loaded typelib (C14_complete / C14_linear). -/
theorem C14_gtype_name_agree (s : Repo) (k : Str) (hi : Inv s) (hit : Hit)
    (hnc : ∀ t ∈ s.loaded, NameComplete t) :
    ((findByGTypeOp s k).2 = .info hit →
      findByNameOp (findByGTypeOp s k).1 hit.ns hit.entry.name = .info hit)
    ∧ ((findByErrorDomainOp s k).2 = .info hit →
      findByNameOp (findByErrorDomainOp s k).1 hit.ns hit.entry.name = .info hit) := by
  constructor
  · intro ha
    obtain ⟨hi', hl, hok⟩ := step_findByGType s k hi
    obtain ⟨t, ht, hns, hby⟩ := hok.1 hit ha
    have hloc := (((C14_gtype_domain t.lib.dir k).1 hit.idx hit.entry).mp hby).1
    have hname := hnc t ht hit.idx hit.entry hloc
    have hreg := getRegistered_of_mem (findByGTypeOp s k).1 hi'.nodup t (hl ▸ ht)
    unfold findByNameOp
    rw [← hns, hreg]
    simp only [hname, liftFound, hns]
  · intro ha
    obtain ⟨hi', hl, hok⟩ := step_findByErrorDomain s k hi
    obtain ⟨t, ht, hns, hby⟩ := hok.1 hit ha
    have hloc := (((C14_gtype_domain t.lib.dir k).2.1 hit.idx hit.entry).mp hby).1
    have hname := hnc t ht hit.idx hit.entry hloc
    have hreg := getRegistered_of_mem (findByErrorDomainOp s k).1 hi'.nodup t (hl ▸ ht)
    unfold findByNameOp
    rw [← hns, hreg]
    simp only [hname, liftFound, hns]

/-! concrete typelibs for the witnesses and examples of the history theorems -/

/-- the typelib of the replay of seeded change c14-b: record `Thing` is registered as GObject -/
def exLazyDir : Dir :=
  { entries := [⟨"Alpha".toList, true, 3, none, none⟩,
                ⟨"Thing".toList, true, 3, some "GObject".toList, none⟩,
                ⟨"Kind".toList, true, 5, none, some "lz-kind-quark".toList⟩,
                ⟨"Floating".toList, true, 3, some "GInitiallyUnowned".toList, none⟩],
    nLocal := 4 }

def exLazy : TL := { ns := "Lazy".toList, lib := ⟨exLazyDir, "Lz".toList⟩ }

/-- another typelib registered under the same namespace with nothing in it -/
def exLazyOther : TL := { ns := "Lazy".toList, lib := ⟨⟨[], 0⟩, "Lz".toList⟩ }

/-- a second namespace that also describes GObject -/
def exOther : TL :=
  { ns := "Other".toList, lib := ⟨⟨[⟨"Obj".toList, true, 7, some "GObject".toList, none⟩], 1⟩, "G".toList⟩ }

def exThing : Hit := ⟨"Lazy".toList, 1, ⟨"Thing".toList, true, 3, some "GObject".toList, none⟩⟩

/-- Why the clearing statement must be reached on BOTH branches of `register_internal`: with the
    statement inside the non-lazy branch (seeded change c14-b: `clears lazy = !lazy`), the history
    "ask for GObject (miss) — load lazily a typelib that describes GObject — ask again" answers
    NULL although the typelib-level lookup of the loaded typelib finds the entry. -/
theorem C14_unknown_clear_needed :
    ∃ s2, registerInternalWith (fun lazy => !lazy) (findByGTypeOp {} "GObject".toList).1 exLazy true 0 = some s2
      ∧ (findByGTypeOp s2 "GObject".toList).2 = .null
      ∧ exLazy ∈ s2.loaded
      ∧ byGTypeName exLazy.lib.dir "GObject".toList = .entry exThing.idx exThing.entry := by
  refine ⟨_, rfl, ?_, ?_, ?_⟩
  · decide
  · simp [Repo.loaded, insertAt, findByGTypeOp, lookupCache, searchGType, findByGTypeIn, orElse]
  · decide

/-- The lazy → loaded transition keeps the typelib that is loaded: loading ANOTHER typelib of the
    same namespace eagerly promotes the lazily loaded one (cf7a1a1), so the cached info stays
    justified and the history is admissible without any hypothesis on the caller. -/
theorem C14_transition_keeps_typelib :
    answers {} [.load exLazy true 0, .findByGType "GObject".toList, .load exLazyOther false 0,
                .findByGType "GObject".toList, .findByName "Lazy".toList "Thing".toList]
      = [.null, .info exThing, .null, .info exThing, .info exThing]
    ∧ (promoted {lazy := [exLazy]} exLazyOther).lib.dir = exLazy.lib.dir
    ∧ Admissible {} [.load exLazy true 0, .findByGType "GObject".toList, .load exLazyOther false 0,
                     .findByGType "GObject".toList] := by
  refine ⟨by decide, by decide, ?_⟩
  refine ⟨trivial, fun _ _ h => ?_⟩
  cases h
  refine ⟨trivial, fun _ _ h => ?_⟩
  cases h
  refine ⟨trivial, fun _ _ h => ?_⟩
  cases h
  exact ⟨trivial, fun _ _ _ => trivial⟩

/-- Why the promotion is needed: registering the OTHER typelib in place of the lazily loaded one
    (what `register_internal` was handed before cf7a1a1) leaves the positive cache answering from
    a typelib that is gone: no loaded typelib has the key. -/
theorem C14_promotion_needed :
    ∃ s1 s2, loadOp {} exLazy true 0 = some s1
      ∧ registerInternal (findByGTypeOp s1 "GObject".toList).1 exLazyOther false 0 = some s2
      ∧ (findByGTypeOp s2 "GObject".toList).2 = .info exThing
      ∧ ∀ t ∈ s2.loaded, byGTypeName t.lib.dir "GObject".toList = .null := by
  refine ⟨_, _, rfl, rfl, by decide, ?_⟩
  intro t ht
  have : t = exLazyOther := by
    have : t ∈ [exLazyOther] := ht
    simpa using this
  rw [this]
  decide

/-- Why equality with the cache-free search needs the key to be in at most one loaded typelib:
    GObject is cached from the lazily loaded namespace; after a second namespace that also describes
    GObject is loaded, the cache-free search would prefer the loaded table.  Both answers are
    typelib-level answers of loaded typelibs (that part of C14_history needs no uniqueness). -/
theorem C14_unique_needed :
    answers {} [.load exLazy true 0, .findByGType "GObject".toList, .load exOther false 0,
                .findByGType "GObject".toList] = [.null, .info exThing, .null, .info exThing]
    ∧ specFindByGType [exOther, exLazy] "GObject".toList
        = .info ⟨"Other".toList, 0, ⟨"Obj".toList, true, 7, some "GObject".toList, none⟩⟩ := by
  constructor <;> decide

/-! ### non-vacuity: concrete instances of the hypotheses and conclusions -/

section Examples

def exDir : Dir :=
  { entries := [⟨"K0".toList, true, 9, none, none⟩,
                ⟨"Rec".toList, true, 3, some "TRec".toList, none⟩,
                ⟨"Err".toList, true, 5, some "TErr".toList, some "t-err-quark".toList⟩,
                ⟨"Fl".toList, true, 6, none, some "t-fl-quark".toList⟩,
                ⟨"Base".toList, false, 0, none, none⟩],
    nLocal := 4 }

/-- a perfect hash on the four names (and an arbitrary large value elsewhere) -/
def exHash (s : Str) : Nat :=
  if s = "K0".toList then 2 else if s = "Rec".toList then 0 else if s = "Err".toList then 3
  else if s = "Fl".toList then 1 else 77

example : pack exHash (exDir.locals.map (·.name)) = some [1, 3, 0, 2] := by decide
example : (exDir.locals.map (·.name)).Nodup := by decide
example : ∀ a ∈ exDir.locals.map (·.name), ∀ b ∈ exDir.locals.map (·.name), exHash a = exHash b → a = b := by
  decide
example : byName exHash (some [1, 3, 0, 2]) exDir "Err".toList
    = .entry 2 ⟨"Err".toList, true, 5, some "TErr".toList, some "t-err-quark".toList⟩ := by decide
-- an absent name whose (clamped) hash lands on K0's slot is rejected by the final comparison
example : byName exHash (some [1, 3, 0, 2]) exDir "Erx".toList = .null := by decide
-- a non-local entry is not found by name although it is in the directory
example : byName exHash (some [1, 3, 0, 2]) exDir "Base".toList = .null
    ∧ byName exHash none exDir "Base".toList = .null := by decide
-- soundness needs no well-formed table: garbage tables give NULL or the right entry, or are detected
example : byName (fun _ => 1) (some [9, 4, 9]) exDir "Base".toList
    = .entry 4 ⟨"Base".toList, false, 0, none, none⟩ := by decide
example : byName (fun _ => 0) (some [9, 4, 9]) exDir "K0".toList = .oob := by decide
example : byName exHash none exDir "Fl".toList = .entry 3 ⟨"Fl".toList, true, 6, none, some "t-fl-quark".toList⟩ := by
  decide
example : byGTypeName exDir "TErr".toList
    = .entry 2 ⟨"Err".toList, true, 5, some "TErr".toList, some "t-err-quark".toList⟩ := by decide
example : byErrorDomain exDir "t-err-quark".toList
    = .entry 2 ⟨"Err".toList, true, 5, some "TErr".toList, some "t-err-quark".toList⟩ := by decide
-- a bitfield's error domain is not an error enumeration
example : byErrorDomain exDir "t-fl-quark".toList = .null := by decide
example : ∃ e ∈ exDir.locals, hasGTypeNameField e.blobType = true ∧ e.gtypeName = some "TRec".toList := by decide
example : findByGType [⟨exDir, "T".toList⟩] "TRec".toList
    = .entry 0 1 ⟨"Rec".toList, true, 3, some "TRec".toList, none⟩ := by decide
-- found by the second pass although the C prefix does not match
example : matchesGTypePrefix "Gdk".toList "TRec".toList = false
    ∧ findByGType [⟨exDir, "Gdk".toList⟩] "TRec".toList
      = .entry 0 1 ⟨"Rec".toList, true, 3, some "TRec".toList, none⟩ := by decide
example : matchesGTypePrefix "Gdk".toList "GdkX11Cursor".toList = true
    ∧ matchesGTypePrefix "G".toList "GdkX11Cursor".toList = false := by decide
example : splitChar ',' "T,,Tst,".toList [] = ["T".toList, [], "Tst".toList, []] := by decide
example : ["T".toList, [], "Tst".toList, []].Pairwise (fun a b => a ≠ [] → b ≠ [] → a.length ≤ b.length) := by
  decide
-- sizes: 30000 entries with the measured hash size need 17 bits; 16 bits trip the assertion
example : packedSize 10557 30000 = 70564 ∧ sectionSizeNow 10557 30000 = 70564
    ∧ packAssertOk 16 10557 30000 = false ∧ packAssertOk 32 10557 30000 = true := by decide
example : packedSize 29 5 = 46 ∧ sectionSizeNow 29 5 = 48 := by decide

/-- The history of seeded change c14-b on the CURRENT source: ask (miss), load lazily, ask again:
    the second answer is the entry; so are find-by-name and the error domain. -/
example :
    answers {} [.findByGType "GObject".toList, .load exLazy true 0, .findByGType "GObject".toList,
                .findByName "Lazy".toList "Thing".toList, .findByErrorDomain "lz-kind-quark".toList,
                .load exLazy false 0, .findByGType "GObject".toList, .findByGType "GBinding".toList]
      = [.null, .null, .info exThing, .info exThing,
         .info ⟨"Lazy".toList, 2, ⟨"Kind".toList, true, 5, none, some "lz-kind-quark".toList⟩⟩,
         .null, .info exThing, .null] := by
  decide

example : Admissible {} [.findByGType "GObject".toList, .load exLazy true 0, .findByGType "GObject".toList,
    .load exLazy false 0, .rehash [exLazy] [], .findByGType "GObject".toList] := by
  refine ⟨trivial, fun _ _ h => ?_⟩
  cases h
  refine ⟨trivial, fun _ _ h => ?_⟩
  cases h
  refine ⟨trivial, fun _ _ h => ?_⟩
  cases h
  refine ⟨trivial, fun _ _ h => ?_⟩
  cases h
  refine ⟨⟨List.Perm.refl _, List.Perm.refl _⟩, fun _ _ h => ?_⟩
  cases h
  exact ⟨trivial, fun _ _ _ => trivial⟩

-- names find their own entries in the example typelib (hypothesis of C14_gtype_name_agree)
example : NameComplete exLazy := by
  intro i e h
  rcases i with _ | _ | _ | _ | i
  all_goals simp [exLazy, exLazyDir, Dir.locals] at h
  all_goals subst h
  all_goals decide

example : (findByGTypeOp {lazy := [exLazy]} "GObject".toList).2 = .info exThing
    ∧ findByNameOp (findByGTypeOp {lazy := [exLazy]} "GObject".toList).1 exThing.ns exThing.entry.name = .info exThing := by
  decide

end Examples

end GIVerif.Lookup
