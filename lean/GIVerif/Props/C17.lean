/-
  C17 — Requiring a namespace loads the right typelib version and its dependencies.
  ONLY property theorems and non-vacuity examples live here; the executable model is
  GIVerif/Model/Repo.lean, the specs GIVerif/Spec/Repo.lean, helper lemmas GIVerif/Lemmas/Repo.lean.

  Hypotheses beyond the property's own wording (each is a region where the real code was run):
  * `C17_version_order`: components below 2^31 (parse_version stores strtol's long in an int).
  * `C17_exact`: the namespace is not "GIRepository" (special-cased by the library: only 2.0 is ever
    looked for); the namespace is not registered yet (`C17_conflict_mismatch` covers the rest).
  * `C17_latest`: "directory index" counts the directories of the path that exist; a file counts as a
    version of `ns` when `entryVersion` accepts its name (`C17_candidate_names`: for `ns-v.typelib`
    with no '-' in `v` that is "parse_version accepts v"); every *.typelib file is a valid typelib.
  * `C17_inv` / `C17_require_loaded` / `C17_load_loaded`: acyclic dependencies only — `Ranked` (no namespace
    depends on itself through the dependencies recorded in the files), `LazyRanked` (the same for the typelibs
    that are lazily loaded in the start state; empty for the initial state) and `Guarded` (the same for the
    typelibs a history loads from memory).  Cycles are invalid input: the C code recurses without bound.
    Histories are otherwise arbitrary.
  * `C17_dependencies_exact`: the loaded typelibs are acyclic, every recorded dependency of a registered typelib
    is registered (true under the invariant when nothing is lazily loaded: `C17_deps_known`), and the model's
    recursion bound exceeds the rank of the namespace (the C code has no bound).
  * `C17_private_dir`: as `C17_exact`.
  * `C17_conflict_mismatch`: none (the statement's sentence in full).
-/
import GIVerif.Lemmas.Repo

namespace GIVerif.Repo
open GIVerif.Py

/-- The literals and the order of decisions in girepository.c / girepository.h are those the model
    was written for (re-extracted from /repo on every run; `decide` over the generated table). -/
theorem C17_source_shape :
    Gen.Repo.errorEnumerators.take 3 = ["G_IREPOSITORY_ERROR_TYPELIB_NOT_FOUND",
      "G_IREPOSITORY_ERROR_NAMESPACE_MISMATCH", "G_IREPOSITORY_ERROR_NAMESPACE_VERSION_CONFLICT"]
    ∧ Gen.Repo.typelibSuffix.toList = typelibSuffix
    ∧ Gen.Repo.exactFileFormat = "%s-%s.typelib"
    ∧ Gen.Repo.nsDashFormat = "%s-"
    ∧ Gen.Repo.versionSplit = (".", "-", "last_dash+1, name_end-(last_dash+1)")
    ∧ Gen.Repo.depSplitChars = ["-", "-"]
    ∧ Gen.Repo.depSeparator = "|"
    ∧ Gen.Repo.builtinSource.toList = builtinSource
    ∧ Gen.Repo.searchPathSubdir = "girepository-1.0"
    ∧ Gen.Repo.envVar = "GI_TYPELIB_PATH"
    ∧ Gen.Repo.selfName.toList = selfName ∧ Gen.Repo.selfVersion.toList = selfVersion
    ∧ Gen.Repo.repoShape =
      ["status", "return-registered", "conflict", "promote-lazy", "explicit", "tmp-version-requested", "latest",
       "notfound", "ns-check", "version-check-name", "register", "eager-first", "eager-check", "lazy-second",
       "not-lazy-conflict-null", "lazy-check",
       "cmp:v1_major>v2_major:1;v2_major>v1_major:-1;v1_minor>v2_minor:1;v2_minor>v1_minor:-1",
       "cand:result > 0;result < 0;c1->path_index == c2->path_index;c1->path_index > c2->path_index",
       "prepend:g_slist_prepend", "init:g_slist_prepend,g_slist_prepend,g_slist_reverse", "sort:g_slist_sort",
       "dep-require:dependency_version", "load:status,conflict,promote-lazy,register",
       "transition:deps-first,lookup-lazy-key,steal,else-build-key,insert-eager"] := by
  decide

/-! ### version order -/

def ordToInt : Ordering → Int
  | .lt => -1
  | .eq => 0
  | .gt => 1

/-- `compare_version "a.b" "c.d"` is the lexicographic comparison of (a, b) with (c, d) as NUMBERS
    (so 1.10 > 1.9), for all naturals below 2^31. -/
theorem C17_version_order (a b c d : Nat) (ha : a < 2147483648) (hb : b < 2147483648)
    (hc : c < 2147483648) (hd : d < 2147483648) :
    compareVersion (dotted a b) (dotted c d) = some (ordToInt ((compare a c).then (compare b d))) := by
  unfold compareVersion
  rw [parseVersion_dotted a b ha hb, parseVersion_dotted c d hc hd]
  simp only [cmpPair, Option.some.injEq]
  rcases Nat.lt_trichotomy a c with h | h | h
  · have : ¬ ((a : Int) > c) := by omega
    have h2 : (c : Int) > a := by omega
    simp [this, h2, Nat.compare_eq_lt.mpr h, Ordering.then, ordToInt]
  · subst h
    rcases Nat.lt_trichotomy b d with h | h | h
    · have : ¬ ((b : Int) > d) := by omega
      have h2 : (d : Int) > b := by omega
      simp [this, h2, Nat.compare_eq_lt.mpr h, Ordering.then, ordToInt]
    · subst h; simp [Ordering.then, ordToInt]
    · have : (b : Int) > d := by omega
      simp [this, Nat.compare_eq_gt.mpr h, Ordering.then, ordToInt]
  · have : (a : Int) > c := by omega
    simp [this, Nat.compare_eq_gt.mpr h, Ordering.then, ordToInt]

/-- The same for any digit strings (leading zeros allowed: 1.010 = 1.10). -/
theorem C17_version_digits (d1 d2 : Str) (h1 : d1 ≠ []) (h2 : d2 ≠ []) (a1 : AllDigits d1)
    (a2 : AllDigits d2) (b1 : digitsVal d1 < 2147483648) (b2 : digitsVal d2 < 2147483648) :
    parseVersion (d1 ++ '.' :: d2) = some ((digitsVal d1 : Int), (digitsVal d2 : Int)) :=
  parseVersion_digits d1 d2 h1 h2 a1 a2 b1 b2

/-- On parseable strings `compare_version` is a total preorder: defined, antisymmetric in sign,
    transitive, and 0 exactly for equal (major, minor). -/
theorem C17_version_preorder (v1 v2 v3 : Str) (p1 : (parseVersion v1).isSome) (p2 : (parseVersion v2).isSome)
    (p3 : (parseVersion v3).isSome) :
    (∃ r, compareVersion v1 v2 = some r ∧ compareVersion v2 v1 = some (-r)) ∧
    (∀ r s, compareVersion v1 v2 = some r → compareVersion v2 v3 = some s → r ≤ 0 → s ≤ 0 →
       ∃ t, compareVersion v1 v3 = some t ∧ t ≤ 0) ∧
    (compareVersion v1 v2 = some 0 ↔ parseVersion v1 = parseVersion v2) := by
  obtain ⟨a, ha⟩ := Option.isSome_iff_exists.mp p1
  obtain ⟨b, hb⟩ := Option.isSome_iff_exists.mp p2
  obtain ⟨c, hc⟩ := Option.isSome_iff_exists.mp p3
  simp only [compareVersion, ha, hb, hc, Option.some.injEq]
  refine ⟨⟨cmpPair a b, rfl, cmpPair_antisymm a b⟩, ?_, ?_⟩
  · intro r s hr hs h1 h2
    subst hr; subst hs
    exact ⟨_, rfl, cmpPair_trans a b c h1 h2⟩
  · exact cmpPair_eq_zero a b

/-! ### search path -/

/-- After ANY history the search path is: the prepended directories, the latest first, then the
    entries of GI_TYPELIB_PATH in order, then the default directory. -/
theorem C17_prepend (fs : FS) (fuel : Nat) (env : Option Str) (libdir : Str) (ops : List Op) :
    (run fs fuel (Repo.init (initSearchPath env libdir)) ops).searchPath
      = (prepends ops).reverse ++ initSearchPath env libdir :=
  run_path fs fuel ops _

/-! ### exact version -/

/-- Requiring `ns` at version `v` (not registered yet): the file `ns-v.typelib` of the FIRST
    directory of the path that has it is taken — no other file, no other version; no directory has
    it ⇒ NotFound with the state unchanged; header ≠ file name ⇒ NamespaceMismatch with both tables
    unchanged; otherwise the file is registered (with its dependencies) under its path; and a
    successful call always returns a typelib of namespace `ns`, version `v`. -/
theorem C17_exact (fs : FS) (fuel : Nat) (s : Repo) (ns v : Str) (lazy : Bool) (path : List Str)
    (hns : ns ≠ selfName) (hst : getRegisteredStatus s ns (some v) lazy = .absent none) :
    (findVersion fs ns v path = none →
      (∀ d ∈ path, ¬ DirHas fs d (exactFileName ns v)) ∧
      requireInternal fs (fuel + 1) s ns (some v) lazy path = (s, .error .notFound)) ∧
    (∀ f, findVersion fs ns v path = some f →
      FirstWith fs (exactFileName ns v) path f ∧
      ((f.hdr.ns ≠ ns ∨ f.hdr.ver ≠ v) →
        (requireInternal fs (fuel + 1) s ns (some v) lazy path).2 = .error .mismatch ∧
        (requireInternal fs (fuel + 1) s ns (some v) lazy path).1.typelibs = s.typelibs ∧
        (requireInternal fs (fuel + 1) s ns (some v) lazy path).1.lazy = s.lazy) ∧
      ((f.hdr.ns = ns ∧ f.hdr.ver = v) →
        requireInternal fs (fuel + 1) s ns (some v) lazy path =
          registerInternalWith (fun s' dn dv => requireInternal fs fuel s' dn (some dv) false s'.searchPath)
            { s with nextId := s.nextId + 1 } f.path lazy ⟨s.nextId, f.hdr⟩)) ∧
    (∀ tl, (requireInternal fs (fuel + 1) s ns (some v) lazy path).2 = .ok tl →
      tl.hdr.ns = ns ∧ tl.hdr.ver = v) := by
  have hself : (ns == selfName && v != selfVersion) = false := by simp [hns]
  refine ⟨?_, ?_, ?_⟩
  · intro hf
    refine ⟨?_, ?_⟩
    · have : findInDirs fs (exactFileName ns v) path = none := by
        simpa [findVersion, hself] using hf
      exact findInDirs_none fs _ path this
    · simp [requireInternal, hst, findFile, hf]
  · intro f hf
    refine ⟨findVersion_first hf, ?_, ?_⟩
    · intro hne
      simp only [requireInternal, hst, findFile, hf, Option.map_some]
      by_cases h1 : f.hdr.ns = ns
      · have h2 : f.hdr.ver ≠ v := hne.resolve_left (fun h => h h1)
        simp [h1, h2]
      · simp [h1]
    · rintro ⟨h1, h2⟩
      simp [requireInternal, hst, findFile, hf, h1, h2]
  · intro tl htl
    simp only [requireInternal, hst, findFile] at htl
    cases hf : findVersion fs ns v path with
    | none => simp [hf] at htl
    | some f =>
      simp only [hf, Option.map_some] at htl
      split_ifs at htl with h1 h2
      have e := register_ok_eq _ _ _ _ _ htl
      subst e
      refine ⟨by simpa using h1, by simpa using h2⟩

/-! ### latest version -/

/-- Requiring `ns` without a version (not registered yet): no file counts as a version of `ns` ⇔
    nothing is elected, and then the call fails with NotFound and the state is unchanged; otherwise
    the elected file is maximal in (major, minor) among ALL files that count, and among the maximal
    ones it lies in the earliest directory (`Elected`); a header naming another namespace, or another
    version than the file name, ⇒ NamespaceMismatch with both tables unchanged; else that file is
    registered under its path. -/
theorem C17_latest (fs : FS) (fuel : Nat) (s : Repo) (ns : Str) (lazy : Bool) (path : List Str)
    (hst : getRegisteredStatus s ns none lazy = .absent none) :
    (findLatest fs ns path = none ↔ allMatches fs ns path = []) ∧
    (allMatches fs ns path = [] →
      requireInternal fs (fuel + 1) s ns none lazy path = (s, .error .notFound)) ∧
    (∀ c, findLatest fs ns path = some c →
      Elected fs ns path c ∧ FileAt fs c.path c.hdr ∧
      ((c.hdr.ns ≠ ns ∨ c.hdr.ver ≠ c.version) →
        (requireInternal fs (fuel + 1) s ns none lazy path).2 = .error .mismatch ∧
        (requireInternal fs (fuel + 1) s ns none lazy path).1.typelibs = s.typelibs ∧
        (requireInternal fs (fuel + 1) s ns none lazy path).1.lazy = s.lazy) ∧
      ((c.hdr.ns = ns ∧ c.hdr.ver = c.version) →
        requireInternal fs (fuel + 1) s ns none lazy path =
          registerInternalWith (fun s' dn dv => requireInternal fs fuel s' dn (some dv) false s'.searchPath)
            { s with nextId := s.nextId + 1 } c.path lazy ⟨s.nextId, c.hdr⟩)) := by
  refine ⟨findLatest_none_iff fs ns path, ?_, ?_⟩
  · intro hm
    have := (findLatest_none_iff fs ns path).mpr hm
    simp [requireInternal, hst, findFile, this]
  · intro c hc
    have hel := findLatest_elected fs ns path c hc
    refine ⟨hel, matches_fileAt fs ns path 0 c hel.1, ?_, ?_⟩
    · intro hne
      simp only [requireInternal, hst, findFile, hc, Option.map_some]
      by_cases h1 : c.hdr.ns = ns
      · have h2 : c.hdr.ver ≠ c.version := hne.resolve_left (fun h => h h1)
        simp [h1, h2]
      · simp [h1]
    · rintro ⟨h1, h2⟩
      simp [requireInternal, hst, findFile, hc, h1, h2]

/-- Which files count: for a file named `ns-v.typelib` whose version part has no '-', exactly
    when `parse_version` accepts `v` (and then the version string recorded is `v`). -/
theorem C17_candidate_names (ns v : Str) (hns : ns ≠ selfName) (hv : '-' ∉ v) :
    entryVersion ns (exactFileName ns v) = if (parseVersion v).isSome then some v else none := by
  have hs : typelibSuffix = ['.', 't', 'y', 'p', 'e', 'l', 'i', 'b'] := by decide
  have hrev : (exactFileName ns v).reverse
      = ['b', 'i', 'l', 'e', 'p', 'y', 't'] ++ '.' :: (v.reverse ++ '-' :: ns.reverse) := by
    simp [exactFileName, hs]
  have hver : versionOfEntry (exactFileName ns v) = v := by
    unfold versionOfEntry
    rw [hrev]
    have h1 : (['b', 'i', 'l', 'e', 'p', 'y', 't'] ++ '.' :: (v.reverse ++ '-' :: ns.reverse)).dropWhile (· ≠ '.')
        = '.' :: (v.reverse ++ '-' :: ns.reverse) := by
      simp [List.dropWhile]
    rw [h1]
    simp only [List.drop_succ_cons, List.drop_zero]
    rw [List.takeWhile_append_of_pos (by intro c hc; simp; rintro rfl; exact hv (by simpa using hc))]
    simp [List.takeWhile]
  have hend : endsWith (exactFileName ns v) typelibSuffix = true := by
    unfold endsWith
    rw [hrev, hs]
    simp
  have hstart : startsWith (exactFileName ns v) (ns ++ ['-']) = true := by
    simp [startsWith, exactFileName]
  have hself : (ns == selfName) = false := by simp [hns]
  simp only [entryVersion, hend, hstart, hself, hver, Bool.not_true, Bool.false_eq_true, if_false,
    Bool.false_and]

/-! ### conflicts and mismatches -/

/-- The statement's conflict / mismatch sentence in full.  Already registered — eagerly OR lazily,
    whatever the flags of this call — at another version ⇒ VersionConflict and the state unchanged.
    Registered at an agreeing version (or no version asked) ⇒ it is returned: the SAME typelib and the
    state unchanged when it is eagerly loaded, or lazily loaded and the LAZY flag is given; a lazily
    loaded one required WITHOUT the LAZY flag is promoted — `register_internal` on the typelib that is
    there (its dependencies get loaded, it moves to the eager table under its source), no file is
    searched, and success returns that same typelib.  Not registered and the header differs from the
    file name ⇒ NamespaceMismatch and nothing registered: namespace or version, for an explicit
    version as for the elected latest file.  Load-from-memory: registered at another version ⇒
    VersionConflict, at this version ⇒ the registered typelib (lazily loaded and no LAZY flag: that
    typelib is promoted), the typelib passed in is not registered in either case. -/
theorem C17_conflict_mismatch (fs : FS) (fuel : Nat) (s : Repo) (ns : Str) (lazy : Bool)
    (path : List Str) :
    (∀ l v, lookupTbl s.typelibs ns = some l → l.tl.hdr.ver ≠ v →
      requireInternal fs (fuel + 1) s ns (some v) lazy path = (s, .error .versionConflict)) ∧
    (∀ l ver, lookupTbl s.typelibs ns = some l → (∀ v, ver = some v → l.tl.hdr.ver = v) →
      requireInternal fs (fuel + 1) s ns ver lazy path = (s, .ok l.tl)) ∧
    (∀ l v, lookupTbl s.typelibs ns = none → lookupTbl s.lazy ns = some l → l.tl.hdr.ver ≠ v →
      requireInternal fs (fuel + 1) s ns (some v) lazy path = (s, .error .versionConflict)) ∧
    (∀ l ver, lookupTbl s.typelibs ns = none → lookupTbl s.lazy ns = some l →
      (∀ v, ver = some v → l.tl.hdr.ver = v) →
      requireInternal fs (fuel + 1) s ns ver true path = (s, .ok l.tl) ∧
      requireInternal fs (fuel + 1) s ns ver false path =
        registerInternalWith (fun s' dn dv => requireInternal fs fuel s' dn (some dv) false s'.searchPath)
          s l.source false l.tl ∧
      (∀ t, (requireInternal fs (fuel + 1) s ns ver false path).2 = .ok t → t = l.tl)) ∧
    (∀ v f, getRegisteredStatus s ns (some v) lazy = .absent none → findVersion fs ns v path = some f →
      (f.hdr.ns ≠ ns ∨ f.hdr.ver ≠ v) →
      (requireInternal fs (fuel + 1) s ns (some v) lazy path).2 = .error .mismatch ∧
      (requireInternal fs (fuel + 1) s ns (some v) lazy path).1.typelibs = s.typelibs ∧
      (requireInternal fs (fuel + 1) s ns (some v) lazy path).1.lazy = s.lazy) ∧
    (∀ c, getRegisteredStatus s ns none lazy = .absent none → findLatest fs ns path = some c →
      (c.hdr.ns ≠ ns ∨ c.hdr.ver ≠ c.version) →
      (requireInternal fs (fuel + 1) s ns none lazy path).2 = .error .mismatch ∧
      (requireInternal fs (fuel + 1) s ns none lazy path).1.typelibs = s.typelibs ∧
      (requireInternal fs (fuel + 1) s ns none lazy path).1.lazy = s.lazy) ∧
    (∀ (hdr : Hdr) l, (lookupTbl s.typelibs hdr.ns = some l ∨
        (lookupTbl s.typelibs hdr.ns = none ∧ lookupTbl s.lazy hdr.ns = some l)) → l.tl.hdr.ver ≠ hdr.ver →
      loadTypelib fs fuel s hdr lazy = ({ s with nextId := s.nextId + 1 }, .error .versionConflict)) ∧
    (∀ (hdr : Hdr) t, getRegisteredStatus s hdr.ns (some hdr.ver) lazy = .found t →
      loadTypelib fs fuel s hdr lazy = ({ s with nextId := s.nextId + 1 }, .ok t)) ∧
    (∀ (hdr : Hdr) l, getRegisteredStatus s hdr.ns (some hdr.ver) lazy = .absent (some l) →
      loadTypelib fs fuel s hdr lazy =
        registerInternalWith (fun s' dn dv => requireInternal fs fuel s' dn (some dv) false s'.searchPath)
          { s with nextId := s.nextId + 1 } builtinSource lazy l.tl) := by
  have hsame : ∀ hdr : Hdr, getRegisteredStatus { s with nextId := s.nextId + 1 } hdr.ns (some hdr.ver) lazy
      = getRegisteredStatus s hdr.ns (some hdr.ver) lazy := fun _ => rfl
  have hconfE : ∀ (n : Str) l v (lz : Bool), lookupTbl s.typelibs n = some l → l.tl.hdr.ver ≠ v →
      getRegisteredStatus s n (some v) lz = .conflict l.tl.hdr.ver := by
    intro n l v lz hl hne
    simp [getRegisteredStatus, hl, checkVersionConflict, Ne.symm hne]
  have hconfL : ∀ (n : Str) l v (lz : Bool), lookupTbl s.typelibs n = none → lookupTbl s.lazy n = some l →
      l.tl.hdr.ver ≠ v → getRegisteredStatus s n (some v) lz = .conflict l.tl.hdr.ver := by
    intro n l v lz hE hL hne
    cases lz <;> simp [getRegisteredStatus, hE, hL, checkVersionConflict, Ne.symm hne]
  refine ⟨?_, ?_, ?_, ?_, ?_, ?_, ?_, ?_, ?_⟩
  · intro l v hl hne
    simp [requireInternal, hconfE ns l v lazy hl hne]
  · intro l ver hl hv
    have : getRegisteredStatus s ns ver lazy = .found l.tl := by
      cases ver with
      | none => simp [getRegisteredStatus, hl, checkVersionConflict]
      | some v => simp [getRegisteredStatus, hl, checkVersionConflict, (hv v rfl).symm]
    simp [requireInternal, this]
  · intro l v hE hL hne
    simp [requireInternal, hconfL ns l v lazy hE hL hne]
  · intro l ver hE hL hv
    have h1 : getRegisteredStatus s ns ver true = .found l.tl := by
      cases ver with
      | none => simp [getRegisteredStatus, hE, hL, checkVersionConflict]
      | some v => simp [getRegisteredStatus, hE, hL, checkVersionConflict, (hv v rfl).symm]
    have h2 : getRegisteredStatus s ns ver false = .absent (some l) := by
      cases ver with
      | none => simp [getRegisteredStatus, hE, hL, checkVersionConflict]
      | some v => simp [getRegisteredStatus, hE, hL, checkVersionConflict, (hv v rfl).symm]
    have h3 : requireInternal fs (fuel + 1) s ns ver false path =
        registerInternalWith (fun s' dn dv => requireInternal fs fuel s' dn (some dv) false s'.searchPath)
          s l.source false l.tl := by
      simp [requireInternal, h2]
    refine ⟨by simp [requireInternal, h1], h3, ?_⟩
    intro t ht
    rw [h3] at ht
    exact register_ok_eq _ _ _ _ _ ht
  · intro v f hst hf hne
    simp only [requireInternal, hst, findFile, hf, Option.map_some]
    by_cases h1 : f.hdr.ns = ns
    · have h2 : f.hdr.ver ≠ v := hne.resolve_left (fun h => h h1)
      simp [h1, h2]
    · simp [h1]
  · intro c hst hc hne
    simp only [requireInternal, hst, findFile, hc, Option.map_some]
    by_cases h1 : c.hdr.ns = ns
    · have h2 : c.hdr.ver ≠ c.version := hne.resolve_left (fun h => h h1)
      simp [h1, h2]
    · simp [h1]
  · intro hdr l hl hne
    have hc : getRegisteredStatus s hdr.ns (some hdr.ver) lazy = .conflict l.tl.hdr.ver := by
      rcases hl with hl | ⟨hE, hL⟩
      · exact hconfE hdr.ns l hdr.ver lazy hl hne
      · exact hconfL hdr.ns l hdr.ver lazy hE hL hne
    simp only [loadTypelib, hsame, hc]
  · intro hdr t hf
    simp only [loadTypelib, hsame, hf]
  · intro hdr l ha
    simp only [loadTypelib, hsame, ha]

/-! ### invariants over all histories -/

/-- Over ALL histories of prepend / require / require_private / load-from-memory / queries (by
    induction over the call list), started from any state satisfying the invariant: one entry, hence
    one version, per namespace in each table; the lazy and the eager table are disjoint; every
    recorded dependency of an eagerly loaded namespace is loaded at the recorded version; the source
    reported for an entry is "<builtin>" or a file that exists and holds exactly that header.
    Lazy → eager transitions included: the typelib that is there moves to the eager table under its
    source, its dependencies having been loaded first.
    Hypotheses: acyclic dependencies only (see the header). -/
theorem C17_inv (fs : FS) (fuel : Nat) (rank : Str → Nat) (s : Repo) (ops : List Op)
    (hr : Ranked fs rank) (hinv : Inv fs s) (hlz : LazyRanked rank s) (hg : Guarded fs fuel rank s ops) :
    Inv fs (run fs fuel s ops) :=
  (run_inv hr fuel ops s hinv hlz hg).1

/-- the initial state satisfies the invariant -/
theorem C17_inv_init (fs : FS) (path : List Str) : Inv fs (Repo.init path) :=
  ⟨by simp [Repo.init], by simp [Repo.init], (by intro l hl; cases hl), (by intro l hl; cases hl),
   (by intro l hl; cases hl)⟩

/-- …hence after every history a process can run (the repository starts empty). -/
theorem C17_inv_from_init (fs : FS) (fuel : Nat) (rank : Str → Nat) (path : List Str) (ops : List Op)
    (hr : Ranked fs rank) (hg : Guarded fs fuel rank (Repo.init path) ops) :
    Inv fs (run fs fuel (Repo.init path) ops) :=
  C17_inv fs fuel rank _ ops hr (C17_inv_init fs path) (by intro l hl; cases hl) hg

/-- What the queries report is what is stored: under the invariant, for the entry `l` of namespace
    `ns` (unique), version / path / immediate dependencies are those of `l`, whose source is
    "<builtin>" or an existing file holding exactly `l`'s header; the namespace is listed once. -/
theorem C17_reports (fs : FS) (s : Repo) (l : Loaded) (hinv : Inv fs s) (hl : l ∈ s.typelibs ++ s.lazy) :
    getVersion s l.ns = some l.tl.hdr.ver ∧ getTypelibPath s l.ns = some l.source ∧
    getImmediateDependencies s l.ns = some l.tl.hdr.deps ∧
    (l.source = builtinSource ∨ FileAt fs l.source l.tl.hdr) ∧
    (∀ l' ∈ s.typelibs ++ s.lazy, l'.ns = l.ns → l' = l) ∧
    l.ns ∈ getLoadedNamespaces s ∧ (getLoadedNamespaces s).Nodup := by
  have hreg : getRegistered s l.ns = some l.tl ∧ getTypelibPath s l.ns = some l.source ∧
      (∀ l' ∈ s.typelibs ++ s.lazy, l'.ns = l.ns → l' = l) := by
    rcases List.mem_append.mp hl with h | h
    · have hk := lookupTbl_of_mem s.typelibs l h hinv.nodupE
      refine ⟨by simp [getRegistered, getRegisteredStatus, hk, checkVersionConflict],
        by simp [getTypelibPath, hk], ?_⟩
      intro l' hl' hn
      rcases List.mem_append.mp hl' with h' | h'
      · have := lookupTbl_of_mem s.typelibs l' h' hinv.nodupE
        rw [hn, hk] at this; exact (Option.some.inj this).symm
      · exact absurd hn.symm (hinv.disj l h l' h')
    · have hk := lookupTbl_of_mem s.lazy l h hinv.nodupL
      have hE : lookupTbl s.typelibs l.ns = none :=
        lookupTbl_none.mpr (fun x hx => hinv.disj x hx l h)
      refine ⟨by simp [getRegistered, getRegisteredStatus, hk, hE, checkVersionConflict],
        by simp [getTypelibPath, hk, hE], ?_⟩
      intro l' hl' hn
      rcases List.mem_append.mp hl' with h' | h'
      · exact absurd hn (hinv.disj l' h' l h)
      · have := lookupTbl_of_mem s.lazy l' h' hinv.nodupL
        rw [hn, hk] at this; exact (Option.some.inj this).symm
  refine ⟨by simp [getVersion, hreg.1], hreg.2.1, by simp [getImmediateDependencies, hreg.1],
    hinv.paths l hl, hreg.2.2, ?_, ?_⟩
  rotate_left
  have hnd : (getLoadedNamespaces s).Nodup := by
    unfold getLoadedNamespaces
    rw [List.nodup_append]
    refine ⟨hinv.nodupE, hinv.nodupL, ?_⟩
    intro a ha b hb
    obtain ⟨x, hx, rfl⟩ := List.mem_map.mp ha
    obtain ⟨y, hy, rfl⟩ := List.mem_map.mp hb
    exact hinv.disj x hx y hy
  · exact hnd
  · unfold getLoadedNamespaces
    rw [← List.map_append]
    exact List.mem_map_of_mem hl

/-- A successful EAGER require — of a namespace that was not registered, was registered eagerly, or
    was registered LAZILY (the lazy → eager transition) — under the invariant: afterwards the invariant
    holds again, nothing that was loaded eagerly is lost, and the namespace is loaded eagerly: not in
    the lazy table any more, its reported version is that of the returned typelib (the required one
    when a version was given), its reported dependencies are the recorded ones and each of them is
    loaded at the recorded version, and the reported path is "<builtin>" or a file that exists and
    holds exactly the header of the returned typelib. -/
theorem C17_require_loaded (fs : FS) (fuel : Nat) (rank : Str → Nat) (s : Repo) (ns : Str) (ver : Option Str)
    (path : List Str) (hr : Ranked fs rank) (hinv : Inv fs s) (hlz : LazyRanked rank s) :
    Inv fs (requireInternal fs fuel s ns ver false path).1 ∧
    (∀ l ∈ s.typelibs, l ∈ (requireInternal fs fuel s ns ver false path).1.typelibs) ∧
    (∀ tl, (requireInternal fs fuel s ns ver false path).2 = .ok tl →
      tl.hdr.ns = ns ∧ (∀ v, ver = some v → tl.hdr.ver = v) ∧
      lookupTbl (requireInternal fs fuel s ns ver false path).1.lazy ns = none ∧
      getVersion (requireInternal fs fuel s ns ver false path).1 ns = some tl.hdr.ver ∧
      getImmediateDependencies (requireInternal fs fuel s ns ver false path).1 ns = some tl.hdr.deps ∧
      (∀ d ∈ tl.hdr.deps, DepLoaded (requireInternal fs fuel s ns ver false path).1 d) ∧
      (∃ p, getTypelibPath (requireInternal fs fuel s ns ver false path).1 ns = some p ∧
        (p = builtinSource ∨ FileAt fs p tl.hdr))) := by
  obtain ⟨hp, hok⟩ := require_post hr fuel s ns ver false path hinv hlz
  refine ⟨hp.inv, hp.ext, ?_⟩
  intro tl htl
  obtain ⟨h1, h2, h3⟩ := hok tl htl
  obtain ⟨l, hl, hlt⟩ := h3 rfl
  have hln : l.ns = ns := by unfold Loaded.ns; rw [hlt]; exact h1
  have hrep := C17_reports fs _ l hp.inv (List.mem_append_left _ hl)
  rw [hln, hlt] at hrep
  refine ⟨h1, h2, ?_, hrep.1, hrep.2.2.1, ?_, l.source, hrep.2.1, hrep.2.2.2.1⟩
  · exact lookupTbl_none.mpr (fun l' hl' heq => hp.inv.disj l hl l' hl' (hln.trans heq.symm))
  · intro d hd
    exact hp.inv.deps l hl d (by rw [hlt]; exact hd)

/-- `g_irepository_load_typelib` WITHOUT the LAZY flag of a typelib with header `hdr` (which may record
    dependencies), under the invariant: afterwards the invariant holds, nothing loaded eagerly is lost,
    and on success the namespace is loaded eagerly at version `hdr.ver` with every recorded dependency
    of the registered typelib loaded at the recorded version (from the global search path); when the
    namespace was in neither table before, what is registered is exactly `hdr`, under the source
    "<builtin>". -/
theorem C17_load_loaded (fs : FS) (fuel : Nat) (rank : Str → Nat) (s : Repo) (hdr : Hdr)
    (hr : Ranked fs rank) (hinv : Inv fs s) (hlz : LazyRanked rank s) (hrank : HdrRanked rank hdr) :
    Inv fs (loadTypelib fs fuel s hdr false).1 ∧
    (∀ l ∈ s.typelibs, l ∈ (loadTypelib fs fuel s hdr false).1.typelibs) ∧
    (∀ tl, (loadTypelib fs fuel s hdr false).2 = .ok tl →
      ∃ l ∈ (loadTypelib fs fuel s hdr false).1.typelibs, l.tl = tl ∧ l.ns = hdr.ns ∧ l.tl.hdr.ver = hdr.ver ∧
        (∀ d ∈ l.tl.hdr.deps, DepLoaded (loadTypelib fs fuel s hdr false).1 d) ∧
        (getRegisteredStatus s hdr.ns (some hdr.ver) false = .absent none →
          l.tl.hdr = hdr ∧ l.source = builtinSource)) := by
  obtain ⟨hp, hok⟩ := load_post hr fuel s hdr false hinv hlz hrank
  refine ⟨hp.inv, hp.ext, ?_⟩
  intro tl htl
  obtain ⟨h1, h2, h3⟩ := hok tl htl
  obtain ⟨l, hl, hlt, habs⟩ := h3 rfl
  refine ⟨l, hl, hlt, by unfold Loaded.ns; rw [hlt]; exact h1, by rw [hlt]; exact h2,
    fun d hd => hp.inv.deps l hl d hd, ?_⟩
  intro ha
  obtain ⟨e1, e2⟩ := habs ha
  exact ⟨by rw [hlt]; exact e1, e2⟩

/-- `g_irepository_enumerate_versions`: every version available on the search path (every file that
    counts as a version of `ns`, see `C17_latest`) is listed, and whatever is listed is available or is
    the loaded version.  (The loaded version itself is only ADDED when no other version string is
    available: `g_list_find_custom (ret, loaded_version, g_str_equal)` finds the first element that
    DIFFERS — modelled as the code does it, compared with the library on every `versions` call.) -/
theorem C17_enumerate_versions (fs : FS) (s : Repo) (ns : Str) :
    (∀ m ∈ allMatches fs ns s.searchPath, m.version ∈ enumerateVersionsQuery fs s ns) ∧
    (∀ v ∈ enumerateVersionsQuery fs s ns,
      (∃ m ∈ allMatches fs ns s.searchPath, m.version = v) ∨ getVersion s ns = some v) := by
  have hmem : ∀ v, v ∈ (enumerateVersions fs ns s.searchPath).reverse.map (·.version) ↔
      ∃ c ∈ enumerateVersions fs ns s.searchPath, c.version = v := by
    intro v; simp
  refine ⟨?_, ?_⟩
  · intro m hm
    obtain ⟨c, hc, hv, _⟩ := enumerate_complete fs ns s.searchPath m hm
    have hin := (hmem m.version).mpr ⟨c, hc, hv⟩
    unfold enumerateVersionsQuery
    simp only
    split
    · split_ifs
      · exact hin
      · exact List.mem_cons_of_mem _ hin
    · exact hin
  · intro v hv
    unfold enumerateVersionsQuery at hv
    simp only at hv
    have hcase : ∀ v, v ∈ (enumerateVersions fs ns s.searchPath).reverse.map (·.version) →
        ∃ m ∈ allMatches fs ns s.searchPath, m.version = v := by
      intro v hv
      obtain ⟨c, hc, hcv⟩ := (hmem v).mp hv
      exact ⟨c, enumerate_sound fs ns s.searchPath c hc, hcv⟩
    split at hv
    · rename_i lv hlv
      split_ifs at hv
      · exact Or.inl (hcase v hv)
      · rcases List.mem_cons.mp hv with rfl | h
        · exact Or.inr hlv
        · exact Or.inl (hcase v h)
    · exact Or.inl (hcase v hv)

/-- `g_irepository_require_private` searches the private directory ONLY (the dependencies still come
    from the global path, see `C17_exact`): for an explicit version not registered yet, the file taken is
    `dir/ns-v.typelib`; when `dir` has no such file the call fails with NotFound whatever the global
    search path holds. -/
theorem C17_private_dir (fs : FS) (fuel : Nat) (s : Repo) (dir ns v : Str) (lazy : Bool)
    (hns : ns ≠ selfName) (hst : getRegisteredStatus s ns (some v) lazy = .absent none) :
    (¬ DirHas fs dir (exactFileName ns v) →
      requirePrivate fs (fuel + 1) s dir ns (some v) lazy = (s, .error .notFound)) ∧
    (∀ f, findVersion fs ns v [dir] = some f → f.path = buildFilename dir (exactFileName ns v)) ∧
    (∀ tl, (requirePrivate fs (fuel + 1) s dir ns (some v) lazy).2 = .ok tl →
      DirHas fs dir (exactFileName ns v) ∧ tl.hdr.ns = ns ∧ tl.hdr.ver = v) := by
  have hex := C17_exact fs fuel s ns v lazy [dir] hns hst
  have hself : (ns == selfName && v != selfVersion) = false := by simp [hns]
  have hfind : ∀ f, findVersion fs ns v [dir] = some f →
      DirHas fs dir (exactFileName ns v) ∧ f.path = buildFilename dir (exactFileName ns v) := by
    intro f hf
    simp only [findVersion, hself, Bool.false_eq_true, if_false, findInDirs] at hf
    cases hd : lookupDir fs dir with
    | none => simp [hd] at hf
    | some es =>
      simp only [hd] at hf
      cases he : es.find? (fun e => e.name == exactFileName ns v) with
      | none => simp [he] at hf
      | some e =>
        simp only [he, Option.some.injEq] at hf
        subst hf
        exact ⟨⟨es, e, hd, List.mem_of_find?_eq_some he, by simpa using List.find?_some he⟩, rfl⟩
  refine ⟨?_, fun f hf => (hfind f hf).2, ?_⟩
  · intro hno
    cases hf : findVersion fs ns v [dir] with
    | none => exact (hex.1 hf).2
    | some f => exact absurd (hfind f hf).1 hno
  · intro tl htl
    have h2 := hex.2.2 tl htl
    refine ⟨?_, h2⟩
    cases hf : findVersion fs ns v [dir] with
    | none =>
      have := (hex.1 hf).2
      unfold requirePrivate at htl
      rw [this] at htl; cases htl
    | some f => exact (hfind f hf).1

/-- The transitive dependency query reports only dependency strings that are reachable from the
    namespace through recorded dependencies of loaded typelibs (any fuel, no hypothesis). -/
theorem C17_dependencies_sound (s : Repo) (fuel : Nat) (ns : Str) (l : List Str)
    (h : getDependencies s fuel ns = some l) : ∀ d ∈ l, Reach s ns d := by
  intro d hd
  unfold getDependencies at h
  cases hg : getRegistered s ns with
  | none => simp [hg] at h
  | some tl =>
    simp only [hg, Option.map_some, Option.some.injEq] at h
    subst h
    rcases depsTransitive_sound s fuel tl.hdr [] d hd with h | h
    · cases h
    · exact ⟨tl, hg, h⟩

/-- …and, when the loaded typelibs are acyclic (`hrk`), every recorded dependency of a registered typelib
    is itself registered (`hkn`; `C17_deps_known` gives it from the invariant when nothing is lazily
    loaded) and the recursion bound of the model is not reached (`rank ns < fuel`; the C code has no
    bound), it reports EXACTLY the dependency strings reachable from the namespace: the transitive
    closure of the recorded dependencies of the files that were loaded. -/
theorem C17_dependencies_exact (s : Repo) (rank : Str → Nat) (fuel : Nat) (ns : Str) (l : List Str)
    (hrk : ∀ dn tl, getRegistered s dn = some tl → HdrRanked rank tl.hdr)
    (hkn : ∀ dn tl, getRegistered s dn = some tl → ∀ d ∈ tl.hdr.deps, DepKnown s d)
    (hfuel : rank ns < fuel) (h : getDependencies s fuel ns = some l) :
    ∀ d, d ∈ l ↔ Reach s ns d := by
  intro d
  refine ⟨C17_dependencies_sound s fuel ns l h d, ?_⟩
  rintro ⟨tl, hg, hreach⟩
  unfold getDependencies at h
  simp only [hg, Option.map_some, Option.some.injEq] at h
  subst h
  have hns := getRegistered_ns hg
  exact depsTransitive_complete s rank hrk hkn tl.hdr d hreach (hrk ns tl hg) (hkn ns tl hg) fuel []
    (by rw [hns]; exact hfuel)

/-- Under the invariant, with no lazily loaded namespace, every recorded dependency of a registered
    typelib is registered (at the recorded version: `Inv.deps`). -/
theorem C17_deps_known (fs : FS) (s : Repo) (hinv : Inv fs s) (hlazy : s.lazy = []) :
    ∀ dn tl, getRegistered s dn = some tl → ∀ d ∈ tl.hdr.deps, DepKnown s d := by
  intro dn tl hg d hd
  unfold getRegistered at hg
  cases hst : getRegisteredStatus s dn none true with
  | conflict v => simp [hst] at hg
  | absent b => simp [hst] at hg
  | found t =>
    simp only [hst, Option.some.injEq] at hg
    subst hg
    obtain ⟨_, _, h3⟩ := status_found hst
    rcases h3 with ⟨l, hl, hlt⟩ | ⟨_, l, hl, _⟩
    · obtain ⟨dn', dv', hsd, l', hl', hn', _⟩ := hinv.deps l hl d (by rw [hlt]; exact hd)
      cases hlk : lookupTbl s.typelibs dn' with
      | none => exact absurd hn' (lookupTbl_none.mp hlk l' hl')
      | some l'' =>
        exact ⟨dn', dv', l''.tl, hsd, by simp [getRegistered, getRegisteredStatus, hlk, checkVersionConflict]⟩
    · rw [hlazy] at hl; cases hl

/-! ### non-vacuity -/

example : compareVersion "1.10".toList "1.9".toList = some 1 := by decide
example : compareVersion "1.010".toList "1.10".toList = some 0 := by decide
example : compareVersion "10.1".toList "2.0".toList = some 1 := by decide
example : dotted 1 10 = "1.10".toList := by decide
example : parseVersion "1.2.3".toList = none := by decide
example : entryVersion "Foo".toList "Foo-1.10.typelib".toList = some "1.10".toList := by decide
example : entryVersion "Foo".toList "FooBar-1.10.typelib".toList = none := by decide

def demoFS : FS :=
  [("/a".toList, [⟨"Foo-1.9.typelib".toList, ⟨"Foo".toList, "1.9".toList, []⟩⟩]),
   ("/b".toList, [⟨"Foo-1.10.typelib".toList, ⟨"Foo".toList, "1.10".toList, ["Bar-1.0".toList]⟩⟩,
                  ⟨"Bar-1.0.typelib".toList, ⟨"Bar".toList, "1.0".toList, []⟩⟩]),
   ("/c".toList, [⟨"Foo-1.10.typelib".toList, ⟨"Foo".toList, "1.10".toList, []⟩⟩])]

def demoPath : List Str := ["/a".toList, "/missing".toList, "/b".toList, "/c".toList]

-- latest: 1.10 from /b (earliest directory among equals), with its dependency
example : (findLatest demoFS "Foo".toList demoPath).map (·.path) = some "/b/Foo-1.10.typelib".toList := by decide
example : getLoadedNamespaces (run demoFS 4 (Repo.init demoPath) [.require "Foo".toList none false])
    = ["Bar".toList, "Foo".toList] := by decide
-- hypotheses of C17_exact / C17_latest are met by the initial state
example : getRegisteredStatus (Repo.init demoPath) "Foo".toList (some "1.9".toList) false = .absent none := by decide
-- C17_inv / C17_require_loaded on a lazy → eager transition: Foo 1.10 lazily loaded, then required
-- eagerly: the SAME typelib (id 0) moves to the eager table under the same path, its dependency Bar is
-- loaded; requiring another version, with or without the LAZY flag, is a conflict
def demoTransition : Repo := run demoFS 4 (Repo.init demoPath)
  [.require "Foo".toList none true, .require "Foo".toList (some "1.10".toList) false]
example : demoTransition.lazy = [] ∧
    getLoadedNamespaces demoTransition = ["Bar".toList, "Foo".toList] ∧
    getVersion demoTransition "Foo".toList = some "1.10".toList ∧
    getTypelibPath demoTransition "Foo".toList = some "/b/Foo-1.10.typelib".toList ∧
    (getRegistered demoTransition "Foo".toList).map (·.id) = some 0 := by decide
example : (require demoFS 4 (run demoFS 4 (Repo.init demoPath) [.require "Foo".toList none true])
    "Foo".toList (some "1.9".toList) false).2 = .error .versionConflict := by decide
example : getRegisteredStatus (run demoFS 4 (Repo.init demoPath) [.require "Foo".toList none true])
    "Foo".toList none false
    = .absent (some ⟨"/b/Foo-1.10.typelib".toList, ⟨0, ⟨"Foo".toList, "1.10".toList, ["Bar-1.0".toList]⟩⟩⟩) := by decide
example : (run demoFS 4 (Repo.init demoPath) [.require "Foo".toList none true]).lazy.map Loaded.ns
    = ["Foo".toList] := by decide
example : Guarded demoFS 4 (fun n => if n = "Bar".toList then 0 else 1) (Repo.init demoPath)
    [.require "Foo".toList none false, .load ⟨"Baz".toList, "1.0".toList, ["Bar-1.0".toList]⟩ false] := by
  refine ⟨trivial, ?_, trivial⟩
  intro d hd dn dv hsd
  simp only [List.mem_cons, List.not_mem_nil, or_false] at hd
  subst hd
  have e : splitDep "Bar-1.0".toList = some ("Bar".toList, "1.0".toList) := by decide
  rw [e] at hsd; cases hsd
  decide
-- C17_require_loaded / C17_load_loaded / C17_inv: demoFS is acyclic (`Ranked`)
example : Ranked demoFS (fun n => if n = "Bar".toList then 0 else 1) := by
  intro p h hfa dep hdep dn dv hsd
  obtain ⟨d, es, e, hd, he, _, rfl⟩ := hfa
  have hmem : (d, es) ∈ demoFS := by
    unfold lookupDir at hd
    cases hf : demoFS.find? (fun p => p.1 == d) with
    | none => simp [hf] at hd
    | some q =>
      simp only [hf, Option.some.injEq] at hd
      have h1 := List.mem_of_find?_eq_some hf
      have h2 : q.1 = d := by simpa using List.find?_some hf
      cases q; simp_all
  have hall : ∀ q ∈ demoFS, ∀ e ∈ q.2, ∀ dep ∈ e.hdr.deps,
      e.hdr.ns = "Foo".toList ∧ dep = "Bar-1.0".toList := by decide
  obtain ⟨h1, h2⟩ := hall _ hmem e he dep hdep
  subst h2
  have e2 : splitDep "Bar-1.0".toList = some ("Bar".toList, "1.0".toList) := by decide
  rw [e2] at hsd; cases hsd
  rw [h1]; decide
-- C17_load_loaded: loading Baz (depends on Bar-1.0) from memory into the initial state loads Bar from /b
example : (let r := loadTypelib demoFS 4 (Repo.init demoPath) ⟨"Baz".toList, "1.0".toList, ["Bar-1.0".toList]⟩ false
           getLoadedNamespaces r.1 = ["Bar".toList, "Baz".toList] ∧
           getTypelibPath r.1 "Baz".toList = some builtinSource ∧
           getTypelibPath r.1 "Bar".toList = some "/b/Bar-1.0.typelib".toList) := by decide
example : getRegisteredStatus (Repo.init demoPath) "Baz".toList (some "1.0".toList) false = .absent none := by decide
-- C17_enumerate_versions: both spellings-by-directory are listed once per version string
example : enumerateVersionsQuery demoFS (Repo.init demoPath) "Foo".toList = ["1.9".toList, "1.10".toList] := by decide
-- C17_private_dir: /c has Foo-1.10 (no dependencies) although /b comes first on the global path
example : (requirePrivate demoFS 4 (Repo.init demoPath) "/c".toList "Foo".toList (some "1.10".toList) false).1.typelibs.map
    (·.source) = ["/c/Foo-1.10.typelib".toList] := by decide
example : (requirePrivate demoFS 4 (Repo.init demoPath) "/a".toList "Foo".toList (some "1.10".toList) false).2
    = .error .notFound := by decide
-- C17_dependencies_exact on the state after `require Foo`: Foo 1.10 → Bar-1.0
example : getDependencies (run demoFS 4 (Repo.init demoPath) [.require "Foo".toList none false]) 4 "Foo".toList
    = some ["Bar-1.0".toList] := by decide
example : (run demoFS 4 (Repo.init demoPath) [.require "Foo".toList none false]).lazy = [] := by decide
-- conflict: Foo 1.10 loaded, 1.9 required
example : (require demoFS 4 (run demoFS 4 (Repo.init demoPath) [.require "Foo".toList none false])
    "Foo".toList (some "1.9".toList) false).2 = .error .versionConflict := by decide

end GIVerif.Repo
