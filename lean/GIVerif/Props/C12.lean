/-
  C12 — Runtime GObject type data is merged faithfully into the GIR.
  ONLY property theorems and non-vacuity examples live here; helper lemmas are in
  GIVerif/Lemmas/Dump.lean, the executable model in GIVerif/Model/Dump.lean.

  Hypotheses beyond the property's own wording:
  * the dump is a modelled input (gdump.c is not covered) and the model starts at the
    namespace `Transformer.parse` produced; `to_underscores_noprefix` (C04) is an input;
  * "known type" is the function `res : GType name → Option GIName` (`resolveGtype`: the
    scanned namespace first, then the includes); the list theorems hold for EVERY such `res`;
  * C12_struct_links_typeStruct: node names are unique (`Namespace.names` is a dict: `Nodup`) and
    no link exists before `_find_class_record` runs (fresh nodes), stated as `Fresh`;
  * C12_error_domain: "the matching enumeration" is the node `quarkTarget` selects (the rule is
    spelled out by C12_error_domain_target / C12_quark_longest_prefix), found by name in the
    namespace (`Namespace.names` is a dict), and no two error-quark functions that name the same
    enumeration report DIFFERENT domains (an enumeration carries one glib:error-domain, so on such
    an input no GIR can satisfy the sentence; the code keeps the last one in `Namespace.symbols`
    order).
-/
import GIVerif.Lemmas.Dump

namespace GIVerif.Dump
open GIVerif.Py

/-! ### tables re-read from the source -/

/-- The literals the model was written for are still the ones in the source (re-extracted
    from /repo on every run; `decide` over the generated tables). -/
theorem C12_source_shape :
    Gen.gParamReadable = 2 ^ 0 ∧ Gen.gParamWritable = 2 ^ 1 ∧ Gen.gParamConstruct = 2 ^ 2
    ∧ Gen.gParamConstructOnly = 2 ^ 3
    ∧ Gen.propFlagAssignments =
        [("construct", "G_PARAM_CONSTRUCT"), ("construct_only", "G_PARAM_CONSTRUCT_ONLY"),
         ("readable", "G_PARAM_READABLE"), ("writable", "G_PARAM_WRITABLE")]
    ∧ Gen.propCtorArgs = ["pspec.attrib['name']", "ast.Type.create_from_gtype_name(ctype)",
         "readable", "writable", "construct", "construct_only"]
    ∧ Gen.splitTypeLiterals = ["_get_type", "_get_type", "_get_gtype", "get_type", "_get_gtype"]
    ∧ Gen.initparseLiterals = ["_", "_get_type", "_get_gtype", "_error_quark"]
    ∧ Gen.quarkReturnCtype = ["GQuark"]
    ∧ Gen.parseLiterals = ["error-quark", "intern"]
    ∧ Gen.dumpTags = ["enum", "flags", "class", "interface", "boxed", "pointer", "fundamental"]
    ∧ Gen.classRecordSuffixes = ["Iface", "Interface", "Class"]
    ∧ Gen.signalArgNames = ["object", "p%s"]
    ∧ Gen.defaultIfaceParent = ["GObject.Object"]
    ∧ Gen.quarkLiterals = ["g_io_error", "Gio", "IOErrorEnum", "_quark", "_quark"]
    ∧ Gen.quarkLoopIters = ["self._namespace.values()", "list(self._namespace.symbols.values())"]
    ∧ Gen.floatShape = ["if isinstance(node, Function): ;     symbol = node.symbol", "self.remove(node)",
         "self.symbols[symbol] = node", "node.namespace = self"]
    ∧ Gen.defaultWrittenTests = ["prop.default_value is not None"]
    ∧ Gen.vfuncTests = ["firstparam_type != node_type", "len(callback.parameters) == 0"]
    ∧ Gen.plainGtypeKind = "gtype" := by
  decide

/-- the statement-by-statement text of `_introspect_signals` (top of the loop), `_parse_parents`
    and the parent-chain loop of `_pass_type_resolution` is still what the model mirrors
    (SHA-256 prefixes of the unparsed source, full text in Gen/Dump.lean) -/
theorem C12_source_shape_loops :
    Gen.signalReadsDigest = "fb7c31ffc214b7e4a1d0"
    ∧ Gen.parseParentsDigest = "156db2acccf5e28cc08f"
    ∧ Gen.parentWalkDigest = "5034bfbc636c16050d43" := by
  decide

/-! ### C12_flags -/

/-- bit `i` of the two's complement representation of an integer of either sign (what
    Python's `(w >> i) & 1` computes; gdump.c prints the flag word with `%d`, so words with
    bit 31 set arrive negative) -/
def intBit (w : Int) (i : Nat) : Bool :=
  match w with
  | .ofNat n => n.testBit i
  | .negSucc n => !n.testBit i

/-- readable / writable / construct / construct-only are exactly bits 0, 1, 2, 3 of the
    reported flag word, for every word (bit positions from the generated constants). -/
theorem C12_flags (w : Nat) :
    decodeFlags (w : Int) =
      { readable := w.testBit 0, writable := w.testBit 1, construct := w.testBit 2,
        constructOnly := w.testBit 3 } := by
  obtain ⟨h0, h1, h2, h3, _⟩ := C12_source_shape
  simp only [decodeFlags, h0, h1, h2, h3]
  have e : (w : Int) = Int.ofNat w := rfl
  rw [e, pyAnd_ofNat, pyAnd_ofNat, pyAnd_ofNat, pyAnd_ofNat]

/-- the same for words of either sign (two's complement bits) -/
theorem C12_flags_int (w : Int) :
    decodeFlags w =
      { readable := intBit w 0, writable := intBit w 1, construct := intBit w 2,
        constructOnly := intBit w 3 } := by
  obtain ⟨h0, h1, h2, h3, _⟩ := C12_source_shape
  simp only [decodeFlags, h0, h1, h2, h3]
  cases w with
  | ofNat n => simp only [intBit, pyAnd_ofNat]
  | negSucc n => simp only [intBit, pyAnd_negSucc]

example : decodeFlags 227 = ⟨true, true, false, false⟩ := by decide
example : decodeFlags 11 = ⟨true, true, false, true⟩ := by decide
-- G_PARAM_DEPRECATED | READABLE | CONSTRUCT_ONLY as printed by `%d`
example : decodeFlags (-2147483639) = ⟨true, false, false, true⟩ := by decide

/-! ### C12_parent -/

/-- `known` parents are those whose GType name resolves to a node -/
def knownParent (res : Str → Option Str) (p : Ty) : Option Str := tyGiname (resolveTy res p)

/-- The resulting parent is the FIRST element of the reported chain that resolves to a
    known type: everything before it is unknown (hidden intermediates are skipped), for every
    chain and every set of known types. -/
theorem C12_parent (res : Str → Option Str) (chain : List Ty) (t : Ty)
    (h : parentWalk res chain = some t) :
    ∃ pre p post n, chain = pre ++ p :: post ∧ (∀ q ∈ pre, knownParent res q = none) ∧
      knownParent res p = some n ∧ t = .giname n :=
  parentWalk_some res chain t h

/-- conversely: hidden intermediates in front of a known ancestor never change the result -/
theorem C12_parent_skips_hidden (res : Str → Option Str) (pre post : List Ty) (p : Ty) (n : Str)
    (hpre : ∀ q ∈ pre, knownParent res q = none) (hp : knownParent res p = some n) :
    parentWalk res (pre ++ p :: post) = some (.giname n) := by
  rw [parentWalk_append_unresolved res pre _ hpre]
  exact parentWalk_cons_resolved res p n post hp

/-- no parent is set exactly when nothing in the chain is known; the documented default:
    a class then has no parent, an interface gets GObject.Object -/
theorem C12_parent_default (res : Str → Option Str) (chain : List Ty) (isIface : Bool) :
    (parentWalk res chain = none ↔ ∀ p ∈ chain, knownParent res p = none) ∧
    (parentWalk res chain = none →
      resolveParent res isIface chain = if isIface then some (.giname ['G', 'O', 'b', 'j', 'e', 'c', 't', '.', 'O', 'b', 'j', 'e', 'c', 't']) else none) ∧
    (∀ t, parentWalk res chain = some t → resolveParent res isIface chain = some t) := by
  refine ⟨parentWalk_none_iff res chain, ?_, ?_⟩
  · intro h
    unfold resolveParent
    rw [h]
    cases isIface <;> rfl
  · intro t h
    unfold resolveParent
    rw [h]

/-- `_parse_parents`: the chain is the comma-separated list, nearest ancestor first; absent or
    empty attribute = no chain -/
theorem C12_parse_parents :
    parseParents none = [] ∧ parseParents (some []) = [] ∧
    ∀ c cs, parseParents (some (c :: cs)) = (splitChar ',' (c :: cs) []).map createFromGtypeName := by
  refine ⟨rfl, rfl, fun c cs => rfl⟩

example :
    parentWalk (fun g => if g = ['G', 'O', 'b', 'j', 'e', 'c', 't'] then some ['G', 'O', 'b', 'j', 'e', 'c', 't', '.', 'O', 'b', 'j', 'e', 'c', 't'] else none)
      (parseParents (some ['F', 'o', 'o', 'H', 'i', 'd', 'd', 'e', 'n', ',', 'X', 'y', 'z', 'B', 'a', 's', 'e', ',', 'G', 'O', 'b', 'j', 'e', 'c', 't'])) = some (.giname ['G', 'O', 'b', 'j', 'e', 'c', 't', '.', 'O', 'b', 'j', 'e', 'c', 't']) := by
  decide
example :
    parentWalk (fun _ => none) (parseParents (some ['F', 'o', 'o', 'H', 'i', 'd', 'd', 'e', 'n', ',', 'X', 'y', 'z', 'B', 'a', 's', 'e'])) = none := by decide
-- a fundamental GType name in the chain resolves but has no node: skipped as well
example :
    parentWalk (fun g => if g = ['G', 'O', 'b', 'j', 'e', 'c', 't'] then some ['G', 'O', 'b', 'j', 'e', 'c', 't', '.', 'O', 'b', 'j', 'e', 'c', 't'] else none)
      (parseParents (some ['g', 'i', 'n', 't', ',', 'G', 'O', 'b', 'j', 'e', 'c', 't'])) = some (.giname ['G', 'O', 'b', 'j', 'e', 'c', 't', '.', 'O', 'b', 'j', 'e', 'c', 't']) := by
  decide

/-! ### C12_exact_lists -/

/-- Interfaces / prerequisites: what `_resolve_and_filter_type_list` leaves is exactly the
    reported list, in the reported order, each name resolved, minus those that do not resolve
    (the loop removes by `list.remove`, i.e. by `Type.__eq__`; this says it never removes the
    wrong element). -/
theorem C12_exact_lists_types (res : Str → Option Str) (l : List Ty) :
    resolveAndFilter res l = (l.map (resolveTy res)).filter tyResolved := by
  have := filterLoop_inv res l [] (by simp)
  simpa [resolveAndFilter] using this

/-- for names reported by the dump: an `<implements>` / `<prerequisite>` name stays iff it is a
    known type, and then reads as its GIName -/
theorem C12_exact_lists_names (res : Str → Option Str) (names : List Str)
    (hplain : ∀ g ∈ names, createFromGtypeName g = .gtype g) :
    resolveAndFilter res (names.map createFromGtypeName) = (names.filterMap res).map .giname := by
  rw [C12_exact_lists_types]
  induction names with
  | nil => rfl
  | cons g gs ih =>
    have hg := hplain g (by simp)
    have ih' := ih (fun x hx => hplain x (by simp [hx]))
    simp only [List.map_cons, hg, resolveTy, List.filterMap_cons]
    cases hr : res g with
    | none => simpa [tyResolved] using ih'
    | some n =>
      simp only [List.filter_cons, tyResolved, if_true, List.map_cons]
      simpa using ih'

/-- Properties: one per reported `<property>`, same order, with the reported name, the flag
    bits, the type named by the reported GType name and the reported default. -/
theorem C12_exact_lists_properties (ps : List DProp) :
    (introspectProperties ps).length = ps.length ∧
    ∀ i (h : i < ps.length),
      ((introspectProperties ps)[i]?).map (fun p => (p.name, p.ty, p.flags, p.default)) =
        some ((ps[i]).name, createFromGtypeName (ps[i]).type, decodeFlags (ps[i]).flags, (ps[i]).default) := by
  refine ⟨by simp [introspectProperties], ?_⟩
  intro i h
  simp [introspectProperties, decodeProp, h]

/-- Signals: one per reported `<signal>`, same order; run phase as reported (absent stays
    absent), each flag true iff its attribute is "1", return and parameter types those named,
    parameters in order (named object, p0, p1, …). -/
theorem C12_exact_lists_signals (ss : List DSignal) :
    (introspectSignals ss).length = ss.length ∧
    ∀ i (h : i < ss.length),
      ((introspectSignals ss)[i]?).map (fun s => (s.name, s.when, s.ret, s.params.map (·.2),
          s.noRecurse, s.detailed, s.action, s.noHooks)) =
        some ((ss[i]).name, (ss[i]).when, createFromGtypeName (ss[i]).ret,
          (ss[i]).params.map createFromGtypeName,
          decide ((ss[i]).noRecurse = some ['1']), decide ((ss[i]).detailed = some ['1']),
          decide ((ss[i]).action = some ['1']), decide ((ss[i]).noHooks = some ['1'])) := by
  refine ⟨by simp [introspectSignals], ?_⟩
  intro i h
  have hp : ∀ (k : Nat) (l : List Str), (sigParams k l).map (·.2) = l.map createFromGtypeName := by
    intro k l
    induction l generalizing k with
    | nil => rfl
    | cons t ts ih => simp [sigParams, ih]
  have hone : ∀ a : Option Str, isOne a = decide (a = some ['1']) := by
    intro a
    cases a with
    | none => simp [isOne]
    | some s =>
      show (s == ['1']) = decide (some s = some ['1'])
      rw [Bool.eq_iff_iff]
      simp
  simp [introspectSignals, decodeSignal, h, hp, hone]

/-- The order the GIR keeps: `_write_class` writes `sorted(node.properties)` /
    `sorted(node.signals)` — a permutation of the node's list, ordered by name. -/
theorem C12_exact_lists_written_order {α : Type} (name : α → Str) (l : List α) :
    (sortByName name l).Perm l ∧
    (sortByName name l).Pairwise (fun a b => name a ≤ name b) := by
  refine ⟨List.mergeSort_perm _ _, ?_⟩
  have := List.pairwise_mergeSort (le := fun a b => strLe (name a) (name b))
    (by intro a b c hab hbc
        simp only [strLe, decide_eq_true_eq] at *
        exact List.le_trans hab hbc)
    (by intro a b
        simp only [strLe, Bool.or_eq_true, decide_eq_true_eq]
        exact List.le_total _ _) l
  simpa [sortByName, strLe] using this

example :
    resolveAndFilter (fun g => if g = ['G', 'T', 'y', 'p', 'e', 'P', 'l', 'u', 'g', 'i', 'n'] then some ['G', 'O', 'b', 'j', 'e', 'c', 't', '.', 'T', 'y', 'p', 'e', 'P', 'l', 'u', 'g', 'i', 'n'] else none)
      ([['F', 'o', 'o', 'H', 'i', 'd', 'd', 'e', 'n'], ['G', 'T', 'y', 'p', 'e', 'P', 'l', 'u', 'g', 'i', 'n'], ['X', 'y', 'z', 'P', 'r', 'i', 'v']].map createFromGtypeName)
      = [.giname ['G', 'O', 'b', 'j', 'e', 'c', 't', '.', 'T', 'y', 'p', 'e', 'P', 'l', 'u', 'g', 'i', 'n']] := by decide
example :
    (introspectProperties [⟨['z', 'e', 't', 'a'], ['g', 'i', 'n', 't'], 227, some ['3']⟩]).map (·.flags)
      = [⟨true, true, false, false⟩] := by decide
example :
    (sortByName (·.name) (introspectProperties
      [⟨['z', 'e', 't', 'a'], ['g', 'i', 'n', 't'], 1, none⟩, ⟨['a', 'l', 'p', 'h', 'a'], ['g', 'i', 'n', 't'], 2, none⟩])).Perm
      (introspectProperties
      [⟨['z', 'e', 't', 'a'], ['g', 'i', 'n', 't'], 1, none⟩, ⟨['a', 'l', 'p', 'h', 'a'], ['g', 'i', 'n', 't'], 2, none⟩]) :=
  (C12_exact_lists_written_order _ _).1

/-- The default value reaches the GIR as reported: `_write_property` writes the attribute for
    every reported default, the empty string included (gdump.c writes `default-value=""` for a
    string property whose default is ""), and writes none when none was reported. -/
theorem C12_default_written (d : Option Str) : writtenDefault d = d := by
  cases d <;> rfl

example : writtenDefault (some []) = some [] := by decide
example : writtenDefault (some ['N', 'U', 'L', 'L']) = some ['N', 'U', 'L', 'L'] := by decide

/-! ### C12_struct_links -/

/-- no class / structure link exists yet (nodes fresh from the transformer and the dump) -/
def Fresh (ns : NS) : Prop := ∀ x, tsOf ns x = none ∧ sfOf ns x = none

/-- Class and interface structures are linked to their type in BOTH directions: after
    `_find_class_record` has run over the namespace, `cls.glib_type_struct = R` iff
    `R.is_gtype_struct_for = cls`, and both hold exactly for the pairs the lookup rule
    (`<name>Class`; first existing of `<name>Iface`, `<name>Interface`; a record) selects. -/
theorem C12_struct_links_typeStruct (ns : NS) (hnd : (ns.map (·.name)).Nodup) (hfresh : Fresh ns)
    (c r : Str) :
    (tsOf (findClassRecords ns) c = some r ↔ sfOf (findClassRecords ns) r = some c) ∧
    (tsOf (findClassRecords ns) c = some r ↔ (c, r) ∈ classPairs ns) := by
  have hok := pairsOK_of_nodup ns hnd
  have h := foldl_links (classPairs ns) ns hok (fun p _ => (hfresh p.1).1) (fun p _ => (hfresh p.2).2)
  simp only at h
  have h1 := h.1 c r
  have h2 := h.2 c r
  rw [(hfresh c).1] at h1
  rw [(hfresh r).2] at h2
  simp only [reduceCtorEq, false_or] at h1 h2
  unfold findClassRecords
  exact ⟨h1.trans h2.symm, h1⟩

/-- which structure: `<name>Class` for a class; for an interface `<name>Iface` if a node of that
    name exists (even if it is not a record: then nothing is linked), else `<name>Interface` -/
theorem C12_struct_links_rule (ns : NS) (c : Node) (r : Str) (h : classRecordName ns c = some r) :
    (∃ rec, nsGet ns r = some rec ∧ rec.kind = .record) ∧
    ((c.kind = .cls ∧ r = c.name ++ ['C', 'l', 'a', 's', 's']) ∨
     (c.kind ≠ .cls ∧ r = c.name ++ ['I', 'f', 'a', 'c', 'e']) ∨
     (c.kind ≠ .cls ∧ nsGet ns (c.name ++ ['I', 'f', 'a', 'c', 'e']) = none ∧
        r = c.name ++ ['I', 'n', 't', 'e', 'r', 'f', 'a', 'c', 'e'])) := by
  have key : ∀ nm, (recordNamed ns nm).join = some r ∨ recordNamed ns nm = some (some r) →
      (∃ rec, nsGet ns r = some rec ∧ rec.kind = .record) ∧ r = nm := by
    intro nm hh
    have hh' : recordNamed ns nm = some (some r) := by
      rcases hh with hh | hh
      · cases hx : recordNamed ns nm with
        | none => rw [hx] at hh; cases hh
        | some o =>
          rw [hx] at hh
          have : o = some r := by simpa [Option.join] using hh
          rw [this]
      · exact hh
    unfold recordNamed at hh'
    cases hg : nsGet ns nm with
    | none => rw [hg] at hh'; cases hh'
    | some rec =>
      rw [hg] at hh'
      simp only [Option.some.injEq] at hh'
      by_cases hk : rec.kind = .record
      · simp only [hk, beq_self_eq_true, if_true, Option.some.injEq] at hh'
        have hn := nsGet_name hg
        have : r = nm := by rw [← hh', hn]
        subst this
        exact ⟨⟨rec, hg, hk⟩, rfl⟩
      · have : (rec.kind == Kind.record) = false := beq_eq_false_iff_ne.mpr hk
        simp [this] at hh'
  unfold classRecordName at h
  by_cases hc : c.kind = .cls
  · simp only [hc, beq_self_eq_true, if_true] at h
    obtain ⟨h1, h2⟩ := key _ (Or.inl h)
    exact ⟨h1, Or.inl ⟨hc, h2⟩⟩
  · have : (c.kind == Kind.cls) = false := beq_eq_false_iff_ne.mpr hc
    simp only [this, Bool.false_eq_true, if_false] at h
    cases hi : recordNamed ns (c.name ++ ['I', 'f', 'a', 'c', 'e']) with
    | some o =>
      rw [hi] at h
      simp only at h
      subst h
      obtain ⟨h1, h2⟩ := key _ (Or.inr hi)
      exact ⟨h1, Or.inr (Or.inl ⟨hc, h2⟩)⟩
    | none =>
      rw [hi] at h
      simp only at h
      obtain ⟨h1, h2⟩ := key _ (Or.inl h)
      refine ⟨h1, Or.inr (Or.inr ⟨hc, ?_, h2⟩)⟩
      unfold recordNamed at hi
      cases hg : nsGet ns (c.name ++ ['I', 'f', 'a', 'c', 'e']) with
      | none => rfl
      | some x => rw [hg] at hi; cases hi

/-- Boxed types attach to the structure or union of the same NAME (the registered GType name
    with the namespace's identifier prefix cut): that node, and only that node, receives the
    GType name, the get-type function and the symbol prefix; with no node of that name the bare
    boxed type is appended. -/
theorem C12_struct_links_boxed (env : Env) (ns : NS) (b : Node) (g name : Str)
    (hg : b.gtypeName = some g) (hn : stripIdentifier env g = some name) :
    (nsGet ns name = none → pairBoxed env ns b = ns ++ [b]) ∧
    (∀ p, nsGet ns name = some p → isCompound p.kind = true →
      (pairBoxed env ns b).map (·.name) = ns.map (·.name) ∧
      nsGet (pairBoxed env ns b) name =
        some { p with gtypeName := b.gtypeName, getType := b.getType, symPrefix := b.symPrefix } ∧
      ∀ x, x ≠ name → nsGet (pairBoxed env ns b) x = nsGet ns x) ∧
    (∀ p, nsGet ns name = some p → isCompound p.kind = false → pairBoxed env ns b = ns) := by
  have hb : b.gtypeName.bind (stripIdentifier env) = some name := by rw [hg]; exact hn
  refine ⟨?_, ?_, ?_⟩
  · intro h; simp only [pairBoxed, hb, h]
  · intro p h hk
    have hpb : pairBoxed env ns b = nsUpdate ns name
        (fun n => { n with gtypeName := b.gtypeName, getType := b.getType, symPrefix := b.symPrefix }) := by
      simp only [pairBoxed, hb, h, hk, if_true]
    rw [hpb]
    have hname : ∀ n : Node, (if (n.name == name) = true then
        ({ n with gtypeName := b.gtypeName, getType := b.getType, symPrefix := b.symPrefix } : Node) else n).name = n.name := by
      intro n; split <;> rfl
    refine ⟨?_, ?_, ?_⟩
    · simp only [nsUpdate, List.map_map]
      apply List.map_congr_left
      intro n _
      exact hname n
    · unfold nsGet nsUpdate
      rw [List.find?_map]
      have : ((fun n : Node => n.name == name) ∘ fun n => if (n.name == name) = true then
          ({ n with gtypeName := b.gtypeName, getType := b.getType, symPrefix := b.symPrefix } : Node) else n)
          = (fun n : Node => n.name == name) := by
        funext n; simp only [Function.comp, hname]
      rw [this]
      unfold nsGet at h
      rw [h]
      have := nsGet_name (ns := ns) (x := name) (n := p) h
      simp [this]
    · intro x hx
      unfold nsGet nsUpdate
      rw [List.find?_map]
      have : ((fun n : Node => n.name == x) ∘ fun n => if (n.name == name) = true then
          ({ n with gtypeName := b.gtypeName, getType := b.getType, symPrefix := b.symPrefix } : Node) else n)
          = (fun n : Node => n.name == x) := by
        funext n; simp only [Function.comp, hname]
      rw [this]
      cases hf : List.find? (fun n : Node => n.name == x) ns with
      | none => rfl
      | some n =>
        have hnx : n.name = x := by have := List.find?_some hf; simpa using this
        have : (n.name == name) = false := by rw [hnx]; exact beq_eq_false_iff_ne.mpr hx
        simp only [Option.map_some, this, Bool.false_eq_true, if_false]
  · intro p h hk
    simp only [pairBoxed, hb, h, hk, Bool.false_eq_true, if_false]

/-- Function-pointer members of the class structure whose first parameter is the instance
    become virtual methods, the others do not: the virtual methods are exactly the fields of
    the linked structure (in field order) that are a callback — anonymous or through a typedef —
    with at least one parameter whose first parameter's type resolves to the class itself. -/
theorem C12_struct_links_vfuncs (env : Env) (ns : NS) (cls rec : Node) (r : Str)
    (hts : cls.typeStruct = some r) (hrec : nsGet ns r = some rec) :
    pairClassVirtuals env ns cls = (rec.fields.filter (isVfuncField env ns cls)).map (·.name) ∧
    ∀ f, isVfuncField env ns cls f = true ↔
      ∃ p ps n, fieldCallback env ns f = some (p :: ps) ∧ resolveCtypeOwn env ns p = some n ∧ n.name = cls.name := by
  refine ⟨by simp only [pairClassVirtuals, hts, hrec], ?_⟩
  intro f
  unfold isVfuncField
  cases hcb : fieldCallback env ns f with
  | none => simp
  | some params =>
    cases params with
    | nil => simp
    | cons p ps =>
      cases hres : resolveCtypeOwn env ns p with
      | none => simp [hres]
      | some n => simp [hres]

/-- a class without linked structure has no virtual methods -/
theorem C12_struct_links_vfuncs_none (env : Env) (ns : NS) (cls : Node) (h : cls.typeStruct = none) :
    pairClassVirtuals env ns cls = [] := by
  simp only [pairClassVirtuals, h]

/-- Get-type functions disappear from the function list: after `parse`, no node is named like
    the get-type function of any registered type of the namespace; nothing else is removed
    (the result is the old namespace, in order; whatever left is named like a function that
    `Namespace.get` finds). -/
theorem C12_struct_links_get_type_removed (env : Env) (ns ns' : NS) (h : removeGetTypes env ns = .ok ns') :
    (∀ m ∈ ns, isRegistered m = true → ∀ g nm, m.getType = some g → g ≠ ['i', 'n', 't', 'e', 'r', 'n'] →
        splitCSymbol env g = some nm → ∀ n ∈ ns', n.name ≠ nm) ∧
    ns'.Sublist ns ∧
    (∀ n ∈ ns, n ∉ ns' → ∃ f, nsGet ns n.name = some f ∧ (f.kind = .func ∨ f.kind = .quark)) := by
  obtain ⟨names, hnames, hfilter, hfun⟩ := removeGetTypes_ok env ns ns' h
  refine ⟨?_, ?_, ?_⟩
  · intro m hm hr g nm hg hi hs n hn hnm
    have hin := getTypeFunctionNames_mem env ns names hnames m hm hr g nm hg hi hs
    rw [hfilter] at hn
    have := (List.mem_filter.mp hn).2
    simp [hnm, hin] at this
  · rw [hfilter]; exact List.filter_sublist
  · intro n hn hnot
    rw [hfilter] at hnot
    have hc : n.name ∈ names := by
      apply Classical.byContradiction
      intro hc
      apply hnot
      exact List.mem_filter.mpr ⟨hn, by simp [hc]⟩
    exact hfun n.name hc

/-! ### error quarks -/

/-- `_split_uscored_by_type` selects the LONGEST registered type name that is the whole
    string or is followed by `_` in it: the result is a cut `s = p ++ "_" ++ rest` (or `s = p`),
    `p` is registered, and no strictly longer cut of `s` is registered. -/
theorem C12_quark_longest_prefix (reg : List (Str × Node)) (s : Str) (n : Node) (rest : Str)
    (h : splitUscoredByType reg s = some (n, rest)) :
    ∃ p, lookupLast reg p = some n ∧ (s = p ++ '_' :: rest ∨ (s = p ∧ rest = [])) ∧
      ∀ p' rest', (p', rest') ∈ uscoreCuts s → p.length < p'.length → lookupLast reg p' = none := by
  unfold splitUscoredByType at h
  obtain ⟨l₁, a, l₂, hl, hfa, hbefore⟩ := List.findSome?_eq_some_iff.mp h
  obtain ⟨p, rest0⟩ := a
  have hlk : lookupLast reg p = some n ∧ rest0 = rest := by
    cases hq : lookupLast reg p with
    | none => simp [hq] at hfa
    | some m =>
      simp only [hq, Option.map_some, Option.some.injEq, Prod.mk.injEq] at hfa
      exact ⟨by rw [hfa.1], hfa.2⟩
  obtain ⟨hlk1, rfl⟩ := hlk
  have hmem : (p, rest0) ∈ uscoreCutsAux [] s := by
    have : (p, rest0) ∈ uscoreCuts s := by rw [hl]; simp
    unfold uscoreCuts at this
    exact List.mem_reverse.mp this
  have hdec := uscoreCutsAux_decomp [] s p rest0 hmem
  simp only [List.reverse_nil, List.nil_append] at hdec
  refine ⟨p, hlk1, hdec, ?_⟩
  intro p' rest' hin hlen
  have hpw : (uscoreCuts s).Pairwise (fun a b => b.1.length < a.1.length) := by
    unfold uscoreCuts
    exact List.pairwise_reverse.mpr (uscoreCutsAux_lengths [] s).1
  rw [hl] at hpw hin
  rw [List.pairwise_append] at hpw
  obtain ⟨_, hpw2, _⟩ := hpw
  rw [List.pairwise_cons] at hpw2
  rcases List.mem_append.mp hin with h1 | h1
  · have := hbefore (p', rest') h1
    cases hq : lookupLast reg p' with
    | none => rfl
    | some m => simp [hq] at this
  · rcases List.mem_cons.mp h1 with h2 | h2
    · cases h2; omega
    · have := hpw2.1 (p', rest') h2
      simp only at this
      omega

/-- which node an error-quark function names: the symbol minus the namespace prefix and minus
    `_quark` is looked up among the registered types (by symbol prefix) and the other records /
    unions (by underscored name), then among all enumerations (by underscored name, by name) -/
theorem C12_error_domain_target (env : Env) (reg : List (Str × Node)) (ns : NS) (q : Node) (sym sub : Str)
    (hs : q.symbol = some sym) (hio : sym.take (sym.length - 6) ≠ ['g', '_', 'i', 'o', '_', 'e', 'r', 'r', 'o', 'r'])
    (hsub : splitCSymbol env sym = some sub) :
    quarkTarget env reg ns q =
      .ok ((lookupLast reg (sub.take (sub.length - 6))).or
            (lookupLast (uscoreEnums ns) (sub.take (sub.length - 6)))) := by
  have : (sym.take (sym.length - 6) == ['g', '_', 'i', 'o', '_', 'e', 'r', 'r', 'o', 'r']) = false :=
    beq_eq_false_iff_ne.mpr hio
  simp only [quarkTarget, hs, this, Bool.false_eq_true, if_false, hsub]
  cases lookupLast reg (sub.take (sub.length - 6)) <;> rfl

/-- Where the function-pairing loop leaves an error-quark function: in the namespace, unless
    `_pair_static_method` moves it into a CLASS (the longest registered type prefix of its name is
    a class and something follows it) — then it is among the floated functions, which
    `Namespace.float` keeps in `Namespace.symbols`.  Either way `_pair_quarks_with_enums` sees it. -/
theorem C12_error_domain_floated (env : Env) (reg : List (Str × Node)) (ns : NS) (r : NS × List Node)
    (h : floatQuarks env reg ns = .ok r) (q : Node) (hk : q.kind = .quark) :
    (q ∈ r.1 ↔ (q ∈ ns ∧ quarkFloated env reg q = .ok false)) ∧
    (q ∈ r.2 ↔ (q ∈ ns ∧ quarkFloated env reg q = .ok true)) ∧
    (q ∈ ns → q ∈ symbolsOrder r.1 r.2) := by
  obtain ⟨h1, h2⟩ := floatQuarks_mem env reg ns r h q hk
  refine ⟨h1, h2, ?_⟩
  intro hq
  obtain ⟨b, hb⟩ := floatQuarks_decided env reg ns r h q hq hk
  unfold symbolsOrder
  cases b with
  | false => exact List.mem_append_left _ (h1.mpr ⟨hq, hb⟩)
  | true => exact List.mem_append_right _ (h2.mpr ⟨hq, hb⟩)

/-- Error-quark functions give their error domain to the matching enumeration: for EVERY
    error-quark function `q` the dump parser left in the namespace — whether or not a class takes
    it as a static method afterwards — the enumeration `n` it names (`quarkTarget`) carries `q`'s
    domain in the final namespace, and is otherwise unchanged. -/
theorem C12_error_domain (env : Env) (ns : NS) (dump : List DItem) (m : Merged)
    (h : merge env ns dump = .ok m) (q t n : Node)
    (hq : q ∈ m.afterParse) (hk : q.kind = .quark)
    (ht : quarkTarget env m.reg m.paired q = .ok (some t))
    (hn : nsGet m.paired t.name = some n) (henum : n.kind = .enum)
    (hconf : ∀ q' ∈ m.afterParse, q'.kind = .quark → ∀ t', quarkTarget env m.reg m.paired q' = .ok (some t') →
      t'.name = t.name → q'.errorDomain = q.errorDomain) :
    nsGet m.final t.name = some { n with errorDomain := q.errorDomain } := by
  obtain ⟨fl, hreg, hfl, hpaired, hfloated, hloop⟩ := merge_ok env ns dump m h
  -- every quark function of the loop's list comes from the namespace after `parse`
  have hback : ∀ q' ∈ m.paired ++ m.floated, q'.kind = .quark → q' ∈ m.afterParse := by
    intro q' hq' hk'
    have hm := floatQuarks_mem env m.reg _ fl hfl q' hk'
    rcases List.mem_append.mp hq' with h1 | h1
    · rw [hpaired] at h1
      have := (hm.1.mp ((mem_pairVirtuals_quark env fl.1 q' hk').mp h1)).1
      exact (mem_resolvePass_quark env m.afterParse q' hk').mp this
    · rw [hfloated] at h1
      exact (mem_resolvePass_quark env m.afterParse q' hk').mp (hm.2.mp h1).1
  -- and `q` is in that list
  have hin : q ∈ m.paired ++ m.floated := by
    have h2 : q ∈ resolvePass env m.afterParse := (mem_resolvePass_quark env m.afterParse q hk).mpr hq
    obtain ⟨b, hb⟩ := floatQuarks_decided env m.reg _ fl hfl q h2 hk
    have hm := floatQuarks_mem env m.reg _ fl hfl q hk
    cases b with
    | false =>
      apply List.mem_append_left
      rw [hpaired]
      exact (mem_pairVirtuals_quark env fl.1 q hk).mpr (hm.1.mpr ⟨h2, hb⟩)
    | true =>
      apply List.mem_append_right
      rw [hfloated]
      exact hm.2.mpr ⟨h2, hb⟩
  rcases pairQuarksLoop_agree env m.reg m.paired t.name q.errorDomain _ m.paired m.final n hloop hn henum
      (fun q' hq' hk' t' ht' hx => hconf q' (hback q' hq' hk') hk' t' ht' hx) with h1 | ⟨_, h2⟩
  · exact h1
  · exact absurd rfl (h2 q hin hk t ht)

/-! the witness: class FooBar (foo_bar_get_type), plain enum FooBarError, foo_bar_error_quark -/

def cexEnv : Env := { nsName := ['F', 'o', 'o'], idPrefixes := [['F', 'o', 'o']], symPrefixes := [['f', 'o', 'o']], includes := [] }

def cexNs : NS :=
  [ { name := ['B', 'a', 'r'], kind := .record, ctype := some ['F', 'o', 'o', 'B', 'a', 'r'], uscored := ['b', 'a', 'r'] },
    { name := ['b', 'a', 'r', '_', 'g', 'e', 't', '_', 't', 'y', 'p', 'e'], kind := .func,
      symbol := some ['f', 'o', 'o', '_', 'b', 'a', 'r', '_', 'g', 'e', 't', '_', 't', 'y', 'p', 'e'], metaFn := true },
    { name := ['B', 'a', 'r', 'E', 'r', 'r', 'o', 'r'], kind := .enum,
      ctype := some ['F', 'o', 'o', 'B', 'a', 'r', 'E', 'r', 'r', 'o', 'r'],
      uscored := ['b', 'a', 'r', '_', 'e', 'r', 'r', 'o', 'r'] },
    { name := ['b', 'a', 'r', '_', 'e', 'r', 'r', 'o', 'r', '_', 'q', 'u', 'a', 'r', 'k'], kind := .func,
      symbol := some ['f', 'o', 'o', '_', 'b', 'a', 'r', '_', 'e', 'r', 'r', 'o', 'r', '_', 'q', 'u', 'a', 'r', 'k'],
      retQuark := true } ]

def cexDump (withClass : Bool) : List DItem :=
  (if withClass then
    [DItem.type { tag := ['c', 'l', 'a', 's', 's'], name := ['F', 'o', 'o', 'B', 'a', 'r'],
                  getType := ['f', 'o', 'o', '_', 'b', 'a', 'r', '_', 'g', 'e', 't', '_', 't', 'y', 'p', 'e'],
                  parents := some ['G', 'O', 'b', 'j', 'e', 'c', 't'], uscored := ['b', 'a', 'r'] }]
   else []) ++
  [DItem.quark ['f', 'o', 'o', '_', 'b', 'a', 'r', '_', 'e', 'r', 'r', 'o', 'r', '_', 'q', 'u', 'a', 'r', 'k']
               ['f', 'o', 'o', '-', 'b', 'a', 'r', '-', 'e', 'r', 'r', 'o', 'r']]

def errorDomainOfBarError (r : Except String Merged) : Option (Option Str) :=
  match r with
  | .ok m => (nsGet m.final ['B', 'a', 'r', 'E', 'r', 'r', 'o', 'r']).map (·.errorDomain)
  | .error _ => none

/-- With the class in the dump `foo_bar_error_quark` becomes a static method of FooBar
    (`floated`) and the enumeration still gets its error domain … -/
theorem C12_error_domain_witness_class :
    errorDomainOfBarError (merge cexEnv cexNs (cexDump true))
      = some (some ['f', 'o', 'o', '-', 'b', 'a', 'r', '-', 'e', 'r', 'r', 'o', 'r']) := by
  decide +kernel

/-- … as it does without it (record Bar instead of class Bar: the function stays in the namespace). -/
theorem C12_error_domain_witness_ok :
    errorDomainOfBarError (merge cexEnv cexNs (cexDump false))
      = some (some ['f', 'o', 'o', '-', 'b', 'a', 'r', '-', 'e', 'r', 'r', 'o', 'r']) := by
  decide +kernel

/-- the hypotheses of C12_error_domain on the two witnesses: one error-quark function after
    `parse`, it names BarError, it is floated exactly when the class is there -/
def quarkSummary (r : Except String Merged) : Option (List (Option Str) × Nat) :=
  match r with
  | .ok m =>
    some ((m.afterParse.filter (fun q => q.kind == .quark)).map (fun q =>
            match quarkTarget cexEnv m.reg m.paired q with
            | .ok (some t) => (nsGet m.paired t.name).bind (fun n => if n.kind == .enum then some n.name else none)
            | _ => none),
          m.floated.length)
  | .error _ => none

example : quarkSummary (merge cexEnv cexNs (cexDump true)) = some ([some ['B', 'a', 'r', 'E', 'r', 'r', 'o', 'r']], 1) := by
  decide +kernel
example : quarkSummary (merge cexEnv cexNs (cexDump false)) = some ([some ['B', 'a', 'r', 'E', 'r', 'r', 'o', 'r']], 0) := by
  decide +kernel

/-! ### non-vacuity of the struct-link theorems: class Bar, BarClass with three members -/

def exNs : NS :=
  [ { name := ['B', 'a', 'r'], kind := .cls, ctype := some ['F', 'o', 'o', 'B', 'a', 'r'],
      gtypeName := some ['F', 'o', 'o', 'B', 'a', 'r'],
      getType := some ['f', 'o', 'o', '_', 'b', 'a', 'r', '_', 'g', 'e', 't', '_', 't', 'y', 'p', 'e'],
      symPrefix := some ['b', 'a', 'r'] },
    { name := ['B', 'a', 'r', 'C', 'l', 'a', 's', 's'], kind := .record,
      ctype := some ['F', 'o', 'o', 'B', 'a', 'r', 'C', 'l', 'a', 's', 's'],
      fields := [ { name := ['d', 'o', '_', 'i', 't'], anon := some [['F', 'o', 'o', 'B', 'a', 'r', '*'], ['i', 'n', 't']] },
                  { name := ['o', 't', 'h', 'e', 'r'], anon := some [['i', 'n', 't']] },
                  { name := ['d', 'a', 't', 'a'], ctype := some ['i', 'n', 't'] } ] },
    { name := ['b', 'a', 'r', '_', 'g', 'e', 't', '_', 't', 'y', 'p', 'e'], kind := .func,
      symbol := some ['f', 'o', 'o', '_', 'b', 'a', 'r', '_', 'g', 'e', 't', '_', 't', 'y', 'p', 'e'], metaFn := true },
    { name := ['b', 'a', 'r', '_', 'n', 'e', 'w'], kind := .func,
      symbol := some ['f', 'o', 'o', '_', 'b', 'a', 'r', '_', 'n', 'e', 'w'] },
    { name := ['B', 'o', 'x'], kind := .union, ctype := some ['F', 'o', 'o', 'B', 'o', 'x'] } ]

example : classPairs exNs = [(['B', 'a', 'r'], ['B', 'a', 'r', 'C', 'l', 'a', 's', 's'])] := by decide +kernel
example : (exNs.map (·.name)).Nodup := by decide +kernel
example : Fresh exNs := fresh_of_all exNs (by decide +kernel)
example : tsOf (findClassRecords exNs) ['B', 'a', 'r'] = some ['B', 'a', 'r', 'C', 'l', 'a', 's', 's'] := by
  decide +kernel
example : sfOf (findClassRecords exNs) ['B', 'a', 'r', 'C', 'l', 'a', 's', 's'] = some ['B', 'a', 'r'] := by
  decide +kernel
-- only the member whose first parameter is the instance becomes a virtual method
example :
    (pairVirtuals cexEnv (findClassRecords exNs)).map (·.vfuncs) = [[['d', 'o', '_', 'i', 't']], [], [], [], []] := by
  decide +kernel
-- the get-type function leaves, the constructor stays
example :
    (match removeGetTypes cexEnv exNs with
     | .ok ns => ns.map (·.name)
     | .error _ => []) =
      [['B', 'a', 'r'], ['B', 'a', 'r', 'C', 'l', 'a', 's', 's'], ['b', 'a', 'r', '_', 'n', 'e', 'w'], ['B', 'o', 'x']] := by
  decide +kernel
-- a boxed FooBox attaches to the union Box (same name), not to anything else
def exBoxed : Node :=
  { name := ['B', 'o', 'x'], kind := .boxed, gtypeName := some ['F', 'o', 'o', 'B', 'o', 'x'],
    getType := some ['f', 'o', 'o', '_', 'b', 'x', '_', 'g', 'e', 't', '_', 't', 'y', 'p', 'e'],
    symPrefix := some ['b', 'x'] }

example :
    (pairBoxed cexEnv exNs exBoxed).map (fun n => (n.name, n.gtypeName.isSome)) =
      [(['B', 'a', 'r'], true), (['B', 'a', 'r', 'C', 'l', 'a', 's', 's'], false),
       (['b', 'a', 'r', '_', 'g', 'e', 't', '_', 't', 'y', 'p', 'e'], false), (['b', 'a', 'r', '_', 'n', 'e', 'w'], false),
       (['B', 'o', 'x'], true)] := by
  decide +kernel
-- longest registered prefix: bar_error wins over bar
example :
    (splitUscoredByType
      [(['b', 'a', 'r'], { name := ['B', 'a', 'r'], kind := .cls }),
       (['b', 'a', 'r', '_', 'e', 'r', 'r', 'o', 'r'], { name := ['B', 'a', 'r', 'E', 'r', 'r', 'o', 'r'], kind := .enum })]
      ['b', 'a', 'r', '_', 'e', 'r', 'r', 'o', 'r', '_', 'q', 'u', 'a', 'r', 'k']).map (fun r => (r.1.name, r.2)) =
      some (['B', 'a', 'r', 'E', 'r', 'r', 'o', 'r'], ['q', 'u', 'a', 'r', 'k']) := by
  decide +kernel

end GIVerif.Dump
