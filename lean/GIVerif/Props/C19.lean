/-
  C19 — Library names resolve to the right shared objects or fail loudly.
  ONLY property theorems and non-vacuity examples live here; helper lemmas are in
  GIVerif/Lemmas/Shlibs.lean, the executable model in GIVerif/Model/Shlibs.lean.

  Hypotheses beyond the property's own wording: none for the matcher; the
  first-match / fail-loud theorems use exactly the property's carve-out
  ("no single listed file could satisfy two requests") as `Disjoint`.
  Words handed to `matchWord` come from `str.split()`, so contain no line breaks;
  `$`-before-trailing-newline of Python's `re` is therefore not modelled.
-/
import GIVerif.Lemmas.Shlibs
import GIVerif.Lemmas.CharAux

namespace GIVerif.Shlibs
open GIVerif.Py

/-- The pattern in the source still has the shape the model was written for
    (re-extracted from /repo on every run; `decide` over the generated table). -/
theorem C19_pattern_shape :
    Gen.lddPatternShape =
      ["bol", "rep(0,1,group(rep(0,inf,any)+lit(47)))", "lit(108)", "lit(105)", "lit(98)", "NAME",
       "in(^,47,65-90,97-122,48-57,95,45)", "rep(0,inf,notlit(47))", "eol"]
    ∧ Gen.reEscapeLiteral = true
    ∧ Gen.dlnamePatternShape =
      ["lit(100)", "lit(108)", "lit(110)", "lit(97)", "lit(109)", "lit(101)", "lit(61)", "lit(39)",
       "group(rep(1,inf,in(65-122,48-57,46,45,43)))", "lit(39)", "lit(10)"] := by
  decide

/-- The character allowed right after `lib<name>` is anything but a letter, digit,
    underscore, hyphen (the property's wording) or `/`. -/
theorem C19_sepchar (c : Char) :
    isSepChar c = true ↔
      ¬(isAsciiAlnum c = true ∨ c = '_' ∨ c = '-' ∨ c = '/') := by
  rw [Char.eq_iff_toNat c '_', Char.eq_iff_toNat c '-', Char.eq_iff_toNat c '/']
  simp only [isSepChar, inRanges, Gen.lddExcluded, isAsciiAlnum, isAsciiUpper, isAsciiLower,
    isAsciiDigit, List.any_cons, List.any_nil, Bool.or_false, Bool.not_eq_true', Bool.or_eq_false_iff,
    Bool.and_eq_false_iff, decide_eq_false_iff_not, Bool.or_eq_true, Bool.and_eq_true, decide_eq_true_eq,
    Char.le_iff_toNat, Nat.not_le]
  have e1 : ('A' : Char).toNat = 65 := rfl
  have e2 : ('Z' : Char).toNat = 90 := rfl
  have e3 : ('a' : Char).toNat = 97 := rfl
  have e4 : ('z' : Char).toNat = 122 := rfl
  have e5 : ('0' : Char).toNat = 48 := rfl
  have e6 : ('9' : Char).toNat = 57 := rfl
  have e7 : ('_' : Char).toNat = 95 := rfl
  have e8 : ('-' : Char).toNat = 45 := rfl
  have e9 : ('/' : Char).toNat = 47 := rfl
  rw [e1, e2, e3, e4, e5, e6, e7, e8, e9]
  omega

/-- Exact characterisation of the matcher, for every name (metacharacters in the name
    are literal: the name occurs verbatim in the decomposition). -/
theorem C19_match_iff (name w : Str) :
    matchWord name w = true ↔
      ∃ pre c rest, w = pre ++ "lib".toList ++ name ++ c :: rest ∧
        (pre = [] ∨ ∃ p, pre = p ++ ['/']) ∧ isSepChar c = true ∧ '/' ∉ rest := by
  unfold matchWord
  rw [Bool.or_eq_true, matchAt_iff, matchAfterSlash_iff]
  constructor
  · rintro (⟨c, rest, hw, hc, hr⟩ | ⟨pre, s, hw, hm⟩)
    · exact ⟨[], c, rest, by simpa using hw, Or.inl rfl, hc, hr⟩
    · obtain ⟨c, rest, hs, hc, hr⟩ := matchAt_iff.mp hm
      exact ⟨pre ++ ['/'], c, rest, by simp [hw, hs], Or.inr ⟨pre, rfl⟩, hc, hr⟩
  · rintro ⟨pre, c, rest, hw, (rfl | ⟨p, rfl⟩), hc, hr⟩
    · left; exact ⟨c, rest, by simpa using hw, hc, hr⟩
    · right
      refine ⟨p, "lib".toList ++ name ++ c :: rest, by simp [hw], ?_⟩
      exact matchAt_iff.mpr ⟨c, rest, rfl, hc, hr⟩

/-- For names without a path separator the match is decided by the file's base name:
    it must be `lib<name>` followed by a non-library-name character. -/
theorem C19_match_basename (name w : Str) (hname : '/' ∉ name) :
    matchWord name w = true ↔
      ∃ c rest, basename w = "lib".toList ++ name ++ c :: rest ∧ isSepChar c = true := by
  rw [C19_match_iff]
  constructor
  · rintro ⟨pre, c, rest, hw, hpre, hc, hr⟩
    have hcs : c ≠ '/' := by
      rintro rfl
      exact absurd hc (by rw [C19_sepchar]; simp)
    have hns : '/' ∉ "lib".toList ++ name ++ c :: rest := by
      simp only [List.mem_append, List.mem_cons, not_or]
      exact ⟨⟨by decide, hname⟩, fun h => hcs h.symm, hr⟩
    refine ⟨c, rest, ?_, hc⟩
    rcases hpre with rfl | ⟨p, rfl⟩
    · rw [hw]; simpa using basename_noslash hns
    · rw [hw]
      have := basename_append_slash p _ hns
      simpa using this
  · rintro ⟨c, rest, hb, hc⟩
    have hr : '/' ∉ rest := by
      intro h
      apply basename_no_slash w
      rw [hb]; simp [h]
    rcases basename_decomp w with h | ⟨pre, h⟩
    · exact ⟨[], c, rest, by rw [h, hb]; simp, Or.inl rfl, hc, hr⟩
    · exact ⟨pre ++ ['/'], c, rest, by rw [h, hb]; simp, Or.inr ⟨pre, rfl⟩, hc, hr⟩

/-- `pango` never resolves to `libpangoft2…`, `foo` never to `libfoo-bar…`, `libfoo_x…`
    or `libfoo2…`: a base name that continues `lib<name>` with a library-name character
    is rejected. -/
theorem C19_no_longer_name (name w : Str) (c : Char) (rest : Str) (hname : '/' ∉ name)
    (hb : basename w = "lib".toList ++ name ++ c :: rest) (hc : isSepChar c = false) :
    matchWord name w = false := by
  cases h : matchWord name w with
  | false => rfl
  | true =>
    obtain ⟨c', rest', hb', hc'⟩ := (C19_match_basename name w hname).mp h
    rw [hb] at hb'
    have := List.append_cancel_left hb'
    cases this
    rw [hc] at hc'; cases hc'

/-- A directory component never matches: what follows `lib<name>` up to the end of the
    word must be free of `/`. -/
theorem C19_no_directory (name dir file : Str) (hname : '/' ∉ name) (hfile : '/' ∉ file)
    (hno : ∀ c rest, file = "lib".toList ++ name ++ c :: rest → isSepChar c = false) :
    matchWord name (dir ++ '/' :: file) = false := by
  cases h : matchWord name (dir ++ '/' :: file) with
  | false => rfl
  | true =>
    obtain ⟨c, rest, hb, hc⟩ := (C19_match_basename name _ hname).mp h
    rw [basename_append_slash dir file hfile] at hb
    rw [hno c rest hb] at hc; cases hc

/-- `liblibfoo` is not `libfoo`: the text before `lib<name>` is empty or ends in `/`. -/
theorem C19_no_liblib (name : Str) (c : Char) (rest : Str) (hname : '/' ∉ name)
    (hne : ¬ ("lib".toList ++ name) <+: ("lib".toList ++ "lib".toList ++ name))
    (hrest : '/' ∉ c :: rest) :
    matchWord name ("lib".toList ++ "lib".toList ++ name ++ c :: rest) = false := by
  cases h : matchWord name ("lib".toList ++ "lib".toList ++ name ++ c :: rest) with
  | false => rfl
  | true =>
    exfalso
    obtain ⟨c', rest', hb, _⟩ := (C19_match_basename name _ hname).mp h
    rw [basename_noslash (by
      simp only [List.mem_append, not_or]
      exact ⟨⟨⟨by decide, by decide⟩, hname⟩, hrest⟩)] at hb
    apply hne
    have h1 : ("lib".toList ++ name) <+: ("lib".toList ++ "lib".toList ++ name ++ c :: rest) :=
      ⟨c' :: rest', hb.symm⟩
    have h2 : ("lib".toList ++ "lib".toList ++ name) <+: ("lib".toList ++ "lib".toList ++ name ++ c :: rest) :=
      ⟨c :: rest, rfl⟩
    exact List.prefix_of_prefix_length_le h1 h2 (by simp)

/-! ### the resolver -/

/-- Never a shorter list silently: a successful resolution has exactly one shared
    library per distinct requested (non-file) name. -/
theorem C19_ok_complete (pending words l : List Str) (h : resolveWords pending words = .ok l) :
    l.length = pending.length ∧ l.Sublist words ∧ ∀ x ∈ l, ∃ r ∈ pending, matchWord r x = true := by
  rw [resolveWords_def, finish_ok_iff] at h
  obtain ⟨hemp, hl⟩ := h
  have hlen := foldP_length matchWord words pending []
  obtain ⟨l', h1, h2, h3⟩ := foldP_acc matchWord words pending []
  rw [hemp, hl] at hlen
  rw [hl] at h1
  refine ⟨by simpa using hlen, ?_, ?_⟩
  · rw [h1]; simpa using h2
  · rw [h1]; simpa using h3

/-- Failing is loud and exact: under the property's carve-out the resolver stops with an
    error iff some requested name has no matching word, and the error names exactly those
    requests, in request order. -/
theorem C19_fail_loud (pending words rem : List Str) (hnd : pending.Nodup)
    (hd : Disjoint matchWord pending words) :
    resolveWords pending words = .unresolved rem ↔
      rem = pending.filter (fun r => !words.any (fun w => matchWord r w)) ∧ rem ≠ [] := by
  rw [resolveWords_def, finish_unresolved_iff, foldP_pending_eq matchWord words pending [] hnd hd]
  constructor
  · rintro ⟨h1, h2⟩; exact ⟨h1.symm, h2⟩
  · rintro ⟨h1, h2⟩; exact ⟨h1.symm, h2⟩

/-- Without any carve-out: an error is never spurious in the other direction either —
    whatever is reported unresolved was requested, and the error list is never empty. -/
theorem C19_unresolved_sound (pending words rem : List Str)
    (h : resolveWords pending words = .unresolved rem) : rem ≠ [] ∧ rem.Sublist pending := by
  rw [resolveWords_def, finish_unresolved_iff] at h
  exact ⟨h.2, h.1 ▸ foldP_pending_sublist matchWord words pending []⟩

/-- Each request resolves to the FIRST listed word that matches it. -/
theorem C19_first (pending words l : List Str) (hnd : pending.Nodup)
    (hd : Disjoint matchWord pending words) (h : resolveWords pending words = .ok l) :
    ∀ r ∈ pending, ∃ w, words.find? (fun w => matchWord r w) = some w ∧ w ∈ l := by
  intro r hr
  rw [resolveWords_def, finish_ok_iff] at h
  obtain ⟨hemp, hl⟩ := h
  rw [foldP_pending_eq matchWord words pending [] hnd hd] at hemp
  have hex : words.any (fun w => matchWord r w) = true := by
    have := List.filter_eq_nil_iff.mp hemp r hr
    simpa using this
  cases hf : words.find? (fun w => matchWord r w) with
  | none =>
    rw [List.find?_eq_none] at hf
    rw [List.any_eq_true] at hex
    obtain ⟨w, hw, hm⟩ := hex
    exact absurd hm (hf w hw)
  | some w =>
    refine ⟨w, rfl, ?_⟩
    rw [← hl]
    exact foldP_first matchWord words pending [] hnd hd r hr w hf

/-- Requests are the distinct non-file names: `pendingOf` has no duplicates. -/
theorem C19_pending_nodup (isFile : Str → Bool) (libs : List Str) : (pendingOf isFile libs).Nodup :=
  dedupKeepFirst_nodup _

theorem C19_pending_mem (isFile : Str → Bool) (libs : List Str) (x : Str) :
    x ∈ pendingOf isFile libs ↔ x ∈ libs ∧ isFile x = false := by
  simp [pendingOf, mem_dedupKeepFirst]

/-- Results are reported by base name. -/
theorem C19_reported_basename (isFile : Str → Bool) (libs : List Str) (out : Str) (l : List Str)
    (h : resolveSanitized isFile libs out = .ok l) : ∀ x ∈ l, '/' ∉ x := by
  unfold resolveSanitized at h
  split at h
  · cases h
    intro x hx
    obtain ⟨y, _, rfl⟩ := List.mem_map.mp hx
    exact basename_no_slash y
  · rename_i hne
    cases hr : resolve isFile libs out with
    | ok l' => exact absurd hr (hne l')
    | unresolved n => rw [hr] at h; cases h

/-- The words the resolver hands to the matcher are non-empty and contain no whitespace —
    in particular no line break, which is why `$`-before-newline of Python's `re` never
    matters here. -/
theorem C19_words_clean (out : Str) :
    ∀ w ∈ listingWords out, w ≠ [] ∧ ∀ c ∈ w, isSpace c = false :=
  listingWords_spec out

/-- Header lines (`binary:`), as printed first by ldd on the BSDs, are ignored: a line ending
    in `:` contributes no word, whatever it contains. -/
theorem C19_header_ignored (line rest : Str) (hl : ∀ c ∈ line, isLineBreak c = false)
    (hcolon : endsWith line [':'] = true) :
    listingWords (line ++ '\n' :: rest) = listingWords rest := by
  unfold listingWords
  rw [splitLines_line line rest hl]
  simp [List.filter_cons, hcolon]

/-- Libtool archives resolve to their dlname: the first `dlname='<value>'` line whose value
    is a plain file name gives exactly that value. -/
theorem C19_dlname (v rest : Str) (hv : ∀ c ∈ v, isDlnameChar c = true) (hne : v ≠ []) :
    dlnameSearch ("dlname='".toList ++ v ++ '\'' :: '\n' :: rest) = some v := by
  have hstart : dlnameAt ("dlname='".toList ++ v ++ '\'' :: '\n' :: rest) = some v := by
    unfold dlnameAt
    have hp : dropPrefix? ("dlname='".toList ++ v ++ '\'' :: '\n' :: rest) "dlname='".toList
        = some (v ++ '\'' :: '\n' :: rest) := by
      rw [dropPrefix?_eq_some]; simp
    rw [hp]
    obtain ⟨h1, h2⟩ := takeWhile_dlname v ('\n' :: rest) hv
    simp only [h1, h2]
    cases v with
    | nil => exact absurd rfl hne
    | cons a as => simp
  cases hd : ("dlname='".toList ++ v ++ '\'' :: '\n' :: rest) with
  | nil => simp at hd
  | cons c cs =>
    rw [hd] at hstart
    simp [dlnameSearch, hstart]

/-- The dlname is reported by base name. -/
theorem C19_dlname_basename (data : Str) (r : Str) (h : extractLibtoolShlib data = some r) :
    '/' ∉ r := by
  unfold extractLibtoolShlib at h
  cases hs : dlnameSearch data with
  | none => rw [hs] at h; cases h
  | some g =>
    rw [hs] at h
    simp at h
    rw [← h]
    exact basename_no_slash g

/-! ### non-vacuity: concrete instances of the hypotheses and conclusions -/

example : matchWord "pango-1.0".toList "/usr/lib/libpango-1.0.so.0".toList = true := by decide
example : matchWord "pango".toList "/usr/lib/libpangoft2-1.0.so.0".toList = false := by decide
example : matchWord "foo".toList "/opt/libfoo.d/libbar.so".toList = false := by decide
example : matchWord "foo".toList "liblibfoo.so".toList = false := by decide
example : matchWord "a+b".toList "/x/liba+b.so".toList = true := by decide
example : matchWord "a+b".toList "/x/libaab.so".toList = false := by decide
example :
    resolveWords ["foo".toList, "bar".toList]
      ["libbar.so.1".toList, "=>".toList, "/l/libbar.so.1".toList, "libfoo.so".toList]
      = .ok ["libbar.so.1".toList, "libfoo.so".toList] := by decide
example :
    resolveWords ["foo".toList, "bar".toList] ["libfoo-bar.so".toList]
      = .unresolved ["foo".toList, "bar".toList] := by decide
example : listingWords "a.out:\n\tlibfoo.so.1 => /l/libfoo.so.1 (0x1)\n".toList
    = ["libfoo.so.1".toList, "=>".toList, "/l/libfoo.so.1".toList, "(0x1)".toList] := by decide
example : extractLibtoolShlib "# x\ndlname='libfoo-1.0.so.0'\nlibrary_names='a b'\n".toList
    = some "libfoo-1.0.so.0".toList := by decide
example : Disjoint matchWord ["foo".toList, "bar".toList] ["libfoo.so".toList, "libbar.so".toList] := by
  intro w hw r₁ h₁ r₂ h₂
  simp only [List.mem_cons, List.not_mem_nil, or_false] at hw h₁ h₂
  rcases hw with rfl | rfl <;> rcases h₁ with rfl | rfl <;> rcases h₂ with rfl | rfl <;> decide

end GIVerif.Shlibs
