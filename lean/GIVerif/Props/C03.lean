/-
  C03 — Identifier-level annotations and tags land on the right GIR element.
  ONLY property theorems and non-vacuity examples live here; helper lemmas are in
  GIVerif/Lemmas/IdentAnn.lean, the executable model in GIVerif/Model/IdentAnn.lean.

  Hypotheses beyond the property's own wording
  * C03_keys_disjoint and the "only that property" corollary: names contain no ':' and no '.'
    (`clean`; C identifiers, GObject property/signal names) and no type's annotation name is the
    literal word SECTION (a class `SECTION` with property `foobar` would share the key
    'SECTION:foobar' with the documentation section of type FooBar).  Two types whose names differ
    only in case share one 'SECTION:lower' key: the first one in namespace order consumes it.
  * C03_frame speaks about the passes that READ annotations (`_pass_read_annotations_early`,
    `_pass_read_annotations`, `_pair_class_virtuals`, the (virtual) part of `_pass_read_annotations2`).
    The effects the statement itself names as crossing elements are separate theorems: the
    shadows/shadowed-by pair (C03_rename_*), a virtual method and its invoker (C03_vfunc_*).  The key
    set of ONE virtual method in the pairing (`vfuncPairKeys`, C03_frame_vfunc_pair) contains the
    methods' symbols only when the virtual method has no block of its own (C03_vfunc_own_block_exclusive,
    full since /repo 2bec9c8); `vfuncKeys` is the coarser key set of all virtual methods of a container.
  * C03_rename_symmetric / C03_rename_written: function symbols have pairwise distinct, non-empty GI
    names (`NameEnv`; the attributes carry names, not symbols) and every function carries at most one
    rename-to request (one block per symbol).  The first is about the AST state, the second about the
    attributes the writer emits; both are full statements (chains are refused in either processing
    order since /repo 9b2e314, a request naming its own function since 3c17261).
  * C03_mapping_*: the annotation carries the option it needs (otherwise the real code raises
    IndexError, which the model reproduces as `.error`).  `version` is written for every element kind
    (since /repo 10a3eea also for aliases and callback-holding fields).  An element documented by two
    blocks (type block + SECTION block, virtual method + invoker) shows the later block's value: the
    theorems are stated per application of a block.
  * C03_mapping_signal is about MainTransformer + GIRWriter.  Between the two IntrospectablePass
    compares the named emitter with the signal and may clear it (not modelled, outside this
    property's anchors): the harness oracle judges that step on the real GIR (the emitter must be
    written when return type and parameter types agree, refused with a warning when they do not).
  * C03_accessor_inferred_getter_is_chosen speaks about one property's visit of
    `_pair_property_accessors` (`pairOne`); the methods' set/get-property state before the visit is
    arbitrary.  No further hypotheses.
  * C03_source_shape pins, literally, the statements of `_apply_annotation_rename_to` and
    `_pair_property_accessors` (diagnostics removed) and the guard of every identifier-level attribute
    of the writer; when /repo changes one of them the model has to be re-read against it.
  * parameter/return annotations (C01) and the container/role decision (C04) are inputs, not modelled.
-/
import GIVerif.Lemmas.IdentAnn

namespace GIVerif.IdentAnn
open GIVerif.Py
open GIVerif.Gen.IdentAnn

/-! ### the tables the model was written for (re-extracted from /repo on every run) -/

theorem C03_tables :
    Gen.IdentAnn.keyFormats =
      [("_apply_annotations_function", []), ("_pass_read_annotations_early", []), ("_get_block", []),
       ("_pass_read_annotations", ["SECTION:%s"]), ("_apply_annotations_field", ["%s.%s"]),
       ("_apply_annotations_property", ["%s:%s"]), ("_apply_annotations_signal", ["%s::%s"]),
       ("_apply_annotations_enum_members", []), ("_pass_read_annotations2", []),
       ("_pair_class_virtuals", ["%s::%s"]), ("_apply_annotations_constant", []),
       ("_apply_annotations_alias", [])]
    ∧ Gen.IdentAnn.blockLookups =
      [("_apply_annotations_function", ["get:node.symbol"]),
       ("_pass_read_annotations_early", ["get:node.ctype", "get:node.c_name"]),
       ("_get_block", ["get:self._get_annotation_name(node)"]),
       ("_pass_read_annotations", ["pop:'SECTION:%s' % (name.lower(),)"]),
       ("_apply_annotations_field", ["get:'%s.%s' % (self._get_annotation_name(parent), field.name)"]),
       ("_apply_annotations_property", ["get:'%s:%s' % (prefix, prop.name)"]),
       ("_apply_annotations_signal", ["get:'%s::%s' % (prefix, signal.name)"]),
       ("_apply_annotations_enum_members", ["get:m.symbol"]),
       ("_pass_read_annotations2", ["get:node.symbol"]),
       ("_pair_class_virtuals", ["get:'%s::%s' % (prefix, vfunc.name)", "get:method.symbol"]),
       ("_apply_annotations_constant", []), ("_apply_annotations_alias", [])]
    ∧ keyFmtProperty = "%s:%s".toList ∧ keyFmtSignal = "%s::%s".toList ∧ keyFmtField = "%s.%s".toList
    ∧ keyFmtVfunc = "%s::%s".toList ∧ keyFmtSection = "SECTION:%s".toList
    ∧ [annAttributes, annSkip, annForeign, annConstructor, annMethod, annSetProperty, annGetProperty, annFinishFunc,
       annSyncFunc, annAsyncFunc, annSetter, annGetter, annDefaultValue, annEmitter, annValue, annRenameTo, annVfunc,
       annUnrefFunc, annRefFunc, annSetValueFunc, annGetValueFunc, annCopyFunc, annFreeFunc, tagSince, tagDeprecated,
       tagStability]
      = ["attributes", "skip", "foreign", "constructor", "method", "set-property", "get-property", "finish-func",
         "sync-func", "async-func", "setter", "getter", "default-value", "emitter", "value", "rename-to", "virtual",
         "unref-func", "ref-func", "set-value-func", "get-value-func", "copy-func", "free-func", "since", "deprecated",
         "stability"].map String.toList := by
  decide

/-- the writer: attribute names per `_write_*` function and which of them call `_append_version` -/
theorem C03_writer_tables :
    Gen.IdentAnn.writerAttrs.lookup "_append_version" = some ["version"]
    ∧ Gen.IdentAnn.writerAttrs.lookup "_append_node_generic" =
        some ["introspectable", "deprecated", "deprecated-version", "stability"]
    ∧ Gen.IdentAnn.writerAttrs.lookup "_write_callable" =
        some ["name", "glib:finish-func", "glib:sync-func", "glib:async-func"]
    ∧ Gen.IdentAnn.writerAttrs.lookup "_write_function_common" =
        some ["c:identifier", "shadowed-by", "shadows", "moved-to", "glib:set-property", "glib:get-property"]
    ∧ Gen.IdentAnn.writerAttrs.lookup "_write_property" =
        some ["name", "readable", "writable", "construct", "construct-only", "transfer-ownership", "setter", "getter",
              "default-value"]
    ∧ Gen.IdentAnn.writerAttrs.lookup "_write_signal" =
        some ["name", "when", "no-recurse", "detailed", "action", "no-hooks", "emitter"]
    ∧ Gen.IdentAnn.writerAttrs.lookup "_write_constant" = some ["name", "value", "c:type"]
    ∧ Gen.IdentAnn.writerAttrs.lookup "_write_vfunc" = some ["invoker"]
    ∧ Gen.IdentAnn.writerAttrs.lookup "_write_class" =
        some ["name", "c:symbol-prefix", "c:type", "parent", "abstract", "final", "glib:type-name", "glib:get-type",
              "glib:type-struct", "glib:fundamental", "glib:ref-func", "glib:unref-func", "glib:set-value-func",
              "glib:get-value-func", "name", "name"]
    ∧ Gen.IdentAnn.writerAttrs.lookup "_write_record" =
        some ["name", "c:type", "disguised", "opaque", "pointer", "foreign", "glib:is-gtype-struct-for",
              "copy-function", "free-function", "c:symbol-prefix"]
    ∧ Gen.IdentAnn.writerAttrs.lookup "_write_union" =
        some ["name", "c:type", "c:symbol-prefix", "copy-function", "free-function"]
    ∧ Gen.IdentAnn.writerTags.lookup "_write_generic" =
        some ["attribute", "doc", "doc-version", "doc-deprecated", "doc-stability", "source-position"]
    -- every writer that appends the generic attributes appends the version too (both branches of _write_field)
    ∧ (Gen.IdentAnn.writerCalls.filter (fun p => !p.2.contains "_append_version" && p.2.contains "_append_node_generic")).map (·.1)
        = []
    ∧ Gen.IdentAnn.writerCalls.lookup "_write_field" =
        some ["_append_version", "_append_node_generic", "_write_generic", "_append_version", "_append_node_generic",
              "_write_generic"]
    ∧ Gen.IdentAnn.writerCalls.lookup "_write_alias" = some ["_append_version", "_append_node_generic", "_write_generic"] := by
  decide

/-- the statement-by-statement shape of the functions the model mirrors as folds (`renameStep`: the
    if/elif chain of `_apply_annotation_rename_to`; `pairOne`/`accessorStep`/`dropUnchosen`:
    `_pair_property_accessors`; `virtualSlot`/`virtualStep`/`virtualApply`: the (virtual) path of
    `_pass_read_annotations2`; `ownedIn`: `_get_vfunc_block`; `vfuncPair`: `_pair_class_virtuals`),
    diagnostics removed, and for every identifier-level attribute of the writer its value and the
    guard it is appended under (`optAttr` = truthiness, `someAttr` = `is not None`).  Re-extracted
    from /repo on every run. -/
theorem C03_source_shape :
    Gen.IdentAnn.skeletons =
      [
        ("_apply_annotation_rename_to", [
          "    if not block:",
          "        return",
          "    rename_to = block.annotations.get(ANN_RENAME_TO)",
          "    if not rename_to:",
          "        return",
          "    rename_to = rename_to[0]",
          "    target = self._namespace.get_by_symbol(rename_to)",
          "    if not target:",
          "        pass",
          "    elif target is node:",
          "        pass",
          "    elif target.shadowed_by:",
          "        pass",
          "    elif target.shadows:",
          "        pass",
          "    elif node.shadowed_by:",
          "        pass",
          "    else:",
          "        target.shadowed_by = node.name",
          "        node.shadows = target.name"]),
        ("_pair_property_accessors", [
          "    for prop in node.properties:",
          "        normalized_name = prop.name.replace('-', '_')",
          "        if not prop.introspectable:",
          "            continue",
          "        setter = None",
          "        getter_candidates = {}",
          "        found_getter_candidates = []",
          "        inferred_getters = []",
          "        if prop.setter is None:",
          "            if prop.writable and (not prop.construct_only):",
          "                setter = 'set_' + normalized_name",
          "        else:",
          "            setter = prop.setter",
          "        if prop.getter is None:",
          "            if prop.readable:",
          "                getter_candidates[f'get_{normalized_name}'] = 50",
          "                if prop.type.is_equiv(ast.TYPE_BOOLEAN) and (not normalized_name.startswith('is_')):",
          "                    getter_candidates[f'is_{normalized_name}'] = 25",
          "                if not prop.writable and prop.type.is_equiv(ast.TYPE_BOOLEAN):",
          "                    getter_candidates[normalized_name] = 10",
          "        else:",
          "            getter_candidates[prop.getter] = 99",
          "        for method in node.methods:",
          "            if not method.introspectable:",
          "                continue",
          "            if setter is not None and method.name == setter:",
          "                if method.set_property is None:",
          "                    method.set_property = prop.name",
          "                elif method.set_property != prop.name:",
          "                    method.set_property = prop.name",
          "                prop.setter = method.name",
          "                continue",
          "            if getter_candidates != {} and method.name in getter_candidates:",
          "                if getter_candidates[method.name] < 99 and method.get_property not in (None, prop.name):",
          "                    continue",
          "                found_getter_candidates.append(method.name)",
          "                if method.get_property is None:",
          "                    method.get_property = prop.name",
          "                    inferred_getters.append(method)",
          "                elif method.get_property != prop.name:",
          "                    method.get_property = prop.name",
          "                current_priority = -1",
          "                if (current_getter := prop.getter):",
          "                    current_priority = getter_candidates.get(current_getter, -1)",
          "                if getter_candidates[method.name] >= current_priority:",
          "                    prop.getter = method.name",
          "                continue",
          "        for method in inferred_getters:",
          "            if method.name != prop.getter:",
          "                method.get_property = None"]),
        ("_pass_read_annotations2", [
          "    if isinstance(node, ast.Function):",
          "        block = self._blocks.get(node.symbol)",
          "        self._apply_annotation_rename_to(node, chain, block)",
          "        self._check_instance_parameter(node, block)",
          "        parent = chain[-1] if chain else None",
          "        if block and parent:",
          "            virtual_annotation = block.annotations.get(ANN_VFUNC)",
          "            if virtual_annotation and (not node.is_method):",
          "                pass",
          "            elif virtual_annotation:",
          "                invoker_name = virtual_annotation[0]",
          "                for vfunc in parent.virtual_methods:",
          "                    if vfunc.name == invoker_name:",
          "                        vfunc.invoker = node.name",
          "                        if self._get_vfunc_block(parent, vfunc) is None:",
          "                            self._apply_annotations_callable(vfunc, [parent], block)",
          "                        break",
          "    return True"]),
        ("_get_vfunc_block", [
          "    if not parent.glib_type_struct:",
          "        return None",
          "    class_struct = self._transformer.lookup_typenode(parent.glib_type_struct)",
          "    if class_struct is None:",
          "        return None",
          "    prefix = self._get_annotation_name(class_struct)",
          "    return self._blocks.get('%s::%s' % (prefix, vfunc.name))"]),
        ("_pair_class_virtuals", [
          "    if not node.glib_type_struct:",
          "        return",
          "    node_type = node.create_type()",
          "    class_struct = self._transformer.lookup_typenode(node.glib_type_struct)",
          "    for field in class_struct.fields:",
          "        if isinstance(field, ast.Field):",
          "            field.writable = False",
          "    for field in class_struct.fields:",
          "        callback = None",
          "        if isinstance(field.anonymous_node, ast.Callback):",
          "            callback = field.anonymous_node",
          "        elif field.type is not None:",
          "            callback = self._transformer.lookup_typenode(field.type)",
          "            if not isinstance(callback, ast.Callback):",
          "                continue",
          "        else:",
          "            continue",
          "        if len(callback.parameters) == 0:",
          "            continue",
          "        firstparam_type = callback.parameters[0].type",
          "        if firstparam_type != node_type:",
          "            continue",
          "        vfunc = ast.VFunction.from_callback(field.name, callback)",
          "        vfunc.instance_parameter = callback.parameters[0]",
          "        vfunc.inherit_file_positions(callback)",
          "        prefix = self._get_annotation_name(class_struct)",
          "        block = self._blocks.get('%s::%s' % (prefix, vfunc.name))",
          "        if block is None:",
          "            vfunc.doc = field.doc",
          "            vfunc.doc_position = field.doc_position",
          "        self._apply_annotations_callable(vfunc, [node], block)",
          "        node.virtual_methods.append(vfunc)",
          "    for vfunc in node.virtual_methods:",
          "        for method in node.methods:",
          "            if method.name != vfunc.name:",
          "                continue",
          "            if method.retval.type != vfunc.retval.type:",
          "                continue",
          "            if len(method.parameters) != len(vfunc.parameters):",
          "                continue",
          "            if self._get_vfunc_block(node, vfunc) is not None:",
          "                vfunc.invoker = method.name",
          "                break",
          "            for i in range(len(method.parameters)):",
          "                m_type = method.parameters[i].type",
          "                v_type = vfunc.parameters[i].type",
          "                if m_type != v_type:",
          "                    continue",
          "            vfunc.invoker = method.name",
          "            block = self._blocks.get(method.symbol)",
          "            self._apply_annotations_callable(vfunc, [], block)",
          "            break"])]
    ∧ Gen.IdentAnn.writerConds =
      [
        ("_append_version", ["version=node.version if node.version"]),
        ("_append_node_generic", ["introspectable='0' if node.skip or not node.introspectable", "deprecated='1' if node.deprecated or node.deprecated_doc", "deprecated-version=node.deprecated if node.deprecated", "stability=node.stability if node.stability"]),
        ("_write_generic", []),
        ("_write_alias", []),
        ("_write_callable", ["glib:finish-func=callable.finish_func if callable.finish_func is not None", "glib:sync-func=callable.sync_func if callable.sync_func is not None", "glib:async-func=callable.async_func if callable.async_func is not None"]),
        ("_write_function_common", ["shadowed-by=func.shadowed_by if func.shadowed_by", "shadows=func.shadows if not (func.shadowed_by) and func.shadows", "glib:set-property=func.set_property if func.set_property is not None", "glib:get-property=func.get_property if func.get_property is not None"]),
        ("_write_enum", []),
        ("_write_bitfield", []),
        ("_write_member", []),
        ("_write_constant", []),
        ("_write_class", ["glib:ref-func=node.ref_func if isinstance(node, ast.Class) and node.ref_func", "glib:unref-func=node.unref_func if isinstance(node, ast.Class) and node.unref_func", "glib:set-value-func=node.set_value_func if isinstance(node, ast.Class) and node.set_value_func", "glib:get-value-func=node.get_value_func if isinstance(node, ast.Class) and node.get_value_func"]),
        ("_write_property", ["setter=prop.setter if prop.setter", "getter=prop.getter if prop.getter", "default-value=prop.default_value if prop.default_value is not None"]),
        ("_write_vfunc", ["invoker=vf.invoker if vf.invoker"]),
        ("_write_callback", []),
        ("_write_record", ["foreign='1' if record.foreign", "copy-function=record.copy_func if record.copy_func", "free-function=record.free_func if record.free_func"]),
        ("_write_union", ["copy-function=union.copy_func if union.copy_func", "free-function=union.free_func if union.free_func"]),
        ("_write_field", []),
        ("_write_signal", ["emitter=signal.emitter if signal.emitter"])] := by
  exact ⟨rfl, rfl⟩   -- literal against literal: no string is unpacked

/-! ### C03_keys_disjoint -/

theorem C03_keys_disjoint (t u : Target) (ht : t.Clean) (hu : u.Clean) (h : t.key = u.key) : t.Same u := by
  have st := t.signature ht
  have su := u.signature hu
  rw [h] at st
  rw [st] at su
  cases t <;> cases u <;> simp only [Prod.mk.injEq] at su <;> try (simp at su)
  all_goals simp only [Target.Same]
  · exact h
  · simp only [Target.key, keyProp_eq] at h
    exact append_cons_inj ht.1.1 hu.1.1 h
  · -- prop vs section: only a type literally called SECTION could collide
    simp only [Target.key, keyProp_eq, keySection_eq] at h
    exact ht.2.2 (append_cons_inj ht.1.1 clean_sectionWord.1 h).1
  · simp only [Target.key, keySig_eq] at h
    have := append_cons_inj ht.1.1 hu.1.1 h
    exact ⟨this.1, by simpa using this.2⟩
  · simp only [Target.key, keyField_eq] at h
    exact append_cons_inj ht.1.2 hu.1.2 h
  · simp only [Target.key, keyProp_eq, keySection_eq] at h
    exact hu.2.2 (append_cons_inj hu.1.1 clean_sectionWord.1 h.symm).1
  · simp only [Target.key, keySection_eq] at h
    exact (append_cons_inj clean_sectionWord.1 clean_sectionWord.1 h).2


/-! ### C03_frame: no leakage -/

/-- A block can only reach the elements whose explicit key set contains its key: two block
    dictionaries that agree on `keys ns a` give element `a` the same annotated state — whatever
    else differs (other blocks added, removed or rewritten).  Stated over the whole walk, i.e.
    including the SECTION blocks popped by earlier nodes. -/
theorem C03_frame (blocks blocks' : Blocks) (ns : List Node) (a : Addr)
    (h : ∀ k ∈ keys ns a, blocks k = blocks' k) :
    elemAt (pass1 blocks [] ns) a = elemAt (pass1 blocks' [] ns) a :=
  pass1_frame blocks blocks' ns [] a h

/-- functions (wherever pairing puts them later): only the block named by the C symbol -/
theorem C03_frame_function (blocks blocks' : Blocks) (f : Method) (h : blocks f.symbol = blocks' f.symbol) :
    applyCallable true Elem.fresh (blocks f.symbol) = applyCallable true Elem.fresh (blocks' f.symbol) := by
  rw [h]

/-- virtual methods of a container: their own `Struct::slot` blocks and the blocks of the
    container's own functions (the invoker found by name, or announced by `(virtual slot)`) -/
theorem C03_frame_vfuncs (blocks blocks' : Blocks) (n : Node) (fieldDoc : Str → Option Str)
    (h : ∀ k ∈ vfuncKeys n, blocks k = blocks' k) :
    vfuncsOf blocks n fieldDoc = vfuncsOf blocks' n fieldDoc
    -- the same for the inputs of the two phases as `annotateAll` runs them (pairing of every class first)
    ∧ slotBlocks blocks n = slotBlocks blocks' n ∧ withBlocks blocks n.methods = withBlocks blocks' n.methods
    ∧ withBlocks blocks (walkFuncs n) = withBlocks blocks' (walkFuncs n) :=
  ⟨vfuncsOf_congr n fieldDoc h, vfuncInputs_congr n h⟩

/-- the rename-to requests: only blocks named by a function's C symbol -/
theorem C03_frame_rename (blocks blocks' : Blocks) (fs : List Method)
    (h : ∀ f ∈ fs, blocks f.symbol = blocks' f.symbol) : renameReqs blocks fs = renameReqs blocks' fs :=
  renameReqs_congr h

/-- replace (or add, or delete) the single block stored under `k` -/
def setBlock (blocks : Blocks) (k : Str) (x : Option Block) : Blocks := fun k' => if k' = k then x else blocks k'

/-- corollary: rewriting one block leaves every element whose key set does not contain the
    block's key untouched -/
theorem C03_frame_single_block (blocks : Blocks) (ns : List Node) (k : Str) (x : Option Block) (a : Addr)
    (h : k ∉ keys ns a) :
    elemAt (pass1 (setBlock blocks k x) [] ns) a = elemAt (pass1 blocks [] ns) a := by
  apply C03_frame
  intro k' hk'
  have : k' ≠ k := by rintro rfl; exact h hk'
  simp [setBlock, this]

/-- all names of a namespace are `clean` and no type is literally called SECTION -/
def NsClean (ns : List Node) : Prop :=
  ∀ n ∈ ns, clean (annotationName n) ∧ clean (recordEarlyName n) ∧ clean n.symbol
    ∧ annotationName n ≠ sectionWord
    ∧ (∀ m ∈ n.members, clean m) ∧ (∀ f ∈ n.fields, clean f) ∧ (∀ p ∈ n.props, clean p.name)
    ∧ (∀ s ∈ n.sigs, clean s)

/-- corollary: in a clean namespace the key 'Foo:bar' occurs only in the key set of property `bar`
    of a type whose annotation name is `Foo` -/
theorem C03_property_block_reaches_only_that_property (ns : List Node) (hc : NsClean ns) (A p : Str)
    (hA : clean A) (hp : clean p) (hAs : A ≠ sectionWord) (a : Addr) (h : keyProp A p ∈ keys ns a) :
    ∃ i j n pi, a = .prop i j ∧ ns[i]? = some n ∧ annotationName n = A ∧ n.props[j]? = some pi ∧ pi.name = p := by
  unfold keys at h
  cases hn : ns[a.node]? with
  | none => simp [hn] at h
  | some n =>
    simp only [hn] at h
    have hmem : n ∈ ns := List.mem_of_getElem? hn
    obtain ⟨c1, c2, c3, c4, cm, cf, cp, cs⟩ := hc n hmem
    have tp : (Target.prop A p).Clean := ⟨hA, hp, hAs⟩
    cases a with
    | self i =>
      simp only [nodeKeys, selfKeys, List.mem_cons, List.not_mem_nil, or_false] at h
      rcases h with h | h | h | h
      · exact (C03_keys_disjoint (.prop A p) (.name _) tp c1 h).elim
      · exact (C03_keys_disjoint (.prop A p) (.name _) tp c2 h).elim
      · exact (C03_keys_disjoint (.prop A p) (.name _) tp c3 h).elim
      · exact (C03_keys_disjoint (.prop A p) (.sect _) tp c1 h).elim
    | member i j =>
      simp only [nodeKeys, Option.mem_toList] at h
      have hm : (Target.name (keyProp A p)).Clean := cm _ (List.mem_of_getElem? h)
      exact (C03_keys_disjoint (.prop A p) (.name _) tp hm rfl).elim
    | field i j =>
      simp only [nodeKeys, Option.mem_toList, Option.map_eq_some_iff] at h
      obtain ⟨f, hf, hk⟩ := h
      exact (C03_keys_disjoint (.prop A p) (.field _ f) tp ⟨c1, cf f (List.mem_of_getElem? hf)⟩ hk.symm).elim
    | prop i j =>
      simp only [nodeKeys, Option.mem_toList, Option.map_eq_some_iff] at h
      obtain ⟨pi, hpi, hk⟩ := h
      have := C03_keys_disjoint (.prop A p) (.prop _ pi.name) tp ⟨c1, cp pi (List.mem_of_getElem? hpi), c4⟩ hk.symm
      exact ⟨i, j, n, pi, rfl, hn, this.1.symm, hpi, this.2.symm⟩
    | sig i j =>
      simp only [nodeKeys, Option.mem_toList, Option.map_eq_some_iff] at h
      obtain ⟨s, hs, hk⟩ := h
      exact (C03_keys_disjoint (.prop A p) (.sig _ s) tp ⟨c1, cs s (List.mem_of_getElem? hs)⟩ hk.symm).elim

/-! ### C03_mapping: annotation / tag ↦ GIR attribute -/

/-- `(skip)` ↦ introspectable="0", on every element kind -/
theorem C03_mapping_skip (f : Bool) (e e' : Elem) (b : Block) (k : WKind) (i : Bool) (sh sb : Option Str)
    (h : applyAnnotated f e (some b) = .ok e') (hs : b.has annSkip = true) :
    ("introspectable".toList, "0".toList) ∈ writeAttrs k i e' sh sb := by
  have F := applyAnnotated_fields h
  exact w_introspectable (by rw [F.skip, hs, Bool.or_true])

/-- `Since: v: text` ↦ version="v" and <doc-version>, on every element kind (every element writer
    calls `_append_version`, aliases and callback-holding fields included since /repo 10a3eea) -/
theorem C03_mapping_since (f : Bool) (e e' : Elem) (b : Block) (t : Tag) (k : WKind) (i : Bool) (sh sb : Option Str)
    (h : applyAnnotated f e (some b) = .ok e') (ht : b.since = some t) :
    (∀ c cs, t.value = some (c :: cs) → ("version".toList, c :: cs) ∈ writeAttrs k i e' sh sb)
    ∧ (∀ c cs, t.description = some (c :: cs) → ("doc-version".toList, c :: cs) ∈ (writeChildren e').2) := by
  have F := applyAnnotated_fields h
  constructor
  · intro c cs hv
    exact w_version (by rw [F.version, ht]; simp [tagValue, setIf, hv, truthyS])
  · intro c cs hd
    exact w_children.2.1 (by rw [F.versionDoc, ht]; simp [tagDesc, setIf, hd, truthyS])

/-- `Deprecated: v: text` ↦ deprecated="1", deprecated-version="v", <doc-deprecated> -/
theorem C03_mapping_deprecated (f : Bool) (e e' : Elem) (b : Block) (t : Tag) (k : WKind) (i : Bool)
    (sh sb : Option Str) (h : applyAnnotated f e (some b) = .ok e') (ht : b.deprecated = some t) :
    (∀ c cs, t.value = some (c :: cs) →
        ("deprecated".toList, "1".toList) ∈ writeAttrs k i e' sh sb
        ∧ ("deprecated-version".toList, c :: cs) ∈ writeAttrs k i e' sh sb)
    ∧ (∀ c cs, t.description = some (c :: cs) →
        ("deprecated".toList, "1".toList) ∈ writeAttrs k i e' sh sb
        ∧ ("doc-deprecated".toList, c :: cs) ∈ (writeChildren e').2) := by
  have F := applyAnnotated_fields h
  constructor
  · intro c cs hv
    exact w_deprecated_version (by rw [F.deprecated, ht]; simp [tagValue, setIf, hv, truthyS])
  · intro c cs hd
    have : e'.deprecatedDoc = some (c :: cs) := by rw [F.deprecatedDoc, ht]; simp [tagDesc, setIf, hd, truthyS]
    exact ⟨w_deprecated_doc this, w_children.2.2.1 this⟩

/-- `Stability: v` ↦ stability="v" (+ <doc-stability> for its text) -/
theorem C03_mapping_stability (f : Bool) (e e' : Elem) (b : Block) (t : Tag) (k : WKind) (i : Bool)
    (sh sb : Option Str) (h : applyAnnotated f e (some b) = .ok e') (ht : b.stability = some t) :
    (∀ c cs, t.value = some (c :: cs) → ("stability".toList, c :: cs) ∈ writeAttrs k i e' sh sb)
    ∧ (∀ c cs, t.description = some (c :: cs) → ("doc-stability".toList, c :: cs) ∈ (writeChildren e').2) := by
  have F := applyAnnotated_fields h
  constructor
  · intro c cs hv
    exact w_stability (by rw [F.stability, ht]; simp [tagValue, setIf, hv, truthyS])
  · intro c cs hd
    exact w_children.2.2.2 (by rw [F.stabilityDoc, ht]; simp [tagDesc, setIf, hd, truthyS])

/-- the block's description ↦ <doc>; `(attributes k=v)` ↦ <attribute name="k" value="v"/> -/
theorem C03_mapping_doc_attributes (f : Bool) (e e' : Elem) (b : Block)
    (h : applyAnnotated f e (some b) = .ok e') :
    (∀ c cs, b.description = some (c :: cs) → ("doc".toList, c :: cs) ∈ (writeChildren e').2)
    ∧ (∀ l key c cs, b.attributes = some l → (l.map (·.1)).Nodup → (key, some (c :: cs)) ∈ l →
        (key, c :: cs) ∈ (writeChildren e').1) := by
  have F := applyAnnotated_fields h
  constructor
  · intro c cs hd
    exact w_children.1 (by rw [F.doc, hd]; simp [truthyS])
  · intro l key c cs hl hnd hmem
    show (key, c :: cs) ∈ e'.attributes
    rw [F.attributes, hl]
    exact applyAttributes_mem hnd hmem

/-- `(constructor)` / `(method)` set the role flag the pairing code (C04) then honours where the
    signature permits; `(foreign)` ↦ foreign="1" on a record -/
theorem C03_mapping_roles (e e' : Elem) (b : Block) (i : Bool) (h : applyAnnotated true e (some b) = .ok e') :
    (b.has annConstructor = true → e'.isConstructor = true) ∧ (b.has annMethod = true → e'.isMethod = true)
    ∧ (b.has annForeign = true → ("foreign".toList, "1".toList) ∈ writeAttrs .record i e' none none) := by
  have F := applyAnnotated_fields h
  refine ⟨?_, ?_, ?_⟩ <;> intro hh
  · rw [F.isConstructor, hh]; simp
  · rw [F.isMethod, hh]; simp
  · exact w_foreign (by rw [F.foreign, hh]; simp)

/-- `(set-property p)` / `(get-property p)` on a function ↦ glib:set-property / glib:get-property
    (before `_pair_property_accessors`, which overrides a mismatching annotation with a warning) -/
theorem C03_mapping_function_property (e e' : Elem) (b : Block) (i : Bool) (sh sb : Option Str)
    (h : applyAnnotated true e (some b) = .ok e') :
    (∀ x r, b.get annSetProperty = some (x :: r) → ("glib:set-property".toList, x) ∈ writeAttrs .function i e' sh sb)
    ∧ (∀ x r, b.get annGetProperty = some (x :: r) → ("glib:get-property".toList, x) ∈ writeAttrs .function i e' sh sb) := by
  have F := applyAnnotated_fields h
  constructor
  · intro x r hx
    obtain ⟨sp, h1, h2⟩ := F.setProperty
    simp only [hx, if_true, optFirst_cons] at h1
    cases h1
    exact w_function.1 x (by rw [h2]; rfl)
  · intro x r hx
    obtain ⟨gp, h1, h2⟩ := F.getProperty
    simp only [hx, if_true, optFirst_cons] at h1
    cases h1
    exact w_function.2 x (by rw [h2]; rfl)

/-- `(finish-func f)`, `(sync-func f)`, `(async-func f)` on a function, callback or virtual method -/
theorem C03_mapping_callable (f : Bool) (e e' : Elem) (b : Block) (k : WKind) (i : Bool) (sh sb : Option Str)
    (hk : k = .function ∨ k = .callback ∨ k = .vfunc) (h : applyCallable f e (some b) = .ok e') :
    (∀ x r, b.get annFinishFunc = some (x :: r) → ("glib:finish-func".toList, x) ∈ writeAttrs k i e' sh sb)
    ∧ (∀ x r, b.get annSyncFunc = some (x :: r) → ("glib:sync-func".toList, x) ∈ writeAttrs k i e' sh sb)
    ∧ (∀ x r, b.get annAsyncFunc = some (x :: r) → ("glib:async-func".toList, x) ∈ writeAttrs k i e' sh sb) := by
  obtain ⟨ff, sf, af, h1, h2, h3, h'⟩ := applyCallable_ok h
  have F := applyAnnotated_fields h'
  have W := w_callable (k := k) (i := i) (e := e') (sh := sh) (sb := sb) hk
  refine ⟨?_, ?_, ?_⟩ <;> intro x r hx
  · rw [hx, optFirst_cons] at h1; cases h1
    exact W.1 x (by rw [F.finishFunc]; rfl)
  · rw [hx, optFirst_cons] at h2; cases h2
    exact W.2.1 x (by rw [F.syncFunc]; rfl)
  · rw [hx, optFirst_cons] at h3; cases h3
    exact W.2.2 x (by rw [F.asyncFunc]; rfl)

/-- the block 'Type:prop': `(setter m)`, `(getter m)`, `(default-value v)` -/
theorem C03_mapping_property (blocks : Blocks) (A p : Str) (b : Block) (e' : Elem) (i : Bool)
    (hb : blocks (keyProp A p) = some b) (h : applyProperty blocks A p = .ok e') :
    (∀ c cs r, b.get annSetter = some ((c :: cs) :: r) → ("setter".toList, c :: cs) ∈ writeAttrs .property i e' none none)
    ∧ (∀ c cs r, b.get annGetter = some ((c :: cs) :: r) → ("getter".toList, c :: cs) ∈ writeAttrs .property i e' none none)
    ∧ (∀ c cs r, b.get annDefaultValue = some ((c :: cs) :: r) →
        ("default-value".toList, c :: cs) ∈ writeAttrs .property i e' none none) := by
  unfold applyProperty at h
  rw [hb] at h
  cases h1 : applyAnnotated false Elem.fresh (some b) with
  | error err => simp [h1, bind, Except.bind] at h
  | ok e1 =>
    simp only [h1, bind, Except.bind, pure, Except.pure, Except.ok.injEq] at h
    subst h
    refine ⟨?_, ?_, ?_⟩ <;> intro c cs r hx
    · exact w_property.1 (by show orOld (firstOrNone (b.get annSetter)) e1.setter = _; rw [hx]; rfl)
    · exact w_property.2.1 (by show orOld (firstOrNone (b.get annGetter)) e1.getter = _; rw [hx]; rfl)
    · exact w_property.2.2 (by show orOld (firstOrNone (b.get annDefaultValue)) e1.defaultValue = _; rw [hx]; rfl)

/-- the block 'Type::signal': `(emitter m)` -/
theorem C03_mapping_signal (blocks : Blocks) (A s : Str) (b : Block) (e' : Elem) (i : Bool)
    (hb : blocks (keySig A s) = some b) (h : applySignal blocks A s = .ok e')
    (c : Char) (cs : Str) (r : List Str) (hx : b.get annEmitter = some ((c :: cs) :: r)) :
    ("emitter".toList, c :: cs) ∈ writeAttrs .signal i e' none none := by
  unfold applySignal at h
  rw [hb] at h
  cases h1 : applyAnnotated false Elem.fresh (some b) with
  | error err => simp [h1, bind, Except.bind] at h
  | ok e1 =>
    simp only [h1, bind, Except.bind, pure, Except.pure, Except.ok.injEq] at h
    subst h
    exact w_signal (by show orOld (firstOrNone (b.get annEmitter)) e1.emitter = _; rw [hx]; rfl)

/-- a constant's block: `(value v)` overrides the value -/
theorem C03_mapping_constant (e e' : Elem) (b : Block) (i : Bool) (h : applyConstant e (some b) = .ok e')
    (x : Str) (r : List Str) (hx : b.get annValue = some (x :: r)) :
    ("value".toList, x) ∈ writeAttrs .constant i e' none none := by
  unfold applyConstant at h
  cases h1 : applyAnnotated false e (some b) with
  | error err => simp [h1, bind, Except.bind] at h
  | ok e1 =>
    simp only [h1, bind, Except.bind, pure, Except.pure, Except.ok.injEq] at h
    subst h
    exact w_constant (by show orOld (firstOrNone (b.get annValue)) e1.value = _; rw [hx]; rfl)

/-- a class's own block: `(ref-func f)`, `(unref-func f)`, `(set-value-func f)`, `(get-value-func f)` -/
theorem C03_mapping_class (blocks : Blocks) (n : Node) (b : Block) (e' : Elem) (i : Bool) (hk : n.kind = .klass)
    (hb : blocks (annotationName n) = some b) (h : annotateSelf blocks n = .ok e') (c : Char) (cs : Str) (r : List Str) :
    (b.get annRefFunc = some ((c :: cs) :: r) → ("glib:ref-func".toList, c :: cs) ∈ writeAttrs .klass i e' none none)
    ∧ (b.get annUnrefFunc = some ((c :: cs) :: r) → ("glib:unref-func".toList, c :: cs) ∈ writeAttrs .klass i e' none none)
    ∧ (b.get annSetValueFunc = some ((c :: cs) :: r) →
        ("glib:set-value-func".toList, c :: cs) ∈ writeAttrs .klass i e' none none)
    ∧ (b.get annGetValueFunc = some ((c :: cs) :: r) →
        ("glib:get-value-func".toList, c :: cs) ∈ writeAttrs .klass i e' none none) := by
  unfold annotateSelf at h
  simp only [hk, hb] at h
  cases h1 : applyAnnotated false Elem.fresh (some b) with
  | error err => simp [h1, bind, Except.bind] at h
  | ok e1 =>
    cases h2 : applyAnnotated false e1 (blocks (keySection (annotationName n))) with
    | error err => simp [h1, h2, bind, Except.bind] at h
    | ok e2 =>
      simp only [h1, h2, bind, Except.bind, pure, Except.pure, Except.ok.injEq] at h
      subst h
      refine ⟨?_, ?_, ?_, ?_⟩ <;> intro hx
      · exact w_class.1 (by show firstOrNone (b.get annRefFunc) = _; rw [hx]; rfl)
      · exact w_class.2.1 (by show firstOrNone (b.get annUnrefFunc) = _; rw [hx]; rfl)
      · exact w_class.2.2.1 (by show firstOrNone (b.get annSetValueFunc) = _; rw [hx]; rfl)
      · exact w_class.2.2.2 (by show firstOrNone (b.get annGetValueFunc) = _; rw [hx]; rfl)

/-- a record's / union's own block: `(copy-func f)`, `(free-func f)` -/
theorem C03_mapping_boxed (blocks : Blocks) (n : Node) (b : Block) (e' : Elem) (i : Bool)
    (hb : blocks (annotationName n) = some b) (h : annotateSelf blocks n = .ok e') (c : Char) (cs : Str) (r : List Str) :
    (n.kind = .record → b.get annCopyFunc = some ((c :: cs) :: r) →
        ("copy-function".toList, c :: cs) ∈ writeAttrs .record i e' none none)
    ∧ (n.kind = .record → b.get annFreeFunc = some ((c :: cs) :: r) →
        ("free-function".toList, c :: cs) ∈ writeAttrs .record i e' none none)
    ∧ (n.kind = .union → b.get annCopyFunc = some ((c :: cs) :: r) →
        ("copy-function".toList, c :: cs) ∈ writeAttrs .union i e' none none)
    ∧ (n.kind = .union → b.get annFreeFunc = some ((c :: cs) :: r) →
        ("free-function".toList, c :: cs) ∈ writeAttrs .union i e' none none) := by
  unfold annotateSelf at h
  refine ⟨?_, ?_, ?_, ?_⟩ <;> intro hk hx <;> simp only [hk, hb] at h
  · cases h1 : applyAnnotated false Elem.fresh (blocks (recordEarlyName n)) with
    | error err => simp [h1, bind, Except.bind] at h
    | ok e1 =>
      cases h2 : applyAnnotated false e1 (blocks (keySection (annotationName n))) with
      | error err => simp [h1, h2, bind, Except.bind] at h
      | ok e2 =>
        simp only [h1, h2, bind, Except.bind, pure, Except.pure, Except.ok.injEq] at h
        subst h
        exact w_record.1 (by show firstOrNone (b.get annCopyFunc) = _; rw [hx]; rfl)
  · cases h1 : applyAnnotated false Elem.fresh (blocks (recordEarlyName n)) with
    | error err => simp [h1, bind, Except.bind] at h
    | ok e1 =>
      cases h2 : applyAnnotated false e1 (blocks (keySection (annotationName n))) with
      | error err => simp [h1, h2, bind, Except.bind] at h
      | ok e2 =>
        simp only [h1, h2, bind, Except.bind, pure, Except.pure, Except.ok.injEq] at h
        subst h
        exact w_record.2.1 (by show firstOrNone (b.get annFreeFunc) = _; rw [hx]; rfl)
  · cases h1 : applyAnnotated false Elem.fresh (some b) with
    | error err => simp [h1, bind, Except.bind] at h
    | ok e1 =>
      cases h2 : applyAnnotated false e1 (blocks (keySection (annotationName n))) with
      | error err => simp [h1, h2, bind, Except.bind] at h
      | ok e2 =>
        simp only [h1, h2, bind, Except.bind, pure, Except.pure, Except.ok.injEq] at h
        subst h
        exact w_record.2.2.1 (by show firstOrNone (b.get annCopyFunc) = _; rw [hx]; rfl)
  · cases h1 : applyAnnotated false Elem.fresh (some b) with
    | error err => simp [h1, bind, Except.bind] at h
    | ok e1 =>
      cases h2 : applyAnnotated false e1 (blocks (keySection (annotationName n))) with
      | error err => simp [h1, h2, bind, Except.bind] at h
      | ok e2 =>
        simp only [h1, h2, bind, Except.bind, pure, Except.pure, Except.ok.injEq] at h
        subst h
        exact w_record.2.2.2 (by show firstOrNone (b.get annFreeFunc) = _; rw [hx]; rfl)

/-- a single, uncontested `f: (rename-to g)` ↦ shadows="g's name" on f, shadowed-by="f's name" on g -/
theorem C03_mapping_rename (nameOf : Str → Option Str) (src tgt fn gn : Str) (hs : nameOf src = some fn)
    (ht : nameOf tgt = some gn) (hne : src ≠ tgt) (hfn : fn ≠ []) (hgn : gn ≠ []) :
    wShadows (renameFold nameOf [(src, tgt)]) src = some gn
    ∧ wShadowedBy (renameFold nameOf [(src, tgt)]) tgt = some fn := by
  have hne' : tgt ≠ src := fun h => hne h.symm
  cases fn with
  | nil => exact absurd rfl hfn
  | cons a as =>
    cases gn with
    | nil => exact absurd rfl hgn
    | cons g gs =>
      simp [renameFold, renameStep, RState.init, wShadows, wShadowedBy, hs, ht, truthyS, hne, hne']

/-! ### C03_rename_symmetric -/

/-- After any number of (competing, dangling, circular) rename-to requests — at most one per
    function — `f.shadows` names `g` exactly when `g.shadowed_by` names `f`; nobody is shadowed by
    two functions; whatever is named exists. -/
theorem C03_rename_symmetric (nameOf : Str → Option Str) (env : NameEnv nameOf) (reqs : List (Str × Str))
    (hnd : (reqs.map (·.1)).Nodup) :
    (∀ s t fn gn, nameOf s = some fn → nameOf t = some gn →
      ((renameFold nameOf reqs).shadows s = some gn ↔ (renameFold nameOf reqs).shadowedBy t = some fn))
    ∧ (∀ s s' gn, (renameFold nameOf reqs).shadows s = some gn → (renameFold nameOf reqs).shadows s' = some gn → s = s')
    ∧ (∀ s v, (renameFold nameOf reqs).shadows s = some v → ∃ t, nameOf t = some v)
    ∧ (∀ t w, (renameFold nameOf reqs).shadowedBy t = some w → ∃ s, nameOf s = some w) := by
  have inv := renameFold_inv env reqs hnd
  refine ⟨?_, ?_, ?_, ?_⟩
  · intro s t fn gn hs ht
    constructor
    · intro h
      obtain ⟨t', fn', ht', hs', hsb⟩ := inv.a _ _ h
      have : t' = t := env.inj _ _ _ ht' ht
      subst this
      rw [hs] at hs'; cases hs'
      exact hsb
    · intro h
      obtain ⟨s', gn', hs', ht', hsh⟩ := inv.b _ _ h
      have : s' = s := env.inj _ _ _ hs' hs
      subst this
      rw [ht] at ht'; cases ht'
      exact hsh
  · intro s s' gn h h'
    obtain ⟨t, fn, ht, hs, hsb⟩ := inv.a _ _ h
    obtain ⟨t', fn', ht', hs', hsb'⟩ := inv.a _ _ h'
    have : t' = t := env.inj _ _ _ ht' ht
    subst this
    rw [hsb] at hsb'; cases hsb'
    exact env.inj _ _ _ hs hs'
  · intro s v h
    obtain ⟨t, _, ht, _, _⟩ := inv.a _ _ h
    exact ⟨t, ht⟩
  · intro t w h
    obtain ⟨s, _, hs, _, _⟩ := inv.b _ _ h
    exact ⟨s, hs⟩

/-- the same statement about the attributes the WRITER emits (`shadowed-by` wins over `shadows` in
    `_write_function_common`): for any number of competing, dangling, chained, circular or
    self-naming requests the written pair is mutually consistent -/
theorem C03_rename_written (nameOf : Str → Option Str) (env : NameEnv nameOf) (reqs : List (Str × Str))
    (hnd : (reqs.map (·.1)).Nodup) :
    ∀ s t fn gn, nameOf s = some fn → nameOf t = some gn →
      (wShadows (renameFold nameOf reqs) s = some gn ↔ wShadowedBy (renameFold nameOf reqs) t = some fn) := by
  have inv := renameFold_inv env reqs hnd
  have noboth := renameFold_noboth env reqs hnd
  have hw1 : ∀ s, wShadows (renameFold nameOf reqs) s = (renameFold nameOf reqs).shadows s := by
    intro s
    unfold wShadows
    cases h1 : (renameFold nameOf reqs).shadows s with
    | none => simp [truthyS]
    | some v =>
      cases h2 : (renameFold nameOf reqs).shadowedBy s with
      | some w => exact (noboth s v w h1 h2).elim
      | none =>
        obtain ⟨t, _, ht, _, _⟩ := inv.a _ _ h1
        have := (truthyS_some v).mpr (env.nonempty _ _ ht)
        rw [if_neg (by simp [truthyS]), if_pos this]
  have hw2 : ∀ t, wShadowedBy (renameFold nameOf reqs) t = (renameFold nameOf reqs).shadowedBy t := by
    intro t
    unfold wShadowedBy
    cases h2 : (renameFold nameOf reqs).shadowedBy t with
    | none => simp [truthyS]
    | some w =>
      obtain ⟨s, _, hs, _, _⟩ := inv.b _ _ h2
      have := (truthyS_some w).mpr (env.nonempty _ _ hs)
      simp [this]
  intro s t fn gn hs ht
  rw [hw1, hw2]
  exact (C03_rename_symmetric nameOf env reqs hnd).1 s t fn gn hs ht

/-! ### accessors: `_pair_property_accessors` -/

/-- One property visited by `_pair_property_accessors`: a method that carried no get-property before
    and carries one afterwards is the getter the property names, and what it carries is that property's
    name.  Of several getter candidates (get_active, is_active, active) only the chosen one keeps the
    inferred glib:get-property; explicit `(get-property)` annotations are not touched by this. -/
theorem C03_accessor_inferred_getter_is_chosen (p : PropInfo) (pe : Option Str × Option Str)
    (ms : List (Method × Option Str × Option Str)) (i : Nat) (m m' : Method) (sp sp' : Option Str) (g : Str)
    (h0 : ms[i]? = some (m, sp, none)) (h1 : (pairOne p pe ms).2[i]? = some (m', sp', some g)) :
    m' = m ∧ g = p.name ∧ (pairOne p pe ms).1.2 = some m.name :=
  pairOne_inferred h0 h1

/-! ### C03_vfunc_inherits -/

/-- A virtual method without a block of its own (and without field documentation) whose invoker
    is found by name and signature receives exactly the invoker's block: its state is what that one
    block gives a fresh callable naming the invoker. -/
theorem C03_vfunc_inherits (methods : List (Method × Option Block)) (v : VSlot) (m : Method) (blk : Option Block)
    (hfind : methods.find? (fun x => vmatch v x.1) = some (m, blk)) :
    vfuncPair none none methods v = applyCallable false { Elem.fresh with invoker := some m.name } blk := by
  simp [vfuncPair, applyCallable, hfind, bind, Except.bind]
  rfl

/-- ... and without an invoker it stays undocumented -/
theorem C03_vfunc_no_invoker (methods : List (Method × Option Block)) (v : VSlot)
    (hfind : methods.find? (fun x => vmatch v x.1) = none) :
    vfuncPair none none methods v = .ok Elem.fresh := by
  simp [vfuncPair, applyCallable, hfind, bind, Except.bind]
  rfl

/-- the `(virtual slot)` annotation of a method: the slot named by the annotation gets the function
    as invoker; a slot without a block of its own also gets the function's block applied on top of
    whatever it had, one with a block of its own keeps its state -/
theorem C03_vfunc_virtual_annotation (owned : Str → Bool) (paired : Method → Bool) (f : Method) (b : Block)
    (slot : Str) (r : List Str) (e : Elem) (rest : List (Str × Elem)) (h : b.get annVfunc = some (slot :: r))
    (hm : paired f = true ∨ b.has annMethod = true) :
    virtualStep owned paired ((slot, e) :: rest) (f, some b)
      = if owned slot then .ok ((slot, { e with invoker := some f.name }) :: rest)
        else (applyCallable false { e with invoker := some f.name } (some b)).map (fun e' => (slot, e') :: rest) := by
  have hv : virtualSlot paired (f, some b) = some (b, slot) := by
    simp only [virtualSlot, h]
    rcases hm with hm | hm <;> simp [hm]
  simp only [virtualStep, hv, virtualApply, if_true]
  split
  · rfl
  · cases applyCallable false { e with invoker := some f.name } (some b) <;> rfl

/-- ... and on a function that is no method (a constructor, a static function, without `(method)`) the
    annotation is ignored -/
theorem C03_vfunc_virtual_non_method (owned : Str → Bool) (paired : Method → Bool) (f : Method) (b : Block)
    (vs : List (Str × Elem)) (hp : paired f = false) (hm : b.has annMethod = false) :
    virtualStep owned paired vs (f, some b) = .ok vs := by
  have hv : virtualSlot paired (f, some b) = none := by
    simp only [virtualSlot]
    split
    · simp [hp, hm]
    · rfl
  simp only [virtualStep, hv]

/-- A virtual method WITH a block of its own: the blocks of the methods play no role, it only learns
    its invoker's name (the parenthesis of the statement read the other way round; a reported finding
    until /repo 2bec9c8) -/
theorem C03_vfunc_own_block_exclusive (own : Block) (fieldDoc : Option Str)
    (methods methods' : List (Method × Option Block)) (v : VSlot) (h : methods.map (·.1) = methods'.map (·.1)) :
    vfuncPair (some own) fieldDoc methods v = vfuncPair (some own) fieldDoc methods' v :=
  vfuncPair_own_congr own fieldDoc v h

/-- the key set of ONE virtual method in the pairing: its own `Struct::name` key, and the symbols of
    the container's methods only when it has no block of its own -/
def vfuncPairKeys (blocks : Blocks) (n : Node) (sa : Str) (v : VSlot) : List Str :=
  keyVfunc sa v.name :: (if (blocks (keyVfunc sa v.name)).isSome then [] else n.methods.map (·.symbol))

theorem C03_frame_vfunc_pair (blocks blocks' : Blocks) (n : Node) (sa : Str) (v : VSlot) (fieldDoc : Option Str)
    (h : ∀ k ∈ vfuncPairKeys blocks n sa v, blocks k = blocks' k) :
    vfuncPair (blocks (keyVfunc sa v.name)) fieldDoc (withBlocks blocks n.methods) v
      = vfuncPair (blocks' (keyVfunc sa v.name)) fieldDoc (withBlocks blocks' n.methods) v := by
  have h0 := h (keyVfunc sa v.name) (by simp [vfuncPairKeys])
  rw [← h0]
  cases hb : blocks (keyVfunc sa v.name) with
  | some own => exact vfuncPair_own_congr own fieldDoc v (by simp [withBlocks, Function.comp_def])
  | none =>
    rw [withBlocks_congr (fun f hf => h _ (by
      simp only [vfuncPairKeys, hb, Option.isSome_none, Bool.false_eq_true, if_false, List.mem_cons, List.mem_map]
      exact Or.inr ⟨f, hf, rfl⟩))]

/-! ### non-vacuity: concrete instances of the hypotheses and conclusions -/

section Examples

def exBar : Node :=
  { kind := .klass, ctype := some "FooBar".toList, gtypeName := some "FooBar".toList, cName := "FooBar".toList,
    fields := ["size".toList], props := [{ name := "size".toList }], sigs := ["size".toList],
    structAnn := some "FooBarClass".toList, vslots := [{ name := "run".toList }],
    methods := [{ symbol := "foo_bar_run".toList, name := "run".toList },
                { symbol := "foo_bar_go".toList, name := "go".toList }] }

def exBaz : Node :=
  { kind := .klass, ctype := none, gtypeName := some "FooBaz".toList, cName := "FooBaz".toList,
    props := [{ name := "size".toList }] }

def exBlocks : Blocks := fun k =>
  if k = "FooBar:size".toList then
    some { anns := [(annSkip, []), (annSetter, ["set_it".toList])],
           since := some { value := some "1.2".toList, description := some "new".toList } }
  else if k = "FooBaz:size".toList then some { deprecated := some { value := some "3.0".toList } }
  else if k = "foo_bar_run".toList then
    some { description := some "Runs.".toList, anns := [(annFinishFunc, ["run_finish".toList])] }
  else none

-- the keys are what the documentation says they are, and near-colliding names give distinct keys
example : keyProp "FooBar".toList "size".toList = "FooBar:size".toList := by decide
example : keySig "FooBar".toList "size".toList = "FooBar::size".toList := by decide
example : keyField "FooBar".toList "size".toList = "FooBar.size".toList := by decide
example : keySection "FooBar".toList = "SECTION:foobar".toList := by decide
example : keySection "Foobar".toList = keySection "FooBar".toList := by decide
example : annotationName exBaz = "FooBaz".toList := by decide
example : (Target.prop "FooBar".toList "size".toList).Clean := by
  refine ⟨⟨?_, ?_⟩, ⟨?_, ?_⟩, ?_⟩ <;> decide
example : (Target.sect "FooBar".toList).Clean := by constructor <;> decide
example : ¬ (Target.prop sectionWord "foobar".toList).Clean := fun h => h.2.2 rfl
example : (Target.prop sectionWord "foobar".toList).key = (Target.sect "FooBar".toList).key := by decide

-- frame: the namespace [Bar, Baz] with two classes sharing the property name `size`
example : keys [exBar, exBaz] (.prop 0 0) = ["FooBar:size".toList] := by decide
example : "FooBaz:size".toList ∉ keys [exBar, exBaz] (.prop 0 0) := by decide
example : elemAt (pass1 (setBlock exBlocks "FooBaz:size".toList none) [] [exBar, exBaz]) (.prop 0 0)
    = elemAt (pass1 exBlocks [] [exBar, exBaz]) (.prop 0 0) :=
  C03_frame_single_block exBlocks [exBar, exBaz] _ none (.prop 0 0) (by decide)
-- ... and the block does reach its own target
example : elemAt (pass1 (setBlock exBlocks "FooBaz:size".toList none) [] [exBar, exBaz]) (.prop 1 0)
    ≠ elemAt (pass1 exBlocks [] [exBar, exBaz]) (.prop 1 0) := by decide
example : NsClean [exBar, exBaz] := by
  intro n hn
  simp only [List.mem_cons, List.not_mem_nil, or_false] at hn
  rcases hn with rfl | rfl <;> refine ⟨⟨?_, ?_⟩, ⟨?_, ?_⟩, ⟨?_, ?_⟩, ?_, ?_, ?_, ?_, ?_⟩ <;> decide

-- mapping: the hypotheses are met by a concrete block and the attributes come out
example : ∃ e', applyProperty exBlocks "FooBar".toList "size".toList = .ok e'
    ∧ writeAttrs .property true e' none none
        = [("version".toList, "1.2".toList), ("introspectable".toList, "0".toList), ("setter".toList, "set_it".toList)]
    ∧ (writeChildren e').2 = [("doc-version".toList, "new".toList)] := by
  refine ⟨_, rfl, ?_, ?_⟩ <;> decide
example : applyCallable true Elem.fresh (some { anns := [(annFinishFunc, [])] }) = .error .indexError := by decide
example : ("version".toList, "1.5".toList) ∈ writeAttrs .alias true { version := some "1.5".toList } none none
    ∧ ("version".toList, "1.5".toList) ∈ writeAttrs .callbackField true { version := some "1.5".toList } none none := by
  decide

-- rename-to: three functions compete for one target, one request dangles, one is circular
example : NameEnv abcNames := abcNames_env
example :
    let st := renameFold abcNames [("a".toList, "c".toList), ("b".toList, "c".toList), ("c".toList, "a".toList),
                                   ("d".toList, "x".toList)]
    st.shadows "a".toList = some "c".toList ∧ st.shadowedBy "c".toList = some "a".toList
    ∧ st.shadows "b".toList = none ∧ st.shadows "c".toList = none ∧ st.shadowedBy "a".toList = none := by
  decide
example : ((([("a".toList, "c".toList), ("b".toList, "c".toList)] : List (Str × Str)).map (·.1)).Nodup) := by decide
-- a chain a→b→c is refused in either processing order: exactly one pair results, nobody carries both
example :
    let st := renameFold abcNames [("a".toList, "b".toList), ("b".toList, "c".toList)]
    wShadows st "a".toList = some "b".toList ∧ wShadowedBy st "b".toList = some "a".toList
    ∧ st.shadows "b".toList = none ∧ st.shadowedBy "c".toList = none := by
  decide
example :
    let st := renameFold abcNames [("b".toList, "c".toList), ("a".toList, "b".toList)]
    wShadows st "b".toList = some "c".toList ∧ wShadowedBy st "c".toList = some "b".toList
    ∧ st.shadows "a".toList = none ∧ st.shadowedBy "b".toList = none := by
  decide
-- a request naming its own function is refused; a later request for the same target still succeeds
example :
    let st := renameFold abcNames [("a".toList, "a".toList), ("b".toList, "a".toList)]
    st.shadows "a".toList = none ∧ wShadowedBy st "a".toList = some "b".toList
    ∧ wShadows st "b".toList = some "a".toList := by
  decide

-- accessors: two getter candidates for a boolean property, in either order get_active wins and
-- is_active is left without glib:get-property; an explicit (get-property) on is_active stays
def exIs : Method := { symbol := "foo_bar_is_active".toList, name := "is_active".toList }
def exGet : Method := { symbol := "foo_bar_get_active".toList, name := "get_active".toList }
example : pairOne { name := "active".toList, isBool := true } (none, none) [(exIs, none, none), (exGet, none, none)]
    = ((none, some "get_active".toList), [(exIs, none, none), (exGet, none, some "active".toList)]) := by decide
example : pairOne { name := "active".toList, isBool := true } (none, none) [(exGet, none, none), (exIs, none, none)]
    = ((none, some "get_active".toList), [(exGet, none, some "active".toList), (exIs, none, none)]) := by decide
example : pairOne { name := "active".toList, isBool := true } (none, none)
      [(exGet, none, none), (exIs, none, some "active".toList)]
    = ((none, some "get_active".toList), [(exGet, none, some "active".toList), (exIs, none, some "active".toList)]) := by
  decide

-- virtual methods: with a block of its own the slot keeps its documentation and only learns the invoker
example : vfuncPair (some { description := some "own".toList }) none
      [({ symbol := "foo_bar_run".toList, name := "run".toList },
        some { description := some "invoker".toList, anns := [(annSkip, [])] })] { name := "run".toList }
    = .ok { doc := some "own".toList, invoker := some "run".toList } := by decide
example : (vfuncPairKeys (setBlock exBlocks "FooBarClass::run".toList (some {})) exBar "FooBarClass".toList { name := "run".toList })
      = ["FooBarClass::run".toList]
    ∧ vfuncPairKeys exBlocks exBar "FooBarClass".toList { name := "run".toList }
      = ["FooBarClass::run".toList, "foo_bar_run".toList, "foo_bar_go".toList] := by decide
-- (virtual run) on a function that is no method is ignored; on a method it names the invoker
example : virtualStep (fun _ => false) (fun _ => false) [("run".toList, Elem.fresh)]
      ({ symbol := "foo_bar_new".toList, name := "new".toList }, some { anns := [(annVfunc, ["run".toList])] })
    = .ok [("run".toList, Elem.fresh)] := by decide
example : virtualStep (fun _ => true) (fun _ => true) [("run".toList, Elem.fresh)]
      ({ symbol := "foo_bar_go".toList, name := "go".toList },
       some { description := some "Go.".toList, anns := [(annVfunc, ["run".toList])] })
    = .ok [("run".toList, { invoker := some "go".toList })] := by decide
example : vfuncsOf exBlocks exBar (fun _ => none)
    = .ok [("run".toList, { doc := some "Runs.".toList, finishFunc := some "run_finish".toList,
                            invoker := some "run".toList })] := by decide
example : (withBlocks exBlocks exBar.methods).find? (fun x => vmatch { name := "run".toList } x.1)
    = some ({ symbol := "foo_bar_run".toList, name := "run".toList }, exBlocks "foo_bar_run".toList) := by decide

end Examples

end GIVerif.IdentAnn
