/-
  C11 — Comment parsing never aborts, and its diagnostics point at the source.
  ONLY property theorems and non-vacuity examples live here; helper lemmas are in
  GIVerif/Lemmas/AnnParse{Total,Caret}.lean, the model in GIVerif/Model/AnnParse*.lean.

  Proved here for ALL strings: the tokenizer layer (`_parse_annotations`,
  `_parse_annotation`, the option parsers, `_parse_fields`), the block state machine
  `parseBlock` (= `parse_comment_block` up to, not including, the final `validate()`) and the
  message log.  Every partial Python operation of these layers (`len(x)`, `x[0]`, `x[1]` on a
  value that could be `None` or too short, `comment_lines[-1]`, `line_indent <= part_indent`
  with `part_indent` None, `current_part.description` with `current_part` None, a `None`
  annotation name used as a key) is an explicit `Except PyErr` step of the model, so "never
  raises" is a statement about reachability (C11_ann_total, C11_block_total); the `len(options)` step
  of `validate()` is total as well (C11_validate_len; it was not before fix 065a201).
  Line numbers at block level: C11_line_step (what is logged while a line is read names that line)
  and C11_line (every diagnostic, and every position `validate()` reports, names a line of the
  comment).  The caret clause at block level and the message texts of `validate()` are covered by the model correspondence (every
  diagnostic with line, caret and quoted line is compared with the real parser) and by the
  statement-level oracles of harness/c11.py, not by a theorem.

  Hypotheses beyond the property's wording: C11_caret assumes what the caller guarantees,
  `col + fields.length ≤ line.length` (the field is a slice of the line starting at `col`);
  `str.lower()` is modelled character-wise from CPython's table (no final-sigma rule).
-/
import GIVerif.Lemmas.AnnParseCaret
import GIVerif.Lemmas.AnnParseBlockTotal
import GIVerif.Lemmas.AnnParseBlockDiag
import GIVerif.Lemmas.AnnParseBlockPos

namespace GIVerif.AnnParse
open GIVerif.Py

/-- Totality of the tokenizer: for EVERY string, every column, every set of existing
    annotations and both modes, `_parse_annotations` returns a result or a structured failure;
    no partial Python operation is reached with a bad argument. -/
theorem C11_ann_total (parseOptions : Bool) (col : Nat) (fields : Str) (init : Option Anns) :
    (∃ a raw ch sp ep d, parseAnnotations parseOptions col fields init = .ok a raw ch sp ep d) ∨
    (∃ d, parseAnnotations parseOptions col fields init = .fail d) := by
  cases h : parseAnnotations parseOptions col fields init with
  | ok a raw ch sp ep d => exact Or.inl ⟨a, raw, ch, sp, ep, d, rfl⟩
  | fail d => exact Or.inr ⟨d, rfl⟩
  | raise e => exact absurd h (parseAnnotations_not_raise _ _ _ _ e)

/-- the same for a single annotation and for `_parse_fields` -/
theorem C11_annotation_total (col : Nat) (annotation : Str) : ∃ r, parseAnnotation col annotation = .ok r :=
  parseAnnotation_ok col annotation

theorem C11_fields_total (po vd : Bool) (col : Nat) (fields : Str) (init : Option Anns) :
    ∃ r, parseFields po vd col fields init = .ok r := by
  unfold parseFields
  cases h : parseAnnotations po col fields init with
  | raise e => exact absurd h (parseAnnotations_not_raise _ _ _ _ e)
  | fail d => exact ⟨_, rfl⟩
  | ok a raw ch sp ep d =>
    simp only []
    split
    · split <;> exact ⟨_, rfl⟩
    · exact ⟨_, rfl⟩

/-- Totality of the block state machine: for EVERY comment text and line number,
    `parse_comment_block` (up to the final `validate()`) returns a block or `None` together with the
    diagnostics it logged; none of its partial operations (`comment_lines[-1]`, `line_indent <=
    part_indent`, `current_part.description`, `annotations[name]` with a `None` name, the
    `len()`/`[i]` of the `Attributes:` tag) is reached with a bad argument. -/
theorem C11_block_total (comment : Str) (lineno : Nat) :
    ∃ (b : Option BlockM) (d : List BDiag), parseBlock comment lineno = .ok (b, d) := by
  obtain ⟨⟨b, d⟩, h⟩ := parseBlock_ok comment lineno
  exact ⟨b, d, h⟩

/-- ... in particular a failing annotation field never stops the loop: the line is processed and the
    loop goes on with a state that again satisfies the loop invariant -/
theorem C11_line_total (h : Hdr) (st : BSt) (ln : Nat) (line : Str) (hinv : BInv st) :
    ∃ st', lineStep h st ln line = .ok st' ∧ BInv st' :=
  lineStep_ok h st ln line hinv

/-- Line numbers, per line: whatever the state machine logs while it reads the source line numbered `ln`
    names exactly that line (every `warn()`/`error()` of the loop body gets `Position(filename, lineno)` of
    the line being read; nothing logged earlier is changed). -/
theorem C11_line_step (h : Hdr) (st st' : BSt) (ln : Nat) (line : Str) (hs : lineStep h st ln line = .ok st') :
    ∃ d, st'.diags = st.diags ++ d ∧ ∀ x ∈ d, x.line = ln :=
  lineStep_grows h st ln line st' hs

/-- Line numbers, whole block: when the opening token stands alone on its line, every diagnostic of the state
    machine names a line of the comment itself (between its first line `lineno` and its last line), and so does
    every position `validate()` reports — a part that has annotations always has positioned annotations
    (`annotations.position` is never `None` there: the first line of the part, the continuation line on which
    its annotations begin, or the line of the deprecated tag that supplied them), on a line behind the opening
    token.  (Which messages `validate()` logs is not modelled; all of them use that one position.) -/
theorem C11_line (comment : Str) (lineno : Nat) (b : Option BlockM) (d : List BDiag)
    (h : parseBlock comment lineno = .ok (b, d)) (halone : OpeningAlone (commentLines comment)) :
    (∀ x ∈ d, lineno ≤ x.line ∧ x.line < lineno + (commentLines comment).length) ∧
    (∀ B, b = some B → ∀ p ∈ validatePositions B,
      ∃ l, p = some l ∧ lineno < l ∧ l < lineno + (commentLines comment).length) := by
  refine ⟨parseBlock_diag_lines comment lineno b d h halone, ?_⟩
  intro B hB
  subst hB
  exact parseBlock_validate_lines comment lineno B d h halone

/-- Atomicity: when the tokenizer rejects a field (unbalanced / unexpected parentheses), the
    part's annotations are exactly as before — on a first line the part keeps no annotation,
    on a continuation line it keeps exactly those it had. -/
theorem C11_atomic_annotations (po vd : Bool) (col : Nat) (fields : Str) (cur : Anns) (d : List TDiag)
    (h : parseAnnotations po col fields (some cur) = .fail d) :
    ∃ r, parseFields po vd col fields (some cur) = .ok r ∧ r.success = false ∧ r.diags = d ∧
      applyContinuation cur r = cur ∧ applyFirst r = [] := by
  unfold parseFields
  rw [h]
  exact ⟨_, rfl, rfl, rfl, rfl, rfl⟩

/-- ... and a failing tokenizer run reports at least the error that made it fail -/
theorem C11_fail_is_reported (po : Bool) (col : Nat) (fields : Str) (init : Option Anns) (d : List TDiag)
    (h : parseAnnotations po col fields init = .fail d) : d ≠ [] := by
  unfold parseAnnotations at h
  cases hl : loop po col fields 0 (initSt init) with
  | raise e => simp [hl] at h
  | done s =>
    simp only [hl] at h
    split at h
    · cases h; simp
    · cases h
  | fail dd =>
    simp only [hl] at h
    cases h
    exact loop_fail_ne_nil _ _ _ _ _ _ hl

/-- Caret bookkeeping of the tokenizer: every position it hands to the message log lies
    strictly inside the field, hence — for a field that is a slice of the source line at
    column `col` — inside the quoted source line. -/
theorem C11_caret (po : Bool) (col : Nat) (line fields : Str) (init : Option Anns)
    (hslice : col + fields.length ≤ line.length) :
    ∀ d ∈ (parseAnnotations po col fields init).diags, d.marker < line.length := by
  intro d hd
  have := parseAnnotations_caret po col fields init d hd
  omega

/-- the same for `_parse_fields`, including its own `missing ":"` warning -/
theorem C11_fields_caret (po vd : Bool) (col : Nat) (line fields : Str) (init : Option Anns) (r : FieldsResult)
    (hslice : col + fields.length ≤ line.length) (h : parseFields po vd col fields init = .ok r) :
    ∀ d ∈ r.diags, d.marker < line.length := by
  unfold parseFields at h
  have hc := parseAnnotations_caret po col fields init
  cases hp : parseAnnotations po col fields init with
  | raise e => rw [hp] at h; cases h
  | fail dd =>
    rw [hp] at h; cases h
    intro d hd
    have := hc d (by rw [hp]; exact hd)
    omega
  | ok a raw ch sp ep dd =>
    rw [hp] at h hc
    simp only [AnnResult.diags] at hc
    simp only [] at h
    split at h
    · rename_i hcond
      split at h
      · cases h; intro d hd; have := hc d hd; omega
      · cases h
        intro d hd
        simp only [List.mem_append] at hd
        rcases hd with hd | hd
        · have := hc d hd; omega
        · split at hd
          · simp only [List.mem_singleton] at hd
            rw [hd]
            -- the description is non-empty, so something follows end_pos
            have hne : fields.drop ep ≠ [] := by
              intro he
              rw [he] at hcond
              simp [strip, lstrip, rstrip] at hcond
            have : ep < fields.length := by
              cases hlt : decide (ep < fields.length) with
              | true => exact of_decide_eq_true hlt
              | false =>
                exfalso; apply hne
                exact List.drop_eq_nil_of_le (by have := of_decide_eq_false hlt; omega)
            simp; omega
          · simp at hd
    · cases h; intro d hd; have := hc d hd; omega

/-! ### `validate()`: `len(options)`

`GtkDocAnnotatable._validate_annotation` starts with `n_options = len(options)`.  It is
called for every annotation name in the part's `valid_annotations`; the options come from
`_parse_annotation`, i.e. from `classStep`.  (Before fix 065a201 `copy-func` / `free-func` were validated
but not in ALL_ANNOTATIONS, so their options could be `None` and `len(None)` raised.) -/

/-- every validated annotation name is a known annotation: none is left that gets the options of an
    unknown annotation (`None`) -/
theorem C11_validate_len_affected :
    (Gen.validBlock ++ Gen.validParameter ++ Gen.validTag).filter (fun n => !Gen.allAnnotations.contains n) = [] := by
  decide +kernel

theorem C11_validated_known :
    ∀ n ∈ Gen.validBlock ++ Gen.validParameter ++ Gen.validTag,
      isListAnn n.toList = true ∨ isDictAnn n.toList = true := by
  decide +kernel

/-- for every name in ALL_ANNOTATIONS (list or dict class) `len(options)` is defined for every option text -/
theorem C11_validate_len_known (col : Nat) (n : Str) (opts : Option Str)
    (h : isListAnn n = true ∨ isDictAnn n = true) : ∃ k, pyLen (classStep col n opts).1.2 = .ok k := by
  unfold classStep
  simp only []
  cases hl : isListAnn n with
  | true =>
    simp only [if_true]
    obtain ⟨l, hl'⟩ := optionsList_isList (col + n.length + 2) opts
    exact ⟨l.length, by rw [hl']; rfl⟩
  | false =>
    have hd : isDictAnn n = true := by
      rcases h with h | h
      · rw [hl] at h; cases h
      · exact h
    simp only [Bool.false_eq_true, if_false, hd, if_true]
    unfold optionsDict
    cases opts with
    | none => exact ⟨0, rfl⟩
    | some o =>
      simp only []
      split <;> exact ⟨_, rfl⟩

/-- Totality of the `len(options)` step of `validate()`: for every annotation name some part class
    validates, whatever option text follows the name, `len(options)` is defined — `len(None)` is not
    reachable. -/
theorem C11_validate_len (n : String) (hn : n ∈ Gen.validBlock ++ Gen.validParameter ++ Gen.validTag) (col : Nat)
    (opts : Option Str) : ∃ k, pyLen (classStep col n.toList opts).1.2 = .ok k :=
  C11_validate_len_known col n.toList opts (C11_validated_known n hn)

/-! ### the message log -/

theorem Logger.log_count (lg : Logger) (t : LogType) : (lg.log t).1.warningCount = lg.warningCount + 1 := by
  unfold Logger.log
  simp only []
  split <;> rfl

theorem Logger.log_enable (lg : Logger) (t : LogType) : (lg.log t).1.enableWarnings = lg.enableWarnings := by
  unfold Logger.log
  simp only []
  split <;> rfl

/-- Every log call is counted, whether or not its display is suppressed. -/
theorem C11_count (enable : Bool) (ts : List LogType) :
    ((Logger.new enable).logAll ts).warningCount = ts.length := by
  have : ∀ (ts : List LogType) (lg : Logger), (lg.logAll ts).warningCount = lg.warningCount + ts.length := by
    intro ts
    induction ts with
    | nil => intro lg; rfl
    | cons t ts ih =>
      intro lg
      simp only [Logger.logAll, List.foldl_cons] at ih ⊢
      rw [ih, Logger.log_count]
      simp; omega
  rw [this]; simp [Logger.new]

/-- Suppression only affects what is written, never what is counted: the two loggers of a
    run with and without `--warn-all` agree on the count. -/
theorem C11_count_indep (ts : List LogType) :
    ((Logger.new true).logAll ts).warningCount = ((Logger.new false).logAll ts).warningCount := by
  rw [C11_count, C11_count]

/-- Warnings-as-errors fails the run exactly when something was diagnosed. -/
theorem C11_warn_fatal (enable : Bool) (ts : List LogType) :
    warnFatalFails true ((Logger.new enable).logAll ts) = true ↔ ts ≠ [] := by
  simp only [warnFatalFails, Bool.true_and, decide_eq_true_eq, C11_count]
  cases ts <;> simp

/-- With warnings disabled nothing but FATAL is ever written. -/
theorem C11_suppressed_written (ts : List LogType) (h : ∀ t ∈ ts, t ≠ .fatal) :
    ((Logger.new false).logAll ts).written = 0 := by
  have : ∀ (ts : List LogType) (lg : Logger), lg.enableWarnings = false → (∀ t ∈ ts, t ≠ .fatal) →
      (lg.logAll ts).written = lg.written := by
    intro ts
    induction ts with
    | nil => intro lg _ _; rfl
    | cons t ts ih =>
      intro lg he hf
      simp only [Logger.logAll, List.foldl_cons] at ih ⊢
      rw [ih _ (by rw [Logger.log_enable]; exact he) (fun x hx => hf x (by simp [hx]))]
      have ht := hf t (by simp)
      unfold Logger.log
      cases t <;> simp_all
  rw [this ts _ rfl h]; rfl

/-! ### non-vacuity -/

example : parseAnnotations true 5 (str "(in) ((out)") none =
    .fail [⟨.error, .unexpectedParens, 11⟩] := by decide +kernel

example : parseAnnotations true 0 (str "(transfer full=1") none =
    .fail [⟨.error, .unbalancedParens, 15⟩] := by decide +kernel

example : parseAnnotations true 2 (str "(in) (in-out) (in)") (some [(str "skip", .list [])]) =
    .ok [(str "skip", .list []), (str "in", .list []), (str "inout", .list [])] [] true 14 18
      [⟨.warning, .inoutDeprecated, 7⟩, ⟨.error, .multipleAnn, 19⟩] := by decide +kernel

example : (parseAnnotation 0 (str "attribute")).toOption.map (·.1) = some none := by decide +kernel

example : (parseBlock (str "/**\n * foo: ((skip)\n * @p: (in\n * out)\n */") 10).toOption =
    some (some (BlockM.mk (str "foo") 10 [] none
                  [(str "p", PartM.mk (str "p") 12 [] none none (some (str "out)")))] none [] [] [] [str " ", str " ", str " "]),
          [⟨.error, .unexpectedParens, 11, some 9, some (str " * foo: ((skip)")⟩,
           ⟨.error, .unbalancedParens, 12, some 9, some (str " * @p: (in")⟩]) := by decide +kernel

example : BInv BSt.init := by simp [BInv, BSt.init]

/-- annotations that begin on a continuation line, and a deprecated tag: both positioned -/
example : ((parseBlock (str "/**\n * foo:\n *   (foo)\n * @p: (in)\n *   (bar)\n */") 10).toOption.map
      (fun r => r.1.map validatePositions)) = some (some [some 12, some 13]) ∧
    ((parseBlock (str "/**\n * foo:\n *\n * Rename to: a b\n */") 1).toOption.map
      (fun r => r.1.map validatePositions)) = some (some [some 4]) := by decide +kernel

example : OpeningAlone (commentLines (str "/**\n * foo: ((skip)\n */")) := by
  have h1 : commentLines (str "/**\n * foo: ((skip)\n */") = [str "/**", str " * foo: ((skip)", str " */"] := by
    decide +kernel
  have h2 : matchStart (str "/**") = some [("code", 0, 0), ("token", 0, 3), ("comment", 3, 3)] := by decide +kernel
  rw [h1]
  simp only [OpeningAlone, h2]
  decide +kernel

example : ((Logger.new false).logAll [.warning, .error, .warning]).warningCount = 3 := by decide
example : warnFatalFails true ((Logger.new false).logAll [.warning]) = true := by decide
example : warnFatalFails true ((Logger.new true).logAll []) = false := by decide

end GIVerif.AnnParse
